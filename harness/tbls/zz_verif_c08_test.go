package tbls_test

// C08 – threshold BLS: any t valid shares reproduce the group key's signature (DESIGN.md §5 C08).
//
// Small-scope exhaustive enumeration against the real tbls implementation:
//
//	(n, t, secret) x split mode x every share subset x message          -> positive relations
//	(n, t, secret) x split mode x size-t subset x message x substitution -> negative relations
//
// plus three further dimensions with the same oracle: capacity histories (zz_verif_c08_hist_test.go), call histories
// over related queries (zz_verif_c08_rel_test.go) and large share indices (zz_verif_c08_big_test.go).
//
// The oracle is the property statement: every set of >= t shares recovers the secret and the group
// public key, the threshold aggregate of >= t partials is bit for bit Sign(secret, msg) and verifies
// under the group key; an aggregate containing one partial of a wrong share, one partial under a wrong
// index, one partial over another message, or fewer than t partials is either not produced or does not
// verify. The relations hold for any polynomial coefficients, so the randomised production
// ThresholdSplit is exercised as is (fresh coefficients on every confirmation run) next to the
// deterministic ThresholdSplitInsecure.

import (
	"bytes"
	"encoding/hex"
	"encoding/json"
	"fmt"
	"math/rand"
	"sort"
	"strings"
	"testing"

	"github.com/obolnetwork/charon/tbls"
	"github.com/obolnetwork/charon/zzverif/enumx"
)

// ---- alphabets ----------------------------------------------------------------------------------

// BLS12-381 group order r minus one, big endian (largest valid secret key).
const c08RMinus1 = "73eda753299d7d483339d80809a1d80553bda402fffe5bfeffffffff00000000"

var c08SecretNames = []string{"one", "two", "r-1", "pattern-01..20", "pattern-6f", "insecure-gen"}

func c08Secrets(t *testing.T) ([]tbls.PrivateKey, error) {
	var out []tbls.PrivateKey
	var one, two, rm1, p1, p2 tbls.PrivateKey
	one[31] = 1
	two[31] = 2
	b, err := hex.DecodeString(c08RMinus1)
	if err != nil {
		return nil, err
	}
	copy(rm1[:], b)
	for i := range p1 {
		p1[i] = byte(i + 1) // 0x01 0x02 ... 0x20  (< r because the top byte is 0x01)
		p2[i] = 0x6f        // 0x6f6f...6f         (< r because 0x6f < 0x73)
	}
	gen, err := tbls.GenerateInsecureKey(t, rand.New(rand.NewSource(0xC08)))
	if err != nil {
		return nil, err
	}
	out = append(out, one, two, rm1, p1, p2, gen)
	return out, nil
}

var c08MsgNames = []string{"empty", "32B", "200B"}

func c08Msgs() [][]byte {
	m32 := make([]byte, 32)
	for i := range m32 {
		m32[i] = byte(0xa0 + i)
	}
	m200 := make([]byte, 200)
	for i := range m200 {
		m200[i] = byte(i*7 + 3)
	}
	return [][]byte{{}, m32, m200}
}

const (
	c08Prod     = "prod"     // tbls.ThresholdSplit (crypto/rand coefficients)
	c08Insecure = "insecure" // tbls.ThresholdSplitInsecure with a seeded reader
)

var c08Modes = []string{c08Prod, c08Insecure}

// ---- cases ---------------------------------------------------------------------------------------

const (
	kSplit    = "split"        // the split itself yields n shares
	kRecover  = "recover"      // RecoverSecret + RecoverPubkey of a subset, |S| >= t
	kAgg      = "agg"          // ThresholdAggregate of a subset, |S| >= t
	kForeign  = "foreign"      // partial at Pos replaced by the partial of the same index of a split of ANOTHER secret
	kForeign2 = "foreign-same" // ... of an independent split of the SAME secret
	kSibling  = "sibling"      // partial at Pos replaced by the partial of share Arg (!= Pos) of the same split
	kWrongIdx = "wrong-index"  // partial of share Pos filed under index Arg (not in the subset; or max+1)
	kOtherMsg = "other-msg"    // partial of share Pos made over message Arg
	kFewer    = "fewer"        // |S| < t partials
)

type c08Case struct {
	N      int    `json:"n"`
	T      int    `json:"t"`
	Secret int    `json:"secret"` // index into the secret alphabet
	Mode   string `json:"split"`
	Msg    int    `json:"msg"` // index into the message alphabet (-1: none)
	Kind   string `json:"kind"`
	Subset []int  `json:"subset"` // share ids
	Pos    int    `json:"pos"`    // share id whose partial is substituted (negative kinds)
	Arg    int    `json:"arg"`    // see kinds
}

func (c c08Case) String() string {
	s := fmt.Sprintf("n=%d t=%d secret=%s split=%s kind=%s subset=%v", c.N, c.T, c08SecretNames[c.Secret%len(c08SecretNames)], c.Mode, c.Kind, c.Subset)
	if c.Msg >= 0 {
		s += " msg=" + c08MsgNames[c.Msg%len(c08MsgNames)]
	}
	switch c.Kind {
	case kForeign, kForeign2:
		s += fmt.Sprintf(" substituted-share=%d", c.Pos)
	case kSibling:
		s += fmt.Sprintf(" index=%d carries-partial-of-share=%d", c.Pos, c.Arg)
	case kWrongIdx:
		s += fmt.Sprintf(" partial-of-share=%d filed-under-index=%d", c.Pos, c.Arg)
	case kOtherMsg:
		s += fmt.Sprintf(" share=%d signed-msg=%s", c.Pos, c08MsgNames[c.Arg%len(c08MsgNames)])
	}
	return s
}

// ---- environment / counters -------------------------------------------------------------------------

type c08env struct {
	t       *testing.T
	r       *enumx.Run
	secrets []tbls.PrivateKey
	msgs    [][]byte
	steps   int            // calls into the tbls package
	cnt     map[string]int // non-vacuity counters, flushed into r
	note    func(string)
}

func (e *c08env) count(k string) { e.cnt[k]++ }

func (e *c08env) flush() {
	e.r.Steps(e.steps)
	e.steps = 0
	for k, v := range e.cnt {
		e.r.Count(k, v)
	}
	e.cnt = map[string]int{}
}

// ---- fixture: one split with all partials --------------------------------------------------------------

type c08fx struct {
	n, t, si int
	mode     string
	secret   tbls.PrivateKey
	gpk      tbls.PublicKey
	ids      []int // sorted share ids as returned by the split
	shares   map[int]tbls.PrivateKey
	pubs     map[int]tbls.PublicKey
	par      []map[int]tbls.Signature // [msg][id]
	want     []tbls.Signature         // Sign(secret, msg)
	// foreign material (lazily only what negatives need)
	otherShares, sameShares map[int]tbls.PrivateKey
	otherPar, samePar       []map[int]tbls.Signature
}

func (e *c08env) split(mode string, secret tbls.PrivateKey, n, t int, seed int64) (map[int]tbls.PrivateKey, error) {
	e.steps++
	if mode == c08Insecure {
		return tbls.ThresholdSplitInsecure(e.t, secret, uint(n), uint(t), rand.New(rand.NewSource(seed)))
	}
	return tbls.ThresholdSplit(secret, uint(n), uint(t))
}

func c08seed(n, t, si, salt int) int64 { return int64(((n*16+t)*16+si)*16 + salt) }

func (e *c08env) partials(shares map[int]tbls.PrivateKey, need map[int]bool) ([]map[int]tbls.Signature, error) {
	out := make([]map[int]tbls.Signature, len(e.msgs))
	for mi, m := range e.msgs {
		out[mi] = map[int]tbls.Signature{}
		for id, sh := range shares {
			if need != nil && !need[id] {
				continue
			}
			e.steps++
			s, err := tbls.Sign(sh, m)
			if err != nil {
				return nil, fmt.Errorf("sign with share %d: %w", id, err)
			}
			out[mi][id] = s
		}
	}
	return out, nil
}

// build returns (nil, reason) when the library refuses an input needed for the fixture: never an alarm.
// need == nil: public shares and partial signatures of every share; otherwise only of the listed share ids (the
// splits themselves are always complete) - the large-index dimension touches a few dozen ids of splits with up to
// 65537 shares.
func (e *c08env) build(n, t, si int, mode string, withForeign bool, need map[int]bool) (*c08fx, string) {
	fx := &c08fx{n: n, t: t, si: si, mode: mode, secret: e.secrets[si]}
	var err error
	e.steps++
	if fx.gpk, err = tbls.SecretToPublicKey(fx.secret); err != nil {
		return nil, fmt.Sprintf("secret %s rejected by SecretToPublicKey: %v", c08SecretNames[si], err)
	}
	if fx.shares, err = e.split(mode, fx.secret, n, t, c08seed(n, t, si, 0)); err != nil {
		return nil, fmt.Sprintf("split(%s) n=%d t=%d secret %s refused: %v", mode, n, t, c08SecretNames[si], err)
	}
	for id := range fx.shares {
		fx.ids = append(fx.ids, id)
	}
	sort.Ints(fx.ids)
	fx.pubs = map[int]tbls.PublicKey{}
	for id, sh := range fx.shares {
		if need != nil && !need[id] {
			continue
		}
		e.steps++
		if fx.pubs[id], err = tbls.SecretToPublicKey(sh); err != nil {
			return nil, fmt.Sprintf("public key of share %d: %v", id, err)
		}
	}
	if fx.par, err = e.partials(fx.shares, need); err != nil {
		return nil, err.Error()
	}
	for _, m := range e.msgs {
		e.steps++
		s, err := tbls.Sign(fx.secret, m)
		if err != nil {
			return nil, fmt.Sprintf("sign with the undivided secret: %v", err)
		}
		fx.want = append(fx.want, s)
	}
	if withForeign {
		other := e.secrets[(si+1)%len(e.secrets)]
		if fx.otherShares, err = e.split(mode, other, n, t, c08seed(n, t, si, 1)); err != nil {
			return nil, fmt.Sprintf("foreign split refused: %v", err)
		}
		if fx.sameShares, err = e.split(mode, fx.secret, n, t, c08seed(n, t, si, 2)); err != nil {
			return nil, fmt.Sprintf("second split refused: %v", err)
		}
		if fx.otherPar, err = e.partials(fx.otherShares, need); err != nil {
			return nil, err.Error()
		}
		if fx.samePar, err = e.partials(fx.sameShares, need); err != nil {
			return nil, err.Error()
		}
	}
	return fx, ""
}

// ---- the oracle -----------------------------------------------------------------------------------------

// eval runs one case on the fixture. sig == "" means the property holds for the case; skip != "" means the
// case is degenerate for this fixture (the substituted value happens to equal the genuine one) or cannot be
// built, and says why.
func (e *c08env) eval(fx *c08fx, c c08Case) (sig, desc, skip string) {
	switch c.Kind {
	case kSplit:
		if len(fx.shares) != c.N {
			return "kind=split/share-count split=" + c.Mode,
				fmt.Sprintf("a %d-of-%d split returned %d shares (ids %v)", c.T, c.N, len(fx.shares), fx.ids), ""
		}
		e.count("split_has_n_shares")
		return "", "", ""

	case kRecover:
		sub := map[int]tbls.PrivateKey{}
		pub := map[int]tbls.PublicKey{}
		for _, id := range c.Subset {
			sh, ok := fx.shares[id]
			if !ok {
				return "", "", fmt.Sprintf("share %d not in this split", id)
			}
			pk, ok := fx.pubs[id]
			if !ok {
				return "", "", fmt.Sprintf("public share %d not built in this fixture", id)
			}
			sub[id], pub[id] = sh, pk
		}
		e.steps += 2
		got, err := tbls.RecoverSecret(sub, uint(c.N), uint(c.T))
		if err != nil {
			return "kind=pos/recover-secret/error split=" + c.Mode, fmt.Sprintf("RecoverSecret of shares %v failed: %v", c.Subset, err), ""
		}
		if got != fx.secret {
			return "kind=pos/recover-secret/mismatch split=" + c.Mode,
				fmt.Sprintf("RecoverSecret of shares %v = %x, the split secret is %x", c.Subset, got, fx.secret), ""
		}
		e.count("recover_secret_equal")
		gpk, err := tbls.RecoverPubkey(pub)
		if err != nil {
			return "kind=pos/recover-pubkey/error split=" + c.Mode, fmt.Sprintf("RecoverPubkey of public shares %v failed: %v", c.Subset, err), ""
		}
		if gpk != fx.gpk {
			return "kind=pos/recover-pubkey/mismatch split=" + c.Mode,
				fmt.Sprintf("RecoverPubkey of public shares %v = %x, SecretToPublicKey(secret) = %x", c.Subset, gpk, fx.gpk), ""
		}
		e.count("recover_pubkey_equal")
		return "", "", ""

	case kAgg:
		sub := map[int]tbls.Signature{}
		for _, id := range c.Subset {
			p, ok := fx.par[c.Msg][id]
			if !ok {
				return "", "", fmt.Sprintf("share %d not in this split", id)
			}
			sub[id] = p
		}
		e.steps += 2
		agg, err := tbls.ThresholdAggregate(sub)
		if err != nil {
			return "kind=pos/aggregate/error split=" + c.Mode, fmt.Sprintf("ThresholdAggregate of partials %v failed: %v", c.Subset, err), ""
		}
		if agg != fx.want[c.Msg] {
			return "kind=pos/aggregate/differs split=" + c.Mode,
				fmt.Sprintf("ThresholdAggregate of partials %v = %x, Sign(secret,msg) = %x", c.Subset, agg, fx.want[c.Msg]), ""
		}
		e.count("aggregate_equals_sign")
		if err := tbls.Verify(fx.gpk, e.msgs[c.Msg], agg); err != nil {
			return "kind=pos/aggregate/not-verified split=" + c.Mode,
				fmt.Sprintf("aggregate of partials %v does not verify under the group key: %v", c.Subset, err), ""
		}
		e.count("verify_accepted")
		return "", "", ""
	}

	// negative kinds: build the map of the subset, apply the substitution
	if c.Kind != kFewer && len(c.Subset) != c.T {
		return "", "", "negative substitution cases are defined for size-t subsets"
	}
	if c.Kind == kFewer && len(c.Subset) >= c.T {
		return "", "", "not fewer than t"
	}
	sub := map[int]tbls.Signature{}
	in := map[int]bool{}
	for _, id := range c.Subset {
		p, ok := fx.par[c.Msg][id]
		if !ok {
			return "", "", fmt.Sprintf("share %d not in this split", id)
		}
		sub[id] = p
		in[id] = true
	}
	if c.Kind != kFewer && !in[c.Pos] {
		return "", "", "substituted position not in the subset"
	}
	alsoMsg := -1
	switch c.Kind {
	case kForeign, kForeign2:
		shares, par := fx.otherShares, fx.otherPar
		if c.Kind == kForeign2 {
			shares, par = fx.sameShares, fx.samePar
		}
		if par == nil {
			return "", "", "fixture built without foreign material"
		}
		fs, ok := shares[c.Pos]
		if !ok {
			return "", "", fmt.Sprintf("foreign split has no share %d", c.Pos)
		}
		if fs == fx.shares[c.Pos] {
			return "", "", "foreign share equals the genuine share"
		}
		fp, ok := par[c.Msg][c.Pos]
		if !ok {
			return "", "", fmt.Sprintf("foreign partial of share %d not built in this fixture", c.Pos)
		}
		sub[c.Pos] = fp
	case kSibling:
		sib, ok := fx.shares[c.Arg]
		if !ok || c.Arg == c.Pos {
			return "", "", "no such sibling share"
		}
		if sib == fx.shares[c.Pos] {
			return "", "", "sibling share equals the genuine share"
		}
		sp, ok := fx.par[c.Msg][c.Arg]
		if !ok {
			return "", "", fmt.Sprintf("partial of share %d not built in this fixture", c.Arg)
		}
		sub[c.Pos] = sp
	case kWrongIdx:
		if in[c.Arg] {
			return "", "", "target index is in the subset"
		}
		if o, ok := fx.shares[c.Arg]; ok && o == fx.shares[c.Pos] {
			return "", "", "share at the target index equals the moved share"
		}
		delete(sub, c.Pos)
		sub[c.Arg] = fx.par[c.Msg][c.Pos]
	case kOtherMsg:
		if c.Arg == c.Msg || c.Arg < 0 || c.Arg >= len(e.msgs) || bytes.Equal(e.msgs[c.Arg], e.msgs[c.Msg]) {
			return "", "", "not another message"
		}
		op, ok := fx.par[c.Arg][c.Pos]
		if !ok {
			return "", "", fmt.Sprintf("partial of share %d not built in this fixture", c.Pos)
		}
		sub[c.Pos] = op
		alsoMsg = c.Arg
	case kFewer:
	default:
		return "", "", "unknown kind " + c.Kind
	}
	e.steps++
	agg, err := tbls.ThresholdAggregate(sub)
	if err != nil {
		e.count("neg_aggregate_refused/" + c.Kind)
		return "", "", ""
	}
	e.steps++
	if err := tbls.Verify(fx.gpk, e.msgs[c.Msg], agg); err == nil {
		return "kind=neg/" + c.Kind + "/verifies split=" + c.Mode,
			fmt.Sprintf("the aggregate %x of a tampered combination verifies under the group key for the message (genuine signature %x)", agg, fx.want[c.Msg]), ""
	}
	if alsoMsg >= 0 {
		e.steps++
		if err := tbls.Verify(fx.gpk, e.msgs[alsoMsg], agg); err == nil {
			return "kind=neg/" + c.Kind + "/verifies-for-substituted-message split=" + c.Mode,
				fmt.Sprintf("the aggregate %x of partials over two different messages verifies under the group key for %s", agg, c08MsgNames[alsoMsg]), ""
		}
	}
	e.count("neg_verify_rejected/" + c.Kind)
	return "", "", ""
}

// ---- running, confirmation, replay --------------------------------------------------------------------------

const c08Confirm = 3

type c08runner struct {
	e        *c08env
	reported map[string]bool
	samples  map[string]any // latest case per kind
}

func c08class(c c08Case) string {
	switch c.Kind {
	case kSplit:
		return fmt.Sprintf("split:n=%d,t=%d", c.N, c.T)
	case kRecover, kAgg:
		return fmt.Sprintf("pos:%s:n=%d,t=%d,|S|=%d", c.Kind, c.N, c.T, len(c.Subset))
	case kFewer:
		return fmt.Sprintf("neg:fewer:n=%d,t=%d,|S|=%d", c.N, c.T, len(c.Subset))
	}
	return fmt.Sprintf("neg:%s:n=%d,t=%d", c.Kind, c.N, c.T)
}

// run evaluates one case on fx; a candidate violation is re-run c08Confirm times on freshly built fixtures
// (fresh random coefficients for the production split) and reported only if the verdict is the same each time.
func (x *c08runner) run(fx *c08fx, c c08Case) {
	e := x.e
	sig, desc, skip := e.eval(fx, c)
	if skip != "" {
		e.count("skipped_degenerate_or_unbuildable")
		e.r.Note("skipped: " + skip)
		return
	}
	e.r.Eval(c08class(c))
	if len(c.Subset) >= 2 {
		x.samples[c.Kind] = map[string]any{"case": c, "text": c.String(), "verdict": "holds=" + fmt.Sprint(sig == "")}
	}
	if sig == "" {
		return
	}
	if x.reported[sig] {
		e.count("further_cases_with_reported_signature")
		return
	}
	for k := 0; k < c08Confirm; k++ {
		fx2, why := e.build(c.N, c.T, c.Secret, c.Mode, true, c08need(c))
		if fx2 == nil {
			e.r.Unconfirmed(sig + " (" + why + ")")
			return
		}
		s2, _, _ := e.eval(fx2, c)
		if s2 != sig {
			e.r.Unconfirmed(fmt.Sprintf("%s on %s: re-run %d gave %q", sig, c, k+1, s2))
			return
		}
	}
	x.reported[sig] = true
	e.r.Violation(sig, desc+" ["+c.String()+"]", c)
}

// c08need: the share ids a case touches. Small splits are built completely (as always); for the large-index
// dimension (n up to 65537) only the public shares and partials of these ids are computed.
func c08need(c c08Case) map[int]bool {
	if c.N <= 66 {
		return nil
	}
	need := map[int]bool{c.Pos: true, c.Arg: true}
	for _, id := range c.Subset {
		need[id] = true
	}
	return need
}

func c08uniq(in []int) (out []int) {
	seen := map[int]bool{}
	for _, v := range in {
		if !seen[v] {
			seen[v] = true
			out = append(out, v)
		}
	}
	return out
}

func c08subsets(ids []int, keep func(size int) bool) [][]int {
	var out [][]int
	n := len(ids)
	for size := 0; size <= n; size++ { // by size, then lexicographic
		if !keep(size) {
			continue
		}
		var rec func(start int, cur []int)
		rec = func(start int, cur []int) {
			if len(cur) == size {
				out = append(out, append([]int(nil), cur...))
				return
			}
			for i := start; i <= n-(size-len(cur)); i++ {
				rec(i+1, append(cur, ids[i]))
			}
		}
		rec(0, nil)
	}
	return out
}

// c08canonSubsets: per size kept, the first-size, last-size and an evenly spread subset of ids (deduplicated).
func c08canonSubsets(ids []int, keep func(size int) bool) [][]int {
	var out [][]int
	n := len(ids)
	for size := 0; size <= n; size++ {
		if !keep(size) {
			continue
		}
		seen := map[string]bool{}
		add := func(S []int) {
			k := fmt.Sprint(S)
			if !seen[k] {
				seen[k] = true
				out = append(out, S)
			}
		}
		add(append([]int(nil), ids[:size]...))
		add(append([]int(nil), ids[n-size:]...))
		var sp []int
		for i := 0; i < size; i++ {
			pos := 0
			if size > 1 {
				pos = i * (n - 1) / (size - 1)
			}
			sp = append(sp, ids[pos])
		}
		add(sp)
	}
	return out
}

// c08plan describes the bounds of one (n, t) configuration in a tier.
type c08plan struct {
	posSizes   func(size int) bool // which subset sizes >= t get the positive checks
	negAll     bool                // substitutions on every size-t subset (else: the canonical first-t and last-t subsets)
	fewerSizes func(size int) bool // which subset sizes < t are aggregated as "too few"
	canon      bool                // n > 10: canonical subsets per size (first, last, spread), substitutions at three positions
}

func c08planFor(n, t int) c08plan {
	if n <= 7 {
		// complete: every subset of every size
		return c08plan{
			posSizes:   func(s int) bool { return s >= t },
			negAll:     true,
			fewerSizes: func(s int) bool { return s < t },
		}
	}
	if n > 10 {
		// large clusters (size-dependent code paths: chunking, worker pools, batch decoding): EVERY size |S| in t..n, per size
		// the canonical subsets first-|S|, last-|S| and an evenly spread one; substitutions on the first-t and last-t subsets
		// at the first, middle and last position; too few: the empty set and size t-1
		return c08plan{
			posSizes:   func(s int) bool { return s >= t },
			fewerSizes: func(s int) bool { return s == t-1 || s == 0 },
			canon:      true,
		}
	}
	// n in 8..10 (thorough only): subsets of size t and n; substitutions on every size-t subset for n = 8,
	// on the first-t and last-t subsets for n = 9, 10; too-few: the empty set and every subset of size t-1.
	return c08plan{
		posSizes:   func(s int) bool { return s == t || s == n },
		negAll:     n == 8,
		fewerSizes: func(s int) bool { return s == t-1 || s == 0 },
	}
}

func (x *c08runner) unit(n, t, si int) {
	e := x.e
	defer e.flush()
	plan := c08planFor(n, t)
	for _, mode := range c08Modes {
		if e.r.Expired() {
			return
		}
		fx, why := e.build(n, t, si, mode, true, nil)
		if fx == nil {
			e.count("fixture_refused")
			e.r.Note("not evaluated: " + why)
			continue
		}
		base := c08Case{N: n, T: t, Secret: si, Mode: mode, Msg: -1}
		c := base
		c.Kind = kSplit
		x.run(fx, c)

		ids := fx.ids
		// positive: every subset of the planned sizes
		subsetsOf := c08subsets
		if plan.canon {
			subsetsOf = c08canonSubsets
		}
		for _, S := range subsetsOf(ids, plan.posSizes) {
			if e.r.Expired() {
				return
			}
			c := base
			c.Kind, c.Subset = kRecover, S
			x.run(fx, c)
			for mi := range e.msgs {
				c := base
				c.Kind, c.Subset, c.Msg = kAgg, S, mi
				x.run(fx, c)
			}
		}
		// negative: single substitutions in size-t subsets
		tsubs := subsetsOf(ids, func(s int) bool { return s == t })
		if !plan.negAll && len(tsubs) > 2 {
			tsubs = [][]int{tsubs[0], tsubs[len(tsubs)-1]} // canonical: the first t and the last t shares
		}
		maxID := 0
		if len(ids) > 0 {
			maxID = ids[len(ids)-1]
		}
		for _, S := range tsubs {
			in := map[int]bool{}
			for _, id := range S {
				in[id] = true
			}
			positions, others := S, ids
			if plan.canon { // three positions; as sibling / wrong index the first and last share and the neighbours of the position
				positions = c08uniq([]int{S[0], S[len(S)/2], S[len(S)-1]})
			}
			for mi := range e.msgs {
				if e.r.Expired() {
					return
				}
				if plan.canon && mi != (n+t)%len(e.msgs) {
					continue
				}
				for _, pos := range positions {
					if plan.canon {
						others = nil
						for _, j := range c08uniq([]int{ids[0], pos - 1, pos + 1, ids[len(ids)-1], S[len(S)-1] + 1, S[0] - 1}) {
							if j >= ids[0] && j <= maxID {
								others = append(others, j)
							}
						}
					}
					nb := base
					nb.Subset, nb.Msg, nb.Pos = S, mi, pos
					c := nb
					c.Kind = kForeign
					x.run(fx, c)
					c = nb
					c.Kind = kForeign2
					x.run(fx, c)
					for _, j := range others {
						if j == pos {
							continue
						}
						c = nb
						c.Kind, c.Arg = kSibling, j
						x.run(fx, c)
					}
					for _, j := range append(append([]int(nil), others...), maxID+1) {
						if in[j] {
							continue
						}
						c = nb
						c.Kind, c.Arg = kWrongIdx, j
						x.run(fx, c)
					}
					for mj := range e.msgs {
						if mj == mi {
							continue
						}
						c = nb
						c.Kind, c.Arg = kOtherMsg, mj
						x.run(fx, c)
					}
				}
			}
		}
		// negative: fewer than t partials
		for _, S := range subsetsOf(ids, func(s int) bool { return s < t && plan.fewerSizes(s) }) {
			if e.r.Expired() {
				return
			}
			for mi := range e.msgs {
				c := base
				c.Kind, c.Subset, c.Msg = kFewer, S, mi
				x.run(fx, c)
			}
		}
	}
}

func TestVerifC08(t *testing.T) {
	r := enumx.New(t, "C08")
	defer r.Finish()
	e := &c08env{t: t, r: r, msgs: c08Msgs(), cnt: map[string]int{}}
	secrets, err := c08Secrets(t)
	if err != nil {
		r.NotExhaustive("harness: cannot build the secret alphabet: " + err.Error())
		return
	}
	e.secrets = secrets
	x := &c08runner{e: e, reported: map[string]bool{}, samples: map[string]any{}}

	rel := &c08rel{x: x}
	if r.ReplayPath != "" {
		var raw json.RawMessage
		if err := r.ReplayCase(&raw); err != nil {
			t.Fatalf("replay file: %v", err)
		}
		var probe struct {
			Dim string `json:"dim"`
		}
		if json.Unmarshal(raw, &probe) == nil && probe.Dim == "callhist" {
			rel.replay(raw)
			return
		}
		var c c08Case
		if err := json.Unmarshal(raw, &c); err != nil {
			t.Fatalf("replay file: %v", err)
		}
		if c.Secret < 0 || c.Secret >= len(secrets) || c.Msg >= len(e.msgs) || (c.Msg < 0 && c.Kind != kSplit && c.Kind != kRecover) {
			t.Fatalf("replay case out of the alphabets: %+v", c)
		}
		verdicts := []string{}
		var lastDesc string
		for k := 0; k < c08Confirm; k++ {
			fx, why := e.build(c.N, c.T, c.Secret, c.Mode, true, c08need(c))
			if fx == nil {
				fmt.Printf("replay: fixture not built: %s\n", why)
				return
			}
			sig, desc, skip := e.eval(fx, c)
			r.Eval(c08class(c))
			if skip != "" {
				sig = "skipped: " + skip
			}
			verdicts = append(verdicts, sig)
			lastDesc = desc
		}
		e.flush()
		fmt.Printf("replay C08 %s -> verdicts of %d runs: %q\n", c, c08Confirm, verdicts)
		same := true
		for _, v := range verdicts {
			same = same && v == verdicts[0]
		}
		if same && verdicts[0] != "" && !strings.HasPrefix(verdicts[0], "skipped") {
			r.Violation(verdicts[0], lastDesc+" ["+c.String()+"]", c)
		}
		return
	}

	thorough := enumx.Thorough()
	maxN := 5
	if thorough {
		maxN = 10
	}
	defer func() { // a few written-out cases, different kinds in different shards
		kinds := []string{kAgg, kWrongIdx, kOtherMsg, "callhist", kForeign, kRecover, kSibling, kFewer, kForeign2}
		for i := range kinds {
			if s, ok := x.samples[kinds[(i+r.Shard)%len(kinds)]]; ok {
				r.Sample(s)
			}
		}
	}()
	// Work distribution. The capacity-history dimension is ONE process-long sequence (K x 4 verifications, the longest
	// single piece of work of the check): shard 0 runs it and nothing else, the units of all other dimensions go round
	// robin over the remaining shards (a single-shard run does everything).
	unit := 0
	mine := func() bool {
		if r.NSh <= 1 {
			return true
		}
		u := unit
		unit++
		return r.Shard > 0 && u%(r.NSh-1) == r.Shard-1
	}
	// history dimension (one shard, one process-long sequence): see zz_verif_c08_hist_test.go
	if r.NSh <= 1 || r.Shard == 0 {
		K := 10000
		if thorough {
			K = 70000
		}
		c08history(r, K)
	}
	// call histories over related queries: see zz_verif_c08_rel_test.go
	for _, u := range c08relUnits(thorough) {
		if !mine() {
			continue
		}
		if r.Expired() {
			return
		}
		rel.relUnit(u)
	}
	// large share indices: see zz_verif_c08_big_test.go
	for _, n := range c08bigN(thorough) {
		for _, th := range c08bigT(thorough) {
			if th > n || !mine() {
				continue
			}
			if r.Expired() {
				return
			}
			x.bigUnit(n, th, 3+n%2) // the two fixed 32-byte patterns, alternating
		}
	}
	for n := 2; n <= maxN; n++ {
		for th := 2; th <= n; th++ {
			for si := range secrets {
				if !mine() {
					continue
				}
				if r.Expired() {
					return
				}
				x.unit(n, th, si)
			}
		}
	}
	// large clusters: every subset size in t..n (canonical subsets), see c08planFor
	largeN := []int{11, 12, 13, 14, 15, 16, 17, 18, 19, 20, 21, 22, 23, 24, 25, 31, 32, 33, 40}
	if thorough {
		largeN = nil
		for n := 11; n <= 66; n++ {
			largeN = append(largeN, n)
		}
		largeN = append(largeN, 100, 127, 128, 129, 255, 256, 257)
	}
	for _, n := range largeN {
		ths := c08uniq([]int{2, (2*n + 2) / 3, n})
		if n > 25 {
			ths = []int{2} // all sizes 2..n are aggregated in the t=2 configuration
		}
		for _, th := range ths {
			for si := 0; si < 2 && si < len(secrets); si++ {
				if n > 66 && si > 0 {
					continue
				}
				if !mine() {
					continue
				}
				if r.Expired() {
					return
				}
				x.unit(n, th, 3+si) // the two fixed 32-byte patterns
			}
		}
	}
	if !thorough {
		// the largest cluster size of the statement also in the quick tier (share index 10 is the first two-digit index)
		for _, th := range []int{2, 7, 10} {
			for si := 0; si < 2 && si < len(secrets); si++ {
				if !mine() {
					continue
				}
				if r.Expired() {
					return
				}
				x.unit(10, th, si)
			}
		}
	}
}
