package tbls_test

// C08, large share indices.
//
// Class: the share id is an integer that crosses several representations (int -> decimal string -> field element on
// the split side, the same or another route on the recover / aggregate side). A conversion of bounded width (one
// byte, int8, uint16, ...) on one side only is invisible below its boundary. So: splits whose highest ids lie just
// below, at and just above 2^7, 2^8, 2^15 and 2^16 (and n=300), small thresholds, and the few subsets that contain
// the highest ids, the neighbours of each boundary and a pair of ids congruent modulo a boundary - with the same
// oracle and the same case type as the small-scope enumeration (positive: recover / aggregate; one substitution of
// every kind at the highest id of every size-t subset; too few).
//
// Only the public shares and partials of the ids that occur in these subsets are computed (c08env.build with a need
// set); the splits themselves are complete.

import (
	"fmt"
	"sort"
)

var c08bigBoundaries = []int{1 << 7, 1 << 8, 1 << 15, 1 << 16}

// c08bigN: the cluster sizes of the dimension per tier.
func c08bigN(thorough bool) []int {
	ns := []int{300}
	ks := []int{7, 8, 15, 16}
	if thorough {
		ks = []int{7, 8, 9, 10, 11, 12, 13, 14, 15, 16}
		ns = append(ns, 1000, 10000)
	}
	for _, k := range ks {
		ns = append(ns, 1<<k-1, 1<<k, 1<<k+1)
	}
	sort.Ints(ns)
	return ns
}

func c08bigT(thorough bool) []int {
	if thorough {
		return []int{2, 3, 4, 7}
	}
	return []int{2, 3}
}

// c08bigSubsets returns the subsets with |S| >= t (positive oracle; the size-t ones also get substitutions) and the
// subsets with |S| < t of a split with ids 1..n.
func c08bigSubsets(n, t int) (pos, few [][]int) {
	seen := map[string]bool{}
	add := func(dst *[][]int, S []int) {
		S = c08uniq(S)
		sort.Ints(S)
		for _, id := range S {
			if id < 1 || id > n {
				return
			}
		}
		if k := fmt.Sprint(S); len(S) > 0 && !seen[k] {
			seen[k] = true
			*dst = append(*dst, S)
		}
	}
	window := func(lo, size int) (S []int) {
		for i := 0; i < size; i++ {
			S = append(S, lo+i)
		}
		return S
	}
	fill := func(S []int) []int { // the smallest ids not yet in S until |S| = t
		in := map[int]bool{}
		for _, id := range S {
			in[id] = true
		}
		for id := 1; len(S) < t && id <= n; id++ {
			if !in[id] {
				S = append(S, id)
			}
		}
		return S
	}
	add(&pos, window(1, t))                            // the first t
	add(&pos, window(n-t+1, t))                        // the last t
	add(&pos, append(window(1, t-1), n))               // low ids and the highest
	add(&pos, append([]int{1}, window(n-t+2, t-1)...)) // the lowest and the highest ids
	add(&pos, append(window(1, t), n))                 // size t+1
	for _, b := range c08bigBoundaries {
		for lo := b - t + 1; lo <= b+1; lo++ { // every window of t consecutive ids that contains b, and the one just above it
			add(&pos, window(lo, t))
		}
		if n-b >= 1 { // two ids congruent modulo the boundary, one of them the highest
			add(&pos, fill([]int{n - b, n}))
		}
	}
	add(&few, []int{n})
	add(&few, window(n-t+2, t-1))
	return pos, few
}

type c08bigNeg struct {
	S        []int
	kind     string
	pos, arg int
}

func (x *c08runner) bigUnit(n, t, si int) {
	e := x.e
	defer e.flush()
	pos, few := c08bigSubsets(n, t)
	mi := (n + t) % len(e.msgs)
	var negs []c08bigNeg
	need := map[int]bool{}
	for _, S := range append(append([][]int(nil), pos...), few...) {
		for _, id := range S {
			need[id] = true
		}
	}
	for _, S := range pos {
		if len(S) != t {
			continue
		}
		in := map[int]bool{}
		for _, id := range S {
			in[id] = true
		}
		p := S[len(S)-1] // the substituted position: the highest id of the subset
		negs = append(negs, c08bigNeg{S, kForeign, p, 0}, c08bigNeg{S, kForeign2, p, 0})
		// other shares / other indices: the ids congruent to p modulo each boundary, the direct neighbours, the lowest
		// and the highest id, n+1
		var cand []int
		for _, b := range c08bigBoundaries {
			cand = append(cand, p-b, p+b)
		}
		cand = c08uniq(append(cand, p-1, p+1, 1, n, n+1))
		for _, j := range cand {
			if j < 1 || j > n+1 || j == p {
				continue
			}
			if j <= n {
				need[j] = true
				negs = append(negs, c08bigNeg{S, kSibling, p, j})
			}
			if !in[j] {
				negs = append(negs, c08bigNeg{S, kWrongIdx, p, j})
			}
		}
		negs = append(negs, c08bigNeg{S, kOtherMsg, p, (mi + 1) % len(e.msgs)})
	}
	for _, mode := range c08Modes {
		if e.r.Expired() {
			return
		}
		fx, why := e.build(n, t, si, mode, true, need)
		if fx == nil {
			e.count("fixture_refused")
			e.r.Note("not evaluated: " + why)
			continue
		}
		base := c08Case{N: n, T: t, Secret: si, Mode: mode, Msg: -1}
		c := base
		c.Kind = kSplit
		x.run(fx, c)
		for _, S := range pos {
			if e.r.Expired() {
				return
			}
			c := base
			c.Kind, c.Subset = kRecover, S
			x.run(fx, c)
			for m := range e.msgs {
				c := base
				c.Kind, c.Subset, c.Msg = kAgg, S, m
				x.run(fx, c)
			}
		}
		for _, ng := range negs {
			if e.r.Expired() {
				return
			}
			c := base
			c.Kind, c.Subset, c.Msg, c.Pos, c.Arg = ng.kind, ng.S, mi, ng.pos, ng.arg
			x.run(fx, c)
		}
		for _, S := range few {
			if len(S) >= t {
				continue
			}
			c := base
			c.Kind, c.Subset, c.Msg = kFewer, S, mi
			x.run(fx, c)
		}
		e.count("large_index_fixtures")
	}
}
