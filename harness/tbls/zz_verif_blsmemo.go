package tbls

// Memoisation of the one pure library call Herumi.Verify makes (bls.Sign.VerifyByte), spliced in by the C01 check
// configuration (tools/checks.d/C01.py splice_blsmemo). The key is the complete argument bytes (compressed public key,
// message, signature), so a hit returns exactly what the library would compute again; nothing of charon's own code is
// bypassed (deserialisation and error handling of Herumi.Verify still run). The whole-pipeline check verifies the same
// partial signature once per receiving node and again in thousands of executions per process.

import (
	"sync"

	"github.com/herumi/bls-eth-go-binary/bls"
)

var (
	verifBLSMu   sync.Mutex
	verifBLSMemo = map[string]bool{}
)

func verifVerifyByte(signature *bls.Sign, pubKey *bls.PublicKey, data []byte, rawPK PublicKey, rawSig Signature) bool {
	key := string(rawPK[:]) + string(rawSig[:]) + string(data)
	verifBLSMu.Lock()
	v, ok := verifBLSMemo[key]
	verifBLSMu.Unlock()
	if ok {
		return v
	}
	v = signature.VerifyByte(pubKey, data)
	verifBLSMu.Lock()
	if len(verifBLSMemo) > 1<<20 {
		verifBLSMemo = map[string]bool{}
	}
	verifBLSMemo[key] = v
	verifBLSMu.Unlock()
	return v
}
