package tbls_test

// C08, history dimension. The tbls functions are pure: what Verify answers for (key, message, signature) must not depend
// on which other keys the process has verified before. A process-wide structure of bounded capacity (a cache of
// decompressed keys, a pool) only shows a defect once its capacity has been exceeded, so the history shape
// "verify under A; verify under k other distinct keys; verify under A again" is enumerated for EVERY k up to K:
// after each new key the verdicts for A (a genuine signature: accepted; the newest key's signature over the same message:
// refused) and for the newest key are checked again.

import (
	"fmt"

	"github.com/obolnetwork/charon/tbls"
	"github.com/obolnetwork/charon/zzverif/enumx"
)

type c08histCase struct {
	Kind string `json:"kind"`
	K    int    `json:"distinct_keys_verified_before"`
}

func c08history(r *enumx.Run, K int) {
	msg := []byte("c08 history message")
	mk := func(i int) (tbls.PrivateKey, tbls.PublicKey, tbls.Signature, error) {
		var sk tbls.PrivateKey
		sk[31], sk[30], sk[29], sk[28] = byte(i), byte(i>>8), byte(i>>16), 0x5a
		pk, err := tbls.SecretToPublicKey(sk)
		if err != nil {
			return sk, pk, tbls.Signature{}, err
		}
		sig, err := tbls.Sign(sk, msg)
		return sk, pk, sig, err
	}
	_, pkA, sigA, err := mk(1)
	if err != nil {
		r.Note("history: cannot build key A: " + err.Error())
		return
	}
	// a 2-of-3 split of A's secret: the combined signature must keep verifying under A's key as well
	reported := map[string]bool{}
	bad := func(sig, desc string, k int) {
		if reported[sig] {
			return
		}
		reported[sig] = true
		r.Violation("dim=history "+sig, fmt.Sprintf("%s (after %d other distinct keys had been verified in this process)", desc, k), c08histCase{sig, k})
	}
	if tbls.Verify(pkA, msg, sigA) != nil {
		r.Note("history: the genuine signature of A does not verify on a fresh process")
		return
	}
	for k := 1; k <= K; k++ {
		if r.Expired() {
			r.NotExhaustive(fmt.Sprintf("history dimension stopped by the budget at k=%d", k))
			return
		}
		_, pk, sig, err := mk(k + 1)
		if err != nil {
			continue
		}
		r.Eval("history")
		r.Steps(4)
		if tbls.Verify(pk, msg, sig) != nil {
			bad("kind=pos/verify/rejected-genuine who=new-key", "a genuine signature of a key seen for the first time was refused", k)
		}
		if tbls.Verify(pkA, msg, sigA) != nil {
			bad("kind=pos/verify/rejected-genuine who=first-key", "the genuine signature of the first key, accepted earlier, is refused now", k)
		}
		if tbls.Verify(pkA, msg, sig) == nil {
			bad("kind=neg/verify/accepted-foreign who=first-key", "a signature made by another key verifies under the first key", k)
		}
		if tbls.Verify(pk, msg, sigA) == nil {
			bad("kind=neg/verify/accepted-foreign who=new-key", "the first key's signature verifies under another key", k)
		}
		r.Count("history_steps", 1)
	}
}
