package tbls_test

// C08, call-history dimension over RELATED queries.
//
// Class: the tbls functions are pure, so the verdict of Verify / VerifyAggregate for (keys, message, signature) must
// not depend on what the process verified before. A memo, a negative cache, a reused buffer or a "last call" shortcut
// whose key does not identify the whole query (a message truncated or padded to a fixed width, its length only, the
// keys or the signature left out) answers correctly for every single call and for every sequence of UNRELATED
// queries; it shows only when a query is preceded by a related-but-different one. So: every sequence of two (and of
// three) calls over a small alphabet of queries that differ from an accepted query in exactly one component
//
//	message:   m' related to m - a proper prefix / extension, the same bytes followed by zero bytes, the same
//	           length with one byte changed - at lengths around 0, 1, 31|32|33, 63|64|65 and 200
//	key:       the same message and signature under another key (VerifyAggregate: under a subset of the keys)
//	signature: the same key and message with another key's valid signature (VerifyAggregate: one signer's only)
//
// together with the accepting query of each relative, in every order and with repetition. Every history runs on a
// fresh fixture (keys never used before in the process, messages salted with the fixture number), so the first
// call of a history is a measurement without history. Oracle (differential): the verdict of every call equals the
// verdict by construction - accepted iff the signature was made by Sign with exactly the queried keys over exactly
// the queried message - which is also what the same query answers as the first call on a fresh fixture (every query
// of the alphabet occurs there, checked against the same reference). Sign, SecretToPublicKey, Aggregate (and, in
// the threshold variant, ThresholdSplit and ThresholdAggregate: key A is the group key of a 2-of-3 split, its
// signatures are threshold aggregates) are called in history-dependent order while the fixtures are filled lazily,
// so a history dependence in those shows as a refused genuine signature.

import (
	"encoding/json"
	"fmt"
	"strings"

	"github.com/obolnetwork/charon/tbls"
)

// ---- related message pairs ---------------------------------------------------------------------------

var c08relLens = []int{0, 1, 31, 32, 33, 63, 64, 65, 200}

const (
	relPrefix  = "prefix"  // m = P[:a], m' = P[:b], a < b
	relZeroPad = "zeropad" // m = P[:a], m' = P[:a] followed by b-a zero bytes
	relFlip    = "flip"    // m = P[:a], m' = m with the byte at position b changed (same length)
)

type c08relPair struct {
	Rel string `json:"rel"`
	A   int    `json:"a"`
	B   int    `json:"b"`
}

func (p c08relPair) String() string {
	switch p.Rel {
	case relPrefix:
		return fmt.Sprintf("m=P[:%d] m'=P[:%d]", p.A, p.B)
	case relZeroPad:
		return fmt.Sprintf("m=P[:%d] m'=m+%d zero bytes (length %d)", p.A, p.B-p.A, p.B)
	}
	return fmt.Sprintf("m=P[:%d] m'=m with byte %d changed", p.A, p.B)
}

func (p c08relPair) valid() bool {
	switch p.Rel {
	case relPrefix, relZeroPad:
		return p.A >= 0 && p.A < p.B && p.B <= 4096
	case relFlip:
		return p.B >= 0 && p.B < p.A && p.A <= 4096
	}
	return false
}

// msgs builds the two messages from a pattern of non-zero bytes that depends on the fixture number.
func (p c08relPair) msgs(salt int) (m, m2 []byte) {
	n := p.A
	if p.B > n {
		n = p.B
	}
	P := make([]byte, n)
	for i := range P {
		P[i] = byte(1 + (i*7+3+salt*29+(salt/255)*(i+1)*11)%255)
	}
	m = append([]byte{}, P[:p.A]...)
	switch p.Rel {
	case relPrefix:
		m2 = append([]byte{}, P[:p.B]...)
	case relZeroPad:
		m2 = append(append([]byte{}, m...), make([]byte, p.B-p.A)...)
	case relFlip:
		m2 = append([]byte{}, m...)
		m2[p.B] = byte(1 + int(m2[p.B])%255) // another non-zero value
	}
	return m, m2
}

// c08relPairs: the alphabet of related message pairs. core marks the pairs around the 32-byte signing-root size that
// also get the length-3 histories in the quick tier.
func c08relPairs(thorough bool) (pairs []c08relPair, core map[c08relPair]bool) {
	core = map[c08relPair]bool{}
	L := c08relLens
	extra := map[[2]int]bool{{0, 32}: true, {32, 64}: true, {32, 200}: true, {1, 200}: true}
	for _, rel := range []string{relPrefix, relZeroPad} {
		for i := range L {
			for j := i + 1; j < len(L); j++ {
				if thorough || j == i+1 || extra[[2]int{L[i], L[j]}] {
					pairs = append(pairs, c08relPair{rel, L[i], L[j]})
				}
			}
		}
		for _, ab := range [][2]int{{0, 1}, {31, 32}, {32, 33}} {
			core[c08relPair{rel, ab[0], ab[1]}] = true
		}
	}
	core[c08relPair{relZeroPad, 0, 32}] = true
	for _, l := range L {
		if l == 0 {
			continue
		}
		pos := []int{0, l - 1}
		if thorough {
			pos = []int{0, 31, 32, 63, 64, l / 2, l - 1}
		} else if l == 31 || l == 63 {
			continue
		}
		for _, j := range c08uniq(pos) {
			if j < l {
				pairs = append(pairs, c08relPair{relFlip, l, j})
			}
		}
	}
	for _, lj := range [][2]int{{32, 31}, {33, 32}, {33, 0}, {64, 63}} {
		core[c08relPair{relFlip, lj[0], lj[1]}] = true
	}
	return pairs, core
}

// ---- query alphabet ------------------------------------------------------------------------------------

const (
	keyA = 0
	keyB = 1
)

type c08q struct {
	Name    string
	Fn      string // "V" = Verify, "VA" = VerifyAggregate
	Keys    []int  // the queried keys
	Msg     int    // 0 = m, 1 = m'
	Signers []int  // who signed (two signers: Aggregate of the two signatures)
	SigMsg  int    // over which message
	Role    string // what the query is relative to the accepted query: genuine | other-message | other-key | other-signature
}

// want is the verdict by construction: exactly the queried keys signed exactly the queried message.
func (q c08q) want() bool {
	if q.Msg != q.SigMsg || len(q.Keys) != len(q.Signers) {
		return false
	}
	in := map[int]bool{}
	for _, k := range q.Signers {
		in[k] = true
	}
	for _, k := range q.Keys {
		if !in[k] {
			return false
		}
	}
	return true
}

var (
	kA  = []int{keyA}
	kB  = []int{keyB}
	kAB = []int{keyA, keyB}
)

var c08queries = []c08q{
	{"V(A,m,sA(m))", "V", kA, 0, kA, 0, "genuine"},
	{"V(A,m',sA(m))", "V", kA, 1, kA, 0, "other-message"},
	{"V(A,m',sA(m'))", "V", kA, 1, kA, 1, "genuine"},
	{"V(A,m,sA(m'))", "V", kA, 0, kA, 1, "other-message"},
	{"V(B,m,sA(m))", "V", kB, 0, kA, 0, "other-key"},
	{"V(B,m,sB(m))", "V", kB, 0, kB, 0, "genuine"},
	{"V(A,m,sB(m))", "V", kA, 0, kB, 0, "other-signature"},
	{"VA([A,B],m,sAB(m))", "VA", kAB, 0, kAB, 0, "genuine"},
	{"VA([A,B],m',sAB(m))", "VA", kAB, 1, kAB, 0, "other-message"},
	{"VA([A,B],m',sAB(m'))", "VA", kAB, 1, kAB, 1, "genuine"},
	{"VA([A,B],m,sAB(m'))", "VA", kAB, 0, kAB, 1, "other-message"},
	{"VA([A],m,sAB(m))", "VA", kA, 0, kAB, 0, "other-key"},
	{"VA([A],m,sA(m))", "VA", kA, 0, kA, 0, "genuine"},
	{"VA([A,B],m,sA(m))", "VA", kAB, 0, kA, 0, "other-signature"},
}

const c08nV = 7 // queries 0..6 are the Verify family, 7..13 the VerifyAggregate family

func c08queryIndex(name string) int {
	for i, q := range c08queries {
		if q.Name == name {
			return i
		}
	}
	return -1
}

// ---- fixture -------------------------------------------------------------------------------------------

const (
	varPlain     = "plain"     // A and B are plain keys
	varThreshold = "threshold" // A is the group key of a 2-of-3 split; A's signatures are threshold aggregates of two partials
)

type c08relFx struct {
	variant string
	num     int
	sk      [2]tbls.PrivateKey
	pk      [2]tbls.PublicKey
	shares  map[int]tbls.PrivateKey
	msgs    [2][]byte
	sigs    map[string]tbls.Signature
	reuse   bool   // the caller hands every message in ONE buffer of its own that it overwrites before the next call
	buf     []byte // that buffer
}

type c08rel struct {
	x        *c08runner
	fixtures int // fixtures built in this process: every one gets keys and a message salt of its own
}

func (h *c08rel) fixture(p c08relPair, variant string) (*c08relFx, error) {
	e := h.x.e
	h.fixtures++
	fx := &c08relFx{variant: variant, num: h.fixtures, sigs: map[string]tbls.Signature{}}
	fx.msgs[0], fx.msgs[1] = p.msgs(fx.num)
	for k := range fx.sk {
		// 0x11.. < r; the tag and the fixture number make the key unique in the process
		fx.sk[k][0], fx.sk[k][1] = 0x11, byte(0xA0+k)
		n := fx.num
		for i := 31; i >= 24; i-- {
			fx.sk[k][i] = byte(n)
			n >>= 8
		}
		e.steps++
		var err error
		if fx.pk[k], err = tbls.SecretToPublicKey(fx.sk[k]); err != nil {
			return nil, fmt.Errorf("SecretToPublicKey: %w", err)
		}
	}
	if variant == varThreshold {
		e.steps++
		var err error
		if fx.shares, err = tbls.ThresholdSplit(fx.sk[keyA], 3, 2); err != nil {
			return nil, fmt.Errorf("ThresholdSplit: %w", err)
		}
	}
	return fx, nil
}

func (h *c08rel) sig(fx *c08relFx, signers []int, mi int) (tbls.Signature, error) {
	e := h.x.e
	key := fmt.Sprint(signers, mi)
	if s, ok := fx.sigs[key]; ok {
		return s, nil
	}
	var out tbls.Signature
	var err error
	switch {
	case len(signers) > 1:
		var parts []tbls.Signature
		for _, k := range signers {
			s, err := h.sig(fx, []int{k}, mi)
			if err != nil {
				return out, err
			}
			parts = append(parts, s)
		}
		e.steps++
		if out, err = tbls.Aggregate(parts); err != nil {
			return out, fmt.Errorf("Aggregate: %w", err)
		}
	case signers[0] == keyA && fx.variant == varThreshold:
		skip := 1 + fx.num%3 // which two of the three shares sign rotates with the fixture number
		par := map[int]tbls.Signature{}
		for id, sh := range fx.shares {
			if id == skip {
				continue
			}
			e.steps++
			if par[id], err = tbls.Sign(sh, fx.msgs[mi]); err != nil {
				return out, fmt.Errorf("Sign with a share: %w", err)
			}
		}
		e.steps++
		if out, err = tbls.ThresholdAggregate(par); err != nil {
			return out, fmt.Errorf("ThresholdAggregate: %w", err)
		}
	default:
		e.steps++
		if out, err = tbls.Sign(fx.sk[signers[0]], fx.msgs[mi]); err != nil {
			return out, fmt.Errorf("Sign: %w", err)
		}
	}
	fx.sigs[key] = out
	return out, nil
}

// call runs one query against the real library: accepted reports a nil error of Verify / VerifyAggregate.
func (h *c08rel) call(fx *c08relFx, q c08q) (accepted bool, err error) {
	s, err := h.sig(fx, q.Signers, q.SigMsg)
	if err != nil {
		return false, err
	}
	h.x.e.steps++
	msg := fx.msgs[q.Msg]
	if fx.reuse {
		// a caller that keeps one message buffer: the library must not remember the slice it was handed
		if fx.buf == nil {
			fx.buf = make([]byte, 0, len(fx.msgs[0])+len(fx.msgs[1])+1)
		}
		fx.buf = append(fx.buf[:0], msg...)
		msg = fx.buf
	}
	if q.Fn == "V" {
		return tbls.Verify(fx.pk[q.Keys[0]], msg, s) == nil, nil
	}
	var pks []tbls.PublicKey
	for _, k := range q.Keys {
		pks = append(pks, fx.pk[k])
	}
	return tbls.VerifyAggregate(pks, s, msg) == nil, nil
}

// ---- histories ---------------------------------------------------------------------------------------------

type c08relCase struct {
	Dim     string     `json:"dim"` // "callhist"
	Pair    c08relPair `json:"messages"`
	Variant string     `json:"variant"`
	History []string   `json:"history"` // query names, in call order
	Buffers string     `json:"buffers,omitempty"` // "reuse": every message is handed over in one caller-owned buffer, overwritten between the calls
}

func (c c08relCase) String() string {
	b := ""
	if c.Buffers != "" {
		b = "; message buffers: " + c.Buffers
	}
	return fmt.Sprintf("%s; keys %s%s; calls in one process: %s", c.Pair, c.Variant, b, strings.Join(c.History, " -> "))
}

// play runs the history on a fresh fixture and returns the index of the first call whose verdict differs from the
// verdict by construction (-1: none) and that verdict. harness != "" means the fixture could not be built.
func (h *c08rel) play(c c08relCase) (bad int, accepted bool, harness string) {
	fx, err := h.fixture(c.Pair, c.Variant)
	if err != nil {
		return -1, false, err.Error()
	}
	fx.reuse = c.Buffers == "reuse"
	for i, name := range c.History {
		qi := c08queryIndex(name)
		if qi < 0 {
			return -1, false, "unknown query " + name
		}
		q := c08queries[qi]
		got, err := h.call(fx, q)
		if err != nil {
			return -1, false, err.Error()
		}
		if i == 0 {
			h.x.e.count("callhist_first_calls_on_a_fresh_fixture")
		} else {
			h.x.e.count("callhist_calls_after_history")
		}
		if got {
			h.x.e.count("callhist_accepted")
		} else {
			h.x.e.count("callhist_refused")
		}
		if got != q.want() {
			return i, got, ""
		}
	}
	return -1, false, ""
}

// signature of a deviation: which query got which wrong verdict, for which message relation, and whether the query
// alone on a fresh fixture already gets it (then no history is needed).
func (h *c08rel) classify(c c08relCase, bad int, accepted bool) (sig, desc string) {
	q := c08queries[c08queryIndex(c.History[bad])]
	kind := "pos/refused-genuine"
	if accepted {
		kind = "neg/accepted-" + q.Role
	}
	hist := "none"
	if bad > 0 {
		alone := c
		alone.History = []string{q.Name}
		if b, _, hs := h.play(alone); b < 0 && hs == "" {
			hist = "needed"
		}
	}
	fn := "Verify"
	if q.Fn == "VA" {
		fn = "VerifyAggregate"
	}
	sig = fmt.Sprintf("dim=callhist fn=%s kind=%s rel=%s history=%s", fn, kind, c.Pair.Rel, hist)
	if c.Buffers != "" {
		sig += " buffers=" + c.Buffers
	}
	verdict := "refused"
	if accepted {
		verdict = "accepted"
	}
	desc = fmt.Sprintf("call %d of the history, %s, was %s; by construction (and as the first call on fresh keys) it is %s",
		bad+1, q.Name, verdict, map[bool]string{true: "accepted", false: "refused"}[q.want()])
	return sig, desc
}

func (h *c08rel) run(c c08relCase, class string) {
	e := h.x.e
	bad, acc, hs := h.play(c)
	if hs != "" {
		e.count("skipped_degenerate_or_unbuildable")
		e.r.Note("callhist fixture not built: " + hs)
		return
	}
	e.r.Eval(class)
	if len(c.History) == 3 && c.Variant == varPlain {
		h.x.samples["callhist"] = map[string]any{"case": c, "text": c.String(), "verdict": "holds=" + fmt.Sprint(bad < 0)}
	}
	if bad < 0 {
		return
	}
	sig, desc := h.classify(c, bad, acc)
	if h.x.reported[sig] {
		e.count("further_cases_with_reported_signature")
		return
	}
	for k := 0; k < c08Confirm; k++ {
		b2, a2, hs := h.play(c)
		if hs != "" || b2 != bad || a2 != acc {
			e.r.Unconfirmed(fmt.Sprintf("%s on %s: re-run %d gave call=%d accepted=%v %s", sig, c, k+1, b2, a2, hs))
			return
		}
	}
	h.x.reported[sig] = true
	e.r.Violation(sig, desc+" ["+c.String()+"]", c)
}

// ---- units -----------------------------------------------------------------------------------------------------

type c08relUnit struct {
	pair    c08relPair
	part    string // pairs | pairs-threshold | triples-V | triples-VA | triples-V-threshold
	variant string
	length  int
	lo, hi  int // query index range the histories are drawn from
}

func c08relUnits(thorough bool) (units []c08relUnit) {
	pairs, core := c08relPairs(thorough)
	all := len(c08queries)
	for _, p := range pairs {
		units = append(units, c08relUnit{p, "pairs", varPlain, 2, 0, all})
		units = append(units, c08relUnit{p, "pairs-threshold", varThreshold, 2, 0, c08nV})
		units = append(units, c08relUnit{p, "pairs-reusedbuffer", varPlain, 2, 0, all})
		if thorough || core[p] {
			units = append(units, c08relUnit{p, "triples-V", varPlain, 3, 0, c08nV})
			units = append(units, c08relUnit{p, "triples-VA", varPlain, 3, c08nV, all})
		}
		if thorough && core[p] {
			units = append(units, c08relUnit{p, "triples-V-threshold", varThreshold, 3, 0, c08nV})
		}
	}
	return units
}

// relUnit: EVERY sequence (with repetition) of u.length queries from the range, each on a fresh fixture.
func (h *c08rel) relUnit(u c08relUnit) {
	e := h.x.e
	defer e.flush()
	class := fmt.Sprintf("callhist:%s:%d,%d:%s", u.pair.Rel, u.pair.A, u.pair.B, u.part)
	n := u.hi - u.lo
	total := 1
	for i := 0; i < u.length; i++ {
		total *= n
	}
	for code := 0; code < total; code++ {
		if e.r.Expired() {
			return
		}
		c := c08relCase{Dim: "callhist", Pair: u.pair, Variant: u.variant}
		if u.part == "pairs-reusedbuffer" {
			c.Buffers = "reuse"
		}
		for i, v := 0, code; i < u.length; i, v = i+1, v/n {
			c.History = append(c.History, c08queries[u.lo+v%n].Name)
		}
		h.run(c, class)
	}
	e.count("callhist_units")
}

// replay of a callhist case (./mc replay): the history on three fresh fixtures in a fresh process.
func (h *c08rel) replay(raw []byte) {
	e := h.x.e
	var c c08relCase
	if err := json.Unmarshal(raw, &c); err != nil || !c.Pair.valid() || len(c.History) == 0 || len(c.History) > 16 ||
		(c.Variant != varPlain && c.Variant != varThreshold) {
		fmt.Printf("replay: not a callhist case: %v %+v\n", err, c)
		return
	}
	var verdicts []string
	var sig, desc string
	for k := 0; k < c08Confirm; k++ {
		bad, acc, hs := h.play(c)
		e.r.Eval("callhist:replay")
		switch {
		case hs != "":
			verdicts = append(verdicts, "fixture not built: "+hs)
		case bad < 0:
			verdicts = append(verdicts, "")
		default:
			sig, desc = h.classify(c, bad, acc)
			verdicts = append(verdicts, sig)
		}
	}
	e.flush()
	fmt.Printf("replay C08 %s -> verdicts of %d runs: %q\n", c, c08Confirm, verdicts)
	same := true
	for _, v := range verdicts {
		same = same && v == verdicts[0]
	}
	if same && sig != "" && verdicts[0] == sig {
		e.r.Violation(sig, desc+" ["+c.String()+"]", c)
	}
}
