// Package fakenet is an in-memory libp2p host for the whole-pipeline harness (DESIGN.md §2.4): the real
// p2p.Send / p2p.RegisterHandler code runs against it, every sent frame lands in an explorer-owned pool of
// in-flight packets and is delivered by invoking the real registered stream handler of the destination.
package fakenet

import (
	"bytes"
	"context"
	"io"
	"sync"
	"time"

	"github.com/libp2p/go-libp2p/core/host"
	"github.com/libp2p/go-libp2p/core/network"
	"github.com/libp2p/go-libp2p/core/peer"
	"github.com/libp2p/go-libp2p/core/protocol"
)

// Packet is one in-flight wire message (one stream's worth of bytes).
type Packet struct {
	Seq      int
	From, To peer.ID
	Proto    protocol.ID
	Data     []byte
}

// Net is the network: the pool of packets that were sent and not yet delivered or dropped.
type Net struct {
	mu    sync.Mutex
	hosts map[peer.ID]*Host
	Pool  []*Packet
	seq   int
	Down  map[peer.ID]bool // crashed hosts neither send nor receive
}

func New() *Net { return &Net{hosts: map[peer.ID]*Host{}, Down: map[peer.ID]bool{}} }

type handler struct {
	match func(protocol.ID) bool
	fn    network.StreamHandler
}

// Host implements the part of host.Host that charon's p2p package uses.
type Host struct {
	host.Host
	id       peer.ID
	net      *Net
	handlers []handler
}

func (n *Net) NewHost(id peer.ID) *Host {
	h := &Host{id: id, net: n}
	n.hosts[id] = h
	return h
}

func (h *Host) ID() peer.ID { return h.id }

func (h *Host) SetStreamHandlerMatch(_ protocol.ID, m func(protocol.ID) bool, fn network.StreamHandler) {
	h.handlers = append(h.handlers, handler{m, fn})
}

func (h *Host) NewStream(_ context.Context, p peer.ID, pids ...protocol.ID) (network.Stream, error) {
	return &outStream{h: h, to: p, pid: pids[0]}, nil
}

type outStream struct {
	network.Stream
	h      *Host
	to     peer.ID
	pid    protocol.ID
	buf    bytes.Buffer
	closed bool
}

func (s *outStream) Write(b []byte) (int, error)       { return s.buf.Write(b) }
func (s *outStream) Read([]byte) (int, error)          { return 0, io.EOF }
func (s *outStream) Protocol() protocol.ID             { return s.pid }
func (s *outStream) SetDeadline(time.Time) error       { return nil }
func (s *outStream) SetReadDeadline(time.Time) error   { return nil }
func (s *outStream) SetWriteDeadline(time.Time) error  { return nil }
func (s *outStream) CloseWrite() error                 { return nil }
func (s *outStream) CloseRead() error                  { return nil }
func (s *outStream) Reset() error                      { return nil }
func (s *outStream) Close() error {
	if s.closed {
		return nil
	}
	s.closed = true
	n := s.h.net
	n.mu.Lock()
	defer n.mu.Unlock()
	if n.Down[s.h.id] || s.buf.Len() == 0 {
		return nil
	}
	n.seq++
	n.Pool = append(n.Pool, &Packet{Seq: n.seq, From: s.h.id, To: s.to, Proto: s.pid, Data: append([]byte(nil), s.buf.Bytes()...)})
	return nil
}

type conn struct {
	network.Conn
	remote peer.ID
}

func (c conn) RemotePeer() peer.ID { return c.remote }

type inStream struct {
	network.Stream
	r    *bytes.Reader
	pid  protocol.ID
	from peer.ID
}

func (s *inStream) Read(b []byte) (int, error)       { return s.r.Read(b) }
func (s *inStream) Write(b []byte) (int, error)      { return len(b), nil }
func (s *inStream) Close() error                     { return nil }
func (s *inStream) Reset() error                     { return nil }
func (s *inStream) SetDeadline(time.Time) error      { return nil }
func (s *inStream) SetReadDeadline(time.Time) error  { return nil }
func (s *inStream) SetWriteDeadline(time.Time) error { return nil }
func (s *inStream) Protocol() protocol.ID            { return s.pid }
func (s *inStream) Conn() network.Conn               { return conn{remote: s.from} }

// Take removes the packet with the given sequence number from the pool.
func (n *Net) Take(seq int) *Packet {
	n.mu.Lock()
	defer n.mu.Unlock()
	for i, p := range n.Pool {
		if p.Seq == seq {
			n.Pool = append(n.Pool[:i:i], n.Pool[i+1:]...)
			return p
		}
	}
	return nil
}

// Pending returns the in-flight packets in send order.
func (n *Net) Pending() []*Packet {
	n.mu.Lock()
	defer n.mu.Unlock()
	return append([]*Packet(nil), n.Pool...)
}

// Inject adds a packet as if From had sent it.
func (n *Net) Inject(from, to peer.ID, pid protocol.ID, data []byte) *Packet {
	n.mu.Lock()
	defer n.mu.Unlock()
	n.seq++
	p := &Packet{Seq: n.seq, From: from, To: to, Proto: pid, Data: data}
	n.Pool = append(n.Pool, p)
	return p
}

// Deliver runs the destination's real stream handler on the packet (in a new goroutine, as libp2p does).
func (n *Net) Deliver(p *Packet) {
	n.mu.Lock()
	h := n.hosts[p.To]
	down := n.Down[p.To]
	n.mu.Unlock()
	if h == nil || down {
		return
	}
	for _, hd := range h.handlers {
		if hd.match(p.Proto) {
			go hd.fn(&inStream{r: bytes.NewReader(p.Data), pid: p.Proto, from: p.From})
			return
		}
	}
}
