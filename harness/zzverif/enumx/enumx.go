// Package enumx is the reporting/sharding helper of the small-scope exhaustive enumeration checks
// (DESIGN.md §3.4). A check enumerates an explicit finite space; every case is one call into real
// charon code judged by an oracle that is the property statement.
package enumx

import (
	"crypto/sha256"
	"encoding/json"
	"fmt"
	"os"
	"path/filepath"
	"sort"
	"strconv"
	"testing"
	"time"
)

// Violation is reported to the driver.
type Violation struct {
	Signature   string `json:"signature"`
	Description string `json:"description"`
	Replay      string `json:"replay,omitempty"`
}

type report struct {
	Evaluations int            `json:"evaluations"`
	Transitions int            `json:"transitions"`
	States      int            `json:"states"`
	Outcomes    []string       `json:"outcomes"`
	Nontrivial  []string       `json:"nontrivial"`
	Samples     []any          `json:"samples"`
	Violations  []Violation    `json:"violations"`
	Exhaustive  bool           `json:"exhaustive"`
	Counters    map[string]int `json:"counters"`
	Notes       []string       `json:"notes"`
	Unconfirmed int            `json:"unconfirmed_candidates"`
}

// Run is one shard of a check.
type Run struct {
	TB         *testing.T
	Prop       string
	Shard, NSh int
	Deadline   time.Time
	ReplayDir  string
	ReplayPath string // non-empty when the driver asks for a replay (VERIF_REPLAY)
	rep        report
	nontrivial map[string]struct{}
	outcomes   map[string]struct{}
	seenSig    map[string]bool
	unit       int
	stopped    bool
}

// Tier returns "quick" or "thorough".
func Tier() string {
	if os.Getenv("VERIF_TIER") == "thorough" {
		return "thorough"
	}
	return "quick"
}

// Thorough reports whether the thorough tier was requested.
func Thorough() bool { return Tier() == "thorough" }

// New reads the driver's environment.
func New(tb *testing.T, prop string) *Run {
	r := &Run{TB: tb, Prop: prop, NSh: 1, nontrivial: map[string]struct{}{}, outcomes: map[string]struct{}{}, seenSig: map[string]bool{}}
	r.rep.Exhaustive = true
	r.rep.Counters = map[string]int{}
	if s := os.Getenv("VERIF_SHARD"); s != "" {
		fmt.Sscanf(s, "%d/%d", &r.Shard, &r.NSh)
	}
	budget := 100
	if s := os.Getenv("VERIF_BUDGET_S"); s != "" {
		budget, _ = strconv.Atoi(s)
	}
	r.Deadline = time.Now().Add(time.Duration(budget) * time.Second)
	r.ReplayDir = os.Getenv("VERIF_REPLAYS")
	if r.ReplayDir == "" {
		r.ReplayDir = os.TempDir()
	}
	r.ReplayPath = os.Getenv("VERIF_REPLAY")
	return r
}

// Mine distributes work units round-robin over the shards: call it once per unit of the outermost loop,
// in the same deterministic order in every shard.
func (r *Run) Mine() bool {
	u := r.unit
	r.unit++
	return r.NSh <= 1 || u%r.NSh == r.Shard
}

// Expired reports whether the wall-clock budget is used up (the run then ends with exhaustive=false).
func (r *Run) Expired() bool {
	if r.stopped {
		return true
	}
	if time.Now().After(r.Deadline) {
		r.stopped = true
		r.rep.Exhaustive = false
		r.Note("stopped by the time budget; everything enumerated before is complete")
	}
	return r.stopped
}

// NotExhaustive marks the run as capped for another reason.
func (r *Run) NotExhaustive(why string) { r.rep.Exhaustive = false; r.Note(why) }

// Eval counts one evaluated case. nontrivialKey, if non-empty, names the distinct non-trivial class the
// case belongs to (e.g. "rejected:att/field=Slot").
func (r *Run) Eval(nontrivialKey string) {
	r.rep.Evaluations++
	if nontrivialKey != "" {
		r.nontrivial[nontrivialKey] = struct{}{}
	}
}

// Steps adds transitions/steps executed on the real code.
func (r *Run) Steps(n int) { r.rep.Transitions += n }

// States sets the number of distinct states (explicit-state searches).
func (r *Run) States(n int) { r.rep.States += n }

// Outcome records a distinct observable outcome.
func (r *Run) Outcome(o string) { r.outcomes[o] = struct{}{} }

// Count adds to a named counter.
func (r *Run) Count(name string, n int) { r.rep.Counters[name] += n }

// Note adds a note to the evidence.
func (r *Run) Note(s string) {
	for _, n := range r.rep.Notes {
		if n == s {
			return
		}
	}
	if len(r.rep.Notes) < 40 {
		r.rep.Notes = append(r.rep.Notes, s)
	}
}

// Sample records an example case (at most 4 per shard are kept).
func (r *Run) Sample(v any) {
	if len(r.rep.Samples) < 4 {
		r.rep.Samples = append(r.rep.Samples, v)
	}
}

// Violation records a confirmed violation; replay is any JSON-serialisable description that the check's
// own replay mode understands. One violation per signature is kept.
func (r *Run) Violation(sig, desc string, replay any) {
	r.rep.Counters["violating_cases"]++
	if r.seenSig[sig] {
		return
	}
	r.seenSig[sig] = true
	v := Violation{Signature: sig, Description: desc}
	if r.ReplayPath != "" {
		v.Replay = r.ReplayPath
	} else if replay != nil {
		b, _ := json.MarshalIndent(map[string]any{"property": r.Prop, "signature": sig, "description": desc, "case": replay}, "", " ")
		h := sha256.Sum256(b)
		os.MkdirAll(r.ReplayDir, 0o755)
		p := filepath.Join(r.ReplayDir, fmt.Sprintf("%s-%x.json", r.Prop, h[:6]))
		os.WriteFile(p, b, 0o644)
		v.Replay = p
	}
	r.rep.Violations = append(r.rep.Violations, v)
}

// Unconfirmed counts a candidate that did not reproduce (never an alarm, DESIGN P3).
func (r *Run) Unconfirmed(what string) { r.rep.Unconfirmed++; r.Note("unconfirmed candidate: " + what) }

// ReplayCase loads the "case" member of a replay file into v.
func (r *Run) ReplayCase(v any) error {
	b, err := os.ReadFile(r.ReplayPath)
	if err != nil {
		return err
	}
	var w struct {
		Case json.RawMessage `json:"case"`
	}
	if err := json.Unmarshal(b, &w); err != nil {
		return err
	}
	return json.Unmarshal(w.Case, v)
}

// Finish writes the shard report. It must be deferred directly (defer r.Finish()): if the test is panicking (a harness
// crash - never a property verdict) the report says so and is marked as not exhaustive.
func (r *Run) Finish() {
	if rec := recover(); rec != nil {
		r.rep.Exhaustive = false
		r.rep.Counters["harness_panics"]++
		msg := fmt.Sprint(rec)
		if len(msg) > 300 {
			msg = msg[:300]
		}
		r.rep.Notes = append(r.rep.Notes, "HARNESS PANIC (shard incomplete): "+msg)
		defer panic(rec)
	}
	for k := range r.nontrivial {
		r.rep.Nontrivial = append(r.rep.Nontrivial, k)
	}
	sort.Strings(r.rep.Nontrivial)
	for k := range r.outcomes {
		r.rep.Outcomes = append(r.rep.Outcomes, k)
	}
	sort.Strings(r.rep.Outcomes)
	b, _ := json.Marshal(r.rep)
	out := os.Getenv("VERIF_OUT")
	if out == "" {
		fmt.Println(string(b))
		return
	}
	if err := os.WriteFile(out, b, 0o644); err != nil {
		r.TB.Fatalf("write report: %v", err)
	}
}
