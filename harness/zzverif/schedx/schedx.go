// Package schedx is a stateless model checker for the interleavings of a few harness threads that call
// into one real charon component (DESIGN.md §3.1).
//
// One execution = one testing/synctest bubble. Exactly one registered thread runs at a time; after it is
// resumed the scheduler calls synctest.Wait, which returns when every goroutine of the bubble (harness
// threads and the component's own goroutines) is durably blocked, i.e. in the unique quiescent state that
// follows the step. Search = depth-first over choice sequences with iterative preemption bounding and
// optional pruning on a fingerprint of the global state.
package schedx

import (
	"context"
	"crypto/sha256"
	"encoding/binary"
	"encoding/json"
	"fmt"
	"os"
	"path/filepath"
	"runtime"
	"sort"
	"strconv"
	"strings"
	"sync"
	"testing"
	"testing/synctest"
	"time"
)

// Lockable is implemented by vsync's locks: can the lock be taken right now?
type Lockable interface {
	VerifCanLock(write bool) bool
}

const (
	stRunning = iota
	stParked
	stFinished
)

// T is one harness thread.
type T struct {
	ID    int
	Name  string
	X     *Exec
	state int
	label string
	want  Lockable
	wantW bool
	pc    int
	res   chan struct{}
	goid  uint64
}

type point struct {
	enabled     []int // canonical order: last thread first if still enabled, then ascending ids; -1 = clock
	lastEnabled bool
	cost        int // preemptions used before this point
	key         [16]byte
	hasKey      bool
}

// Exec is one execution of a scenario.
type Exec struct {
	Sc       *Scenario
	TB       *testing.T
	Ctx      context.Context
	cancel   context.CancelFunc
	Data     any
	Env      map[string]int // environment parameters of this execution (map rotation, select mode, ...)
	threads  []*T
	clock    []time.Duration
	clockPC  int
	Trace    []string
	choices  []int
	points   []point
	cleanups []func()
	aborting bool
	Stuck    []string // names of threads not finished in the terminal state
	Pruned   bool     // execution stopped at a state whose subtree has already been explored
	Steps    int
	start    time.Time
	mu       sync.Mutex
	obs      []string
}

var (
	regMu sync.Mutex
	reg   = map[uint64]*T{}
)

// Current returns the harness thread of the calling goroutine, or nil.
func Current() *T {
	id := runtime.VerifGoid()
	regMu.Lock()
	t := reg[id]
	regMu.Unlock()
	return t
}

// Go registers a harness thread. Only valid inside Scenario.Setup.
func (x *Exec) Go(name string, body func(t *T)) *T {
	t := &T{ID: len(x.threads), Name: name, X: x, res: make(chan struct{}), state: stRunning}
	x.threads = append(x.threads, t)
	go func() {
		t.goid = runtime.VerifGoid()
		regMu.Lock()
		reg[t.goid] = t
		regMu.Unlock()
		defer func() {
			regMu.Lock()
			delete(reg, t.goid)
			regMu.Unlock()
			x.mu.Lock()
			t.state = stFinished
			x.mu.Unlock()
		}()
		t.Point("start")
		body(t)
	}()
	return t
}

// Clock registers the clock pseudo-thread: its k-th step advances virtual time by steps[k].
func (x *Exec) Clock(steps ...time.Duration) { x.clock = append(x.clock, steps...) }

// Cleanup registers a function run at the end of the execution (before threads are released).
func (x *Exec) Cleanup(f func()) { x.cleanups = append(x.cleanups, f) }

// Obs appends an observation to the execution trace (part of the determinism check and the state key).
func (x *Exec) Obs(format string, a ...any) {
	s := fmt.Sprintf(format, a...)
	x.mu.Lock()
	x.Trace = append(x.Trace, s)
	x.obs = append(x.obs, s)
	x.mu.Unlock()
}

// Now is the virtual time since the start of the execution.
func (x *Exec) Now() time.Duration { return time.Since(x.start) }

// Point is a scheduling point: the thread parks until the scheduler resumes it.
func (t *T) Point(label string) { t.park(label, nil, false) }

// LockPoint is the scheduling point in front of a lock acquisition; the thread is only enabled
// while the lock can be taken.
func (t *T) LockPoint(l Lockable, write bool) {
	if t.X.aborting {
		return
	}
	t.park("lock", l, write)
}

// YieldPoint is a scheduling point that never unwinds the thread (safe inside deferred unlocks).
func (t *T) YieldPoint(label string) {
	if t.X.aborting {
		return
	}
	t.park(label, nopLock{}, false)
}

type nopLock struct{}

func (nopLock) VerifCanLock(bool) bool { return true }

func (t *T) park(label string, l Lockable, w bool) {
	x := t.X
	x.mu.Lock()
	if x.aborting {
		x.mu.Unlock()
		if l != nil {
			return
		}
		runtime.Goexit()
	}
	t.state, t.label, t.want, t.wantW = stParked, label, l, w
	t.pc++
	x.mu.Unlock()
	<-t.res
	x.mu.Lock()
	ab := x.aborting
	t.state, t.want = stRunning, nil
	x.mu.Unlock()
	if ab && l == nil {
		runtime.Goexit()
	}
}

func (x *Exec) enabledSet(last int) (en []int, lastEnabled bool) {
	x.mu.Lock()
	defer x.mu.Unlock()
	ok := func(t *T) bool {
		return t.state == stParked && (t.want == nil || t.want.VerifCanLock(t.wantW))
	}
	if last >= 0 && ok(x.threads[last]) {
		en = append(en, last)
		lastEnabled = true
	}
	for _, t := range x.threads {
		if t.ID != last && ok(t) {
			en = append(en, t.ID)
		}
	}
	if x.clockPC < len(x.clock) {
		en = append(en, -1)
	}
	return en, lastEnabled
}

func (x *Exec) allFinished() bool {
	x.mu.Lock()
	defer x.mu.Unlock()
	for _, t := range x.threads {
		if t.state != stFinished {
			return false
		}
	}
	return true
}

func (x *Exec) threadKey() string {
	x.mu.Lock()
	defer x.mu.Unlock()
	var sb strings.Builder
	for _, t := range x.threads {
		fmt.Fprintf(&sb, "%d:%d:%d:%s|", t.ID, t.state, t.pc, t.label)
	}
	// Observations enter the key as a multiset: the harness puts whatever order its oracle depends on
	// (sequence numbers, instants) into the observation text itself.
	obs := append([]string{}, x.obs...)
	sort.Strings(obs)
	fmt.Fprintf(&sb, "c%d|%d|%s", x.clockPC, time.Since(x.start), strings.Join(obs, ";"))
	return sb.String()
}

// Violation is what a scenario oracle reports.
type Violation struct {
	Signature   string `json:"signature"`
	Description string `json:"description"`
	Replay      string `json:"replay,omitempty"`
}

// Scenario is a closed driver around one real component.
type Scenario struct {
	Name     string
	Params   map[string]any
	EnvDims  map[string]int            // environment dimensions: name -> number of values (enumerated exhaustively)
	Setup    func(x *Exec)             // build component, register threads
	StateKey func(x *Exec) string      // optional canonical dump of the component's state (enables pruning)
	Check    func(x *Exec) []Violation // oracle, evaluated in the terminal state inside the bubble
	Outcome  func(x *Exec) string      // optional summary of the observable outcome (for distinct_outcomes)
	Horizon  time.Duration             // virtual time granted when nothing is enabled (default 1h)
	MaxSteps int
}

// Report is what a shard writes for the driver.
type Report struct {
	Executions       int                       `json:"executions"`
	Transitions      int                       `json:"transitions"`
	States           int                       `json:"states"`
	StatesFile       string                    `json:"states_file,omitempty"`
	Outcomes         []string                  `json:"outcomes"`
	Nontrivial       []string                  `json:"nontrivial"`
	Samples          []any                     `json:"samples"`
	Violations       []Violation               `json:"violations"`
	Exhaustive       bool                      `json:"exhaustive"`
	BoundCompleted   *int                      `json:"bound_completed"`
	Counters         map[string]int            `json:"counters"`
	Scenarios        map[string]map[string]any `json:"scenarios"`
	ReplayDiverg     int                       `json:"replay_divergences"`
	Unconfirmed      int                       `json:"unconfirmed_candidates"`
	DeterminismCheck int                       `json:"determinism_checked"`
	Notes            []string                  `json:"notes"`
}

// Explorer runs scenarios.
type Explorer struct {
	TB         *testing.T
	Prop       string
	Bounds     []int // preemption bounds to iterate; -1 = unbounded
	Shard, NSh int
	Deadline   time.Time
	Rep        *Report
	outcomes   map[string]struct{}
	nontrivial map[string]struct{}
	states     map[[16]byte]int8
	allStates  map[[8]byte]struct{}
	unit       int
	detLeft    int
	seenSig    map[string]bool
	ReplayDir  string
	timedOut   bool
}

// NewExplorer reads the driver's environment (VERIF_SHARD, VERIF_BUDGET_S, ...).
func NewExplorer(tb *testing.T, prop string) *Explorer {
	e := &Explorer{TB: tb, Prop: prop, NSh: 1, Rep: &Report{Counters: map[string]int{}, Scenarios: map[string]map[string]any{}, Exhaustive: true},
		outcomes: map[string]struct{}{}, nontrivial: map[string]struct{}{}, allStates: map[[8]byte]struct{}{}, detLeft: 48, seenSig: map[string]bool{}}
	if s := os.Getenv("VERIF_SHARD"); s != "" {
		fmt.Sscanf(s, "%d/%d", &e.Shard, &e.NSh)
	}
	budget := 100
	if s := os.Getenv("VERIF_BUDGET_S"); s != "" {
		budget, _ = strconv.Atoi(s)
	}
	e.Deadline = time.Now().Add(time.Duration(budget) * time.Second)
	e.ReplayDir = os.Getenv("VERIF_REPLAYS")
	if e.ReplayDir == "" {
		e.ReplayDir = os.TempDir()
	}
	return e
}

// Tier returns "quick" or "thorough".
func Tier() string {
	if os.Getenv("VERIF_TIER") == "thorough" {
		return "thorough"
	}
	return "quick"
}

// Count adds to a named counter of the report (vacuity guards, informational counters).
func (e *Explorer) Count(name string, n int) { e.Rep.Counters[name] += n }

// Nontrivial records a distinct non-trivial case.
func (e *Explorer) Nontrivial(key string) { e.nontrivial[key] = struct{}{} }

type replayFile struct {
	Property string         `json:"property"`
	Scenario string         `json:"scenario"`
	Params   map[string]any `json:"params"`
	Env      map[string]int `json:"env"`
	Choices  []int          `json:"choices"`
	Trace    []string       `json:"trace"`
	Sig      string         `json:"signature"`
	Desc     string         `json:"description"`
}

func applyEnv(env map[string]int) {
	if r, ok := env["maprot"]; ok {
		runtime.VerifSetMapRot(true, uint64(r))
	} else {
		runtime.VerifSetMapRot(true, 0)
	}
	if m, ok := env["selmode"]; ok {
		runtime.VerifSetSelMode(uint32(m + 1))
	} else {
		runtime.VerifSetSelMode(1)
	}
}

func resetEnv() {
	runtime.VerifSetMapRot(false, 0)
	runtime.VerifSetSelMode(0)
}

// run executes the scenario once following prefix, then default choices.
func (e *Explorer) run(sc *Scenario, env map[string]int, prefix []int, unbounded bool, prune func(p *point) bool) (x *Exec, viol []Violation, outcome string) {
	x = &Exec{Sc: sc, Env: env}
	applyEnv(env)
	defer resetEnv()
	synctest.Test(e.TB, func(t *testing.T) {
		x.TB = t
		x.start = time.Now()
		x.Ctx, x.cancel = context.WithCancel(context.Background())
		sc.Setup(x)
		synctest.Wait()
		last := -2
		horizon := sc.Horizon
		if horizon == 0 {
			horizon = time.Hour
		}
		maxSteps := sc.MaxSteps
		if maxSteps == 0 {
			maxSteps = 2000
		}
		usedHorizon := false
		cost := 0
		for x.Steps < maxSteps {
			en, lastEn := x.enabledSet(last)
			if len(en) == 0 {
				if x.allFinished() || usedHorizon {
					break
				}
				// nothing enabled: let virtual time run to the horizon (timers, context deadlines)
				usedHorizon = true
				time.Sleep(horizon)
				synctest.Wait()
				x.Trace = append(x.Trace, "horizon")
				continue
			}
			p := point{enabled: en, lastEnabled: lastEn, cost: cost}
			if sc.StateKey != nil {
				lk := last
				if unbounded {
					lk = 0 // without a preemption bound the identity of the last thread does not matter for the future
				}
				h := sha256.Sum256([]byte(sc.StateKey(x) + "#" + x.threadKey() + "#" + strconv.Itoa(lk)))
				copy(p.key[:], h[:16])
				p.hasKey = true
			}
			i := len(x.points)
			if i >= len(prefix) && prune != nil && p.hasKey && prune(&p) {
				x.Pruned = true
				break
			}
			c := 0
			if i < len(prefix) {
				c = prefix[i]
				if c >= len(en) {
					panic(fmt.Sprintf("schedx: replay divergence at point %d: choice %d of %d enabled (scenario %s)", i, c, len(en), sc.Name))
				}
			}
			if lastEn && c != 0 {
				cost++
			}
			x.points = append(x.points, p)
			x.choices = append(x.choices, c)
			who := en[c]
			x.Steps++
			if who == -1 {
				d := x.clock[x.clockPC]
				x.clockPC++
				x.Trace = append(x.Trace, fmt.Sprintf("clock+%s", d))
				time.Sleep(d)
				synctest.Wait()
				last = -1
				continue
			}
			th := x.threads[who]
			x.Trace = append(x.Trace, fmt.Sprintf("%s@%s", th.Name, th.label))
			th.res <- struct{}{}
			synctest.Wait()
			last = who
		}
		x.mu.Lock()
		for _, th := range x.threads {
			if th.state != stFinished {
				x.Stuck = append(x.Stuck, th.Name)
			}
		}
		x.mu.Unlock()
		if sc.Check != nil && !x.Pruned {
			viol = sc.Check(x)
		}
		if sc.Outcome != nil && !x.Pruned {
			outcome = sc.Outcome(x)
		}
		// tear down: release everything so that the bubble can end
		x.mu.Lock()
		x.aborting = true
		x.mu.Unlock()
		x.cancel()
		for _, f := range x.cleanups {
			f()
		}
		synctest.Wait()
		for round := 0; round < 50; round++ {
			n := 0
			x.mu.Lock()
			var parked []*T
			for _, th := range x.threads {
				if th.state == stParked {
					parked = append(parked, th)
				}
			}
			x.mu.Unlock()
			for _, th := range parked {
				select {
				case th.res <- struct{}{}:
					n++
				default:
				}
			}
			synctest.Wait()
			if n == 0 {
				break
			}
		}
	})
	return x, viol, outcome
}

func envCombos(dims map[string]int) []map[string]int {
	keys := make([]string, 0, len(dims))
	for k := range dims {
		keys = append(keys, k)
	}
	sort.Strings(keys)
	out := []map[string]int{{}}
	for _, k := range keys {
		var nx []map[string]int
		for _, m := range out {
			for v := 0; v < dims[k]; v++ {
				c := map[string]int{}
				for kk, vv := range m {
					c[kk] = vv
				}
				c[k] = v
				nx = append(nx, c)
			}
		}
		out = nx
	}
	return out
}

func envName(env map[string]int) string {
	b, _ := json.Marshal(env)
	return string(b)
}

// Explore explores all scenarios for each bound in turn.
func (e *Explorer) Explore(scs []*Scenario) {
	if rp := os.Getenv("VERIF_REPLAY"); rp != "" {
		e.replay(scs, rp)
		return
	}
	for bi, b := range e.Bounds {
		execBefore := e.Rep.Executions
		e.unit = 0
		for _, sc := range scs {
			for _, env := range envCombos(sc.EnvDims) {
				// the table of reached states used for pruning belongs to ONE scenario under ONE environment: the state key
				// (component dump, thread pcs, observations) names neither, and states of different scenarios or of another
				// map rotation / select order have different futures even when their keys coincide (found in round four:
				// the table used to be reset per bound only, which silently pruned later scenarios against earlier ones)
				e.states = map[[16]byte]int8{}
				e.exploreScenario(sc, env, b)
				if e.timedOut {
					break
				}
			}
			if e.timedOut {
				break
			}
		}
		if e.timedOut {
			e.Rep.Exhaustive = false
			e.Rep.Notes = append(e.Rep.Notes, fmt.Sprintf("budget reached while exploring bound %d", b))
			break
		}
		bb := b
		e.Rep.BoundCompleted = &bb
		_ = bi
		_ = execBefore
	}
}

func (e *Explorer) exploreScenario(sc *Scenario, env map[string]int, bound int) {
	scs := e.Rep.Scenarios[sc.Name]
	if scs == nil {
		scs = map[string]any{"executions": 0}
		e.Rep.Scenarios[sc.Name] = scs
	}
	unb := bound < 0
	var rec func(prefix []int, depth int)
	rec = func(prefix []int, depth int) {
		if e.timedOut {
			return
		}
		if time.Now().After(e.Deadline) {
			e.timedOut = true
			return
		}
		// States are marked when first reached; an execution that reaches a marked state (at no higher
		// preemption cost) stops there, because that state's subtree is explored by whoever marked it.
		prune := func(p *point) bool {
			var k8 [8]byte
			copy(k8[:], p.key[:8])
			e.allStates[k8] = struct{}{}
			if depth == 0 && e.NSh > 1 {
				return false // the root execution is shared by all shards
			}
			c := p.cost
			if unb {
				c = 0
			}
			if old, ok := e.states[p.key]; ok && int(old) <= c {
				return true
			}
			e.states[p.key] = int8(c)
			return false
		}
		x, viol, outcome := e.run(sc, env, prefix, unb, prune)
		mine := depth > 0 || e.NSh == 1 || (e.unit%e.NSh) == e.Shard
		if depth == 0 {
			e.unit++
		}
		if mine {
			e.account(sc, env, x, viol, outcome, scs, unb)
		}
		for i := len(prefix); i < len(x.points); i++ {
			p := x.points[i]
			for alt := 1; alt < len(p.enabled); alt++ {
				c := p.cost
				if p.lastEnabled {
					c++
				}
				if bound >= 0 && c > bound {
					continue
				}
				if depth == 0 && e.NSh > 1 {
					u := e.unit
					e.unit++
					if u%e.NSh != e.Shard {
						continue
					}
				}
				np := append(append([]int{}, x.choices[:i]...), alt)
				rec(np, depth+1)
				if e.timedOut {
					return
				}
			}
		}
	}
	rec(nil, 0)
}

func (e *Explorer) account(sc *Scenario, env map[string]int, x *Exec, viol []Violation, outcome string, scs map[string]any, unb bool) {
	e.Rep.Executions++
	e.Rep.Transitions += x.Steps - len(x.choices) + len(x.points)
	scs["executions"] = scs["executions"].(int) + 1
	if x.Pruned {
		e.Rep.Counters["executions_pruned"]++
		return
	}
	e.Rep.Counters["executions_complete"]++
	if outcome != "" {
		e.outcomes[sc.Name+":"+outcome] = struct{}{}
	}
	if len(e.Rep.Samples) < 3 {
		e.Rep.Samples = append(e.Rep.Samples, map[string]any{"scenario": sc.Name, "env": env, "choices": x.choices, "trace": x.Trace, "outcome": outcome})
	}
	if e.detLeft > 0 {
		e.detLeft--
		e.Rep.DeterminismCheck++
		y, _, _ := e.run(sc, env, x.choices, unb, nil)
		if !sameTrace(x.Trace, y.Trace) {
			e.Rep.ReplayDiverg++
			e.Rep.Notes = append(e.Rep.Notes, fmt.Sprintf("replay divergence in %s env=%s: %v vs %v", sc.Name, envName(env), x.Trace, y.Trace))
		}
	}
	for _, v := range viol {
		key := sc.Name + "|" + v.Signature
		if e.seenSig[key] {
			e.Rep.Counters["violating_executions"]++
			continue
		}
		e.seenSig[key] = true
		e.Rep.Counters["violating_executions"]++
		// P3: confirm 5 times before believing it.
		confirmed := true
		for k := 0; k < 5; k++ {
			y, v2, _ := e.run(sc, env, x.choices, unb, nil)
			found := false
			for _, w := range v2 {
				if w.Signature == v.Signature {
					found = true
				}
			}
			if !found || !sameTrace(x.Trace, y.Trace) {
				confirmed = false
				break
			}
		}
		if !confirmed {
			e.Rep.Unconfirmed++
			e.Rep.Notes = append(e.Rep.Notes, "unconfirmed candidate: "+v.Signature)
			continue
		}
		rf := replayFile{Property: e.Prop, Scenario: sc.Name, Params: sc.Params, Env: env, Choices: x.choices, Trace: x.Trace, Sig: v.Signature, Desc: v.Description}
		b, _ := json.MarshalIndent(rf, "", " ")
		h := sha256.Sum256(b)
		os.MkdirAll(e.ReplayDir, 0o755)
		path := filepath.Join(e.ReplayDir, fmt.Sprintf("%s-%x.json", e.Prop, h[:6]))
		os.WriteFile(path, b, 0o644)
		v.Replay = path
		v.Description = fmt.Sprintf("%s [scenario=%s env=%s schedule=%v]", v.Description, sc.Name, envName(env), x.Trace)
		e.Rep.Violations = append(e.Rep.Violations, v)
	}
}

func sameTrace(a, b []string) bool {
	if len(a) != len(b) {
		return false
	}
	for i := range a {
		if a[i] != b[i] {
			return false
		}
	}
	return true
}

func (e *Explorer) replay(scs []*Scenario, path string) {
	b, err := os.ReadFile(path)
	if err != nil {
		e.TB.Fatalf("replay: %v", err)
	}
	var rf replayFile
	if err := json.Unmarshal(b, &rf); err != nil {
		e.TB.Fatalf("replay: %v", err)
	}
	for _, sc := range scs {
		if sc.Name != rf.Scenario {
			continue
		}
		x, viol, outcome := e.run(sc, rf.Env, rf.Choices, false, nil)
		e.Rep.Executions++
		e.Rep.Transitions += x.Steps
		fmt.Printf("replay %s env=%s\n  trace: %v\n  outcome: %s\n  stuck: %v\n", sc.Name, envName(rf.Env), x.Trace, outcome, x.Stuck)
		for _, v := range viol {
			v.Replay = path
			e.Rep.Violations = append(e.Rep.Violations, v)
			fmt.Printf("  violation: %s — %s\n", v.Signature, v.Description)
		}
		return
	}
	e.TB.Fatalf("replay: unknown scenario %q", rf.Scenario)
}

// NumStates returns the number of distinct state keys seen so far.
func (e *Explorer) NumStates() int { return len(e.allStates) }

// Finish writes the shard report.
func (e *Explorer) Finish() {
	for k := range e.outcomes {
		e.Rep.Outcomes = append(e.Rep.Outcomes, k)
	}
	sort.Strings(e.Rep.Outcomes)
	for k := range e.nontrivial {
		e.Rep.Nontrivial = append(e.Rep.Nontrivial, k)
	}
	sort.Strings(e.Rep.Nontrivial)
	out := os.Getenv("VERIF_OUT")
	if out == "" {
		b, _ := json.MarshalIndent(e.Rep, "", " ")
		fmt.Println(string(b))
		return
	}
	if len(e.allStates) > 0 {
		buf := make([]byte, 0, 8*len(e.allStates))
		for k := range e.allStates {
			buf = append(buf, k[:]...)
		}
		e.Rep.StatesFile = out + ".states"
		os.WriteFile(e.Rep.StatesFile, buf, 0o644)
	}
	e.Rep.States = len(e.allStates)
	b, _ := json.Marshal(e.Rep)
	if err := os.WriteFile(out, b, 0o644); err != nil {
		e.TB.Fatalf("write report: %v", err)
	}
}

var _ = binary.LittleEndian
