package schedx

import (
	"fmt"
	"reflect"
	"sort"
	"strings"
	"unsafe"
)

// ExtraState renders, deterministically, every field of the struct ptr points to that is NOT named in known. Harness
// state keys render the fields they know by hand (compactly); appending ExtraState makes the key complete by
// construction: for the code a harness was written against it is empty, and when a change adds state to the
// component, states that differ only in the new state are no longer merged by the pruning.
func ExtraState(ptr any, known ...string) string {
	v := reflect.ValueOf(ptr)
	if v.Kind() != reflect.Pointer || v.IsNil() || v.Elem().Kind() != reflect.Struct {
		return ""
	}
	v = v.Elem()
	skip := map[string]bool{}
	for _, k := range known {
		skip[k] = true
	}
	var out []string
	for i := 0; i < v.NumField(); i++ {
		name := v.Type().Field(i).Name
		if skip[name] {
			continue
		}
		if s := renderState(access(v.Field(i)), 0); s != "" {
			out = append(out, name+"="+s)
		}
	}
	if len(out) == 0 {
		return ""
	}
	return "+{" + strings.Join(out, ";") + "}"
}

func access(f reflect.Value) reflect.Value {
	if f.CanAddr() {
		return reflect.NewAt(f.Type(), unsafe.Pointer(f.UnsafeAddr())).Elem()
	}
	return f
}

func renderState(v reflect.Value, depth int) string {
	if depth > 4 {
		return "..."
	}
	t := v.Type()
	if p := t.PkgPath(); (p == "sync" || strings.HasSuffix(p, "zzverif/vsync")) && t.Kind() == reflect.Struct {
		return "" // locks and the like carry no component state
	}
	switch v.Kind() {
	case reflect.Func:
		return ""
	case reflect.Chan:
		if v.IsNil() {
			return ""
		}
		return fmt.Sprintf("chan(%d)", v.Len())
	case reflect.Interface, reflect.Pointer:
		if v.IsNil() {
			return ""
		}
		if v.Kind() == reflect.Interface {
			return "" // collaborators (deadliner, clients): not the component's own state
		}
		return "&" + renderState(v.Elem(), depth+1)
	case reflect.Map:
		if v.Len() == 0 {
			return ""
		}
		var e []string
		it := v.MapRange()
		for it.Next() {
			e = append(e, renderState(it.Key(), depth+1)+":"+renderState(it.Value(), depth+1))
		}
		sort.Strings(e)
		return "map[" + strings.Join(e, ",") + "]"
	case reflect.Slice, reflect.Array:
		if v.Kind() == reflect.Slice && v.Len() == 0 {
			return ""
		}
		if t.Elem().Kind() == reflect.Uint8 {
			b := make([]byte, v.Len())
			for i := range b {
				b[i] = byte(v.Index(i).Uint())
			}
			if len(b) > 8 {
				b = b[:8]
			}
			return fmt.Sprintf("%x", b)
		}
		var e []string
		for i := 0; i < v.Len(); i++ {
			e = append(e, renderState(v.Index(i), depth+1))
		}
		return "[" + strings.Join(e, ",") + "]"
	case reflect.Struct:
		if strings.HasPrefix(t.PkgPath(), "sync/atomic") || t.PkgPath() == "time" {
			if t.PkgPath() == "time" {
				return ""
			}
			var e []string
			for i := 0; i < v.NumField(); i++ {
				if f := v.Field(i); f.Kind() != reflect.Struct && f.Kind() != reflect.Array {
					e = append(e, renderState(access(f), depth+1))
				}
			}
			return "atomic(" + strings.Join(e, "") + ")"
		}
		var e []string
		for i := 0; i < v.NumField(); i++ {
			if s := renderState(access(v.Field(i)), depth+1); s != "" {
				e = append(e, t.Field(i).Name+"="+s)
			}
		}
		if len(e) == 0 {
			return ""
		}
		return "{" + strings.Join(e, ";") + "}"
	case reflect.String:
		if v.Len() == 0 {
			return ""
		}
		return fmt.Sprintf("%q", v.String())
	case reflect.Bool:
		if !v.Bool() {
			return ""
		}
		return "true"
	case reflect.Int, reflect.Int8, reflect.Int16, reflect.Int32, reflect.Int64:
		if v.Int() == 0 {
			return ""
		}
		return fmt.Sprint(v.Int())
	case reflect.Uint, reflect.Uint8, reflect.Uint16, reflect.Uint32, reflect.Uint64, reflect.Uintptr:
		if v.Uint() == 0 {
			return ""
		}
		return fmt.Sprint(v.Uint())
	case reflect.Float32, reflect.Float64:
		return fmt.Sprint(v.Float())
	}
	return ""
}
