// Package bsync is a drop-in for the names of package sync that the files spliced by the C04 check use. Its Mutex and
// RWMutex are FIFO locks whose waiting is a channel receive, so that a goroutine waiting for a lock is *durably* blocked
// in the sense of testing/synctest (a goroutine blocked on a real sync.Mutex is not: the bubble's virtual time would
// stand still while it waits). A change to the code under test that makes a member wait for a lock for ever then shows
// up as a member that never decides instead of freezing the execution. For goroutines that never have to wait the locks
// behave exactly like the real ones. (The schedx-aware variant of the same idea is package vsync.)
//
// A goroutine that waits for a lock nobody will ever release cannot end, and a synctest bubble cannot be left while one of
// its goroutines is blocked. The harness therefore ends an execution with Waiting() / Teardown(): Teardown lets every
// waiter go (as if it had got the lock) and turns all locks into no-ops until Reset(), which the harness calls before the
// next execution. Nothing is judged after Teardown.
package bsync

import (
	"sync"
	"sync/atomic"
)

var (
	regMu    sync.Mutex
	waiting  = map[*waiter]struct{}{}
	tornDown atomic.Bool
)

// Waiting returns the number of goroutines that are waiting for a lock right now.
func Waiting() int {
	regMu.Lock()
	defer regMu.Unlock()
	return len(waiting)
}

// Teardown releases every waiting goroutine and disables all locks until Reset.
func Teardown() {
	tornDown.Store(true)
	regMu.Lock()
	defer regMu.Unlock()
	for w := range waiting {
		delete(waiting, w)
		w.once.Do(func() { close(w.ch) })
	}
}

// Reset re-enables the locks (those that existed before are not to be used any more).
func Reset() {
	regMu.Lock()
	waiting = map[*waiter]struct{}{}
	regMu.Unlock()
	tornDown.Store(false)
}

type (
	WaitGroup = sync.WaitGroup
	Once      = sync.Once
	Pool      = sync.Pool
	Cond      = sync.Cond
	Locker    = sync.Locker
	Map       = sync.Map
)

type waiter struct {
	ch    chan struct{}
	once  sync.Once
	write bool
}

// RWMutex mirrors sync.RWMutex.
type RWMutex struct {
	mu      sync.Mutex // guards the fields below; held for a few instructions only, never while waiting
	writer  bool
	readers int
	q       []*waiter
}

func (m *RWMutex) acquire(write bool) {
	if tornDown.Load() {
		return
	}
	m.mu.Lock()
	if len(m.q) == 0 && !m.writer && (!write || m.readers == 0) {
		if write {
			m.writer = true
		} else {
			m.readers++
		}
		m.mu.Unlock()
		return
	}
	w := &waiter{ch: make(chan struct{}), write: write}
	m.q = append(m.q, w)
	m.mu.Unlock()
	regMu.Lock()
	waiting[w] = struct{}{}
	regMu.Unlock()
	<-w.ch // ownership is handed over by release (or the execution is being torn down)
	regMu.Lock()
	delete(waiting, w)
	regMu.Unlock()
}

func (m *RWMutex) release(write bool) {
	if tornDown.Load() {
		return
	}
	m.mu.Lock()
	if write {
		if !m.writer {
			m.mu.Unlock()
			panic("bsync: unlock of unlocked mutex")
		}
		m.writer = false
	} else {
		if m.readers <= 0 {
			m.mu.Unlock()
			panic("bsync: runlock of unlocked mutex")
		}
		m.readers--
	}
	// hand over to the queued waiters in FIFO order
	for len(m.q) > 0 {
		w := m.q[0]
		if w.write {
			if m.writer || m.readers > 0 {
				break
			}
			m.writer = true
			m.q = m.q[1:]
			w.once.Do(func() { close(w.ch) })
			break
		}
		if m.writer {
			break
		}
		m.readers++
		m.q = m.q[1:]
		w.once.Do(func() { close(w.ch) })
	}
	m.mu.Unlock()
}

func (m *RWMutex) Lock()    { m.acquire(true) }
func (m *RWMutex) Unlock()  { m.release(true) }
func (m *RWMutex) RLock()   { m.acquire(false) }
func (m *RWMutex) RUnlock() { m.release(false) }

func (m *RWMutex) TryLock() bool {
	if tornDown.Load() {
		return true
	}
	m.mu.Lock()
	defer m.mu.Unlock()
	if len(m.q) == 0 && !m.writer && m.readers == 0 {
		m.writer = true
		return true
	}
	return false
}

func (m *RWMutex) TryRLock() bool {
	if tornDown.Load() {
		return true
	}
	m.mu.Lock()
	defer m.mu.Unlock()
	if len(m.q) == 0 && !m.writer {
		m.readers++
		return true
	}
	return false
}

// RLocker mirrors sync.RWMutex.RLocker.
func (m *RWMutex) RLocker() Locker { return (*rlocker)(m) }

type rlocker RWMutex

func (r *rlocker) Lock()   { (*RWMutex)(r).RLock() }
func (r *rlocker) Unlock() { (*RWMutex)(r).RUnlock() }

// Mutex mirrors sync.Mutex.
type Mutex struct{ rw RWMutex }

func (m *Mutex) Lock()         { m.rw.Lock() }
func (m *Mutex) Unlock()       { m.rw.Unlock() }
func (m *Mutex) TryLock() bool { return m.rw.TryLock() }

// OnceFunc, OnceValue and OnceValues mirror the functions of package sync.
func OnceFunc(f func()) func()                                 { return sync.OnceFunc(f) }
func OnceValue[T any](f func() T) func() T                     { return sync.OnceValue(f) }
func OnceValues[T1, T2 any](f func() (T1, T2)) func() (T1, T2) { return sync.OnceValues(f) }
