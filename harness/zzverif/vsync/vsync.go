// Package vsync is a drop-in for the parts of package sync that charon's stores use. Lock acquisitions
// by registered schedx threads are scheduling points; for every other goroutine the locks behave like
// ordinary (FIFO) locks. Blocking is implemented with channels so that a blocked goroutine is *durably*
// blocked in the sense of testing/synctest (a goroutine blocked on a real sync.Mutex is not).
package vsync

import (
	"sync"

	"github.com/obolnetwork/charon/zzverif/schedx"
)

type (
	WaitGroup = sync.WaitGroup
	Once      = sync.Once
	Pool      = sync.Pool
	Cond      = sync.Cond
	Locker    = sync.Locker
)

type waiter struct {
	ch    chan struct{}
	write bool
}

// RWMutex mirrors sync.RWMutex.
type RWMutex struct {
	mu      sync.Mutex
	writer  bool
	readers int
	q       []waiter
}

// VerifCanLock implements schedx.Lockable.
func (m *RWMutex) VerifCanLock(write bool) bool {
	m.mu.Lock()
	defer m.mu.Unlock()
	if write {
		return !m.writer && m.readers == 0
	}
	return !m.writer
}

func (m *RWMutex) acquire(write bool) {
	if t := schedx.Current(); t != nil {
		t.LockPoint(m, write)
	}
	m.mu.Lock()
	if write && !m.writer && m.readers == 0 {
		m.writer = true
		m.mu.Unlock()
		return
	}
	if !write && !m.writer {
		m.readers++
		m.mu.Unlock()
		return
	}
	w := waiter{ch: make(chan struct{}), write: write}
	m.q = append(m.q, w)
	m.mu.Unlock()
	<-w.ch // ownership is handed over by release
}

func (m *RWMutex) release(write bool) {
	m.mu.Lock()
	if write {
		if !m.writer {
			m.mu.Unlock()
			panic("vsync: unlock of unlocked mutex")
		}
		m.writer = false
	} else {
		if m.readers <= 0 {
			m.mu.Unlock()
			panic("vsync: runlock of unlocked mutex")
		}
		m.readers--
	}
	// hand over to queued waiters in FIFO order
	for len(m.q) > 0 {
		w := m.q[0]
		if w.write {
			if m.writer || m.readers > 0 {
				break
			}
			m.writer = true
			m.q = m.q[1:]
			close(w.ch)
			break
		}
		if m.writer {
			break
		}
		m.readers++
		m.q = m.q[1:]
		close(w.ch)
	}
	m.mu.Unlock()
	// The window right after an unlock is where check-then-act bugs live: make it a scheduling point.
	if t := schedx.Current(); t != nil {
		t.YieldPoint("unlocked")
	}
}

func (m *RWMutex) Lock()    { m.acquire(true) }
func (m *RWMutex) Unlock()  { m.release(true) }
func (m *RWMutex) RLock()   { m.acquire(false) }
func (m *RWMutex) RUnlock() { m.release(false) }

func (m *RWMutex) TryLock() bool {
	m.mu.Lock()
	defer m.mu.Unlock()
	if !m.writer && m.readers == 0 {
		m.writer = true
		return true
	}
	return false
}

func (m *RWMutex) TryRLock() bool {
	m.mu.Lock()
	defer m.mu.Unlock()
	if !m.writer {
		m.readers++
		return true
	}
	return false
}

// RLocker mirrors sync.RWMutex.RLocker.
func (m *RWMutex) RLocker() Locker { return (*rlocker)(m) }

type rlocker RWMutex

func (r *rlocker) Lock()   { (*RWMutex)(r).RLock() }
func (r *rlocker) Unlock() { (*RWMutex)(r).RUnlock() }

// Mutex mirrors sync.Mutex.
type Mutex struct{ rw RWMutex }

func (m *Mutex) Lock()         { m.rw.Lock() }
func (m *Mutex) Unlock()       { m.rw.Unlock() }
func (m *Mutex) TryLock() bool { return m.rw.TryLock() }

// OnceFunc etc. are not used by the rewritten files.

// Map mirrors sync.Map. Every operation of a registered schedx thread is preceded by a scheduling point: each operation is
// atomic by itself, what can go wrong is a sequence of them (Load ... Store instead of LoadOrStore), and that is only
// visible if another thread can run in between.
type Map struct{ m sync.Map }

func (x *Map) pt(op string) {
	if t := schedx.Current(); t != nil {
		t.YieldPoint("syncmap." + op)
	}
}

func (x *Map) Load(key any) (any, bool)          { x.pt("Load"); return x.m.Load(key) }
func (x *Map) Store(key, value any)              { x.pt("Store"); x.m.Store(key, value) }
func (x *Map) Delete(key any)                    { x.pt("Delete"); x.m.Delete(key) }
func (x *Map) Clear()                            { x.pt("Clear"); x.m.Clear() }
func (x *Map) Range(f func(key, value any) bool) { x.pt("Range"); x.m.Range(f) }
func (x *Map) LoadOrStore(key, value any) (any, bool) {
	x.pt("LoadOrStore")
	return x.m.LoadOrStore(key, value)
}
func (x *Map) LoadAndDelete(key any) (any, bool) {
	x.pt("LoadAndDelete")
	return x.m.LoadAndDelete(key)
}
func (x *Map) Swap(key, value any) (any, bool) { x.pt("Swap"); return x.m.Swap(key, value) }
func (x *Map) CompareAndSwap(key, old, new any) bool {
	x.pt("CompareAndSwap")
	return x.m.CompareAndSwap(key, old, new)
}
func (x *Map) CompareAndDelete(key, old any) bool {
	x.pt("CompareAndDelete")
	return x.m.CompareAndDelete(key, old)
}
