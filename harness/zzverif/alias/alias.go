// Package alias is the shared toolbox of check C18 (values passed between workflow components are isolated
// copies):
//
//   - Regions/Overlaps: the alias walker. Every pointer target, slice backing array and map reachable from a value
//     is collected as an address range (reflection + unsafe); two values that were handed to / received by
//     different parties must not have overlapping ranges.
//   - Scribble: overwrites every mutable leaf reachable from a value (what a careless owner of the value may do).
//   - Digest: canonical hash of everything reachable from a value (what a reader observes).
//   - DeepCopy: reflection deep copy that does not rely on charon's Clone implementations.
//   - World/Run: the "twin world" driver used by every C18 harness file: a scenario is executed once without any
//     harness side mutation (alias check + reference observations) and once per mutation class (the values
//     handed in are scribbled after the call returned / every result is scribbled as soon as it was received /
//     every subscriber scribbles its argument inside the callback); every observation of a mutated world must
//     equal the one of the clean world.
//   - Catalogue: the value alphabet (every core data type x fork version, from the testutil generators).
package alias

import (
	"crypto/sha256"
	"encoding/binary"
	"encoding/hex"
	"fmt"
	"math/big"
	"reflect"
	"sort"
	"strings"
	"testing"
	"time"
	"unsafe"

	eth2api "github.com/attestantio/go-eth2-client/api"
	eth2bellatrix "github.com/attestantio/go-eth2-client/api/v1/bellatrix"
	eth2capella "github.com/attestantio/go-eth2-client/api/v1/capella"
	eth2deneb "github.com/attestantio/go-eth2-client/api/v1/deneb"
	eth2electra "github.com/attestantio/go-eth2-client/api/v1/electra"
	eth2spec "github.com/attestantio/go-eth2-client/spec"
	"github.com/attestantio/go-eth2-client/spec/altair"
	"github.com/attestantio/go-eth2-client/spec/bellatrix"
	"github.com/attestantio/go-eth2-client/spec/capella"
	"github.com/attestantio/go-eth2-client/spec/electra"
	eth2p0 "github.com/attestantio/go-eth2-client/spec/phase0"

	"github.com/obolnetwork/charon/core"
	"github.com/obolnetwork/charon/testutil"
	"github.com/obolnetwork/charon/zzverif/enumx"
)

// ---------------------------------------------------------------------------------------------------------------
// generic walking helpers
// ---------------------------------------------------------------------------------------------------------------

var (
	timeType   = reflect.TypeOf(time.Time{})
	bigIntType = reflect.TypeOf(big.Int{})
)

// opaque reports struct types that are not walked: time.Time (shares immutable *Location singletons) and the
// protobuf runtime bookkeeping (shared, immutable message type information).
func opaque(t reflect.Type) bool {
	if t == timeType {
		return true
	}
	return strings.Contains(t.PkgPath(), "google.golang.org/protobuf")
}

// protoStruct reports generated protobuf messages: their unexported bookkeeping fields are not walked.
func protoStruct(t reflect.Type) bool {
	f, ok := t.FieldByName("state")
	return ok && strings.Contains(f.Type.PkgPath(), "google.golang.org/protobuf")
}

// rw returns a settable view of an addressable value, also for unexported struct fields.
func rw(v reflect.Value) reflect.Value {
	if v.CanSet() || !v.CanAddr() {
		return v
	}
	return reflect.NewAt(v.Type(), unsafe.Pointer(v.UnsafeAddr())).Elem()
}

func scalarKind(k reflect.Kind) bool {
	switch k {
	case reflect.Bool, reflect.Int, reflect.Int8, reflect.Int16, reflect.Int32, reflect.Int64, reflect.Uint, reflect.Uint8,
		reflect.Uint16, reflect.Uint32, reflect.Uint64, reflect.Uintptr, reflect.Float32, reflect.Float64, reflect.Complex64,
		reflect.Complex128, reflect.String:
		return true
	}
	return false
}

// ---------------------------------------------------------------------------------------------------------------
// alias walker
// ---------------------------------------------------------------------------------------------------------------

// Region is one piece of mutable memory referenced from a value.
type Region struct {
	Start, End uintptr
	Path       string // field path without indices; "" = the value itself (top level pointer / slice / map)
}

// Regions returns every pointer target (of non-zero size), slice backing array (capacity > 0) and map reachable
// from v. Strings (immutable), functions, channels, interface boxes (immutable) and zero-size objects are skipped.
func Regions(v any) []Region {
	var out []Region
	type ptrKey struct {
		p uintptr
		t reflect.Type
	}
	seen := map[ptrKey]bool{}
	var walk func(rv reflect.Value, path string, depth int)
	walk = func(rv reflect.Value, path string, depth int) {
		if depth > 200 {
			return
		}
		switch rv.Kind() {
		case reflect.Pointer:
			if rv.IsNil() {
				return
			}
			et := rv.Type().Elem()
			if et.Kind() == reflect.Struct && opaque(et) {
				return
			}
			p := rv.Pointer()
			k := ptrKey{p, et}
			if seen[k] {
				return
			}
			seen[k] = true
			if sz := et.Size(); sz > 0 {
				out = append(out, Region{p, p + sz, path})
			}
			walk(rv.Elem(), path, depth+1)
		case reflect.Slice:
			if rv.IsNil() || rv.Cap() == 0 {
				return
			}
			p := rv.Pointer()
			if sz := rv.Type().Elem().Size(); sz > 0 {
				out = append(out, Region{p, p + sz*uintptr(rv.Cap()), path})
			}
			if scalarKind(rv.Type().Elem().Kind()) {
				return
			}
			for i := 0; i < rv.Len(); i++ {
				walk(rv.Index(i), path+"[]", depth+1)
			}
		case reflect.Array:
			if scalarKind(rv.Type().Elem().Kind()) {
				return
			}
			for i := 0; i < rv.Len(); i++ {
				walk(rv.Index(i), path+"[]", depth+1)
			}
		case reflect.Map:
			if rv.IsNil() {
				return
			}
			p := rv.Pointer()
			out = append(out, Region{p, p + 1, path})
			it := rv.MapRange()
			for it.Next() {
				walk(it.Key(), path+"{key}", depth+1)
				walk(it.Value(), path+"{}", depth+1)
			}
		case reflect.Struct:
			t := rv.Type()
			if opaque(t) {
				return
			}
			isProto := protoStruct(t)
			for i := 0; i < rv.NumField(); i++ {
				if isProto && !t.Field(i).IsExported() {
					continue
				}
				walk(rv.Field(i), path+"."+t.Field(i).Name, depth+1)
			}
		case reflect.Interface:
			if !rv.IsNil() {
				walk(rv.Elem(), path, depth+1)
			}
		}
	}
	walk(reflect.ValueOf(v), "", 0)
	return out
}

// Shared is one piece of memory referenced from two values.
type Shared struct {
	PathA, PathB string
	Root         bool // the shared memory is one of the two values itself (not just a nested field)
}

func (s Shared) Field() string {
	if s.Root {
		return "(whole-value)"
	}
	p := s.PathA
	if len(s.PathB) < len(p) {
		p = s.PathB
	}
	return strings.TrimPrefix(p, ".")
}

// Overlaps returns the overlapping regions of a and b (deduplicated by path pair, root-most first).
func Overlaps(a, b []Region) []Shared {
	if len(a) == 0 || len(b) == 0 {
		return nil
	}
	bs := append([]Region(nil), b...)
	sort.Slice(bs, func(i, j int) bool { return bs[i].Start < bs[j].Start })
	var maxLen uintptr
	for _, r := range bs {
		if l := r.End - r.Start; l > maxLen {
			maxLen = l
		}
	}
	seen := map[[2]string]bool{}
	var out []Shared
	for _, x := range a {
		lo := uintptr(0)
		if x.Start > maxLen {
			lo = x.Start - maxLen
		}
		i := sort.Search(len(bs), func(i int) bool { return bs[i].Start >= lo })
		for ; i < len(bs) && bs[i].Start < x.End; i++ {
			if bs[i].End > x.Start {
				k := [2]string{x.Path, bs[i].Path}
				if !seen[k] {
					seen[k] = true
					out = append(out, Shared{PathA: x.Path, PathB: bs[i].Path, Root: x.Path == "" || bs[i].Path == ""})
				}
			}
		}
	}
	sort.Slice(out, func(i, j int) bool {
		if out[i].Root != out[j].Root {
			return out[i].Root
		}
		li, lj := len(out[i].PathA)+len(out[i].PathB), len(out[j].PathA)+len(out[j].PathB)
		if li != lj {
			return li < lj
		}
		return out[i].PathA+"|"+out[i].PathB < out[j].PathA+"|"+out[j].PathB
	})
	return out
}

// ---------------------------------------------------------------------------------------------------------------
// mutator
// ---------------------------------------------------------------------------------------------------------------

// Scribble overwrites every mutable leaf reachable from v (an odd constant is added to every number so that every
// leaf really changes and repeated scribbling does not cancel out, bools are flipped, strings in addressable memory
// are replaced) and returns the number of leaves written. Map
// keys are kept, map values are modified and stored back (what an owner of the map may do). The value v itself,
// when it is not a pointer, slice or map, is a private copy of the caller and scribbling it has no effect on
// anybody, only what it references is overwritten.
func Scribble(v any) int {
	n := 0
	seen := map[uintptr]bool{}
	var walk func(rv reflect.Value, depth int)
	walk = func(rv reflect.Value, depth int) {
		if depth > 200 {
			return
		}
		switch rv.Kind() {
		case reflect.Pointer:
			if rv.IsNil() {
				return
			}
			et := rv.Type().Elem()
			if et.Kind() == reflect.Struct && opaque(et) {
				return
			}
			if seen[rv.Pointer()] && et.Size() > 0 {
				return
			}
			seen[rv.Pointer()] = true
			walk(rv.Elem(), depth+1)
		case reflect.Slice, reflect.Array:
			if rv.Len() == 0 {
				return
			}
			if rv.Type().Elem().Kind() == reflect.Uint8 {
				var b []byte
				if rv.Kind() == reflect.Slice {
					b = unsafe.Slice((*byte)(rv.UnsafePointer()), rv.Len())
				} else if rv.CanAddr() {
					b = unsafe.Slice((*byte)(unsafe.Pointer(rv.UnsafeAddr())), rv.Len())
				} else {
					return
				}
				for i := range b {
					b[i] += 0x5B
				}
				n += len(b)
				return
			}
			for i := 0; i < rv.Len(); i++ {
				walk(rv.Index(i), depth+1)
			}
		case reflect.Map:
			if rv.IsNil() {
				return
			}
			m := rw(rv)
			if !m.CanInterface() {
				return
			}
			for _, k := range m.MapKeys() {
				nv := reflect.New(m.Type().Elem()).Elem()
				nv.Set(m.MapIndex(k))
				walk(nv, depth+1)
				m.SetMapIndex(k, nv)
			}
		case reflect.Struct:
			t := rv.Type()
			if opaque(t) {
				return
			}
			if t == bigIntType {
				if rv.CanAddr() {
					b := (*big.Int)(unsafe.Pointer(rv.UnsafeAddr()))
					b.Add(b, big.NewInt(0x5A))
					n++
				}
				return
			}
			isProto := protoStruct(t)
			for i := 0; i < rv.NumField(); i++ {
				if isProto && !t.Field(i).IsExported() {
					continue
				}
				walk(rv.Field(i), depth+1)
			}
		case reflect.Interface:
			if rv.IsNil() {
				return
			}
			e := rv.Elem()
			switch e.Kind() {
			case reflect.Pointer, reflect.Map, reflect.Slice:
				walk(e, depth+1)
			default:
				// a boxed value: modify a copy and store it back when the interface lives in mutable memory
				nv := reflect.New(e.Type()).Elem()
				nv.Set(e)
				walk(nv, depth+1)
				if w := rw(rv); w.CanSet() {
					w.Set(nv)
				}
			}
		case reflect.Bool:
			if w := rw(rv); w.CanSet() {
				w.SetBool(!w.Bool())
				n++
			}
		case reflect.Int, reflect.Int8, reflect.Int16, reflect.Int32, reflect.Int64:
			if w := rw(rv); w.CanSet() {
				w.SetInt(w.Int() + 0x5B)
				n++
			}
		case reflect.Uint, reflect.Uint8, reflect.Uint16, reflect.Uint32, reflect.Uint64, reflect.Uintptr:
			if w := rw(rv); w.CanSet() {
				w.SetUint(w.Uint() + 0x5B)
				n++
			}
		case reflect.Float32, reflect.Float64:
			if w := rw(rv); w.CanSet() {
				w.SetFloat(w.Float() + 1)
				n++
			}
		case reflect.String:
			if w := rw(rv); w.CanSet() {
				w.SetString("scribbled:" + w.String())
				n++
			}
		}
	}
	walk(reflect.ValueOf(v), 0)
	return n
}

// ---------------------------------------------------------------------------------------------------------------
// digest
// ---------------------------------------------------------------------------------------------------------------

// Digest returns a canonical hash of everything reachable from v (nil and empty slices/maps are the same thing,
// map entries are ordered by key).
func Digest(v any) string {
	h := sha256.New()
	var u8 [8]byte
	num := func(x uint64) {
		binary.LittleEndian.PutUint64(u8[:], x)
		h.Write(u8[:])
	}
	var walk func(rv reflect.Value, depth int)
	walk = func(rv reflect.Value, depth int) {
		if depth > 200 {
			return
		}
		switch rv.Kind() {
		case reflect.Invalid:
			h.Write([]byte{'0'})
		case reflect.Pointer:
			if rv.IsNil() {
				h.Write([]byte{'n'})
				return
			}
			h.Write([]byte{'p'})
			et := rv.Type().Elem()
			if et.Kind() == reflect.Struct && opaque(et) && et != timeType {
				return
			}
			walk(rv.Elem(), depth+1)
		case reflect.Slice, reflect.Array:
			h.Write([]byte{'s'})
			num(uint64(rv.Len()))
			if rv.Len() == 0 {
				return
			}
			if rv.Type().Elem().Kind() == reflect.Uint8 {
				if rv.Kind() == reflect.Slice {
					h.Write(unsafe.Slice((*byte)(rv.UnsafePointer()), rv.Len()))
					return
				} else if rv.CanAddr() {
					h.Write(unsafe.Slice((*byte)(unsafe.Pointer(rv.UnsafeAddr())), rv.Len()))
					return
				}
			}
			for i := 0; i < rv.Len(); i++ {
				walk(rv.Index(i), depth+1)
			}
		case reflect.Map:
			h.Write([]byte{'m'})
			num(uint64(rv.Len()))
			type kv struct {
				k string
				v reflect.Value
			}
			var kvs []kv
			it := rv.MapRange()
			for it.Next() {
				kvs = append(kvs, kv{digestValue(it.Key()), it.Value()})
			}
			sort.Slice(kvs, func(i, j int) bool { return kvs[i].k < kvs[j].k })
			for _, e := range kvs {
				h.Write([]byte(e.k))
				walk(e.v, depth+1)
			}
		case reflect.Struct:
			t := rv.Type()
			if t == timeType {
				if rv.CanInterface() {
					num(uint64(rv.Interface().(time.Time).UnixNano()))
				}
				return
			}
			if opaque(t) {
				return
			}
			if t == bigIntType {
				if rv.CanAddr() {
					h.Write([]byte((*big.Int)(unsafe.Pointer(rv.UnsafeAddr())).String()))
				} else if rv.CanInterface() {
					b := rv.Interface().(big.Int)
					h.Write([]byte(b.String()))
				}
				return
			}
			h.Write([]byte{'{'})
			isProto := protoStruct(t)
			for i := 0; i < rv.NumField(); i++ {
				if isProto && !t.Field(i).IsExported() {
					continue
				}
				walk(rv.Field(i), depth+1)
			}
			h.Write([]byte{'}'})
		case reflect.Interface:
			if rv.IsNil() {
				h.Write([]byte{'N'})
				return
			}
			h.Write([]byte("i:" + rv.Elem().Type().String()))
			walk(rv.Elem(), depth+1)
		case reflect.Bool:
			if rv.Bool() {
				num(1)
			} else {
				num(0)
			}
		case reflect.Int, reflect.Int8, reflect.Int16, reflect.Int32, reflect.Int64:
			num(uint64(rv.Int()))
		case reflect.Uint, reflect.Uint8, reflect.Uint16, reflect.Uint32, reflect.Uint64, reflect.Uintptr:
			num(rv.Uint())
		case reflect.Float32, reflect.Float64:
			h.Write([]byte(fmt.Sprint(rv.Float())))
		case reflect.String:
			num(uint64(rv.Len()))
			h.Write([]byte(rv.String()))
		}
	}
	walk(reflect.ValueOf(v), 0)
	return hex.EncodeToString(h.Sum(nil)[:12])
}

func digestValue(rv reflect.Value) string {
	if rv.Kind() == reflect.String {
		return rv.String()
	}
	if rv.CanInterface() {
		return Digest(rv.Interface())
	}
	return fmt.Sprint(rv)
}

// ---------------------------------------------------------------------------------------------------------------
// deep copy
// ---------------------------------------------------------------------------------------------------------------

// DeepCopy returns a copy of v that shares no mutable memory with v (time.Time and protobuf bookkeeping excepted).
func DeepCopy[T any](v T) T {
	src := reflect.ValueOf(&v).Elem()
	dst := reflect.New(src.Type()).Elem()
	dst.Set(src)
	deepFix(dst, 0)
	return dst.Interface().(T)
}

// deepFix replaces everything referenced from the addressable value rv by private copies.
func deepFix(rv reflect.Value, depth int) {
	if depth > 200 {
		panic("alias.DeepCopy: too deep")
	}
	rv = rw(rv)
	switch rv.Kind() {
	case reflect.Pointer:
		if rv.IsNil() {
			return
		}
		et := rv.Type().Elem()
		if et.Kind() == reflect.Struct && opaque(et) {
			return
		}
		np := reflect.New(et)
		np.Elem().Set(rv.Elem())
		deepFix(np.Elem(), depth+1)
		rv.Set(np)
	case reflect.Slice:
		if rv.IsNil() {
			return
		}
		ns := reflect.MakeSlice(rv.Type(), rv.Len(), rv.Len())
		reflect.Copy(ns, rv)
		if !scalarKind(rv.Type().Elem().Kind()) {
			for i := 0; i < ns.Len(); i++ {
				deepFix(ns.Index(i), depth+1)
			}
		}
		rv.Set(ns)
	case reflect.Array:
		if scalarKind(rv.Type().Elem().Kind()) {
			return
		}
		for i := 0; i < rv.Len(); i++ {
			deepFix(rv.Index(i), depth+1)
		}
	case reflect.Map:
		if rv.IsNil() {
			return
		}
		nm := reflect.MakeMapWithSize(rv.Type(), rv.Len())
		it := rv.MapRange()
		for it.Next() {
			k := reflect.New(rv.Type().Key()).Elem()
			k.Set(it.Key())
			deepFix(k, depth+1)
			e := reflect.New(rv.Type().Elem()).Elem()
			e.Set(it.Value())
			deepFix(e, depth+1)
			nm.SetMapIndex(k, e)
		}
		rv.Set(nm)
	case reflect.Struct:
		t := rv.Type()
		if opaque(t) {
			return
		}
		if t == bigIntType {
			b := (*big.Int)(unsafe.Pointer(rv.UnsafeAddr()))
			*b = *new(big.Int).Set(b)
			return
		}
		for i := 0; i < rv.NumField(); i++ {
			deepFix(rv.Field(i), depth+1)
		}
	case reflect.Interface:
		if rv.IsNil() {
			return
		}
		c := reflect.New(rv.Elem().Type()).Elem()
		c.Set(rv.Elem())
		deepFix(c, depth+1)
		rv.Set(c)
	}
}

// ---------------------------------------------------------------------------------------------------------------
// twin-world driver
// ---------------------------------------------------------------------------------------------------------------

// Mutation classes.
const (
	Clean  = ""
	Input  = "input-after-handover" // the caller overwrites what it handed in, after the call returned
	Result = "result-after-return"  // a reader overwrites every result right after receiving it
	SubArg = "subscriber-argument"  // every subscriber overwrites its argument inside the callback
)

type role struct {
	name    string
	v       any
	regions []Region
}

// World records what the parties of one scenario execution hold and observe.
type World struct {
	Mode   string
	roles  []role
	inputs []any
	nmut   int // inputs already scribbled
	obs    map[string]string
	order  []string
	leaves int
	failed string // harness side failure: the scenario could not be executed as intended
}

func (w *World) addRole(name string, v any) {
	for _, r := range w.roles {
		if r.name == name {
			name += "'"
		}
	}
	w.roles = append(w.roles, role{name: name, v: v, regions: Regions(v)})
}

func (w *World) observe(name, d string) {
	if _, ok := w.obs[name]; ok {
		name += "'"
	}
	w.obs[name] = d
	w.order = append(w.order, name)
}

// Input declares a value that the harness hands to the component (it is scribbled by MutateInputs in the Input world).
func (w *World) Input(name string, v any) {
	w.addRole(name, v)
	w.inputs = append(w.inputs, v)
}

// MutateInputs is called after the component call returned.
func (w *World) MutateInputs() {
	if w.Mode != Input {
		return
	}
	for ; w.nmut < len(w.inputs); w.nmut++ {
		w.leaves += Scribble(w.inputs[w.nmut])
	}
}

// ObserveUnlessInputMode records an observation of a value that the Input world overwrites itself (e.g. the
// caller's own object after the subscribers ran).
func (w *World) ObserveUnlessInputMode(name string, v any) {
	if w.Mode != Input {
		w.observe(name, Digest(v))
	} else {
		w.observe(name, skipped)
	}
}

const skipped = "(not comparable in this world)"

// Held declares memory held privately by the component (reached through unexported fields): never scribbled,
// compared for sharing with everything else and observed.
func (w *World) Held(name string, v any) {
	w.addRole(name, v)
	w.observe(name, Digest(v))
}

// Observe records an observation without declaring a party (e.g. the state of a store after the mutations).
func (w *World) Observe(name string, v any) { w.observe(name, Digest(v)) }

// Result declares a value returned by the component to a reader.
func (w *World) Result(name string, v any) {
	w.addRole(name, v)
	w.observe(name, Digest(v))
	if w.Mode == Result {
		w.leaves += Scribble(v)
	}
}

// Sub declares a value received by a subscriber; must be called inside the callback.
func (w *World) Sub(name string, v any) {
	w.addRole(name, v)
	w.observe(name, Digest(v))
	if w.Mode == SubArg {
		w.leaves += Scribble(v)
	}
}

// Outcome records whether a call succeeded (nil / error), never the error text.
func (w *World) Outcome(name string, err error) {
	if err != nil {
		w.observe("outcome:"+name, "error")
	} else {
		w.observe("outcome:"+name, "ok")
	}
}

// Fail marks the execution as unusable (fixture problem): never a violation.
func (w *World) Fail(format string, a ...any) {
	if w.failed == "" {
		w.failed = fmt.Sprintf(format, a...)
	}
}

// Spec is one unit of a C18 harness: a path (component/operation) and a value type.
type Spec struct {
	Path  string   // e.g. "dutydb/AwaitAttestation"
	Type  string   // e.g. "VersionedProposal/deneb"
	Modes []string // mutation classes that apply to the path
	Run   func(w *World)
}

// Finding is one violated clause.
type Finding struct{ Sig, Desc string }

func baseType(t string) string {
	if i := strings.IndexByte(t, '/'); i >= 0 {
		return t[:i]
	}
	return t
}

func execute(s Spec, mode string) (w *World) {
	w = &World{Mode: mode, obs: map[string]string{}}
	defer func() {
		if p := recover(); p != nil {
			w.observe("completed", fmt.Sprintf("panic: %v", p))
		}
	}()
	s.Run(w)
	w.observe("completed", "yes")
	return w
}

type stats struct{ pairs, regions, leaves, observations, sharedPairs int }

// judge executes the clean world and one world per mutation class and returns the violated clauses.
func judge(s Spec) (fs []Finding, st stats, harnessErr string) {
	clean := execute(s, Clean)
	if clean.failed != "" {
		return nil, st, clean.failed
	}
	if clean.obs["completed"] != "yes" {
		return nil, st, "clean execution: " + clean.obs["completed"]
	}
	// (i) alias check on the clean world
	type hit struct {
		a, b string
		sh   Shared
	}
	var hits []hit
	root := false
	for i := 0; i < len(clean.roles); i++ {
		st.regions += len(clean.roles[i].regions)
		for j := i + 1; j < len(clean.roles); j++ {
			st.pairs += len(clean.roles[i].regions) * len(clean.roles[j].regions)
			for _, sh := range Overlaps(clean.roles[i].regions, clean.roles[j].regions) {
				hits = append(hits, hit{clean.roles[i].name, clean.roles[j].name, sh})
				root = root || sh.Root
			}
		}
	}
	st.sharedPairs = len(hits)
	if len(hits) > 0 {
		sort.SliceStable(hits, func(i, j int) bool { return hits[i].sh.Root && !hits[j].sh.Root })
		var lines []string
		for i, h := range hits {
			if root && !h.sh.Root {
				lines = append(lines, fmt.Sprintf("(and %d nested fields of these)", len(hits)-i))
				break
			}
			if i == 12 {
				lines = append(lines, fmt.Sprintf("... and %d more", len(hits)-i))
				break
			}
			lines = append(lines, fmt.Sprintf("%s[%s] is the same memory as %s[%s]", h.a, pathOrRoot(h.sh.PathA), h.b, pathOrRoot(h.sh.PathB)))
		}
		sig := fmt.Sprintf("kind=shared-memory path=%s", s.Path)
		if root {
			sig += " field=(whole-value)"
		} else {
			sig += fmt.Sprintf(" type=%s field=%s", baseType(s.Type), hits[0].sh.Field())
		}
		fs = append(fs, Finding{sig, fmt.Sprintf("%s with %s: two parties hold the same mutable memory: %s", s.Path, s.Type, strings.Join(lines, "; "))})
	}
	// (ii) differential check: one world per mutation class
	for _, mode := range s.Modes {
		dirty := execute(s, mode)
		if dirty.failed != "" {
			return nil, st, dirty.failed
		}
		st.leaves += dirty.leaves
		var diffs []string
		for _, name := range clean.order {
			st.observations++
			if d, ok := dirty.obs[name]; !ok {
				diffs = append(diffs, name+" (not reached)")
			} else if d != clean.obs[name] && d != skipped {
				if name == "completed" {
					diffs = append(diffs, "execution ("+d+")")
				} else {
					diffs = append(diffs, name)
				}
			}
		}
		if len(diffs) > 0 {
			sig := fmt.Sprintf("kind=mutation-visible path=%s via=%s", s.Path, mode)
			if !root {
				sig += " type=" + baseType(s.Type)
			}
			fs = append(fs, Finding{sig, fmt.Sprintf("%s with %s: after the harness overwrote %s (%d leaves) these observations differ from the "+
				"execution without any overwriting: %s", s.Path, s.Type, modeText(mode), dirty.leaves, strings.Join(diffs, ", "))})
		}
	}
	return fs, st, ""
}

func pathOrRoot(p string) string {
	if p == "" {
		return "(whole value)"
	}
	return strings.TrimPrefix(p, ".")
}

func modeText(m string) string {
	switch m {
	case Input:
		return "the value it had handed in, after the call returned"
	case Result:
		return "every result right after receiving it"
	case SubArg:
		return "the argument of every subscriber inside the callback"
	}
	return m
}

func sigs(fs []Finding) string {
	var l []string
	for _, f := range fs {
		l = append(l, f.Sig)
	}
	sort.Strings(l)
	return strings.Join(l, "\n")
}

// ReplayCase identifies one unit in a replay file.
type ReplayCase struct {
	Path string `json:"path"`
	Type string `json:"type"`
}

// Run evaluates one unit and reports to the driver (violations are re-run twice and must give the same verdict).
func Run(r *enumx.Run, s Spec) {
	fs, st, herr := judge(s)
	if herr != "" {
		r.Note("harness: " + s.Path + " " + s.Type + ": " + herr)
		r.Count("units_not_evaluated", 1)
		return
	}
	r.Eval(s.Path + ":alias")
	for _, m := range s.Modes {
		r.Eval(s.Path + ":diff:" + m)
	}
	r.Steps(1 + len(s.Modes))
	r.Count("address_pairs_compared", st.pairs)
	r.Count("memory_regions_collected", st.regions)
	r.Count("leaves_scribbled", st.leaves)
	r.Count("observations_compared", st.observations)
	r.Sample(map[string]any{"path": s.Path, "type": s.Type, "regions": st.regions, "leaves_scribbled": st.leaves, "observations": st.observations, "violations": len(fs)})
	if len(fs) == 0 {
		return
	}
	want := sigs(fs)
	for i := 0; i < 2; i++ {
		again, _, herr := judge(s)
		if herr != "" || sigs(again) != want {
			r.Unconfirmed(s.Path + " " + s.Type + ": " + strings.ReplaceAll(want, "\n", " | "))
			return
		}
	}
	r.Count("shared_region_pairs_found", st.sharedPairs)
	for _, f := range fs {
		r.Violation(f.Sig, f.Desc, ReplayCase{Path: s.Path, Type: s.Type})
	}
}

// Wanted filters units in replay mode.
func Wanted(r *enumx.Run, path, typ string) bool {
	if r.ReplayPath == "" {
		return true
	}
	var c ReplayCase
	if err := r.ReplayCase(&c); err != nil {
		return false
	}
	return c.Path == path && c.Type == typ
}

// ---------------------------------------------------------------------------------------------------------------
// value alphabet
// ---------------------------------------------------------------------------------------------------------------

// Unit is one value type x version.
type Unit struct {
	Name    string // Type/version
	Signed  bool   // core.SignedData (else core.UnsignedData)
	Version eth2spec.DataVersion
	Blinded bool
	Quick   bool // part of the quick tier (one version per type)
	Gen     func() any
	Duty    core.DutyType // the duty type the value travels under (0 = none)
}

func (u Unit) Base() string { return baseType(u.Name) }

// Selected reports whether the unit belongs to the tier.
func (u Unit) Selected() bool { return u.Quick || enumx.Thorough() }

var versions = []struct {
	name string
	v    eth2spec.DataVersion
}{
	{"phase0", eth2spec.DataVersionPhase0}, {"altair", eth2spec.DataVersionAltair}, {"bellatrix", eth2spec.DataVersionBellatrix},
	{"capella", eth2spec.DataVersionCapella}, {"deneb", eth2spec.DataVersionDeneb}, {"electra", eth2spec.DataVersionElectra},
	{"fulu", eth2spec.DataVersionFulu},
}

// VersionName returns the fork name.
func VersionName(v eth2spec.DataVersion) string {
	for _, x := range versions {
		if x.v == v {
			return x.name
		}
	}
	return "unknown"
}

func must[T any](v T, err error) T {
	if err != nil {
		panic(fmt.Sprintf("alias fixture: %v", err))
	}
	return v
}

// SignedProposal returns a generated eth2 signed proposal of the version.
func SignedProposal(v eth2spec.DataVersion, blinded bool) *eth2api.VersionedSignedProposal {
	p := &eth2api.VersionedSignedProposal{Version: v, Blinded: blinded}
	sig := testutil.RandomEth2Signature()
	switch v {
	case eth2spec.DataVersionPhase0:
		p.Phase0 = &eth2p0.SignedBeaconBlock{Message: testutil.RandomPhase0BeaconBlock(), Signature: sig}
	case eth2spec.DataVersionAltair:
		p.Altair = &altair.SignedBeaconBlock{Message: testutil.RandomAltairBeaconBlock(), Signature: sig}
	case eth2spec.DataVersionBellatrix:
		if blinded {
			p.BellatrixBlinded = &eth2bellatrix.SignedBlindedBeaconBlock{Message: testutil.RandomBellatrixBlindedBeaconBlock(), Signature: sig}
		} else {
			p.Bellatrix = &bellatrix.SignedBeaconBlock{Message: testutil.RandomBellatrixBeaconBlock(), Signature: sig}
		}
	case eth2spec.DataVersionCapella:
		if blinded {
			p.CapellaBlinded = &eth2capella.SignedBlindedBeaconBlock{Message: testutil.RandomCapellaBlindedBeaconBlock(), Signature: sig}
		} else {
			p.Capella = &capella.SignedBeaconBlock{Message: testutil.RandomCapellaBeaconBlock(), Signature: sig}
		}
	case eth2spec.DataVersionDeneb:
		if blinded {
			p.DenebBlinded = &eth2deneb.SignedBlindedBeaconBlock{Message: testutil.RandomDenebBlindedBeaconBlock(), Signature: sig}
		} else {
			p.Deneb = testutil.RandomDenebVersionedSignedProposal().Deneb
		}
	case eth2spec.DataVersionElectra:
		if blinded {
			p.ElectraBlinded = &eth2electra.SignedBlindedBeaconBlock{Message: testutil.RandomElectraBlindedBeaconBlock(), Signature: sig}
		} else {
			p.Electra = testutil.RandomElectraVersionedSignedProposal().Electra
		}
	case eth2spec.DataVersionFulu:
		if blinded {
			p.FuluBlinded = &eth2electra.SignedBlindedBeaconBlock{Message: testutil.RandomElectraBlindedBeaconBlock(), Signature: sig}
		} else {
			p.Fulu = testutil.RandomFuluVersionedSignedProposal().Fulu
		}
	}
	return p
}

// Proposal returns a generated eth2 proposal of the version.
func Proposal(v eth2spec.DataVersion, blinded bool) *eth2api.VersionedProposal {
	p := &eth2api.VersionedProposal{Version: v, Blinded: blinded}
	switch v {
	case eth2spec.DataVersionPhase0:
		p.Phase0 = testutil.RandomPhase0BeaconBlock()
	case eth2spec.DataVersionAltair:
		p.Altair = testutil.RandomAltairBeaconBlock()
	case eth2spec.DataVersionBellatrix:
		if blinded {
			p.BellatrixBlinded = testutil.RandomBellatrixBlindedBeaconBlock()
		} else {
			p.Bellatrix = testutil.RandomBellatrixBeaconBlock()
		}
	case eth2spec.DataVersionCapella:
		if blinded {
			p.CapellaBlinded = testutil.RandomCapellaBlindedBeaconBlock()
		} else {
			p.Capella = testutil.RandomCapellaBeaconBlock()
		}
	case eth2spec.DataVersionDeneb:
		if blinded {
			p.DenebBlinded = testutil.RandomDenebBlindedBeaconBlock()
		} else {
			p.Deneb = testutil.RandomDenebVersionedProposal().Deneb
		}
	case eth2spec.DataVersionElectra:
		if blinded {
			p.ElectraBlinded = testutil.RandomElectraBlindedBeaconBlock()
		} else {
			p.Electra = testutil.RandomElectraVersionedProposal().Electra
		}
	case eth2spec.DataVersionFulu:
		if blinded {
			p.FuluBlinded = testutil.RandomElectraBlindedBeaconBlock()
		} else {
			p.Fulu = testutil.RandomFuluVersionedProposal().Fulu
		}
	}
	return p
}

// Attestation returns a generated versioned attestation.
func Attestation(v eth2spec.DataVersion, withIdx bool) *eth2spec.VersionedAttestation {
	a := &eth2spec.VersionedAttestation{Version: v}
	if withIdx {
		idx := testutil.RandomVIdx()
		a.ValidatorIndex = &idx
	}
	switch v {
	case eth2spec.DataVersionPhase0:
		a.Phase0 = testutil.RandomAggregateAttestation()
	case eth2spec.DataVersionAltair:
		a.Altair = testutil.RandomAggregateAttestation()
	case eth2spec.DataVersionBellatrix:
		a.Bellatrix = testutil.RandomAggregateAttestation()
	case eth2spec.DataVersionCapella:
		a.Capella = testutil.RandomAggregateAttestation()
	case eth2spec.DataVersionDeneb:
		a.Deneb = testutil.RandomAggregateAttestation()
	case eth2spec.DataVersionElectra:
		a.Electra = testutil.RandomElectraAttestation()
	case eth2spec.DataVersionFulu:
		a.Fulu = testutil.RandomElectraAttestation()
	}
	return a
}

// AggregateAndProof returns a generated versioned signed aggregate and proof.
func AggregateAndProof(v eth2spec.DataVersion) *eth2spec.VersionedSignedAggregateAndProof {
	a := &eth2spec.VersionedSignedAggregateAndProof{Version: v}
	p0 := func() *eth2p0.SignedAggregateAndProof { return testutil.RandomSignedAggregateAndProof() }
	el := func() *electra.SignedAggregateAndProof {
		return &electra.SignedAggregateAndProof{
			Message: &electra.AggregateAndProof{
				AggregatorIndex: testutil.RandomVIdx(), Aggregate: testutil.RandomElectraAttestation(), SelectionProof: testutil.RandomEth2Signature(),
			},
			Signature: testutil.RandomEth2Signature(),
		}
	}
	switch v {
	case eth2spec.DataVersionPhase0:
		a.Phase0 = p0()
	case eth2spec.DataVersionAltair:
		a.Altair = p0()
	case eth2spec.DataVersionBellatrix:
		a.Bellatrix = p0()
	case eth2spec.DataVersionCapella:
		a.Capella = p0()
	case eth2spec.DataVersionDeneb:
		a.Deneb = p0()
	case eth2spec.DataVersionElectra:
		a.Electra = el()
	case eth2spec.DataVersionFulu:
		a.Fulu = el()
	}
	return a
}

// Catalogue returns every core value type x version (from the testutil generators and core constructors).
// The large proposal trees are interleaved with the small types so that round-robin sharding spreads them.
func Catalogue(t *testing.T) []Unit {
	var us []Unit
	add := func(name string, signed bool, ver eth2spec.DataVersion, blinded, quick bool, duty core.DutyType, gen func() any) {
		us = append(us, Unit{Name: name, Signed: signed, Version: ver, Blinded: blinded, Quick: quick, Gen: gen, Duty: duty})
	}
	last := versions[len(versions)-1].v
	for _, ver := range versions {
		ver := ver
		for _, bl := range []bool{false, true} {
			bl := bl
			if bl && ver.v < eth2spec.DataVersionBellatrix {
				continue
			}
			n := ver.name
			if bl {
				n += "-blinded"
			}
			add("VersionedSignedProposal/"+n, true, ver.v, bl, ver.v == last, core.DutyProposer, func() any {
				return must(core.NewVersionedSignedProposal(SignedProposal(ver.v, bl)))
			})
			add("VersionedProposal/"+n, false, ver.v, bl, ver.v == last, core.DutyProposer, func() any {
				return must(core.NewVersionedProposal(Proposal(ver.v, bl)))
			})
		}
	}
	big := us
	us = nil

	add("AttestationData", false, 0, false, true, core.DutyAttester, func() any { return testutil.RandomCoreAttestationData(t) })
	for _, ver := range versions {
		ver := ver
		add("VersionedAggregatedAttestation/"+ver.name, false, ver.v, false, ver.v == last, core.DutyAggregator, func() any {
			return must(core.NewVersionedAggregatedAttestation(Attestation(ver.v, false)))
		})
		add("VersionedAttestation/"+ver.name, true, ver.v, false, ver.v == last, core.DutyAttester, func() any {
			return must(core.NewVersionedAttestation(Attestation(ver.v, true)))
		})
		add("VersionedSignedAggregateAndProof/"+ver.name, true, ver.v, false, ver.v == last, core.DutyAggregator, func() any {
			return core.NewVersionedSignedAggregateAndProof(AggregateAndProof(ver.v))
		})
	}
	add("VersionedAttestation/deneb-novalidx", true, eth2spec.DataVersionDeneb, false, false, core.DutyAttester, func() any {
		return must(core.NewVersionedAttestation(Attestation(eth2spec.DataVersionDeneb, false)))
	})
	add("AggregatedAttestation", false, 0, false, true, core.DutyAggregator, func() any {
		return core.NewAggregatedAttestation(testutil.RandomAggregateAttestation())
	})
	add("SyncContribution", false, 0, false, true, core.DutySyncContribution, func() any { return testutil.RandomCoreSyncContribution() })
	add("SyncContributions", false, 0, false, true, core.DutySyncContribution, func() any {
		a, b := testutil.RandomCoreSyncContribution(), testutil.RandomCoreSyncContribution()
		a.SubcommitteeIndex, b.SubcommitteeIndex = 1, 3
		return core.SyncContributions{a, b}
	})
	add("SignedVoluntaryExit", true, 0, false, true, core.DutyExit, func() any { return core.NewSignedVoluntaryExit(testutil.RandomExit()) })
	add("VersionedSignedValidatorRegistration/v1", true, 0, false, true, core.DutyBuilderRegistration, func() any {
		return testutil.RandomCoreVersionedSignedValidatorRegistration(t)
	})
	add("SignedRandao", true, 0, false, true, core.DutyRandao, func() any { return testutil.RandomCoreSignedRandao() })
	add("BeaconCommitteeSelection", true, 0, false, true, core.DutyPrepareAggregator, func() any { return testutil.RandomCoreBeaconCommitteeSelection() })
	add("SyncCommitteeSelection", true, 0, false, true, core.DutyPrepareSyncContribution, func() any { return testutil.RandomCoreSyncCommitteeSelection() })
	add("SignedAggregateAndProof", true, 0, false, true, core.DutyAggregator, func() any {
		return core.NewSignedAggregateAndProof(testutil.RandomSignedAggregateAndProof())
	})
	add("SignedSyncMessage", true, 0, false, true, core.DutySyncMessage, func() any { return core.NewSignedSyncMessage(testutil.RandomSyncCommitteeMessage()) })
	add("SyncContributionAndProof", true, 0, false, true, core.DutyUnknown, func() any {
		return core.NewSyncContributionAndProof(testutil.RandomSyncContributionAndProof())
	})
	add("SignedSyncContributionAndProof", true, 0, false, true, core.DutySyncContribution, func() any { return testutil.RandomCoreSignedSyncContributionAndProof() })
	add("Signature", true, 0, false, true, core.DutySignature, func() any { return testutil.RandomCoreSignature() })
	// every unit with OPTIONAL scalar fields that its generator leaves nil also occurs with those fields set
	// (a copy path that treats such a field separately - or forgets it - is only visible then)
	for _, u := range append([]Unit{}, us...) {
		if _, n := FillOptional(u.Gen()); n == 0 {
			continue
		}
		u2, g := u, u.Gen
		if strings.Contains(u.Name, "/") {
			u2.Name = u.Name + "-optset"
		} else {
			u2.Name = u.Name + "/optset"
		}
		u2.Gen = func() any { v, _ := FillOptional(g()); return v }
		us = append(us, u2)
	}
	small := us
	us = nil
	for i := 0; i < len(big) || i < len(small); i++ {
		if i < len(big) {
			us = append(us, big[i])
		}
		if i < len(small) {
			us = append(us, small[i])
		}
	}
	return us
}

// FillOptional returns a private copy of v in which every nil pointer to a scalar (an OPTIONAL field that the generators
// leave unset, e.g. the validator index of a versioned attestation) points to a fresh non-zero value, and how many were set.
// Nil pointers to structs stay nil (they select the version of a versioned container).
func FillOptional[T any](v T) (T, int) {
	src := reflect.ValueOf(&v).Elem()
	dst := reflect.New(src.Type()).Elem()
	dst.Set(src)
	deepFix(dst, 0)
	n := fillOpt(dst, 0)
	return dst.Interface().(T), n
}

func fillOpt(rv reflect.Value, depth int) int {
	if depth > 200 {
		return 0
	}
	rv = rw(rv)
	switch rv.Kind() {
	case reflect.Pointer:
		et := rv.Type().Elem()
		if rv.IsNil() {
			if !scalarKind(et.Kind()) || !rv.CanSet() {
				return 0
			}
			np := reflect.New(et)
			switch {
			case np.Elem().CanInt():
				np.Elem().SetInt(7)
			case np.Elem().CanUint():
				np.Elem().SetUint(7)
			case et.Kind() == reflect.Bool:
				np.Elem().SetBool(true)
			default:
				return 0
			}
			rv.Set(np)
			return 1
		}
		if et.Kind() == reflect.Struct && opaque(et) {
			return 0
		}
		return fillOpt(rv.Elem(), depth+1)
	case reflect.Slice, reflect.Array:
		if scalarKind(rv.Type().Elem().Kind()) {
			return 0
		}
		n := 0
		for i := 0; i < rv.Len(); i++ {
			n += fillOpt(rv.Index(i), depth+1)
		}
		return n
	case reflect.Struct:
		if opaque(rv.Type()) || rv.Type() == bigIntType {
			return 0
		}
		n := 0
		for i := 0; i < rv.NumField(); i++ {
			n += fillOpt(rv.Field(i), depth+1)
		}
		return n
	case reflect.Interface:
		if rv.IsNil() || !rv.CanSet() {
			return 0
		}
		c := reflect.New(rv.Elem().Type()).Elem()
		c.Set(rv.Elem())
		n := fillOpt(c, depth+1)
		if n > 0 {
			rv.Set(c)
		}
		return n
	}
	return 0
}

// SignedUnits returns the SignedData units of the tier that travel under a duty type.
func SignedUnits(t *testing.T) []Unit {
	var out []Unit
	for _, u := range Catalogue(t) {
		if u.Signed && u.Selected() {
			out = append(out, u)
		}
	}
	return out
}

// UnsignedUnits returns the UnsignedData units of the tier.
func UnsignedUnits(t *testing.T) []Unit {
	var out []Unit
	for _, u := range Catalogue(t) {
		if !u.Signed && u.Selected() {
			out = append(out, u)
		}
	}
	return out
}

// NopDeadliner never expires anything.
type NopDeadliner struct{ Ch chan core.Duty }

func NewNopDeadliner() NopDeadliner                    { return NopDeadliner{Ch: make(chan core.Duty)} }
func (NopDeadliner) Add(core.Duty) core.DeadlineStatus { return core.DeadlineScheduled }
func (d NopDeadliner) C() <-chan core.Duty             { return d.Ch }
