package core_test

// C01 – the cluster never emits two different signed objects for one duty and validator, and everything it
// emits verifies under the validator's group key.
// n full nodes in one synctest bubble: real consensus/qbft.Consensus, dutydb, parsigdb, parsigex (real
// verifier), sigagg (real verifier), aggsigdb, wired by the real core.Wire, on the in-memory fakenet.
// Stubs only at the edges (scheduler/fetcher hand each node its candidate data, a validator-client stub per
// node signs what its own node serves, a recording broadcaster). The explorer owns every wire packet and
// explores all executions with a bounded number of deviations from FIFO delivery (DESIGN.md §5 C01).

import (
	"context"
	"encoding/hex"
	"fmt"
	"runtime"
	"sort"
	"strings"
	"testing"
	"testing/synctest"
	"time"

	bitfield "github.com/OffchainLabs/go-bitfield"
	eth2api "github.com/attestantio/go-eth2-client/api"
	eth2v1 "github.com/attestantio/go-eth2-client/api/v1"
	eth2spec "github.com/attestantio/go-eth2-client/spec"
	"github.com/attestantio/go-eth2-client/spec/altair"
	"github.com/attestantio/go-eth2-client/spec/electra"
	eth2p0 "github.com/attestantio/go-eth2-client/spec/phase0"
	k1 "github.com/decred/dcrd/dcrec/secp256k1/v4"
	"github.com/libp2p/go-libp2p/core/peer"
	"google.golang.org/protobuf/proto"

	"github.com/obolnetwork/charon/app/eth2wrap"
	"github.com/obolnetwork/charon/app/retry"
	"github.com/obolnetwork/charon/core"
	"github.com/obolnetwork/charon/core/aggsigdb"
	"github.com/obolnetwork/charon/core/bcast"
	cqbft "github.com/obolnetwork/charon/core/consensus/qbft"
	pbv1 "github.com/obolnetwork/charon/core/corepb/v1"
	"github.com/obolnetwork/charon/core/dutydb"
	"github.com/obolnetwork/charon/core/parsigdb"
	"github.com/obolnetwork/charon/core/parsigex"
	"github.com/obolnetwork/charon/core/sigagg"
	"github.com/obolnetwork/charon/eth2util/signing"
	"github.com/obolnetwork/charon/p2p"
	"github.com/obolnetwork/charon/tbls"
	"github.com/obolnetwork/charon/tbls/tblsconv"
	"github.com/obolnetwork/charon/testutil/beaconmock"
	"github.com/obolnetwork/charon/zzverif/enumx"
	"github.com/obolnetwork/charon/zzverif/fakenet"
)

// ---- eth2 stub (no I/O; spec taken once from a beaconmock outside the bubble) -----------------------------

type c01eth2 struct {
	eth2wrap.Client
	spec    *eth2api.Response[map[string]any]
	genesis time.Time
}

func (c *c01eth2) Spec(context.Context, *eth2api.SpecOpts) (*eth2api.Response[map[string]any], error) {
	return c.spec, nil
}

func (c *c01eth2) Genesis(context.Context, *eth2api.GenesisOpts) (*eth2api.Response[*eth2v1.Genesis], error) {
	return &eth2api.Response[*eth2v1.Genesis]{Data: &eth2v1.Genesis{GenesisTime: c.genesis}}, nil
}

// Domain: as on a real chain the signing domain depends on the fork that is active in the epoch. The stub chain has one
// fork boundary, at epoch c01forkEpoch (the duties of all scenarios lie in epoch 0, before it).
func (c *c01eth2) Domain(_ context.Context, typ eth2p0.DomainType, epoch eth2p0.Epoch) (eth2p0.Domain, error) {
	var d eth2p0.Domain
	copy(d[:], typ[:])
	d[31] = 0x77
	if epoch >= c01forkEpoch {
		d[30] = 0x01
	}
	return d, nil
}

func (c *c01eth2) GenesisDomain(ctx context.Context, typ eth2p0.DomainType) (eth2p0.Domain, error) {
	return c.Domain(ctx, typ, 0)
}

// c01bn is the beacon node as seen by one node's broadcaster (real core/bcast): it records what is submitted and
// answers the lookups bcast makes for attestations that arrive without a validator index.
type c01bn struct {
	*c01eth2
	w    *c01world
	node int
}

func (b c01bn) CompleteValidators(context.Context) (eth2wrap.CompleteValidators, error) {
	out := eth2wrap.CompleteValidators{}
	for _, v := range b.w.cl.vals[:b.w.nvals] {
		out[v.valIdx] = &eth2v1.Validator{Index: v.valIdx, Status: eth2v1.ValidatorStateActiveOngoing,
			Validator: &eth2p0.Validator{PublicKey: eth2p0.BLSPubKey(v.group)}}
	}
	return out, nil
}

func (b c01bn) AttesterDuties(_ context.Context, o *eth2api.AttesterDutiesOpts) (*eth2api.Response[[]*eth2v1.AttesterDuty], error) {
	var out []*eth2v1.AttesterDuty
	for _, v := range b.w.cl.vals[:b.w.nvals] {
		for _, i := range o.Indices {
			if i == v.valIdx {
				out = append(out, b.w.attDuty(v))
			}
		}
	}
	return &eth2api.Response[[]*eth2v1.AttesterDuty]{Data: out}, nil
}

func (b c01bn) SubmitAttestations(_ context.Context, o *eth2api.SubmitAttestationsOpts) error {
	b.w.recordBN(b.node, o.Attestations)
	return nil
}

var c01spec *eth2api.Response[map[string]any]

func c01getSpec(t *testing.T) *eth2api.Response[map[string]any] {
	if c01spec != nil {
		return c01spec
	}
	for try := 0; try < 5; try++ {
		bmock, err := beaconmock.New(context.Background())
		if err != nil {
			continue
		}
		spec, err := bmock.Spec(context.Background(), &eth2api.SpecOpts{})
		_ = bmock.Close()
		if err == nil && spec != nil && spec.Data["SLOTS_PER_EPOCH"] != nil {
			c01spec = spec
			return spec
		}
	}
	t.Skip("harness: beaconmock unavailable")
	return nil
}

// ---- cluster material (once per process) -------------------------------------------------------------------------

type c01val struct {
	group   tbls.PublicKey
	corePK  core.PubKey
	shares  map[int]tbls.PrivateKey
	valIdx  eth2p0.ValidatorIndex
	commIdx eth2p0.CommitteeIndex
	vci     uint64
}

type c01cluster struct {
	vals      []c01val // [0] is also available through group/corePK/shares
	n, t      int
	k1keys    []*k1.PrivateKey
	peers     []p2p.Peer
	peerIDs   []peer.ID
	group     tbls.PublicKey
	corePK    core.PubKey
	shares    map[int]tbls.PrivateKey
	pubshares map[core.PubKey]map[int]tbls.PublicKey
}

var c01clusters = map[int]*c01cluster{}

func c01newCluster(t *testing.T, n int) *c01cluster {
	if c, ok := c01clusters[n]; ok {
		return c
	}
	c := &c01cluster{n: n, t: (2*n + 2) / 3}
	for i := 0; i < n; i++ {
		var b [32]byte
		b[0], b[31] = 0x51, byte(i+1)
		key := k1.PrivKeyFromBytes(b[:])
		c.k1keys = append(c.k1keys, key)
		id, err := p2p.PeerIDFromKey(key.PubKey())
		if err != nil {
			t.Fatal(err)
		}
		c.peerIDs = append(c.peerIDs, id)
		c.peers = append(c.peers, p2p.Peer{ID: id, Index: i, Name: fmt.Sprintf("node%d", i)})
	}
	secret, err := tbls.GenerateSecretKey()
	if err != nil {
		t.Fatal(err)
	}
	c.group, _ = tbls.SecretToPublicKey(secret)
	c.corePK = core.PubKeyFrom48Bytes(c.group)
	c.shares, err = tbls.ThresholdSplit(secret, uint(n), uint(c.t))
	if err != nil {
		t.Fatal(err)
	}
	c.pubshares = map[core.PubKey]map[int]tbls.PublicKey{c.corePK: {}}
	for idx, s := range c.shares {
		c.pubshares[c.corePK][idx], _ = tbls.SecretToPublicKey(s)
	}
	c.vals = []c01val{{group: c.group, corePK: c.corePK, shares: c.shares, valIdx: c01valIdx, commIdx: c01commIdx, vci: 1}}
	// a second validator of the cluster attesting in the same slot (another committee)
	secret2, err := tbls.GenerateSecretKey()
	if err != nil {
		t.Fatal(err)
	}
	v2 := c01val{valIdx: c01valIdx + 4, commIdx: c01commIdx + 1, vci: 3}
	v2.group, _ = tbls.SecretToPublicKey(secret2)
	v2.corePK = core.PubKeyFrom48Bytes(v2.group)
	v2.shares, err = tbls.ThresholdSplit(secret2, uint(n), uint(c.t))
	if err != nil {
		t.Fatal(err)
	}
	c.pubshares[v2.corePK] = map[int]tbls.PublicKey{}
	for idx, s := range v2.shares {
		c.pubshares[v2.corePK][idx], _ = tbls.SecretToPublicKey(s)
	}
	c.vals = append(c.vals, v2)
	c01clusters[n] = c
	return c
}

// ---- script ---------------------------------------------------------------------------------------------------------------

type c01script struct {
	N       int    `json:"n"`
	Inputs  string `json:"inputs"`  // "equal", "distinct", "leader-differs"
	Byz     int    `json:"byz"`     // -1 none, else the node that may equivocate with its own share
	Choices []int  `json:"choices"` // deviations: index into the menu at each step (0 = default)
	MaxDev  int    `json:"max_deviations"`
	Vals    int    `json:"validators,omitempty"`  // validators of the cluster attesting in the slot (0 = 1)
	Att     string `json:"attestation,omitempty"` // "" = deneb with validator index; "electra-noidx" = electra without validator index (what peers on v1.3.0-v1.4.1 send)
	// production wiring variants (app/app.go): AggDB "" = aggsigdb.NewMemDBV2 (feature AggSigDBV2), "v1" = aggsigdb.NewMemDB (the default);
	// Wire "" = plain core.Wire, "retry" = core.WithAsyncRetry(retry.New(deadlineFunc)): fetch, participate, propose, parsigex
	// broadcast and beacon-node broadcast run asynchronously and are retried until the duty's deadline, as in production
	AggDB string `json:"aggsigdb,omitempty"`
	Wire  string `json:"wire,omitempty"`
	// duty-type dimension (zz_verif_c01b_test.go): Duty "" = attester; "proposer" (through consensus; Ver = block version/form);
	// "sync", "exit", "registration", "randao" (no consensus: every validator client signs the variant Camps[node] of the object);
	// with Byz >= 0 the validator client of node Byz is the adversary: it sends peer j (in index order) a partial signature made
	// with its own share according to Plan[j] (see c01bPlanSet), before ("first") or after ("last") the honest partials are sent;
	// Late >= 1: the validator client of node Late-1 signs only when the network went quiet for the first time
	Duty  string `json:"duty,omitempty"`
	Ver   string `json:"version,omitempty"`
	Camps []int  `json:"camps,omitempty"`
	Plan  []int  `json:"byz_plan,omitempty"`
	Place string `json:"byz_placement,omitempty"`
	Late  int    `json:"late,omitempty"`
}

const (
	c01slot      = 3
	c01commIdx   = 2
	c01valIdx    = 7
	c01forkEpoch = 1 // first epoch of the stub chain's second fork (another signing domain)
)

func c01attData(variant byte) eth2p0.AttestationData {
	root := func(b byte) (r eth2p0.Root) {
		for i := range r {
			r[i] = b
		}
		return r
	}
	return eth2p0.AttestationData{Slot: c01slot, Index: c01commIdx, BeaconBlockRoot: root(variant),
		Source: &eth2p0.Checkpoint{Epoch: 0, Root: root(1)}, Target: &eth2p0.Checkpoint{Epoch: 0, Root: root(2)}}
}

type c01emit struct {
	node    int
	where   string // "broadcast" / "aggsigdb"
	at      time.Duration
	root    [32]byte
	valid   bool
	pubkey  core.PubKey
	dutyStr string
}

type c01node struct {
	idx      int
	ctx      context.Context
	cancel   context.CancelFunc
	dutySub  []func(context.Context, core.Duty, core.DutyDefinitionSet) error
	fetchSub []func(context.Context, core.Duty, core.UnsignedDataSet) error
	vapiSub  []func(context.Context, core.Duty, core.ParSignedDataSet) error
	awaitAtt func(ctx context.Context, slot, commIdx uint64) (*eth2p0.AttestationData, error)
	pkByAtt  func(ctx context.Context, slot, commIdx, valIdx uint64) (core.PubKey, error)
	cand     eth2p0.AttestationData
	world    *c01world
	signedN  int
	// other duty types
	awaitProp func(ctx context.Context, slot uint64) (*eth2api.VersionedProposal, error)
	propCand  *eth2api.VersionedProposal
	awaitAgg  func(ctx context.Context, slot uint64, attestationDataRoot eth2p0.Root, committeeIndex eth2p0.CommitteeIndex) (*eth2spec.VersionedAttestation, error)
	aggCand   *eth2spec.VersionedAttestation
	retryer   *retry.Retryer[core.Duty]
}

// stub scheduler
func (n *c01node) SubscribeDuties(fn func(context.Context, core.Duty, core.DutyDefinitionSet) error) {
	n.dutySub = append(n.dutySub, fn)
}
func (n *c01node) SubscribeSlots(func(context.Context, core.Slot) error) {}
func (n *c01node) GetDutyDefinition(context.Context, core.Duty) (core.DutyDefinitionSet, error) {
	return n.defSet(), nil
}
func (n *c01node) RegisterFetcherFetchOnly(func(context.Context, core.Duty, core.DutyDefinitionSet, string, eth2p0.Root) error) {
}

func (w *c01world) attDuty(v c01val) *eth2v1.AttesterDuty {
	return &eth2v1.AttesterDuty{PubKey: eth2p0.BLSPubKey(v.group), Slot: c01slot, ValidatorIndex: v.valIdx, CommitteeIndex: v.commIdx,
		CommitteeLength: 8, CommitteesAtSlot: 4, ValidatorCommitteeIndex: v.vci}
}

func (n *c01node) defSet() core.DutyDefinitionSet {
	if n.world.kind != "" {
		return n.world.bDefSet()
	}
	out := core.DutyDefinitionSet{}
	for _, v := range n.world.cl.vals[:n.world.nvals] {
		out[v.corePK] = core.NewAttesterDefinition(n.world.attDuty(v))
	}
	return out
}

// dataFor is the attestation data of a candidate head for one validator: before electra the committee index is part of
// the data, from electra on it is 0.
func (w *c01world) dataFor(cand eth2p0.AttestationData, v c01val) eth2p0.AttestationData {
	d := cand
	d.Index = v.commIdx
	if w.att == "electra-noidx" {
		d.Index = 0
	}
	return d
}

// stub fetcher: hands the node's candidate data to its subscribers (consensus.Propose)
type c01fetcher struct{ n *c01node }

func (f c01fetcher) Fetch(ctx context.Context, duty core.Duty, defs core.DutyDefinitionSet) error {
	set := core.UnsignedDataSet{}
	if f.n.world.kind != "" {
		var err error
		if set, err = f.n.bFetch(defs); err != nil {
			return err
		}
		defs = nil
	}
	for pk, d := range defs {
		ad, _ := d.(core.AttesterDefinition)
		data := f.n.cand
		for _, v := range f.n.world.cl.vals {
			if v.corePK == pk {
				data = f.n.world.dataFor(f.n.cand, v)
			}
		}
		set[pk] = core.AttestationData{Data: data, Duty: ad.AttesterDuty}
	}
	for _, s := range f.n.fetchSub {
		if err := s(ctx, duty, set); err != nil {
			return err
		}
	}
	return nil
}
func (c01fetcher) FetchOnly(context.Context, core.Duty, core.DutyDefinitionSet, string, eth2p0.Root) error {
	return nil
}
func (f c01fetcher) Subscribe(fn func(context.Context, core.Duty, core.UnsignedDataSet) error) {
	f.n.fetchSub = append(f.n.fetchSub, fn)
}
func (c01fetcher) RegisterAggSigDB(func(context.Context, core.Duty, core.PubKey, core.SubcommitteeIndex) (core.SignedData, error)) {
}
func (c01fetcher) RegisterAwaitAttData(func(ctx context.Context, slot uint64, commIdx uint64) (*eth2p0.AttestationData, error)) {
}

// stub validator API + validator client
type c01vapi struct{ n *c01node }

func (v c01vapi) RegisterAwaitProposal(fn func(ctx context.Context, slot uint64) (*eth2api.VersionedProposal, error)) {
	v.n.awaitProp = fn
}
func (v c01vapi) RegisterAwaitAttestation(fn func(ctx context.Context, slot, commIdx uint64) (*eth2p0.AttestationData, error)) {
	v.n.awaitAtt = fn
}
func (c01vapi) RegisterAwaitSyncContribution(func(ctx context.Context, slot, subcommIdx uint64, beaconBlockRoot eth2p0.Root) (*altair.SyncCommitteeContribution, error)) {
}
func (v c01vapi) RegisterPubKeyByAttestation(fn func(ctx context.Context, slot, commIdx, valIdx uint64) (core.PubKey, error)) {
	v.n.pkByAtt = fn
}
func (c01vapi) RegisterGetDutyDefinition(func(context.Context, core.Duty) (core.DutyDefinitionSet, error)) {
}
func (v c01vapi) RegisterAwaitAggAttestation(fn func(ctx context.Context, slot uint64, attestationDataRoot eth2p0.Root, committeeIndex eth2p0.CommitteeIndex) (*eth2spec.VersionedAttestation, error)) {
	v.n.awaitAgg = fn
}
func (c01vapi) RegisterAwaitAggSigDB(func(context.Context, core.Duty, core.PubKey, core.SubcommitteeIndex) (core.SignedData, error)) {
}
func (v c01vapi) Subscribe(fn func(context.Context, core.Duty, core.ParSignedDataSet) error) {
	v.n.vapiSub = append(v.n.vapiSub, fn)
}

// signPartial: the validator client of a node signs attestation data with the node's key share.
func (w *c01world) signPartial(share int, data eth2p0.AttestationData) (core.ParSignedData, error) {
	return w.signPartialFor(w.cl.vals[0], share, w.dataFor(data, w.cl.vals[0]))
}

func (w *c01world) signPartialFor(v c01val, share int, data eth2p0.AttestationData) (core.ParSignedData, error) {
	root, err := data.HashTreeRoot()
	if err != nil {
		return core.ParSignedData{}, err
	}
	sroot, err := signing.GetDataRoot(context.Background(), w.eth2, signing.DomainBeaconAttester, data.Target.Epoch, root)
	if err != nil {
		return core.ParSignedData{}, err
	}
	sig, err := c01sign(v.shares[share], sroot)
	if err != nil {
		return core.ParSignedData{}, err
	}
	bits := bitfield.NewBitlist(8)
	bits.SetBitAt(v.vci, true)
	if w.att == "electra-noidx" {
		cb := bitfield.NewBitvector64()
		cb.SetBitAt(uint64(v.commIdx), true)
		att := &eth2spec.VersionedAttestation{Version: eth2spec.DataVersionElectra,
			Electra: &electra.Attestation{AggregationBits: bits, Data: &data, Signature: eth2p0.BLSSignature(sig), CommitteeBits: cb}}
		return core.NewPartialVersionedAttestation(att, share)
	}
	vi := v.valIdx
	att := &eth2spec.VersionedAttestation{Version: eth2spec.DataVersionDeneb, ValidatorIndex: &vi,
		Deneb: &eth2p0.Attestation{AggregationBits: bits, Data: &data, Signature: eth2p0.BLSSignature(sig)}}
	return core.NewPartialVersionedAttestation(att, share)
}

// vc is the validator client goroutine of one node: it asks its node for the data to attest, signs it once.
func (n *c01node) vc(duty core.Duty) {
	set := core.ParSignedDataSet{}
	for _, v := range n.world.cl.vals[:n.world.nvals] {
		data, err := n.awaitAtt(n.ctx, c01slot, uint64(v.commIdx))
		if err != nil {
			return
		}
		pk, err := n.pkByAtt(n.ctx, c01slot, uint64(v.commIdx), uint64(v.valIdx))
		if err != nil {
			return
		}
		par, err := n.world.signPartialFor(v, n.idx+1, *data)
		if err != nil {
			return
		}
		set[pk] = par
	}
	n.signedN++
	for _, s := range n.vapiSub {
		_ = s(n.ctx, duty, set)
	}
}

// recording broadcaster / aggsigdb wrapper
type c01bcast struct {
	n    *c01node
	real bcast.Broadcaster // the real core/bcast component in front of the beacon-node stub
}

func (b c01bcast) Broadcast(ctx context.Context, duty core.Duty, set core.SignedDataSet) error {
	b.n.world.record(b.n.idx, "broadcast", duty, set)
	return b.real.Broadcast(ctx, duty, set)
}

type c01aggdb struct {
	core.AggSigDB
	n *c01node
}

func (a c01aggdb) Store(ctx context.Context, duty core.Duty, set core.SignedDataSet) error {
	a.n.world.record(a.n.idx, "aggsigdb", duty, set)
	return a.AggSigDB.Store(ctx, duty, set)
}

type c01world struct {
	kind  string // c01script.Duty
	sc    c01script
	nvals int
	att   string
	cl    *c01cluster
	eth2  *c01eth2
	net   *fakenet.Net
	nodes []*c01node
	emits []c01emit
	t0    time.Time
	log   []string
	// calls of the real broadcaster into the beacon-node stub, by endpoint
	bnCalls map[string]int
}

func (w *c01world) record(node int, where string, duty core.Duty, set core.SignedDataSet) {
	for pk, d := range set {
		e := c01emit{node: node, where: where, at: time.Since(w.t0), pubkey: pk, dutyStr: duty.String()}
		es, ok := d.(core.Eth2SignedData)
		if ok {
			if epoch, err := es.Epoch(context.Background(), w.eth2); err == nil {
				if mr, err := d.MessageRoot(); err == nil {
					if sroot, err := signing.GetDataRoot(context.Background(), w.eth2, es.DomainName(), epoch, mr); err == nil {
						e.root = sroot
						if sig, err := tblsconv.SigFromCore(d.Signature()); err == nil {
							// verified under the GROUP key of the validator the object is published for
							if gk, err := tblsconv.PubkeyFromCore(pk); err == nil {
								e.valid = c01verify(gk, sroot, sig)
							}
						}
					}
				}
			}
		}
		w.emits = append(w.emits, e)
	}
}

// c01sign is the validator-client stubs' signing call: BLS signatures are deterministic, the stubs sign the same roots with
// the same key shares in thousands of executions per process, so signatures are memoised.
var c01signMemo = map[[64]byte]tbls.Signature{}

func c01sign(key tbls.PrivateKey, sroot [32]byte) (tbls.Signature, error) {
	var k [64]byte
	copy(k[:32], key[:])
	copy(k[32:], sroot[:])
	if s, ok := c01signMemo[k]; ok {
		return s, nil
	}
	s, err := tbls.Sign(key, sroot[:])
	if err == nil {
		c01signMemo[k] = s
	}
	return s, err
}

// c01verify is the oracle's signature check (the library's tbls.Verify, never charon's own signing helpers). The verdict is a
// pure function of (key, root, signature); the same object is judged at Broadcast, at AggSigDB.Store and at the beacon node of
// every node, so verdicts are memoised per process.
var c01verifyMemo = map[[48 + 32 + 96]byte]bool{}

func c01verify(pk tbls.PublicKey, sroot [32]byte, sig tbls.Signature) bool {
	var k [48 + 32 + 96]byte
	copy(k[:48], pk[:])
	copy(k[48:80], sroot[:])
	copy(k[80:], sig[:])
	if v, ok := c01verifyMemo[k]; ok {
		return v
	}
	v := tbls.Verify(pk, sroot[:], sig) == nil
	c01verifyMemo[k] = v
	return v
}

// recordBN judges what a node's broadcaster hands to its beacon node: every attestation is attributed to the validator it
// names (validator index where the object carries one, else committee and position bits) and its signature is verified
// under THAT validator's group key.
func (w *c01world) recordBN(node int, atts []*eth2spec.VersionedAttestation) {
	duty := core.NewAttesterDuty(c01slot)
	for _, a := range atts {
		e := c01emit{node: node, where: "beacon-node", at: time.Since(w.t0), dutyStr: duty.String(), pubkey: "unattributable"}
		data, err := a.Data()
		sigb, err2 := a.Signature()
		if err == nil && err2 == nil {
			var who *c01val
			for i := range w.cl.vals[:w.nvals] {
				v := &w.cl.vals[i]
				switch {
				case a.Version < eth2spec.DataVersionElectra:
					// before electra the beacon node is handed the bare attestation: the attester is named by the committee index
					// and the position bit (the validator index field is not part of what is submitted)
					if bits, err := a.AggregationBits(); err == nil && data.Index == v.commIdx && bits.Len() > v.vci && bits.BitAt(v.vci) {
						who = v
					}
				case a.ValidatorIndex != nil:
					if *a.ValidatorIndex == v.valIdx {
						who = v
					}
				default:
					if a.Electra != nil && a.Electra.CommitteeBits.BitAt(uint64(v.commIdx)) {
						who = v
					}
				}
			}
			if root, err := data.HashTreeRoot(); err == nil && who != nil {
				if sroot, err := signing.GetDataRoot(context.Background(), w.eth2, signing.DomainBeaconAttester, data.Target.Epoch, root); err == nil {
					e.root, e.pubkey = sroot, who.corePK
					e.valid = c01verify(who.group, sroot, tbls.Signature(sigb))
				}
			}
		}
		w.emits = append(w.emits, e)
	}
}

// ---- one execution --------------------------------------------------------------------------------------------------------------

type c01step struct {
	menu int // number of alternatives at this step
}

type c01exec struct {
	steps    []c01step
	choices  []int
	emits    []c01emit
	trace    []string
	devs     int
	diverged bool
	bnCalls  map[string]int
}

func c01run(t *testing.T, sc c01script) (ex c01exec) {
	runtime.VerifSetMapRot(true, 0)
	runtime.VerifSetSelMode(1)
	defer runtime.VerifSetMapRot(false, 0)
	defer runtime.VerifSetSelMode(0)
	cl := c01newCluster(t, sc.N)
	spec := c01getSpec(t)
	synctest.Test(t, func(t *testing.T) {
		ctx, cancelAll := context.WithCancel(context.Background())
		w := &c01world{cl: cl, net: fakenet.New(), t0: time.Now(), nvals: max(sc.Vals, 1), att: sc.Att, kind: sc.Duty, sc: sc}
		w.eth2 = &c01eth2{spec: spec, genesis: time.Now().Add(-time.Duration(c01slot) * 12 * time.Second)}
		duty := core.NewAttesterDuty(c01slot)
		if w.kind != "" {
			duty = w.bDuty()
			w.nvals = w.bNVals()
		}
		deadlineFunc := func(d core.Duty) (time.Time, bool) {
			if d.Type == core.DutyExit || d.Type == core.DutyBuilderRegistration {
				return time.Time{}, false // as core.NewDutyDeadlineFunc: exits and registrations never expire
			}
			return w.t0.Add(time.Hour), true
		}
		gater := func(core.Duty) bool { return true }
		for i := 0; i < sc.N; i++ {
			nctx, nc := context.WithCancel(ctx)
			n := &c01node{idx: i, ctx: nctx, cancel: nc, world: w}
			variant := byte(0x10)
			switch sc.Inputs {
			case "equal":
			case "distinct":
				variant = 0x10 + byte(i)
			default: // the leader of round 1 sees another head than everybody else
				if int64(i) == (int64(c01slot)+int64(duty.Type)+1)%int64(sc.N) {
					variant = 0x20
				}
			}
			n.cand = c01attData(variant)
			if w.kind == c01kProposer {
				var err error
				if n.propCand, err = c01bProposal(sc.Ver, variant, cl.vals[0].valIdx); err != nil {
					t.Fatalf("harness: %v", err)
				}
			}
			if w.kind == c01kAggregator {
				n.aggCand = w.bAggregate(variant)
			}
			w.nodes = append(w.nodes, n)
			h := w.net.NewHost(cl.peerIDs[i])
			cons, err := cqbft.NewConsensus(nctx, w.eth2, h, new(p2p.Sender), cl.peers, cl.k1keys[i], core.NewDeadliner(nctx, "cons", deadlineFunc), gater,
				func(*pbv1.SniffedConsensusInstance) {}, false)
			if err != nil {
				t.Fatalf("consensus: %v", err)
			}
			cons.Start(nctx)
			ddb := dutydb.NewMemDB(core.NewDeadliner(nctx, "dutydb", deadlineFunc))
			pdb := parsigdb.NewMemDB(cl.t, core.NewDeadliner(nctx, "parsigdb", deadlineFunc), parsigdb.NewMemDBMetadata(12, w.eth2.genesis))
			go pdb.Trim(nctx)
			verifier, err := parsigex.NewEth2Verifier(w.eth2, cl.pubshares)
			if err != nil {
				t.Fatal(err)
			}
			psx := parsigex.NewParSigEx(h, p2p.Send, i, cl.peerIDs, verifier, gater)
			agg, err := sigagg.New(cl.t, sigagg.NewVerifier(w.eth2))
			if err != nil {
				t.Fatal(err)
			}
			var adb interface {
				core.AggSigDB
				Run(context.Context)
			}
			if sc.AggDB == "v1" {
				adb = aggsigdb.NewMemDB(core.NewDeadliner(nctx, "aggsigdb", deadlineFunc))
			} else {
				adb = aggsigdb.NewMemDBV2(core.NewDeadliner(nctx, "aggsigdb", deadlineFunc))
			}
			go adb.Run(nctx)
			bc, err := bcast.New(nctx, c01bn{w.eth2, w, i})
			if err != nil {
				t.Fatal(err)
			}
			var wopts []core.WireOption
			if sc.Wire == "retry" {
				n.retryer = retry.New[core.Duty](deadlineFunc)
				wopts = append(wopts, core.WithAsyncRetry(n.retryer))
			}
			core.Wire(n, c01fetcher{n}, cons, ddb, c01vapi{n}, pdb, psx, agg, c01aggdb{adb, n}, c01bcast{n, bc}, wopts...)
		}
		// the duty is triggered on every node; its validator client starts waiting for the data to sign
		start := func(n *c01node) {
			if w.kind != "" && !w.viaConsensus() {
				// duty types without consensus: nothing is scheduled or fetched, the validator client submits on its own; the
				// validator client of the Byzantine node is the adversary (its partial signatures are injected below)
				if n.idx != sc.Byz && n.idx != sc.Late-1 {
					go n.bVC(duty)
				}
				return
			}
			for _, s := range n.dutySub {
				s := s
				go func() { _ = s(n.ctx, duty, n.defSet()) }()
			}
			if w.kind != "" {
				go n.bVC(duty)
				return
			}
			go n.vc(duty)
		}
		if w.kind != "" && !w.viaConsensus() && sc.Byz >= 0 && sc.Place == "first" {
			ex.trace = append(ex.trace, w.bInjectPlan(duty)...)
		}
		for _, n := range w.nodes {
			start(n)
		}
		synctest.Wait()
		if w.kind != "" && !w.viaConsensus() && sc.Byz >= 0 && sc.Place != "first" {
			ex.trace = append(ex.trace, w.bInjectPlan(duty)...)
		}
		latePending := w.kind != "" && sc.Late >= 1
		crashed := 0
		f := (sc.N - 1) / 3
		byzUsed := false
		idle := 0
		for step := 0; step < 600; step++ {
			pend := w.net.Pending()
			// menu: 0 = default (deliver the oldest packet, or let time pass when nothing is in flight)
			type act struct {
				kind string
				arg  int
			}
			menu := []act{{"default", 0}}
			if len(pend) > 0 {
				menu = append(menu, act{"drop", 0}, act{"dup", 0})
				for j := 1; j < len(pend) && j <= 6; j++ {
					menu = append(menu, act{"deliver", j}) // out of order
				}
			}
			if crashed < f {
				for x := 0; x < sc.N; x++ {
					if !w.net.Down[cl.peerIDs[x]] && x != sc.Byz {
						menu = append(menu, act{"crash", x})
					}
				}
			}
			if sc.Byz >= 0 && !byzUsed && w.kind != "" && w.viaConsensus() {
				for _, b := range w.bByzMenu() {
					menu = append(menu, act{b.kind, b.arg})
				}
			}
			if sc.Byz >= 0 && !byzUsed && w.kind == "" {
				// the equivocating node additionally sends a partial signature, made with its own share, over other data
				menu = append(menu, act{"byz-all", 0}, act{"byz-one", 0}, act{"byz-badsig", 0}, act{"byz-relabel", 0}, act{"byz-relabel", 1},
					act{"byz-unsigned", 0}, act{"byz-unsigned", 1}, act{"byz-unsigned", 2})
			}
			c := 0
			if step < len(sc.Choices) {
				c = sc.Choices[step]
				if c >= len(menu) {
					// The replayed prefix does not lead to the same menu (residual scheduling nondeterminism of the Go runtime
					// inside one delivery step): never an alarm; the branch is abandoned and counted.
					ex.diverged = true
					c = 0
				}
			}
			ex.steps = append(ex.steps, c01step{menu: len(menu)})
			ex.choices = append(ex.choices, c)
			if c != 0 {
				ex.devs++
			}
			a := menu[c]
			switch a.kind {
			case "default":
				if len(pend) == 0 && latePending {
					// the late validator client signs now (the network went quiet for the first time)
					latePending = false
					go w.nodes[sc.Late-1].bVC(duty)
					ex.trace = append(ex.trace, fmt.Sprintf("LATE-VC node%d", sc.Late-1))
				} else if len(pend) == 0 {
					// nothing in flight: let virtual time pass (round timers); stop when nothing happens any more
					before := len(w.emits)
					time.Sleep(1500 * time.Millisecond)
					synctest.Wait()
					if len(w.net.Pending()) == 0 && len(w.emits) == before {
						idle++
					} else {
						idle = 0
					}
					ex.trace = append(ex.trace, "time+1.5s")
				} else {
					p := w.net.Take(pend[0].Seq)
					w.net.Deliver(p)
					ex.trace = append(ex.trace, c01pkt("deliver", w, p))
				}
			case "drop":
				p := w.net.Take(pend[0].Seq)
				ex.trace = append(ex.trace, c01pkt("DROP", w, p))
			case "dup":
				p := pend[0]
				w.net.Deliver(p)
				ex.trace = append(ex.trace, c01pkt("DUPLICATE", w, p))
			case "deliver":
				p := w.net.Take(pend[a.arg].Seq)
				w.net.Deliver(p)
				ex.trace = append(ex.trace, c01pkt(fmt.Sprintf("OUT-OF-ORDER(%d)", a.arg), w, p))
			case "crash":
				crashed++
				w.net.Down[cl.peerIDs[a.arg]] = true
				w.nodes[a.arg].cancel()
				// the process dies: its asynchronous retried calls (which run on the retryer's own context) die with it
				w.nodes[a.arg].stopRetryer(ctx)
				ex.trace = append(ex.trace, fmt.Sprintf("CRASH node%d", a.arg))
			case "byz-relabel":
				// one Byzantine strategy (a single deviation): the node sends a genuine partial signature made with its own share
				// - over data of its choice (arg 0) or over what another node proposes (arg 1) - and then the very same signature
				// again under every other share index
				byzUsed = true
				data := c01attData(0x66)
				if a.arg == 1 {
					data = w.nodes[(sc.Byz+1)%sc.N].cand
				}
				if par, err := w.signPartial(sc.Byz+1, data); err == nil {
					idxs := []int{sc.Byz + 1}
					for x := 1; x <= sc.N; x++ {
						if x != sc.Byz+1 {
							idxs = append(idxs, x)
						}
					}
					for _, shareIdx := range idxs {
						set, _ := core.ParSignedDataSetToProto(core.ParSignedDataSet{cl.corePK: core.ParSignedData{SignedData: par.SignedData, ShareIdx: shareIdx}})
						b, _ := proto.Marshal(&pbv1.ParSigExMsg{Duty: core.DutyToProto(duty), DataSet: set})
						frame := append(c01uvarint(uint64(len(b))), b...)
						for x := 0; x < sc.N; x++ {
							if x != sc.Byz {
								w.net.Inject(cl.peerIDs[sc.Byz], cl.peerIDs[x], "/charon/parsigex/2.0.0", frame)
							}
						}
					}
				}
				ex.trace = append(ex.trace, fmt.Sprintf("BYZ relabel-flood(%d)", a.arg))
			case "byz-unsigned":
				// a GENUINE partial signature of the node's own share over the data another node proposes (valid for the receive-side
				// verifier), in an object whose fields outside the signing root are of the sender's choosing: validator index of
				// another / of no validator (arg 0 / 1), other aggregation and committee bits (arg 2)
				byzUsed = true
				for _, v := range cl.vals[:w.nvals] {
					par, err := w.signPartialFor(v, sc.Byz+1, w.dataFor(w.nodes[(sc.Byz+1)%sc.N].cand, v))
					if err != nil {
						continue
					}
					att := par.SignedData.(core.VersionedAttestation)
					other := eth2p0.ValidatorIndex(999)
					if a.arg == 0 {
						other = cl.vals[(int(v.vci)/2+1)%2].valIdx // the other validator of the cluster
						if other == v.valIdx {
							other = cl.vals[1].valIdx
						}
					}
					switch {
					case a.arg <= 1:
						att.ValidatorIndex = &other
					case att.Electra != nil:
						cb := bitfield.NewBitvector64()
						cb.SetBitAt(uint64(v.commIdx)+1, true)
						bits := bitfield.NewBitlist(8)
						bits.SetBitAt(v.vci+1, true)
						att.Electra.CommitteeBits, att.Electra.AggregationBits = cb, bits
					case att.Deneb != nil:
						bits := bitfield.NewBitlist(8)
						bits.SetBitAt(v.vci+1, true)
						att.Deneb.AggregationBits = bits
					}
					set, err := core.ParSignedDataSetToProto(core.ParSignedDataSet{v.corePK: core.ParSignedData{SignedData: att, ShareIdx: sc.Byz + 1}})
					if err != nil {
						continue
					}
					b, _ := proto.Marshal(&pbv1.ParSigExMsg{Duty: core.DutyToProto(duty), DataSet: set})
					frame := append(c01uvarint(uint64(len(b))), b...)
					for x := 0; x < sc.N; x++ {
						if x != sc.Byz {
							w.net.Inject(cl.peerIDs[sc.Byz], cl.peerIDs[x], "/charon/parsigex/2.0.0", frame)
						}
					}
				}
				ex.trace = append(ex.trace, fmt.Sprintf("BYZ genuine-signature-other-unsigned-fields(%d)", a.arg))
			case "b-own", "b-other", "b-badsig", "b-relabel", "b-unsigned":
				byzUsed = true
				ex.trace = append(ex.trace, w.bByzAct(duty, c01bact{a.kind, a.arg}))
			case "byz-all", "byz-one", "byz-badsig":
				byzUsed = true
				par, err := w.signPartial(sc.Byz+1, c01attData(0x66))
				if a.kind == "byz-badsig" && err == nil {
					// a partial over the data everybody proposes, carrying a signature (made with its own share) of other data
					good, e2 := w.signPartial(sc.Byz+1, w.nodes[(sc.Byz+1)%sc.N].cand)
					err = e2
					if e2 == nil {
						sd, e3 := good.SetSignature(par.Signature())
						err = e3
						if e3 == nil {
							par = core.ParSignedData{SignedData: sd, ShareIdx: good.ShareIdx}
						}
					}
				}
				if err == nil {
					set, _ := core.ParSignedDataSetToProto(core.ParSignedDataSet{cl.corePK: par})
					msg := &pbv1.ParSigExMsg{Duty: core.DutyToProto(duty), DataSet: set}
					b, _ := proto.Marshal(msg)
					frame := append(c01uvarint(uint64(len(b))), b...)
					for x := 0; x < sc.N; x++ {
						if x == sc.Byz || (a.kind == "byz-one" && x != (sc.Byz+1)%sc.N) {
							continue
						}
						w.net.Inject(cl.peerIDs[sc.Byz], cl.peerIDs[x], "/charon/parsigex/2.0.0", frame)
					}
				}
				ex.trace = append(ex.trace, "BYZ "+a.kind)
			}
			synctest.Wait()
			if idle >= 8 {
				break
			}
		}
		ex.emits = w.emits
		ex.bnCalls = w.bnCalls
		for _, n := range w.nodes {
			n.stopRetryer(ctx) // as app.go does on shutdown: ends the asynchronous calls that are still being retried
		}
		synctest.Wait()
		cancelAll()
		synctest.Wait()
		// stream handlers run on contexts of their own (receive timeout): let them time out before the bubble ends
		time.Sleep(3 * time.Minute)
		synctest.Wait()
	})
	return ex
}

func c01uvarint(x uint64) []byte {
	var b []byte
	for x >= 0x80 {
		b = append(b, byte(x)|0x80)
		x >>= 7
	}
	return append(b, byte(x))
}

func c01pkt(verb string, w *c01world, p *fakenet.Packet) string {
	idx := func(id peer.ID) int {
		for i, x := range w.cl.peerIDs {
			if x == id {
				return i
			}
		}
		return -1
	}
	proto := "qbft"
	if strings.Contains(string(p.Proto), "parsigex") {
		proto = "parsigex"
	}
	return fmt.Sprintf("%s %s %d->%d #%d", verb, proto, idx(p.From), idx(p.To), p.Seq)
}

// c01check judges one execution. A violation that exists only in what the beacon nodes were handed (the same objects are
// fine at Broadcast and AggSigDB.Store, where they are attributed by the set's public key) in an execution whose Byzantine
// node sent a genuine partial signature inside an object with other unsigned fields is classified by that cause.
func c01check(ex c01exec) (sigs, descs []string) {
	sigs, descs = c01checkEmits(ex.emits)
	byzUnsigned, cause := false, "peer-chosen-unsigned-attestation-fields"
	for _, l := range ex.trace {
		if strings.HasPrefix(l, "BYZ genuine-signature-other-unsigned-fields(sync-message") {
			// sync committee messages: only a peer-chosen VALIDATOR INDEX makes the beacon node attribute the message to another
			// validator (modifications 1 and 2); a peer-chosen slot does not
			if strings.Contains(l, fmt.Sprintf("mod %d)", c01bModOtherVal)) || strings.Contains(l, fmt.Sprintf("mod %d)", c01bModNoVal)) {
				byzUnsigned, cause = true, "peer-chosen-unsigned-sync-message-fields"
			}
			continue
		}
		byzUnsigned = byzUnsigned || strings.HasPrefix(l, "BYZ genuine-signature-other-unsigned-fields")
	}
	if !byzUnsigned || len(sigs) == 0 {
		return
	}
	var inner []c01emit
	for _, e := range ex.emits {
		if e.where != "beacon-node" {
			inner = append(inner, e)
		}
	}
	in, _ := c01checkEmits(inner)
	has := map[string]bool{}
	for _, s := range in {
		has[s] = true
	}
	for i, s := range sigs {
		if !has[s] {
			sigs[i] = s + " cause=" + cause
		}
	}
	return
}

func c01checkEmits(emits []c01emit) (sigs, descs []string) {
	roots := map[string]map[[32]byte]bool{}
	for _, e := range emits {
		if !e.valid {
			sigs = append(sigs, "kind=invalid-group-signature-emitted where="+e.where)
			descs = append(descs, fmt.Sprintf("node %d handed an object to %s for %s/%s whose signature does not verify under the validator's group key for the object's own signing root", e.node, e.where, e.dutyStr, e.pubkey))
		}
		k := e.dutyStr + "/" + string(e.pubkey)
		if roots[k] == nil {
			roots[k] = map[[32]byte]bool{}
		}
		roots[k][e.root] = true
	}
	for k, rs := range roots {
		if len(rs) > 1 {
			var l []string
			for r := range rs {
				l = append(l, hex.EncodeToString(r[:4]))
			}
			sort.Strings(l)
			sigs = append(sigs, "kind=two-signing-roots-for-one-duty-and-validator")
			descs = append(descs, fmt.Sprintf("fully signed objects with different signing roots %v were emitted for %s", l, k))
		}
	}
	return
}

func TestVerifC01(t *testing.T) {
	r := enumx.New(t, "C01")
	defer r.Finish()
	judge := func(sc c01script) c01exec {
		ex := c01run(t, sc)
		if ex.diverged {
			r.Count("replay_divergences_branch_abandoned", 1)
			return ex
		}
		sigs, descs := c01check(ex)
		bn, an, bnn := 0, 0, 0
		kind := sc.Duty
		if kind == "" {
			kind = "attester"
		}
		roots := map[[32]byte]bool{} // distinct signing roots emitted for the first validator of the duty
		for _, e := range ex.emits {
			if e.pubkey == c01newCluster(t, sc.N).vals[0].corePK {
				roots[e.root] = true
			}
			switch e.where {
			case "broadcast":
				bn++
			case "beacon-node":
				bnn++
			default:
				an++
			}
		}
		r.Count("objects_submitted_to_beacon_node", bnn)
		cls := fmt.Sprintf("n=%d:%s:v=%d%s%s%s:devs=%d:broadcasts=%d", sc.N, sc.Inputs, max(sc.Vals, 1), sc.Att, sc.AggDB, sc.Wire, ex.devs, bn)
		if sc.Duty != "" {
			// duty-type dimension: per type what reached the beacon stub / Broadcast / AggSigDB.Store, and how the camp scenarios ended
			cls = fmt.Sprintf("%s:%s%s:n=%d:%s:byz=%d:camps=%v:plan=%v%s:late=%d:%s%s:devs=%d:broadcasts=%d:roots=%d", sc.Duty, sc.Ver, "", sc.N, sc.Inputs, sc.Byz, sc.Camps, sc.Plan, sc.Place, sc.Late, sc.AggDB, sc.Wire, ex.devs, bn, len(roots))
			r.Count("executions:"+kind, 1)
			r.Count("wire_packets_and_time_steps:"+kind, len(ex.steps))
			r.Count("beacon_node_objects:"+kind, bnn)
			r.Count("broadcast_objects:"+kind, bn)
			r.Count("aggsigdb_objects:"+kind, an)
			for ep, c := range ex.bnCalls {
				r.Count("beacon_node_calls:"+ep, c)
			}
			if len(sc.Camps) > 0 {
				r.Count(fmt.Sprintf("executions_by_distinct_signing_roots_emitted:%s:%d", kind, len(roots)), 1)
			}
		}
		r.Eval(cls)
		r.Outcome(cls)
		r.Steps(len(ex.steps))
		r.Count("objects_broadcast", bn)
		r.Count("objects_stored_in_aggsigdb", an)
		for i, sig := range sigs {
			ok := true
			for k := 0; k < 3; k++ {
				s2, _ := c01check(c01run(t, sc))
				if !strings.Contains(strings.Join(s2, "|"), sig) {
					ok = false
				}
			}
			if !ok {
				r.Unconfirmed(sig)
				continue
			}
			if sc.Duty != "" {
				r.Violation(fmt.Sprintf("%s duty=%s n=%d", sig, sc.Duty, sc.N), fmt.Sprintf("%s [duty=%s %s n=%d inputs=%s byz=%d camps=%v byz-plan=%v %s late=%d %s%s schedule: %s]", descs[i], sc.Duty, sc.Ver, sc.N, sc.Inputs, sc.Byz, sc.Camps, sc.Plan, sc.Place, sc.Late, sc.AggDB, sc.Wire, strings.Join(ex.trace, " | ")), sc)
				continue
			}
			r.Violation(fmt.Sprintf("%s n=%d", sig, sc.N), fmt.Sprintf("%s [n=%d inputs=%s byz=%d validators=%d %s schedule: %s]", descs[i], sc.N, sc.Inputs, sc.Byz, max(sc.Vals, 1), sc.Att, strings.Join(ex.trace, " | ")), sc)
		}
		return ex
	}
	if r.ReplayPath != "" {
		var sc c01script
		if err := r.ReplayCase(&sc); err != nil {
			t.Fatal(err)
		}
		ex := judge(sc)
		fmt.Printf("replay n=%d inputs=%s byz=%d choices=%v\n  trace: %s\n  emits: %+v\n", sc.N, sc.Inputs, sc.Byz, sc.Choices, strings.Join(ex.trace, " | "), ex.emits)
		return
	}
	th := enumx.Thorough()
	type cfg struct {
		n      int
		inputs string
		byz    int
		maxDev int
		vals   int
		att    string
		aggdb  string
		wire   string
	}
	cfgs := []cfg{{n: 4, inputs: "distinct", byz: -1, maxDev: 1, vals: 1}, {n: 4, inputs: "leader-differs", byz: 1, maxDev: 1, vals: 1}, {n: 3, inputs: "distinct", byz: -1, maxDev: 1, vals: 1}, {n: 4, inputs: "equal", byz: 0, maxDev: 1, vals: 1},
		// two validators of the cluster attesting in the slot; electra attestations without validator index (all partial
		// signatures come in the form peers on v1.3.0-v1.4.1 send, so that the broadcaster has to resolve the indices)
		{n: 4, inputs: "equal", byz: 1, maxDev: 1, vals: 2}, {n: 4, inputs: "equal", byz: -1, maxDev: 1, vals: 2, att: "electra-noidx"}, {n: 4, inputs: "leader-differs", byz: 2, maxDev: 1, vals: 2, att: "electra-noidx"}, {n: 3, inputs: "distinct", byz: -1, maxDev: 1, vals: 1, att: "electra-noidx"},
		// the production default wiring: aggsigdb v1 and asynchronous, retried calls between the components
		{n: 4, inputs: "distinct", byz: -1, maxDev: 1, vals: 1, aggdb: "v1", wire: "retry"}, {n: 4, inputs: "equal", byz: 1, maxDev: 1, vals: 2, aggdb: "v1", wire: "retry"},
		{n: 3, inputs: "distinct", byz: -1, maxDev: 1, vals: 1, att: "electra-noidx", aggdb: "v1", wire: "retry"}, {n: 4, inputs: "leader-differs", byz: 2, maxDev: 1, vals: 1, wire: "retry"}}
	if th {
		cfgs = []cfg{{n: 4, inputs: "distinct", byz: -1, maxDev: 2, vals: 1}, {n: 4, inputs: "leader-differs", byz: 1, maxDev: 2, vals: 1}, {n: 3, inputs: "distinct", byz: -1, maxDev: 2, vals: 1}, {n: 4, inputs: "equal", byz: 0, maxDev: 2, vals: 1}, {n: 4, inputs: "leader-differs", byz: -1, maxDev: 2, vals: 1}, {n: 3, inputs: "leader-differs", byz: -1, maxDev: 3, vals: 1},
			{n: 4, inputs: "equal", byz: 1, maxDev: 2, vals: 2}, {n: 4, inputs: "equal", byz: -1, maxDev: 2, vals: 2, att: "electra-noidx"}, {n: 4, inputs: "leader-differs", byz: 2, maxDev: 2, vals: 2, att: "electra-noidx"}, {n: 3, inputs: "distinct", byz: -1, maxDev: 2, vals: 1, att: "electra-noidx"}, {n: 4, inputs: "distinct", byz: 0, maxDev: 2, vals: 2, att: "electra-noidx"},
			{n: 4, inputs: "distinct", byz: -1, maxDev: 2, vals: 1, aggdb: "v1", wire: "retry"}, {n: 4, inputs: "equal", byz: 1, maxDev: 2, vals: 2, aggdb: "v1", wire: "retry"},
			{n: 3, inputs: "distinct", byz: -1, maxDev: 2, vals: 1, att: "electra-noidx", aggdb: "v1", wire: "retry"}, {n: 4, inputs: "leader-differs", byz: 2, maxDev: 2, vals: 1, wire: "retry"}, {n: 4, inputs: "equal", byz: 0, maxDev: 2, vals: 1, aggdb: "v1"}}
	}
	// order (it only matters when the time budget ends the run, i.e. in the thorough tier): the complete camp x plan products of
	// the duty types without consensus, the proposer / aggregator configurations and the selected scenarios with one more
	// deviation, the attester configurations, at the end the most expensive configuration of the duty-type dimension
	products, deeper, last := c01bScripts(th)
	scripts := deeper
	for _, c := range cfgs {
		scripts = append(scripts, c01script{N: c.n, Inputs: c.inputs, Byz: c.byz, MaxDev: c.maxDev, Vals: c.vals, Att: c.att, AggDB: c.aggdb, Wire: c.wire})
	}
	scripts = append(scripts, last...)
	sampled := 0
	sampledKind := map[string]bool{}
	for _, base := range products {
		// a scenario of a complete product: sharded by scenario (quick: the one execution without deviation; thorough: all
		// executions with <= 1 deviation, in the shard that owns the scenario)
		if !r.Mine() {
			continue
		}
		var rec func(prefix []int, devs int)
		rec = func(prefix []int, devs int) {
			if r.Expired() {
				return
			}
			sc := base
			sc.Choices = prefix
			ex := judge(sc)
			if !sampledKind[base.Duty] && base.Byz >= 0 && devs == 0 {
				sampledKind[base.Duty] = true
				r.Sample(map[string]any{"duty": base.Duty, "n": base.N, "camps": base.Camps, "byz_plan": base.Plan, "placement": base.Place, "schedule": ex.trace, "emitted": len(ex.emits)})
			}
			if devs >= base.MaxDev || ex.diverged {
				return
			}
			for i := len(prefix); i < len(ex.steps); i++ {
				for alt := 1; alt < ex.steps[i].menu; alt++ {
					rec(append(append([]int{}, ex.choices[:i]...), alt), devs+1)
				}
			}
		}
		rec(nil, 0)
	}
	for _, base := range scripts {
		// DFS over deviation placements (CHESS-style: replay the prefix, defaults afterwards)
		var rec func(prefix []int, devs int)
		unit := 0
		rec = func(prefix []int, devs int) {
			if r.Expired() {
				return
			}
			sc := base
			sc.Choices = prefix
			ex := judge(sc)
			if sampled < 2 && devs == 1 {
				sampled++
				r.Sample(map[string]any{"n": base.N, "inputs": base.Inputs, "byz": base.Byz, "schedule": ex.trace})
			}
			if devs >= base.MaxDev || ex.diverged {
				return
			}
			for i := len(prefix); i < len(ex.steps); i++ {
				for alt := 1; alt < ex.steps[i].menu; alt++ {
					if devs == 0 {
						unit++
						if r.NSh > 1 && unit%r.NSh != r.Shard {
							continue
						}
					}
					np := append(append([]int{}, ex.choices[:i]...), alt)
					rec(np, devs+1)
				}
			}
		}
		rec(nil, 0)
	}
}
