package parsigdb

// C18 (partial signature store): StoreInternal / StoreExternal with threshold 2, three internal and three threshold
// subscribers. Parties: the two sets handed in, the private entries map, every subscriber's argument.

import (
	"context"
	"testing"
	"time"

	"github.com/obolnetwork/charon/core"
	"github.com/obolnetwork/charon/zzverif/alias"
	"github.com/obolnetwork/charon/zzverif/enumx"
)

const c18pk = core.PubKey("0x8a1d7b8dd64e0aafe7ea7b6c95065c9364cf99d38470db679bdf5c9bd8b0e6cd5c7a3b0a6d4c2e3c7a5e1e9e2b1a7c3d")

func c18spec(u alias.Unit, master core.SignedData, internal bool) alias.Spec {
	path := "parsigdb/StoreExternal"
	if internal {
		path = "parsigdb/StoreInternal"
	}
	return alias.Spec{Path: path, Type: u.Name, Modes: []string{alias.Input, alias.SubArg}, Run: func(w *alias.World) {
		ctx := context.Background()
		db := NewMemDB(2, alias.NewNopDeadliner(), NewMemDBMetadata(12, time.Now()))
		for _, n := range []string{"internal-sub1", "internal-sub2", "internal-sub3"} {
			n := n
			db.SubscribeInternal(func(_ context.Context, _ core.Duty, set core.ParSignedDataSet) error {
				w.Sub(n, set)
				return nil
			})
		}
		fired := 0
		for _, n := range []string{"threshold-sub1", "threshold-sub2", "threshold-sub3"} {
			n := n
			db.SubscribeThreshold(func(_ context.Context, _ core.Duty, out map[core.PubKey][]core.ParSignedData) error {
				fired++
				w.Sub(n, out)
				return nil
			})
		}
		duty := core.Duty{Slot: 123, Type: u.Duty}
		set1 := core.ParSignedDataSet{c18pk: core.ParSignedData{SignedData: alias.DeepCopy(master), ShareIdx: 1}}
		set2 := core.ParSignedDataSet{c18pk: core.ParSignedData{SignedData: alias.DeepCopy(master), ShareIdx: 2}}
		w.Input("first-set", set1)
		var err error
		if internal {
			err = db.StoreInternal(ctx, duty, set1)
		} else {
			err = db.StoreExternal(ctx, duty, set1)
		}
		w.Outcome("store-first", err)
		if err != nil {
			w.Fail("store: %v", err)
			return
		}
		w.MutateInputs()
		w.Held("db.entries", db.entries)
		w.Input("second-set", set2)
		err = db.StoreExternal(ctx, duty, set2)
		w.Outcome("store-second", err)
		w.MutateInputs()
		if w.Mode == alias.Clean && fired != 3 {
			w.Fail("threshold subscribers not called (%d): %v", fired, err)
			return
		}
		w.Observe("db.entries(after)", db.entries)
	}}
}

func TestVerifC18ParSigDB(t *testing.T) {
	r := enumx.New(t, "C18")
	defer r.Finish()
	for _, u := range alias.SignedUnits(t) {
		if u.Duty == core.DutyUnknown {
			continue
		}
		master := u.Gen().(core.SignedData)
		for _, internal := range []bool{true, false} {
			s := c18spec(u, master, internal)
			if !r.Mine() {
				continue
			}
			if r.Expired() {
				return
			}
			if !alias.Wanted(r, s.Path, s.Type) {
				continue
			}
			alias.Run(r, s)
		}
	}
}
