package parsigdb

// C07 – partial-signature store triggers aggregation exactly once, on matching shares.
// Part A: exhaustive enumeration of arrival sequences (sequential). Part B: schedx interleavings.
// The oracle takes the store's own private state as the ground truth of what was *accepted*
// and judges triggers against it (DESIGN.md §5 C07).

import (
	"bytes"
	"context"
	"encoding/json"
	"fmt"
	"os"
	"path/filepath"
	"runtime"
	"sort"
	"strings"
	"sync"
	"testing"
	"time"

	eth2p0 "github.com/attestantio/go-eth2-client/spec/phase0"

	"github.com/obolnetwork/charon/core"
	"github.com/obolnetwork/charon/zzverif/schedx"
)

// ---- data alphabet -------------------------------------------------------------------------

const (
	c07Randao = "randao" // ordinary expiring duty with message roots
	c07Exit   = "exit"   // exempt duty (never expires)
	c07Sig    = "sig"    // DutySignature: no message roots
	c07Old    = "old"    // expired duty
)

func c07duty(kind string) core.Duty {
	switch kind {
	case c07Exit:
		return core.NewVoluntaryExit(20)
	case c07Sig:
		return core.NewSignatureDuty(30)
	case c07Old:
		return core.Duty{Slot: 1, Type: core.DutyRandao}
	}
	return core.NewRandaoDuty(10)
}

// c07par builds the partial signature of share over "root" r (1 or 2) for validator v.
func c07par(kind string, share int, r int, v core.PubKey) core.ParSignedData {
	var sig eth2p0.BLSSignature
	// root numbers >= 16 carry the signature bytes of root r&15: different data under the same signature
	sig[0], sig[1], sig[2] = byte(share), byte(r&15), v[0]
	switch kind {
	case c07Exit:
		return core.NewPartialSignedVoluntaryExit(&eth2p0.SignedVoluntaryExit{
			Message: &eth2p0.VoluntaryExit{Epoch: eth2p0.Epoch(r), ValidatorIndex: 7}, Signature: sig}, share)
	case c07Sig:
		return core.NewPartialSignature(core.SigFromETH2(sig), share)
	}
	return core.NewPartialSignedRandao(eth2p0.Epoch(r), sig, share)
}

type c07entry struct {
	V     string `json:"v"`
	Share int    `json:"share"`
	Root  int    `json:"root"`
}

type c07call struct {
	Slot     uint64     `json:"slot,omitempty"` // 0 = the default slot of the duty kind
	Kind     string     `json:"kind"`
	Internal bool       `json:"internal"`
	Entries  []c07entry `json:"entries"`
}

func (c c07call) String() string {
	var p []string
	for _, e := range c.Entries {
		p = append(p, fmt.Sprintf("%s:s%dr%d", e.V, e.Share, e.Root))
	}
	in := "ext"
	if c.Internal {
		in = "int"
	}
	return fmt.Sprintf("%s/%s{%s}", c.Kind, in, strings.Join(p, ","))
}

func (c c07call) duty() core.Duty {
	d := c07duty(c.Kind)
	if c.Slot != 0 {
		d.Slot = c.Slot
	}
	return d
}

func (c c07call) set() core.ParSignedDataSet {
	s := core.ParSignedDataSet{}
	for _, e := range c.Entries {
		s[core.PubKey(e.V)] = c07par(c.Kind, e.Share, e.Root, core.PubKey(e.V))
	}
	return s
}

// ---- stub deadliner for the sequential part ---------------------------------------------------

type c07deadliner struct{ ch chan core.Duty }

func (d c07deadliner) Add(duty core.Duty) core.DeadlineStatus {
	switch {
	case duty.Type == core.DutyExit || duty.Type == core.DutyBuilderRegistration:
		return core.DeadlineExempt
	case duty.Slot < 5:
		return core.DeadlineExpired
	}
	return core.DeadlineScheduled
}
func (d c07deadliner) C() <-chan core.Duty { return d.ch }

// ---- observation of the real private state ------------------------------------------------------

// c07id identifies a partial signature by content. The harness alphabet only varies share index, epoch
// (= signing root) and the first signature bytes, so those are compared directly (a JSON comparison of
// the whole value is 50x slower and adds nothing for this alphabet); unknown types fall back to JSON.
func c07id(p core.ParSignedData) string {
	switch d := p.SignedData.(type) {
	case core.SignedRandao:
		return fmt.Sprintf("R/%d/%d/%x", p.ShareIdx, d.SignedEpoch.Epoch, d.SignedEpoch.Signature[:3]) // (d.Epoch is a method)
	case core.SignedVoluntaryExit:
		return fmt.Sprintf("E/%d/%d/%d/%x", p.ShareIdx, d.Message.Epoch, d.Message.ValidatorIndex, d.SignedVoluntaryExit.Signature[:3])
	case core.Signature:
		return fmt.Sprintf("S/%d/%x", p.ShareIdx, []byte(d)[:3])
	}
	b, err := json.Marshal(p)
	if err != nil {
		panic(err)
	}
	return string(b)
}

var c07rootCache = map[string][32]byte{}

func c07root(p core.ParSignedData) [32]byte {
	id := c07id(p)
	if r, ok := c07rootCache[id]; ok {
		return r
	}
	r, err := p.MessageRoot()
	if err != nil {
		panic(err)
	}
	c07rootCache[id] = r
	return r
}

// c07snap returns key -> list of entry ids (in stored order).
func c07snap(db *MemDB) map[key][]core.ParSignedData {
	out := map[key][]core.ParSignedData{}
	for k, v := range db.entries {
		out[k] = append([]core.ParSignedData(nil), v...)
	}
	return out
}

func c07ids(l []core.ParSignedData) []string {
	var o []string
	for _, p := range l {
		o = append(o, c07id(p))
	}
	return o
}

// c07reached: does some signing root (for DutySignature: the whole list) have >= t distinct shares?
func c07reached(typ core.DutyType, l []core.ParSignedData, t int) bool {
	if typ == core.DutySignature {
		return len(l) >= t
	}
	groups := map[[32]byte]map[int]bool{}
	for _, p := range l {
		r := c07root(p)
		if groups[r] == nil {
			groups[r] = map[int]bool{}
		}
		groups[r][p.ShareIdx] = true
	}
	for _, g := range groups {
		if len(g) >= t {
			return true
		}
	}
	return false
}

type c07trig struct {
	sub  int
	duty core.Duty
	out  map[core.PubKey][]core.ParSignedData
}

type c07inst struct {
	db       *MemDB
	t        int
	trigs    []c07trig
	internal []struct {
		sub  int
		duty core.Duty
		set  core.ParSignedDataSet
	}
	hook func(what string) // scheduling point inside subscribers (Part B)
	// keys that lost an entry through the per-share cap of never-expiring duties
	evicted map[key]bool
}

func c07new(t int, dl core.Deadliner) *c07inst {
	in := &c07inst{t: t}
	in.db = NewMemDB(t, dl, NewMemDBMetadata(12, time.Unix(0, 0)))
	for s := 0; s < 2; s++ {
		s := s
		in.db.SubscribeThreshold(func(_ context.Context, d core.Duty, out map[core.PubKey][]core.ParSignedData) error {
			if in.hook != nil {
				in.hook("thresh")
			}
			in.trigs = append(in.trigs, c07trig{s, d, out})
			return nil
		})
		in.db.SubscribeInternal(func(_ context.Context, d core.Duty, set core.ParSignedDataSet) error {
			if in.hook != nil {
				in.hook("internal")
			}
			in.internal = append(in.internal, struct {
				sub  int
				duty core.Duty
				set  core.ParSignedDataSet
			}{s, d, set})
			return nil
		})
	}
	return in
}

type c07viol struct{ sig, desc string }

// c07checkSet validates one set handed to a threshold subscriber against the store's state.
func c07checkSet(typ core.DutyType, t int, v core.PubKey, l []core.ParSignedData, stored []core.ParSignedData) *c07viol {
	if len(l) < t {
		return &c07viol{"kind=trigger-with-fewer", fmt.Sprintf("validator %s: handed %d partials, threshold %d", v, len(l), t)}
	}
	if len(l) != t {
		return &c07viol{"kind=trigger-not-exactly-threshold", fmt.Sprintf("validator %s: handed %d partials, threshold %d", v, len(l), t)}
	}
	shares := map[int]bool{}
	var root [32]byte
	st := map[string]bool{}
	for _, s := range stored {
		st[c07id(s)] = true
	}
	for i, p := range l {
		if shares[p.ShareIdx] {
			return &c07viol{"kind=trigger-repeated-share", fmt.Sprintf("validator %s: share %d twice", v, p.ShareIdx)}
		}
		shares[p.ShareIdx] = true
		if typ != core.DutySignature {
			r := c07root(p)
			if i > 0 && r != root {
				return &c07viol{"kind=trigger-mixed-roots", fmt.Sprintf("validator %s: partials over different signing roots", v)}
			}
			root = r
		}
		if !st[c07id(p)] {
			return &c07viol{"kind=trigger-with-unstored-partial", fmt.Sprintf("validator %s: handed a partial (share %d) that is not stored", v, p.ShareIdx)}
		}
	}
	return nil
}

// c07onlyEvicted: after is before minus entries of shares that store in this batch (order otherwise unchanged).
func c07onlyEvicted(before, after []core.ParSignedData, set core.ParSignedDataSet) bool {
	storing := map[int]bool{}
	for _, p := range set {
		storing[p.ShareIdx] = true
	}
	j := 0
	for _, b := range before {
		if j < len(after) && c07id(after[j]) == c07id(b) {
			j++
			continue
		}
		if !storing[b.ShareIdx] {
			return false
		}
	}
	return j == len(after)
}

// c07step applies one call and checks it against the state before/after. Sequential use only.
func (in *c07inst) c07step(c c07call) (viol []c07viol) {
	duty := c.duty()
	before := c07snap(in.db)
	nTr, nIn := len(in.trigs), len(in.internal)
	set := c.set()
	var err error
	if c.Internal {
		err = in.db.StoreInternal(context.Background(), duty, set)
	} else {
		err = in.db.StoreExternal(context.Background(), duty, set)
	}
	after := c07snap(in.db)
	trigs, ints := in.trigs[nTr:], in.internal[nIn:]
	bad := func(sig, f string, a ...any) { viol = append(viol, c07viol{sig, fmt.Sprintf(f, a...)}) }

	if c.Kind == c07Old {
		if err != nil {
			bad("kind=expired-store-error", "store for expired duty returned %v", err)
		}
		if len(trigs) > 0 || len(after) != len(before) {
			bad("kind=expired-duty-stored", "partials of an expired duty were stored or triggered")
		}
		return viol
	}
	touched := map[key]bool{}
	for pk, p := range set {
		k := key{Duty: duty, PubKey: pk}
		touched[k] = true
		bids, aids := c07ids(before[k]), c07ids(after[k])
		same := strings.Join(bids, "|") == strings.Join(aids, "|")
		var prev *core.ParSignedData
		for i := range before[k] {
			if before[k][i].ShareIdx == p.ShareIdx {
				prev = &before[k][i]
			}
		}
		switch {
		case prev != nil && c07id(*prev) == c07id(p): // duplicate
			if !same {
				bad("kind=duplicate-changed-state", "duplicate of share %d for %s changed what is stored", p.ShareIdx, pk)
			}
		case prev != nil: // same share, different data
			if err == nil {
				bad("kind=equivocation-not-rejected", "share %d signed different data for %s and the store returned no error", p.ShareIdx, pk)
			}
			if !same {
				bad("kind=equivocation-disturbed-state", "rejected share %d for %s changed what is stored", p.ShareIdx, pk)
			}
		default: // new share
			appended := len(aids) == len(bids)+1 && strings.Join(aids[:len(bids)], "|") == strings.Join(bids, "|") && aids[len(bids)] == c07id(p)
			if err == nil && !appended {
				bad("kind=valid-share-not-stored", "new share %d for %s was not appended although the store returned nil", p.ShareIdx, pk)
			}
			if err != nil && !appended && !same {
				bad("kind=store-corrupted", "failed store left an unexpected entry list for %s", pk)
			}
		}
	}
	for k := range after {
		if !touched[k] && strings.Join(c07ids(before[k]), "|") != strings.Join(c07ids(after[k]), "|") {
			if c.Kind == c07Exit && c07onlyEvicted(before[k], after[k], set) {
				if in.evicted == nil {
					in.evicted = map[key]bool{}
				}
				in.evicted[k] = true
				continue // by design: never-expiring duties are capped per share, the storing share's oldest entry is evicted
			}
			bad("kind=unrelated-key-changed", "key %v changed although it was not in the batch", k)
		}
	}
	for k := range before {
		if _, ok := after[k]; !ok {
			// a whole entry may only vanish through the cap on never-expiring duties, and only if everything in it was the
			// storing share's own (other shares' accepted partials are not the storing share's to evict)
			if c.Kind == c07Exit && c07onlyEvicted(before[k], nil, set) {
				if in.evicted == nil {
					in.evicted = map[key]bool{}
				}
				in.evicted[k] = true
				continue
			}
			bad("kind=unrelated-key-changed", "key %v vanished although it held accepted partials of shares that were not storing", k)
		}
	}
	// Triggers: exactly the validators whose accepted partials reached threshold during this call.
	expect := map[core.PubKey]bool{}
	for k := range touched {
		if !c07reached(duty.Type, before[k], in.t) && c07reached(duty.Type, after[k], in.t) {
			expect[k.PubKey] = true
		}
	}
	for sub := 0; sub < 2; sub++ {
		got := map[core.PubKey]int{}
		for _, tr := range trigs {
			if tr.sub != sub {
				continue
			}
			if tr.duty != duty {
				bad("kind=trigger-wrong-duty", "trigger for duty %v during a store of %v", tr.duty, duty)
			}
			for pk, l := range tr.out {
				got[pk]++
				if v := c07checkSet(duty.Type, in.t, pk, l, after[key{Duty: duty, PubKey: pk}]); v != nil {
					viol = append(viol, *v)
				}
			}
		}
		for pk := range expect {
			switch {
			case got[pk] == 0 && err != nil:
				bad("kind=trigger-lost cause=error-in-same-batch", "validator %s reached threshold in this call but no trigger was delivered; the call returned: %v", pk, err)
			case got[pk] == 0:
				bad("kind=trigger-lost", "validator %s reached threshold in this call but no trigger was delivered", pk)
			case got[pk] > 1:
				bad("kind=trigger-duplicate same-call", "validator %s triggered %d times in one call", pk, got[pk])
			}
		}
		for pk, n := range got {
			if !expect[pk] && n > 0 {
				if c07reached(duty.Type, before[key{Duty: duty, PubKey: pk}], in.t) {
					bad("kind=trigger-duplicate after-threshold", "validator %s was triggered again although its threshold had been reached by an earlier call", pk)
				} else {
					bad("kind=trigger-premature", "validator %s was triggered without a threshold of matching accepted partials", pk)
				}
			}
		}
	}
	// Internal subscribers see exactly the internally stored sets.
	wantInt := 0
	if c.Internal && err == nil {
		wantInt = 2
	}
	if len(ints) != wantInt {
		bad("kind=internal-subscriber-count", "internal subscribers called %d times, want %d (internal=%v err=%v)", len(ints), wantInt, c.Internal, err)
	}
	for _, i := range ints {
		if len(i.set) != len(set) {
			bad("kind=internal-subscriber-set", "internal subscriber got %d entries, stored %d", len(i.set), len(set))
			continue
		}
		for pk, p := range set {
			if q, ok := i.set[pk]; !ok || c07id(p) != c07id(q) {
				bad("kind=internal-subscriber-set", "internal subscriber got different data for %s", pk)
			}
		}
	}
	return viol
}

// ---- Part A: sequences ------------------------------------------------------------------------------

type c07seqReplay struct {
	Property string    `json:"property"`
	Part     string    `json:"part"`
	N        int       `json:"n"`
	T        int       `json:"t"`
	MapRot   int       `json:"maprot"`
	Calls    []c07call `json:"calls"`
	Sig      string    `json:"signature"`
	Desc     string    `json:"description"`
}

func c07runSeq(t int, rot int, calls []c07call) (viol []c07viol, at int) {
	runtime.VerifSetMapRot(true, uint64(rot))
	defer runtime.VerifSetMapRot(false, 0)
	in := c07new(t, c07deadliner{ch: make(chan core.Duty)})
	for i, c := range calls {
		if v := in.c07step(c); len(v) > 0 {
			return v, i
		}
		// history oracle ("exactly once", over the whole sequence and independent of what is still stored): no subscriber is
		// ever triggered twice for one duty and validator
		type dk struct {
			duty core.Duty
			pk   core.PubKey
		}
		seen := map[dk]int{}
		for _, tr := range in.trigs {
			if tr.sub != 0 {
				continue
			}
			for pk := range tr.out {
				seen[dk{tr.duty, pk}]++
				if seen[dk{tr.duty, pk}] == 2 {
					cause := ""
					if in.evicted[key{Duty: tr.duty, PubKey: pk}] {
						cause = " cause=redelivery-after-cap-eviction"
					}
					return []c07viol{{"kind=trigger-duplicate across-history duty=" + tr.duty.Type.String() + cause, fmt.Sprintf("validator %s of duty %v was triggered a second time during call %d", pk, tr.duty, i)}}, i
				}
			}
		}
	}
	return nil, -1
}

type c07A struct {
	e       *schedx.Explorer
	seen    map[string]bool
	sampled int
}

func (a *c07A) run(n, t, rot int, calls []c07call) {
	e := a.e
	e.Rep.Executions++
	e.Rep.Transitions += len(calls)
	v, at := c07runSeq(t, rot, calls)
	if a.sampled < 2 && len(calls) >= 4 {
		a.sampled++
		e.Rep.Samples = append(e.Rep.Samples, map[string]any{"part": "A", "n": n, "t": t, "maprot": rot, "calls": fmt.Sprint(calls)})
	}
	if len(v) == 0 {
		return
	}
	e.Count("violating_sequences", 1)
	for _, x := range v {
		if a.seen[x.sig] {
			continue
		}
		a.seen[x.sig] = true
		// confirm 5 times (P3)
		ok := true
		for k := 0; k < 5; k++ {
			v2, at2 := c07runSeq(t, rot, calls)
			f := false
			for _, y := range v2 {
				if y.sig == x.sig {
					f = true
				}
			}
			if !f || at2 != at {
				ok = false
			}
		}
		if !ok {
			e.Rep.Unconfirmed++
			continue
		}
		rp := c07seqReplay{Property: "C07", Part: "A", N: n, T: t, MapRot: rot, Calls: calls[:at+1], Sig: x.sig, Desc: x.desc}
		b, _ := json.MarshalIndent(rp, "", " ")
		os.MkdirAll(e.ReplayDir, 0o755)
		path := filepath.Join(e.ReplayDir, fmt.Sprintf("C07-A-%x.json", schedxHash(b)))
		os.WriteFile(path, b, 0o644)
		e.Rep.Violations = append(e.Rep.Violations, schedx.Violation{
			Signature:   "part=A " + x.sig,
			Description: fmt.Sprintf("%s [n=%d t=%d maprot=%d calls=%v]", x.desc, n, t, rot, calls[:at+1]),
			Replay:      path,
		})
	}
}

func schedxHash(b []byte) []byte {
	h := uint64(1469598103934665603)
	for _, c := range b {
		h ^= uint64(c)
		h *= 1099511628211
	}
	return []byte{byte(h >> 40), byte(h >> 32), byte(h >> 24), byte(h >> 16), byte(h >> 8), byte(h)}
}

func permutations(n int) [][]int {
	var out [][]int
	var rec func(cur []int, used int)
	rec = func(cur []int, used int) {
		if len(cur) == n {
			out = append(out, append([]int(nil), cur...))
			return
		}
		for i := 0; i < n; i++ {
			if used&(1<<i) == 0 {
				rec(append(cur, i), used|1<<i)
			}
		}
	}
	rec(nil, 0)
	return out
}

// per-share first batch options (validators A and B; roots 1 and 2)
func c07shareOptions(full bool) [][]c07entry {
	o := [][]c07entry{
		{{"A", 0, 1}},
		{{"A", 0, 1}, {"B", 0, 1}},
		{{"A", 0, 1}, {"B", 0, 2}},
		{},
		{{"A", 0, 2}},
	}
	if full {
		o = append(o, [][]c07entry{{{"A", 0, 2}, {"B", 0, 1}}, {{"B", 0, 1}}}...)
	}
	return o
}

func c07extraOptions() [][]c07entry {
	return [][]c07entry{
		{{"A", 0, 1}}, {{"A", 0, 2}}, {{"A", 0, 17}},
		{{"A", 0, 1}, {"B", 0, 1}}, {{"A", 0, 2}, {"B", 0, 1}}, {{"A", 0, 1}, {"B", 0, 2}}, {{"A", 0, 2}, {"B", 0, 2}},
	}
}

func withShare(es []c07entry, share int) []c07entry {
	o := make([]c07entry, len(es))
	for i, e := range es {
		e.Share = share
		o[i] = e
	}
	return o
}

func c07partA(e *schedx.Explorer) {
	a := &c07A{e: e, seen: map[string]bool{}}
	thorough := schedx.Tier() == "thorough"
	unit := 0
	mine := func() bool { unit++; return e.NSh <= 1 || unit%e.NSh == e.Shard }
	for _, nt := range [][2]int{{3, 2}, {4, 3}} {
		n, t := nt[0], nt[1]
		opts := c07shareOptions(thorough || n == 3)
		if !thorough && n == 4 {
			opts = opts[:4]
		}
		perms := permutations(n)
		extras := c07extraOptions()
		// choose options per share
		idx := make([]int, n)
		for {
			for _, kind := range []string{c07Randao, c07Exit} {
				if kind == c07Exit && !thorough && n == 4 {
					continue
				}
				if !mine() {
					continue
				}
				if time.Now().After(e.Deadline) {
					e.Rep.Exhaustive = false
					e.Rep.Notes = append(e.Rep.Notes, "part A stopped by budget")
					return
				}
				for _, perm := range perms {
					base := make([]c07call, 0, n+1)
					two := false
					for _, s := range perm {
						es := withShare(opts[idx[s]], s+1)
						if len(es) == 0 {
							continue
						}
						if len(es) > 1 {
							two = true
						}
						base = append(base, c07call{Kind: kind, Entries: es})
					}
					for internalFirst := 0; internalFirst < 2; internalFirst++ {
						if internalFirst == 1 {
							if len(base) == 0 {
								continue
							}
							// the node's own share arrives through StoreInternal: mark the batch of share 1, if any
							found := false
							for i := range base {
								if base[i].Entries[0].Share == 1 {
									base[i].Internal = true
									found = true
								}
							}
							if !found {
								continue
							}
						}
						rots := 1
						if two {
							rots = 2
						}
						for rot := 0; rot < rots; rot++ {
							a.run(n, t, rot, base)
						}
						// one extra batch (duplicate / equivocation / late valid share) at every position
						for xs := 1; xs <= n; xs++ {
							for xi, xo := range extras {
								if !thorough && n == 4 && xi != 1 && xi != 3 {
									continue
								}
								extra := c07call{Kind: kind, Entries: withShare(xo, xs)}
								for pos := 0; pos <= len(base); pos++ {
									seq := make([]c07call, 0, len(base)+1)
									seq = append(seq, base[:pos]...)
									seq = append(seq, extra)
									seq = append(seq, base[pos:]...)
									for rot := 0; rot < 2; rot++ {
										if rot == 1 && !two && len(xo) == 1 {
											continue
										}
										a.run(n, t, rot, seq)
									}
								}
							}
						}
						for i := range base {
							base[i].Internal = false
						}
					}
				}
			}
			// next option vector
			j := 0
			for j < n {
				idx[j]++
				if idx[j] < len(opts) {
					break
				}
				idx[j] = 0
				j++
			}
			if j == n {
				break
			}
		}
		// Short sequences over single-validator batches for the duty kinds with special handling.
		for _, kind := range []string{c07Sig, c07Old, c07Exit, c07Randao} {
			var calls []c07call
			for s := 1; s <= n; s++ {
				for r := 1; r <= 2; r++ {
					calls = append(calls, c07call{Kind: kind, Entries: []c07entry{{"A", s, r}}})
				}
			}
			L := t + 2
			var rec func(cur []c07call)
			rec = func(cur []c07call) {
				if len(cur) > 0 && (e.NSh <= 1 || len(cur) > 1 || true) {
					a.run(n, t, 0, cur)
				}
				if len(cur) == L {
					return
				}
				for _, c := range calls {
					rec(append(cur, c))
				}
			}
			if mine() {
				rec(nil)
			}
		}
		// Never-expiring duties are capped per (share, validator, type): ten later duties of one share evict its entry of the
		// first duty. Every choice of the share that does so after the first duty's threshold was reached, followed by a
		// re-delivery of its evicted partial.
		if mine() {
			for s := 1; s <= n; s++ {
				var calls []c07call
				for q := 1; q <= t; q++ {
					calls = append(calls, c07call{Kind: c07Exit, Slot: 100, Entries: []c07entry{{"A", q, 1}}})
				}
				if s > t {
					calls = append(calls, c07call{Kind: c07Exit, Slot: 100, Entries: []c07entry{{"A", s, 1}}})
				}
				for k := uint64(1); k <= 10; k++ {
					calls = append(calls, c07call{Kind: c07Exit, Slot: 100 + k, Entries: []c07entry{{"A", s, 1}}})
				}
				calls = append(calls, c07call{Kind: c07Exit, Slot: 100, Entries: []c07entry{{"A", s, 1}}})
				a.run(n, t, 0, calls)
			}
		}
	}
}

// ---- Part B: interleavings ------------------------------------------------------------------------------

type c07bdata struct {
	in    *c07inst
	mu    sync.Mutex // harness-side records: two store threads may return concurrently if the code under test lets them
	errs  map[string]error
	done  map[string]bool
	duty  core.Duty
	trimQ bool
}

func c07scenario(name string, t int, pre []c07call, threads map[string]c07call, expiry time.Duration, clock []time.Duration) *schedx.Scenario {
	sc := &schedx.Scenario{Name: name, Params: map[string]any{"t": t, "pre": fmt.Sprint(pre), "threads": fmt.Sprint(threads)}, EnvDims: map[string]int{"maprot": 2}}
	names := make([]string, 0, len(threads))
	for k := range threads {
		names = append(names, k)
	}
	sort.Strings(names)
	sc.Setup = func(x *schedx.Exec) {
		start := time.Now()
		d := &c07bdata{errs: map[string]error{}, done: map[string]bool{}}
		x.Data = d
		var dl core.Deadliner = c07deadliner{ch: make(chan core.Duty)}
		if expiry > 0 {
			dl = core.NewDeadliner(x.Ctx, "c07", func(duty core.Duty) (time.Time, bool) {
				if duty.Type == core.DutyExit {
					return time.Time{}, false
				}
				return start.Add(expiry), true
			})
		}
		d.in = c07new(t, dl)
		if expiry > 0 {
			go d.in.db.Trim(x.Ctx)
		}
		for _, c := range pre {
			if c.Internal {
				_ = d.in.db.StoreInternal(x.Ctx, c.duty(), c.set())
			} else {
				_ = d.in.db.StoreExternal(x.Ctx, c.duty(), c.set())
			}
		}
		d.in.hook = func(what string) {
			if t := schedx.Current(); t != nil {
				t.Point("sub-" + what)
			}
		}
		for _, nm := range names {
			nm, c := nm, threads[nm]
			x.Go(nm, func(t *schedx.T) {
				var err error
				if c.Internal {
					err = d.in.db.StoreInternal(x.Ctx, c.duty(), c.set())
				} else {
					err = d.in.db.StoreExternal(x.Ctx, c.duty(), c.set())
				}
				d.mu.Lock()
				d.errs[nm], d.done[nm] = err, true
				d.mu.Unlock()
				x.Obs("%s=%v", nm, err != nil)
			})
		}
		x.Clock(clock...)
	}
	sc.StateKey = func(x *schedx.Exec) string {
		d := x.Data.(*c07bdata)
		var ks []string
		for k, l := range d.in.db.entries {
			var s []string
			for _, p := range l {
				s = append(s, fmt.Sprintf("%d.%x", p.ShareIdx, p.Signature()[:3]))
			}
			ks = append(ks, fmt.Sprintf("%v/%s:%s", k.Duty, k.PubKey, strings.Join(s, ",")))
		}
		sort.Strings(ks)
		var tr []string
		for _, t := range d.in.trigs {
			for pk, l := range t.out {
				tr = append(tr, fmt.Sprintf("%d/%s/%d", t.sub, pk, len(l)))
			}
		}
		sort.Strings(tr)
		extra := schedx.ExtraState(d.in.db, "mu", "internalSubs", "threshSubs", "entries", "keysByDuty", "threshold", "deadliner", "metadata")
		return strings.Join(ks, ";") + "|" + strings.Join(tr, ";") + fmt.Sprintf("|i%d", len(d.in.internal)) + extra
	}
	sc.Outcome = func(x *schedx.Exec) string {
		d := x.Data.(*c07bdata)
		var o []string
		for _, nm := range names {
			o = append(o, fmt.Sprintf("%s:%v", nm, d.errs[nm] != nil))
		}
		cnt := map[string]int{}
		for _, t := range d.in.trigs {
			if t.sub == 0 {
				for pk := range t.out {
					cnt[string(pk)]++
				}
			}
		}
		return strings.Join(o, ",") + fmt.Sprint(cnt)
	}
	// When entries can disappear again (expiry, eviction of never-expiring duties beyond the per-share cap) the final
	// state is no ground truth for what was stored when a trigger fired: triggers are then judged on their own
	// (exactly threshold, distinct shares, one root, at most once).
	volatile := expiry > 0 || strings.HasPrefix(name, "exempt-eviction")
	sc.Check = func(x *schedx.Exec) []schedx.Violation {
		d := x.Data.(*c07bdata)
		var out []schedx.Violation
		bad := func(sig, f string, a ...any) {
			out = append(out, schedx.Violation{Signature: "part=B " + sig, Description: fmt.Sprintf(f, a...)})
		}
		for _, nm := range names {
			if !d.done[nm] {
				bad("kind=store-blocked", "%s never returned", nm)
			}
		}
		final := c07snap(d.in.db)
		// count triggers per (sub, key)
		cnt := map[int]map[key]int{0: {}, 1: {}}
		for _, tr := range d.in.trigs {
			for pk, l := range tr.out {
				k := key{Duty: tr.duty, PubKey: pk}
				cnt[tr.sub][k]++
				if !volatile {
					if v := c07checkSet(tr.duty.Type, t, pk, l, final[k]); v != nil {
						bad(v.sig, "%s", v.desc)
					}
				} else if v := c07checkSet(tr.duty.Type, t, pk, l, l); v != nil {
					bad(v.sig, "%s", v.desc)
				}
			}
		}
		for sub := 0; sub < 2; sub++ {
			for k, n := range cnt[sub] {
				if n > 1 {
					bad("kind=trigger-duplicate concurrent", "validator %s triggered %d times", k.PubKey, n)
				}
			}
			if !volatile {
				for k, l := range final {
					if c07reached(k.Duty.Type, l, t) && cnt[sub][k] == 0 {
						anyErr := false
						for _, e := range d.errs {
							if e != nil {
								anyErr = true
							}
						}
						if anyErr {
							bad("kind=trigger-lost cause=error-in-same-batch", "validator %s holds a threshold of matching partials but was never triggered (a store of the history returned an error)", k.PubKey)
						} else {
							bad("kind=trigger-lost", "validator %s holds a threshold of matching partials but was never triggered", k.PubKey)
						}
					}
					if !c07reached(k.Duty.Type, l, t) && cnt[sub][k] > 0 {
						bad("kind=trigger-premature", "validator %s triggered without threshold", k.PubKey)
					}
				}
			}
		}
		return out
	}
	return sc
}

func c07partB(e *schedx.Explorer) {
	R := c07Randao
	one := func(v string, s, r int) c07call { return c07call{Kind: R, Entries: []c07entry{{v, s, r}}} }
	two := func(s, ra, rb int) c07call { return c07call{Kind: R, Entries: []c07entry{{"A", s, ra}, {"B", s, rb}}} }
	intl := func(c c07call) c07call { c.Internal = true; return c }
	var scs []*schedx.Scenario
	scs = append(scs,
		c07scenario("race-for-threshold-2val", 3, []c07call{two(1, 1, 1)}, map[string]c07call{"T2": two(2, 1, 1), "T3": two(3, 1, 1), "T4": two(4, 1, 1)}, 0, nil),
		c07scenario("race-minority-root", 3, []c07call{two(1, 1, 1)}, map[string]c07call{"T2": two(2, 1, 2), "T3": two(3, 1, 1), "T4": two(4, 1, 1)}, 0, nil),
		c07scenario("race-equivocation", 3, []c07call{one("A", 1, 1), one("A", 2, 1)}, map[string]c07call{"T3a": one("A", 3, 1), "T3b": one("A", 3, 2), "T4": one("A", 4, 1)}, 0, nil),
		c07scenario("race-equivocation-in-batch", 3, []c07call{two(1, 1, 1), two(2, 1, 1)}, map[string]c07call{"T3a": two(3, 1, 1), "T3b": two(3, 2, 1), "T4": one("B", 4, 1)}, 0, nil),
		c07scenario("race-internal-external", 3, []c07call{two(2, 1, 1)}, map[string]c07call{"T1": intl(two(1, 1, 1)), "T3": two(3, 1, 1), "T3dup": two(3, 1, 1)}, 0, nil),
		c07scenario("race-t2-of-3", 2, nil, map[string]c07call{"T1": intl(two(1, 1, 1)), "T2": two(2, 1, 1), "T3": two(3, 1, 1)}, 0, nil),
		c07scenario("race-with-trim", 3, []c07call{two(1, 1, 1)}, map[string]c07call{"T2": two(2, 1, 1), "T3": two(3, 1, 1), "T4": two(4, 1, 1)}, 10*time.Second, []time.Duration{11 * time.Second}),
	)
	// never-expiring duties are capped per (share, validator, type): the 11th exit of share 1 evicts its oldest entry (the
	// exit at slot 100, compacting that key's list in place) while another caller has just completed the threshold for
	// that very key and is evaluating it outside the lock
	{
		ex := func(slot uint64, share int) c07call {
			return c07call{Kind: c07Exit, Slot: slot, Entries: []c07entry{{"A", share, 1}}}
		}
		var pre []c07call
		for k := uint64(0); k < 10; k++ {
			pre = append(pre, ex(100+k, 1))
		}
		pre = append(pre, ex(100, 2))
		scs = append(scs, c07scenario("exempt-eviction-races-threshold", 3, pre, map[string]c07call{"TA": ex(100, 3), "TB": ex(110, 1)}, 0, nil))
	}
	if schedx.Tier() == "thorough" {
		scs = append(scs,
			c07scenario("race-4-threads", 3, nil, map[string]c07call{"T1": intl(two(1, 1, 1)), "T2": two(2, 1, 1), "T3": two(3, 1, 2), "T4": two(4, 1, 1)}, 0, nil),
			c07scenario("race-4-threads-equiv", 3, []c07call{two(1, 1, 1)}, map[string]c07call{"T2": two(2, 1, 1), "T3a": two(3, 1, 1), "T3b": two(3, 2, 2), "T4": two(4, 1, 1)}, 0, nil),
		)
	}
	e.Explore(scs)
}

func TestVerifC07(t *testing.T) {
	e := schedx.NewExplorer(t, "C07")
	if rp := os.Getenv("VERIF_REPLAY"); rp != "" {
		b, _ := os.ReadFile(rp)
		if bytes.Contains(b, []byte(`"part": "A"`)) {
			var r c07seqReplay
			if err := json.Unmarshal(b, &r); err != nil {
				t.Fatal(err)
			}
			v, at := c07runSeq(r.T, r.MapRot, r.Calls)
			fmt.Printf("replay part A n=%d t=%d maprot=%d calls=%v -> violations at call %d: %v\n", r.N, r.T, r.MapRot, r.Calls, at, v)
			e.Rep.Executions++
			for _, x := range v {
				e.Rep.Violations = append(e.Rep.Violations, schedx.Violation{Signature: "part=A " + x.sig, Description: x.desc, Replay: rp})
			}
			e.Finish()
			return
		}
	}
	if schedx.Tier() == "thorough" {
		e.Bounds = []int{0, 1, 2, -1}
	} else {
		e.Bounds = []int{0, 1, 2}
	}
	half := time.Until(e.Deadline) / 2
	full := e.Deadline
	e.Deadline = time.Now().Add(half)
	c07partB(e)
	e.Deadline = full
	if os.Getenv("VERIF_REPLAY") == "" {
		c07partA(e)
	}
	e.Finish()
}
