package parsigdb

// Free-running pass of the C07 operation mix under the race detector (DESIGN.md §4.5).

import (
	"context"
	"sync"
	"testing"
	"time"

	"github.com/obolnetwork/charon/core"
)

func TestVerifRaceC07(t *testing.T) {
	for rep := 0; rep < 200; rep++ {
		ctx, cancel := context.WithTimeout(context.Background(), 300*time.Millisecond)
		start := time.Now()
		dl := core.NewDeadliner(ctx, "race", func(d core.Duty) (time.Time, bool) {
			if d.Type == core.DutyExit {
				return time.Time{}, false
			}
			return start.Add(30 * time.Millisecond), true
		})
		in := c07new(3, dl)
		var mu sync.Mutex
		in.hook = func(string) { mu.Lock(); mu.Unlock() } //nolint:staticcheck // only a synchronisation point
		go in.db.Trim(ctx)
		var wg sync.WaitGroup
		call := func(c c07call) {
			defer wg.Done()
			if c.Internal {
				_ = in.db.StoreInternal(ctx, c07duty(c.Kind), c.set())
			} else {
				_ = in.db.StoreExternal(ctx, c07duty(c.Kind), c.set())
			}
		}
		two := func(s, ra, rb int) c07call {
			return c07call{Kind: c07Randao, Entries: []c07entry{{"A", s, ra}, {"B", s, rb}}}
		}
		calls := []c07call{{Kind: c07Randao, Internal: true, Entries: []c07entry{{"A", 1, 1}, {"B", 1, 1}}}, two(2, 1, 1), two(3, 1, 2), two(3, 2, 1), two(4, 1, 1),
			{Kind: c07Exit, Entries: []c07entry{{"A", 2, 1}}}, {Kind: c07Exit, Entries: []c07entry{{"A", 3, 1}}}, {Kind: c07Exit, Entries: []c07entry{{"A", 4, 1}}}}
		wg.Add(len(calls))
		for _, c := range calls {
			go call(c)
		}
		wg.Wait()
		time.Sleep(time.Duration(rep%3) * 20 * time.Millisecond) // sometimes let the duty expire and be trimmed
		cancel()
	}
}
