package core_test

// C14, size dimension: the generators of testutil build proposals with no transactions and no blobs, so every value the
// other parts push through the encodings is a few kilobytes. A valid unblinded proposal of a live network is megabytes
// (execution payload transactions; since deneb the blobs, since fulu the cell proofs). Size-dependent behaviour of the
// encode/decode paths (a resource bound, a buffer of fixed capacity, chunking) shows only there - and typically exactly at
// a boundary. This part builds, for every unblinded proposal version from bellatrix on, signed and unsigned, with and
// without the fork's maximum number of blobs, a value whose SSZ encoding (the bytes that travel in the proto `data` field)
// has EXACTLY a target length, for every target in {2^k-1, 2^k, 2^k+1 : k = 16..23} u {m*10^6 + {-1,0,1} : m in
// 1,2,4,5,8,10} u {10 MiB} (quick tier: 2^k+1 for k = 20..23, 10^6+1, 5*10^6+1, 10^7+1, 10 MiB) (the gossip limit of a block) that is reachable, and pushes it through SSZ, JSON, Clone and both
// proto encodings (SSZ-enabled and JSON) with the lossless / same-root / same-bytes oracle of part (a).

import (
	"bytes"
	"encoding/json"
	"fmt"
	"reflect"
	"strings"
	"testing"
	"time"

	eth2spec "github.com/attestantio/go-eth2-client/spec"
	ssz "github.com/ferranbt/fastssz"
	"google.golang.org/protobuf/proto"

	"github.com/obolnetwork/charon/core"
	pbv1 "github.com/obolnetwork/charon/core/corepb/v1"
	"github.com/obolnetwork/charon/zzverif/enumx"
)

type c14sizeCase struct {
	Part    string `json:"part"` // "size"
	Version string `json:"version"`
	Signed  bool   `json:"signed"`
	Blobs   int    `json:"blobs"`
	Target  int    `json:"ssz_bytes"`
	Step    string `json:"step"`
}

func (c c14sizeCase) String() string {
	return fmt.Sprintf("version=%s signed=%v blobs=%d ssz_bytes=%d", c.Version, c.Signed, c.Blobs, c.Target)
}

// c14setField sets every field called name reachable from v (through pointers and structs) with mk(fieldType); reports how many.
func c14setField(v reflect.Value, name string, mk func(t reflect.Type) reflect.Value) int {
	n := 0
	switch v.Kind() {
	case reflect.Ptr, reflect.Interface:
		if !v.IsNil() {
			n += c14setField(v.Elem(), name, mk)
		}
	case reflect.Struct:
		for i := 0; i < v.NumField(); i++ {
			f := v.Field(i)
			if !f.CanSet() {
				continue
			}
			if v.Type().Field(i).Name == name && f.Kind() == reflect.Slice {
				f.Set(mk(f.Type()))
				n++
				continue
			}
			n += c14setField(f, name, mk)
		}
	}
	return n
}

var c14pattern = func() []byte {
	b := make([]byte, 1<<17)
	for i := range b {
		b[i] = byte(i*7) ^ byte(i>>8)
	}
	return b
}()

func c14patternFill(v reflect.Value, salt byte) {
	switch v.Kind() {
	case reflect.Array, reflect.Slice:
		if v.Type().Elem().Kind() == reflect.Uint8 {
			if v.Kind() == reflect.Array {
				if !v.CanAddr() {
					return
				}
				v = v.Slice(0, v.Len())
			}
			for off := 0; off < v.Len(); off += len(c14pattern) {
				reflect.Copy(v.Slice(off, v.Len()), reflect.ValueOf(c14pattern))
			}
			if v.Len() > 0 {
				v.Index(0).SetUint(uint64(salt))
			}
			return
		}
		for i := 0; i < v.Len(); i++ {
			c14patternFill(v.Index(i), salt+byte(i))
		}
	}
}

// c14sized builds a proposal of the version with the given blob count and one transaction of txLen bytes (none if < 0).
func c14sized(ver eth2spec.DataVersion, signed bool, blobs, txLen int) (any, string) {
	var v any
	if signed {
		v = c14signedProposal(ver, false)
	} else {
		v = c14proposal(ver, false)
	}
	p := reflect.New(reflect.TypeOf(v))
	p.Elem().Set(reflect.ValueOf(v))
	mkN := func(n int, salt byte) func(t reflect.Type) reflect.Value {
		return func(t reflect.Type) reflect.Value {
			s := reflect.MakeSlice(t, n, n)
			c14patternFill(s, salt)
			return s
		}
	}
	if ver >= eth2spec.DataVersionDeneb {
		proofs := blobs
		if ver >= eth2spec.DataVersionFulu {
			proofs = blobs * 128 // cell proofs
		}
		if c14setField(p.Elem(), "Blobs", mkN(blobs, 1)) != 1 || c14setField(p.Elem(), "KZGProofs", mkN(proofs, 2)) != 1 ||
			c14setField(p.Elem(), "BlobKZGCommitments", mkN(blobs, 3)) != 1 {
			return nil, "the value has no unique Blobs/KZGProofs/BlobKZGCommitments fields"
		}
	} else if blobs > 0 {
		return nil, "no blobs before deneb"
	}
	if c14setField(p.Elem(), "Transactions", func(t reflect.Type) reflect.Value {
		if txLen < 0 {
			return reflect.MakeSlice(t, 0, 0)
		}
		s := reflect.MakeSlice(t, 1, 1)
		tx := reflect.MakeSlice(t.Elem(), txLen, txLen)
		c14patternFill(tx, 4)
		s.Index(0).Set(tx)
		return s
	}) != 1 {
		return nil, "the value has no unique Transactions field"
	}
	return p.Elem().Interface(), ""
}

func c14sizeTargets(thorough bool) []int {
	if !thorough {
		// any bound below a target is exposed by that target alone; the quick tier keeps one value just above each power of
		// two and each round decimal size, the thorough tier the exact boundaries
		return []int{1<<20 + 1, 1<<21 + 1, 1<<22 + 1, 1<<23 + 1, 1000001, 5000001, 10000001, 10 << 20}
	}
	var out []int
	for k := 16; k <= 23; k++ {
		out = append(out, 1<<k-1, 1<<k, 1<<k+1)
	}
	for _, m := range []int{1, 2, 4, 5, 8, 10} {
		out = append(out, m*1000000-1, m*1000000, m*1000000+1)
	}
	out = append(out, 10<<20)
	return out
}

func (e *c14env) partSizes(t *testing.T) {
	r := e.r
	maxBlobs := map[eth2spec.DataVersion]int{eth2spec.DataVersionDeneb: 6, eth2spec.DataVersionElectra: 9, eth2spec.DataVersionFulu: 21}
	for _, ver := range c14versions[2:] {
		for _, signed := range []bool{false, true} {
			blobChoices := []int{0}
			if mb := maxBlobs[ver.v]; mb > 0 {
				blobChoices = append(blobChoices, mb)
			}
			for _, blobs := range blobChoices {
				// the smallest shape (empty transaction) fixes the offset of the linear relation size = base + txLen
				base := -1
				if p := c14guard(func() {
					v, why := c14sized(ver.v, signed, blobs, 0)
					if v == nil {
						r.Note("size dimension: " + why)
						return
					}
					b, err := v.(ssz.Marshaler).MarshalSSZ()
					if err != nil {
						r.Note(fmt.Sprintf("size dimension: %s signed=%v blobs=%d does not encode: %v", ver.name, signed, blobs, err))
						return
					}
					base = len(b)
				}); p != nil || base < 0 {
					r.Count("size_shapes_not_built", 1)
					continue
				}
				for _, target := range c14sizeTargets(enumx.Thorough()) {
					if target < base {
						r.Count("size_targets_below_smallest_shape", 1)
						continue
					}
					if !r.Mine() {
						continue
					}
					if r.Expired() {
						return
					}
					e.sizeCase(t, c14sizeCase{Part: "size", Version: ver.name, Signed: signed, Blobs: blobs, Target: target}, ver.v, target-base)
				}
			}
		}
	}
}

func (e *c14env) sizeCase(t *testing.T, c c14sizeCase, ver eth2spec.DataVersion, txLen int) {
	r := e.r
	var v any
	var b0 []byte
	tb := time.Now()
	defer func() { r.Count("size_ms:total", int(time.Since(tb).Milliseconds())) }()
	if p := c14guard(func() {
		v, _ = c14sized(ver, c.Signed, c.Blobs, txLen)
		b0, _ = v.(ssz.Marshaler).MarshalSSZ()
	}); p != nil || len(b0) != c.Target {
		r.Count("size_fixture_off_target", 1)
		r.Note(fmt.Sprintf("size dimension: fixture %s came out at %d bytes", c, len(b0)))
		return
	}
	zero := func() any {
		if c.Signed {
			return new(core.VersionedSignedProposal)
		}
		return new(core.VersionedProposal)
	}
	root0, rootOK := c14root(v)
	same := func(v2 any) string {
		b, err := v2.(ssz.Marshaler).MarshalSSZ()
		if err != nil {
			return "the decoded value no longer encodes: " + err.Error()
		}
		if !bytes.Equal(b, b0) {
			return fmt.Sprintf("the decoded value encodes differently (%d bytes, was %d)", len(b), len(b0))
		}
		if r2, ok := c14root(v2); ok != rootOK || r2 != root0 {
			return "signing/hash root changed"
		}
		return ""
	}
	steps := []struct {
		name string
		f    func() string
	}{
		{"ssz", func() string {
			p := zero()
			if err := p.(ssz.Unmarshaler).UnmarshalSSZ(b0); err != nil {
				return "unmarshal: " + err.Error()
			}
			return same(c14deref(p))
		}},
		{"json", func() string {
			j, err := json.Marshal(v)
			if err != nil {
				return "marshal: " + err.Error()
			}
			p := zero()
			if err := json.Unmarshal(j, p); err != nil {
				return "unmarshal: " + err.Error()
			}
			if why := same(c14deref(p)); why != "" {
				return why
			}
			j2, _ := json.Marshal(c14deref(p))
			if !bytes.Equal(j, j2) {
				return "JSON re-encoding differs"
			}
			return ""
		}},
		{"clone", func() string {
			var cl any
			var err error
			if c.Signed {
				cl, err = v.(core.SignedData).Clone()
			} else {
				cl, err = v.(core.UnsignedData).Clone()
			}
			if err != nil {
				return "clone: " + err.Error()
			}
			return same(cl)
		}},
	}
	protoStep := func() string {
		if c.Signed {
			psd := core.ParSignedData{SignedData: v.(core.SignedData), ShareIdx: 2}
			pb1, err := core.ParSignedDataToProto(psd)
			if err != nil {
				return "to proto: " + err.Error()
			}
			wire, err := proto.Marshal(pb1)
			if err != nil {
				return err.Error()
			}
			pbw := new(pbv1.ParSignedData)
			if err := proto.Unmarshal(wire, pbw); err != nil {
				return err.Error()
			}
			psd2, err := core.ParSignedDataFromProto(core.DutyProposer, pbw)
			if err != nil {
				return "from proto: " + err.Error()
			}
			if psd2.ShareIdx != 2 {
				return "share index changed"
			}
			return same(psd2.SignedData)
		}
		set := core.UnsignedDataSet{e.pubkey: v.(core.UnsignedData)}
		pb1, err := core.UnsignedDataSetToProto(set)
		if err != nil {
			return "to proto: " + err.Error()
		}
		wire, err := proto.Marshal(pb1)
		if err != nil {
			return err.Error()
		}
		pbw := new(pbv1.UnsignedDataSet)
		if err := proto.Unmarshal(wire, pbw); err != nil {
			return err.Error()
		}
		set2, err := core.UnsignedDataSetFromProto(core.DutyProposer, pbw)
		if err != nil {
			return "from proto: " + err.Error()
		}
		if len(set2) != 1 || set2[e.pubkey] == nil {
			return "set changed"
		}
		return same(set2[e.pubkey])
	}
	run := func(name string, f func() string) {
		r.Eval("size:" + name + ":" + c.Version)
		r.Steps(1)
		var why string
		t0 := time.Now()
		if p := c14guard(func() { why = f() }); p != nil {
			why = "panic " + p.Val + " in " + p.TopLib + " via " + p.TopCharon
		}
		r.Count("size_ms:"+name, int(time.Since(t0).Milliseconds()))
		if why == "" {
			r.Count("size_roundtrip_ok:"+name, 1)
			return
		}
		for i := 0; i < 2; i++ {
			var again string
			if p := c14guard(func() { again = f() }); p != nil {
				again = "panic"
			}
			if again == "" {
				r.Unconfirmed("size roundtrip " + name + " " + c.String())
				return
			}
		}
		cc := c
		cc.Step = name
		kind := "VersionedProposal"
		if c.Signed {
			kind = "VersionedSignedProposal"
		}
		cls := "large"
		if c.Target < 1<<20 {
			cls = "below-1MiB"
		}
		r.Violation(fmt.Sprintf("kind=roundtrip-size step=%s type=%s/%s size=%s", strings.SplitN(name, ":", 2)[0], kind, c.Version, cls),
			fmt.Sprintf("a valid %s of %d SSZ bytes (%d blobs) does not survive %s: %s", kind, c.Target, c.Blobs, name, why), cc)
	}
	// the JSON codecs cost seconds per value of this size (hex text, nested RawMessage passes): the quick tier runs them at
	// two targets per shape (2^22+1 and 10 MiB), the thorough tier at every target
	withJSON := enumx.Thorough() || c.Target == 1<<22+1 || c.Target == 10<<20
	for _, s := range steps {
		if s.name == "json" && !withJSON {
			continue
		}
		run(s.name, s.f)
	}
	run("proto-ssz", protoStep)
	if withJSON {
		t.Run("jsonproto-size", func(t *testing.T) {
			core.DisableSSZMarshallingForT(t)
			run("proto-json", protoStep)
		})
	}
	if c.Target >= 1<<22 {
		r.Count("size_cases_of_4MiB_or_more", 1)
	}
}
