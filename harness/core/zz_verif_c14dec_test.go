package core_test

// C14, dimension "decoder input alphabet around format detection and partial values".
//
// core.unmarshal decides "SSZ or JSON" from the bytes (SSZ first, JSON when the trimmed input starts with '{'), the
// duty type decides the Go type, and two decoders fall back to a legacy layout when the first attempt fails. For
// every unit and every duty type that decodes to it the product
//
//	prefix  in {"", " ", "\n", "\t", "\r\n", BOM, "  "}
//	body    in {valid JSON; JSON with each node in turn replaced by null / by [] / removed (every position of the
//	            tree); valid SSZ; SSZ truncated (quick: lengths 0..64 and one below/at/above every offset the
//	            encoding contains; thorough: every length of encodings <= 4 KiB, else header, tail, every 4th byte
//	            below 2 KiB, every 32nd byte and the offset boundaries)}
//	suffix  in {"", " ", "\n", "garbage"}
//
// (quick, proposals only: JSON nodes below the block body level get one factor at a time - every prefix without
// suffix, every suffix without prefix - instead of the full product)
// is decoded with core.ParSignedDataFromProto / core.UnsignedDataSetFromProto. Oracle: an error, or a value on
// which every operation a node applies afterwards completes without panic - each one on its own (Clone,
// MessageRoot, Signature, SetSignature, re-encoding to proto / JSON / SSZ, Epoch and DomainName with the eth2
// client, core.VerifyEth2SignedData, SyncSubcommitteeIndex; for unsigned data Clone, the roots and the re-encodings)
// and, in their real order, the whole receive stack of the main file (e.check).

import (
	"encoding/binary"
	"encoding/json"
	"fmt"
	"strings"

	ssz "github.com/ferranbt/fastssz"

	"github.com/obolnetwork/charon/core"
	pbv1 "github.com/obolnetwork/charon/core/corepb/v1"
	"github.com/obolnetwork/charon/tbls"
	"github.com/obolnetwork/charon/zzverif/enumx"
)

var c14prefixes = []struct{ name, s string }{
	{"none", ""}, {"sp", " "}, {"lf", "\n"}, {"tab", "\t"}, {"crlf", "\r\n"}, {"bom", "\xef\xbb\xbf"}, {"sp2", "  "},
}

var c14suffixes = []struct{ name, s string }{{"none", ""}, {"sp", " "}, {"lf", "\n"}, {"garbage", "garbage"}}

// c14truncLens: the truncation lengths of an SSZ encoding.
func c14truncLens(b []byte, thorough bool) []int {
	n := len(b)
	want := make([]bool, n)
	for l := 0; l < n; l++ {
		switch {
		case l <= 64:
			want[l] = true
		case !thorough:
		case n <= 4096:
			want[l] = true
		default:
			want[l] = l < 600 || l > n-200 || (l < 2048 && l%4 == 0) || l%32 == 0
		}
	}
	// every 4-byte word that can be an offset (it points behind itself and into the encoding)
	lim := n - 4
	if lim > 8192 {
		lim = 8192
	}
	for p := 0; p <= lim; p++ {
		w := int(binary.LittleEndian.Uint32(b[p:]))
		if w >= p+4 && w <= n {
			for _, l := range []int{w - 1, w, w + 1} {
				if l >= 0 && l < n {
					want[l] = true
				}
			}
		}
	}
	var out []int
	for l, ok := range want {
		if ok {
			out = append(out, l)
		}
	}
	return out
}

// decBodies calls emit for every body of the unit's value, in a deterministic order.
func (e *c14env) decBodies(v any, thorough bool, emit func(fam, kind, where string, body []byte)) {
	doc, err := json.Marshal(v)
	if err == nil {
		emit("json", "valid", "", doc)
		_ = c14jsonMutations(doc, func(kind, where string, mutated []byte) {
			if kind == "null" || kind == "emptyarr" || kind == "removed" {
				emit("json", kind, where, mutated)
			}
		})
	}
	if m, ok := v.(ssz.Marshaler); ok {
		if b, err := m.MarshalSSZ(); err == nil {
			emit("ssz", "valid", "", b)
			for _, l := range c14truncLens(b, thorough) {
				emit("ssz", "truncate", fmt.Sprintf("len=%d/%d", l, len(b)), b[:l:l])
			}
		}
	}
}

// decDirect calls the decode function itself.
func (e *c14env) decDirect(c c14case) (psd *core.ParSignedData, set core.UnsignedDataSet, recov bool, p *c14panic) {
	e.r.Steps(1)
	p = c14guard(func() {
		if c.Path == "parsigex" {
			out, err := core.ParSignedDataFromProto(core.DutyType(c.Duty), &pbv1.ParSignedData{Data: c.data(), Signature: e.realSig, ShareIdx: c.ShareIdx})
			if err != nil {
				recov = strings.Contains(err.Error(), "panic recovered")
				return
			}
			psd = &out
			return
		}
		out, err := core.UnsignedDataSetFromProto(core.DutyType(c.Duty), &pbv1.UnsignedDataSet{Set: map[string][]byte{string(e.pubkey): c.data()}})
		if err != nil {
			recov = strings.Contains(err.Error(), "panic recovered")
			return
		}
		set = out
	})
	return psd, set, recov, p
}

// decUse applies every later operation to a decoded value, each one on its own. It returns the first operation that
// panics.
func (e *c14env) decUse(c c14case, psd *core.ParSignedData, set core.UnsignedDataSet) (op string, p *c14panic) {
	type opf struct {
		name string
		f    func()
	}
	var ops []opf
	if psd != nil {
		d := psd.SignedData
		ops = []opf{
			{"message-root", func() { _, _ = d.MessageRoot() }},
			{"signature", func() { _ = d.Signature(); _ = psd.Signature() }},
			{"clone", func() {
				if cl, err := psd.Clone(); err == nil {
					_, _ = cl.MessageRoot()
					_ = cl.Signature()
					_, _ = json.Marshal(cl)
					_, _ = core.ParSignedDataToProto(cl)
				}
			}},
			{"set-signature", func() {
				if s2, err := d.SetSignature(e.realSig); err == nil {
					_, _ = s2.MessageRoot()
					_ = s2.Signature()
					_, _ = json.Marshal(s2)
				}
			}},
			{"to-proto", func() { _, _ = core.ParSignedDataToProto(*psd) }},
			{"set-to-proto", func() { _, _ = core.ParSignedDataSetToProto(core.ParSignedDataSet{e.pubkey: *psd}) }},
			{"json", func() { _, _ = json.Marshal(d); _, _ = json.Marshal(psd) }},
			{"ssz", func() {
				if m, ok := d.(ssz.Marshaler); ok {
					_, _ = m.MarshalSSZ()
					_ = m.SizeSSZ()
				}
			}},
			{"sync-subcommittee-index", func() { _, _ = core.SyncSubcommitteeIndex(core.DutyType(c.Duty), d) }},
		}
		if signed, ok := d.(core.Eth2SignedData); ok {
			ops = append(ops,
				opf{"epoch", func() { _, _ = signed.Epoch(e.ctx, e.eth2Cl) }},
				opf{"domain-name", func() { _ = signed.DomainName() }},
				opf{"verify-eth2-signed-data", func() {
					if pk, err := e.pubkey.Bytes(); err == nil && len(pk) == 48 {
						_ = core.VerifyEth2SignedData(e.ctx, e.eth2Cl, signed, tbls.PublicKey(pk))
					}
				}},
			)
		}
	}
	for _, v := range set {
		v := v
		ops = append(ops,
			opf{"clone", func() {
				if cl, err := v.Clone(); err == nil {
					_, _ = json.Marshal(cl)
					_, _ = c14rootNR(cl)
				}
			}},
			opf{"json", func() { _, _ = json.Marshal(v) }},
			opf{"ssz", func() {
				if m, ok := v.(ssz.Marshaler); ok {
					_, _ = m.MarshalSSZ()
					_ = m.SizeSSZ()
				}
			}},
			opf{"root", func() { _, _ = c14rootNR(v) }},
		)
	}
	if set != nil {
		ops = append(ops,
			opf{"set-clone", func() { _, _ = set.Clone() }},
			opf{"set-to-proto", func() { _, _ = core.UnsignedDataSetToProto(set) }},
		)
	}
	e.r.Steps(len(ops))
	for _, o := range ops {
		if p := c14guard(o.f); p != nil {
			return o.name, p
		}
	}
	return "", nil
}

// decCase evaluates one input: decode, every later operation on its own, then the real receive stack.
func (e *c14env) decCase(c c14case, key string) (accepted bool) {
	r := e.r
	psd, set, recov, p := e.decDirect(c)
	op := "decode"
	if p == nil && (psd != nil || set != nil) {
		accepted = true
		op, p = e.decUse(c, psd, set)
	}
	if p != nil {
		r.Eval(key)
		sig := fmt.Sprintf("kind=panic path=%s stage=use-%s %s type=%s mutation=%s field=%s", c.Path, op, p.sig(), c.Unit, c.Mutation, c14idxRe.ReplaceAllString(c.Where, "[]"))
		for i := 0; i < 3; i++ {
			psd2, set2, _, p2 := e.decDirect(c)
			op2 := "decode"
			if p2 == nil && (psd2 != nil || set2 != nil) {
				op2, p2 = e.decUse(c, psd2, set2)
			}
			if p2 == nil || op2 != op || p2.sig() != p.sig() {
				r.Unconfirmed(sig)
				return accepted
			}
		}
		r.Violation(sig, fmt.Sprintf("input of %s (%s at %s, %s, duty type %s, %d bytes) decodes without error, then %s panics: %q in %s; charon frames (innermost first) %v",
			c.Unit, c.Mutation, c.Where, c.Affix, core.DutyType(c.Duty), len(c.data()), op, p.Val, p.TopLib, p.Chain), c)
		return accepted
	}
	if !accepted {
		r.Eval(key)
		if recov {
			r.Count("decode_panic_recovered_by_charon:"+c.Path, 1)
		}
		r.Outcome(c.Path + ":decode-rejected")
		return false
	}
	e.check(c, key)
	return true
}

// partDecoder: the product for one unit; the bodies are dealt round-robin over K chunks.
func (e *c14env) partDecoder(u *c14unit, chunk, K int) {
	base, ok := e.intBase(u)
	if !ok || len(u.Duties) == 0 {
		return
	}
	v := base
	if u.Signed { // a parseable BLS signature, injected the way the workflow does it
		var s core.SignedData
		if p := c14guard(func() { s, _ = base.(core.SignedData).SetSignature(e.realSig) }); p != nil || s == nil {
			return // reported by part (a)
		}
		v = s
	}
	r := e.r
	path := e.paths(u)[0]
	thorough := enumx.Thorough()
	for _, duty := range u.Duties {
		n := 0
		e.decBodies(v, thorough, func(fam, kind, where string, body []byte) {
			n++
			if (n-1)%K != chunk || r.Expired() {
				return
			}
			// quick, proposals: the full product for the valid encodings, the SSZ truncations and the JSON nodes down
			// to the block body level; below that one factor at a time (every prefix with no suffix, every suffix
			// with no prefix)
			oneFactor := !thorough && c14isBig(u) && fam == "json" && kind != "valid" && strings.Count(where, ".") > 3
			for _, pre := range c14prefixes {
				for _, suf := range c14suffixes {
					if oneFactor && pre.s != "" && suf.s != "" {
						continue
					}
					data := make([]byte, 0, len(pre.s)+len(body)+len(suf.s))
					data = append(append(append(data, pre.s...), body...), suf.s...)
					c := c14case{Path: path, Duty: int(duty), ShareIdx: 1, Data: c14b64(data), Unit: u.Name, Mutation: "fmt-" + fam + "-" + kind, Where: where,
						Affix: "prefix=" + pre.name + " suffix=" + suf.name}
					verdict := "rejected"
					if e.decCase(c, "fmt:"+fam+":"+kind+":"+u.Name) {
						verdict = "accepted"
					}
					if verdict == "accepted" && fam == "ssz" && pre.s != "" {
						r.Note(fmt.Sprintf("info: %s under %s: SSZ body (%s %s) is accepted behind prefix %s", u.Name, duty, kind, where, pre.name))
					}
					r.Count("fmt_"+fam+"_"+verdict+":prefix="+pre.name, 1)
					r.Count("fmt_"+fam+"_"+verdict+":suffix="+suf.name, 1)
				}
			}
		})
	}
}
