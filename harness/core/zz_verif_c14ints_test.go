package core_test

// C14, dimension "small-scope values of every integer field".
//
// For every unit of the catalogue (core data type x fork version) one generated base value is walked by
// reflection; every integer leaf (any width, also *integer where nil is one more value, list elements, the words
// of uint256 values; byte strings and the version/blinded discriminators are not integer fields - the versions are
// enumerated by the catalogue) is set, one field at a time with all other fields at their base value, to every
// value of the small-scope alphabet
//
//	0..255  and  2^k-1, 2^k, 2^k+1 for every k up to the width of the field
//
// and the variant must survive Clone, SSZ, JSON, the proto encoding with SSZ payload and the proto encoding with
// JSON payload (over the wire, under every duty type that decodes to the unit): equal value (reflect.DeepEqual),
// byte-identical re-encoding, same MessageRoot/HashTreeRoot, same signature, same share index. The share index of
// the ParSignedData wrapper and the (slot, type) of core.Duty are enumerated the same way. Thorough additionally
// enumerates all pairs of the wrapper-level fields (the fields charon's own codec code reads/writes or that sit
// next to the offsets it sniffs).

import (
	"bytes"
	"encoding/json"
	"fmt"
	"math"
	"reflect"
	"sort"
	"strconv"
	"strings"
	"testing"

	ssz "github.com/ferranbt/fastssz"
	"google.golang.org/protobuf/proto"

	"github.com/obolnetwork/charon/core"
	pbv1 "github.com/obolnetwork/charon/core/corepb/v1"
	"github.com/obolnetwork/charon/zzverif/enumx"
)

// ---------------------------------------------------------------------------------------------------
// reflection helpers
// ---------------------------------------------------------------------------------------------------

type c14step struct {
	kind byte // 'f' struct field, 'e' pointer target, 'x' slice/array element
	i    int
}

type c14leaf struct {
	path    string
	steps   []c14step
	bits    int
	signed  bool
	ptr     bool // *integer: nil is one more value of the field
	inList  bool
	share   bool // pseudo leaf: ParSignedData.ShareIdx
	wrapper bool // wrapper-level field (pairs in thorough)
}

// c14intVal is one value of an integer field.
type c14intVal struct {
	nil bool
	u   uint64 // bit pattern (two's complement for signed fields)
}

func (v c14intVal) str(signed bool) string {
	if v.nil {
		return "nil"
	}
	if signed {
		return strconv.FormatInt(int64(v.u), 10)
	}
	return strconv.FormatUint(v.u, 10)
}

func c14isInt(k reflect.Kind) (bits int, signed, ok bool) {
	switch k {
	case reflect.Uint8:
		return 8, false, true
	case reflect.Uint16:
		return 16, false, true
	case reflect.Uint32:
		return 32, false, true
	case reflect.Uint64, reflect.Uint:
		return 64, false, true
	case reflect.Int8:
		return 8, true, true
	case reflect.Int16:
		return 16, true, true
	case reflect.Int32:
		return 32, true, true
	case reflect.Int64, reflect.Int:
		return 64, true, true
	}
	return 0, false, false
}

func c14isDiscriminator(t reflect.Type) bool {
	return t.Name() == "DataVersion" || t.Name() == "BuilderVersion"
}

// c14deepCopy copies everything reachable from v (nil stays nil, empty stays empty).
func c14deepCopy(v reflect.Value) reflect.Value {
	switch v.Kind() {
	case reflect.Ptr:
		if v.IsNil() {
			return reflect.Zero(v.Type())
		}
		n := reflect.New(v.Type().Elem())
		n.Elem().Set(c14deepCopy(v.Elem()))
		return n
	case reflect.Interface:
		if v.IsNil() {
			return reflect.Zero(v.Type())
		}
		n := reflect.New(v.Type()).Elem()
		n.Set(c14deepCopy(v.Elem()))
		return n
	case reflect.Struct:
		n := reflect.New(v.Type()).Elem()
		n.Set(v)
		for i := 0; i < v.NumField(); i++ {
			if v.Type().Field(i).IsExported() {
				n.Field(i).Set(c14deepCopy(v.Field(i)))
			}
		}
		return n
	case reflect.Slice:
		if v.IsNil() {
			return reflect.Zero(v.Type())
		}
		n := reflect.MakeSlice(v.Type(), v.Len(), v.Len())
		if v.Type().Elem().Kind() == reflect.Uint8 {
			reflect.Copy(n, v)
			return n
		}
		for i := 0; i < v.Len(); i++ {
			n.Index(i).Set(c14deepCopy(v.Index(i)))
		}
		return n
	case reflect.Array:
		n := reflect.New(v.Type()).Elem()
		if v.Type().Elem().Kind() == reflect.Uint8 {
			n.Set(v)
			return n
		}
		for i := 0; i < v.Len(); i++ {
			n.Index(i).Set(c14deepCopy(v.Index(i)))
		}
		return n
	}
	return v
}

// c14leaves lists the integer leaves of v in a deterministic order.
func c14leaves(v reflect.Value, path string, steps []c14step, inList, allElems bool, out *[]c14leaf) {
	add := func(bits int, signed, ptr bool) {
		*out = append(*out, c14leaf{path: path, steps: append([]c14step{}, steps...), bits: bits, signed: signed, ptr: ptr, inList: inList})
	}
	t := v.Type()
	if c14isDiscriminator(t) {
		return
	}
	switch v.Kind() {
	case reflect.Ptr:
		if c14isDiscriminator(t.Elem()) {
			return
		}
		if bits, signed, ok := c14isInt(t.Elem().Kind()); ok {
			add(bits, signed, true)
			return
		}
		if !v.IsNil() {
			c14leaves(v.Elem(), path, append(steps, c14step{'e', 0}), inList, allElems, out)
		}
	case reflect.Struct:
		for i := 0; i < v.NumField(); i++ {
			f := t.Field(i)
			if !f.IsExported() {
				continue
			}
			c14leaves(v.Field(i), path+"."+f.Name, append(steps, c14step{'f', i}), inList, allElems, out)
		}
	case reflect.Slice, reflect.Array:
		if t.Elem().Kind() == reflect.Uint8 {
			return // byte strings (roots, signatures, bit lists, ...) are not integer fields
		}
		for i := 0; i < v.Len(); i++ {
			if !allElems && i > 0 {
				break
			}
			c14leaves(v.Index(i), fmt.Sprintf("%s[%d]", path, i), append(steps, c14step{'x', i}), true, allElems, out)
		}
	default:
		if bits, signed, ok := c14isInt(v.Kind()); ok {
			add(bits, signed, false)
		}
	}
}

func c14resolve(root reflect.Value, steps []c14step) reflect.Value {
	v := root
	for _, s := range steps {
		switch s.kind {
		case 'f':
			v = v.Field(s.i)
		case 'e':
			v = v.Elem()
		case 'x':
			v = v.Index(s.i)
		}
	}
	return v
}

func c14setLeaf(root reflect.Value, lf c14leaf, val c14intVal) {
	f := c14resolve(root, lf.steps)
	if lf.ptr {
		if val.nil {
			f.Set(reflect.Zero(f.Type()))
			return
		}
		f.Set(reflect.New(f.Type().Elem()))
		f = f.Elem()
	}
	if lf.signed {
		f.SetInt(int64(val.u))
	} else {
		f.SetUint(val.u)
	}
}

// ---------------------------------------------------------------------------------------------------
// value alphabets
// ---------------------------------------------------------------------------------------------------

func c14dedupe(vs []uint64, signed bool) []c14intVal {
	if signed {
		sort.Slice(vs, func(i, j int) bool { return int64(vs[i]) < int64(vs[j]) })
	} else {
		sort.Slice(vs, func(i, j int) bool { return vs[i] < vs[j] })
	}
	var out []c14intVal
	for i, v := range vs {
		if i > 0 && v == vs[i-1] {
			continue
		}
		out = append(out, c14intVal{u: v})
	}
	return out
}

// c14alphabet: 0..255 and 2^k-1, 2^k, 2^k+1 for every k up to the width (signed: up to the sign bit, plus -1 and min).
func c14alphabet(bits int, signed bool) []c14intVal {
	var vs []uint64
	if signed {
		max := uint64(1)<<(bits-1) - 1
		for i := uint64(0); i <= 255 && i <= max; i++ {
			vs = append(vs, i)
		}
		for k := 1; k < bits; k++ {
			p := uint64(1) << k
			for _, v := range []uint64{p - 1, p, p + 1} {
				if v <= max {
					vs = append(vs, v)
				}
			}
		}
		vs = append(vs, uint64(math.MaxUint64) /* -1 */, uint64(int64(-1)<<(bits-1)) /* min */)
		return c14dedupe(vs, true)
	}
	max := uint64(math.MaxUint64)
	if bits < 64 {
		max = uint64(1)<<bits - 1
	}
	for i := uint64(0); i <= 255 && i <= max; i++ {
		vs = append(vs, i)
	}
	for k := 1; k <= bits; k++ {
		if k == 64 {
			vs = append(vs, math.MaxUint64)
			break
		}
		p := uint64(1) << k
		for _, v := range []uint64{p - 1, p, p + 1} {
			if v <= max {
				vs = append(vs, v)
			}
		}
	}
	return c14dedupe(vs, false)
}

// c14reducedAlphabet: 0..16 and 2^k-1, 2^k, 2^k+1 for k in {8,16,32,63,64} (capped to the width).
func c14reducedAlphabet(bits int, signed bool) []c14intVal {
	full := c14alphabet(bits, signed)
	keep := map[uint64]bool{}
	for i := uint64(0); i <= 16; i++ {
		keep[i] = true
	}
	for _, k := range []int{8, 16, 32, 63} {
		p := uint64(1) << k
		keep[p-1], keep[p], keep[p+1] = true, true, true
	}
	keep[math.MaxUint64] = true
	var out []c14intVal
	for _, v := range full {
		if keep[v.u] {
			out = append(out, v)
		}
	}
	return out
}

// ---------------------------------------------------------------------------------------------------
// the oracle
// ---------------------------------------------------------------------------------------------------

// c14rootNR is c14root without a recover: a panic while hashing is a failure of the step that hashes.
func c14rootNR(v any) (root [32]byte, ok bool) {
	switch d := v.(type) {
	case core.Signature:
		return root, false
	case core.SignedData:
		r, err := d.MessageRoot()
		return r, err == nil
	case core.VersionedProposal:
		r, err := d.Root()
		return r, err == nil
	case interface{ HashTreeRoot() ([32]byte, error) }:
		r, err := d.HashTreeRoot()
		return r, err == nil
	}
	return root, false
}

// intOracle pushes one in-memory value through every codec. mode "all": Clone, SSZ, JSON, proto with SSZ payload;
// "jsonproto": only the proto encoding, which then (SSZ marshalling disabled by the caller) carries a JSON payload;
// "ssz": only SSZ and the proto encoding with SSZ payload (the cheap pass for the full alphabet on big values). noJSON: the value lies outside the domain of the JSON
// codec of the eth2 API type (see c14jsonDomain).
func (e *c14env) intOracle(u *c14unit, x any, shareIdx int, mode string, noJSON bool) (step, why string) {
	jsonProto, sszOnly := mode == "jsonproto", mode == "ssz"
	e.r.Steps(1)
	rx, okx := c14rootNR(x)
	var sigx []byte
	if u.Signed {
		sigx = x.(core.SignedData).Signature()
	}
	same := func(y any) string {
		if reflect.TypeOf(x) != reflect.TypeOf(y) {
			return fmt.Sprintf("type %T became %T", x, y)
		}
		if !reflect.DeepEqual(x, y) {
			return "decoded value differs from the original"
		}
		ry, oky := c14rootNR(y)
		if okx != oky || rx != ry {
			return "signing/hash root differs"
		}
		if u.Signed && !bytes.Equal(sigx, y.(core.SignedData).Signature()) {
			return "signature differs"
		}
		return ""
	}
	if !jsonProto {
		if !sszOnly {
			var cl any
			var err error
			if u.Signed {
				cl, err = x.(core.SignedData).Clone()
			} else {
				cl, err = x.(core.UnsignedData).Clone()
			}
			if err != nil {
				return "clone", "clone fails: " + err.Error()
			}
			if d := same(cl); d != "" {
				return "clone", d
			}
		}
		if m, ok := x.(ssz.Marshaler); ok {
			b1, err := m.MarshalSSZ()
			if err != nil {
				return "ssz", "marshal: " + err.Error()
			}
			p := u.Zero()
			if err := p.(ssz.Unmarshaler).UnmarshalSSZ(b1); err != nil {
				return "ssz", "own encoding does not decode: " + err.Error()
			}
			y := c14deref(p)
			if d := same(y); d != "" {
				return "ssz", d
			}
			b2, err := y.(ssz.Marshaler).MarshalSSZ()
			if err != nil || !bytes.Equal(b1, b2) {
				return "ssz", "re-encoding is not byte-identical"
			}
		}
		if !noJSON && !sszOnly {
			b1, err := json.Marshal(x)
			if err != nil {
				return "json", "marshal: " + err.Error()
			}
			p := u.Zero()
			if err := json.Unmarshal(b1, p); err != nil {
				return "json", "own encoding does not decode: " + err.Error()
			}
			y := c14deref(p)
			if d := same(y); d != "" {
				return "json", d
			}
			b2, err := json.Marshal(y)
			if err != nil || !bytes.Equal(b1, b2) {
				return "json", "re-encoding is not byte-identical"
			}
		}
	}
	name := "proto-ssz"
	if jsonProto {
		name = "proto-json"
		if noJSON {
			return "", ""
		}
	}
	if _, isSSZ := x.(ssz.Marshaler); !isSSZ && noJSON {
		return "", ""
	}
	for _, duty := range u.Duties {
		if u.Signed {
			psd := core.ParSignedData{SignedData: x.(core.SignedData), ShareIdx: shareIdx}
			pb1, err := core.ParSignedDataToProto(psd)
			if err != nil {
				return name, "to proto: " + err.Error()
			}
			wire, err := proto.Marshal(pb1)
			if err != nil {
				return name, err.Error()
			}
			pbw := new(pbv1.ParSignedData)
			if err := proto.Unmarshal(wire, pbw); err != nil {
				return name, err.Error()
			}
			psd2, err := core.ParSignedDataFromProto(duty, pbw)
			if err != nil {
				return name, "own encoding does not decode: " + err.Error()
			}
			if psd2.ShareIdx != shareIdx {
				return name, fmt.Sprintf("share index %d became %d", shareIdx, psd2.ShareIdx)
			}
			if d := same(psd2.SignedData); d != "" {
				return name, d
			}
			pb2, err := core.ParSignedDataToProto(psd2)
			if err != nil || !proto.Equal(pb1, pb2) {
				return name, "re-encoded proto differs"
			}
			if !bytes.Equal(pb1.GetSignature(), sigx) {
				return name, "proto signature field differs from the data's signature"
			}
		} else {
			pb1, err := core.UnsignedDataSetToProto(core.UnsignedDataSet{e.pubkey: x.(core.UnsignedData)})
			if err != nil {
				return name, "to proto: " + err.Error()
			}
			wire, err := proto.Marshal(pb1)
			if err != nil {
				return name, err.Error()
			}
			pbw := new(pbv1.UnsignedDataSet)
			if err := proto.Unmarshal(wire, pbw); err != nil {
				return name, err.Error()
			}
			set2, err := core.UnsignedDataSetFromProto(duty, pbw)
			if err != nil {
				return name, "own encoding does not decode: " + err.Error()
			}
			if len(set2) != 1 {
				return name, "set size changed"
			}
			if d := same(set2[e.pubkey]); d != "" {
				return name, d
			}
			pb2, err := core.UnsignedDataSetToProto(set2)
			if err != nil || !proto.Equal(pb1, pb2) {
				return name, "re-encoded proto differs"
			}
		}
	}
	return "", ""
}

// c14jsonDomain: values the JSON codec of the eth2 API type itself refuses because they are not duty values at
// all (an attester duty of an empty committee / of a slot without committees does not exist). SSZ, Clone and the
// proto encoding with SSZ payload must still carry them.
func c14jsonDomain(u *c14unit, lf c14leaf, v c14intVal) bool {
	if u.Name != "AttestationData" || v.nil || v.u != 0 {
		return true
	}
	return lf.path != ".Duty.CommitteeLength" && lf.path != ".Duty.CommitteesAtSlot"
}

// ---------------------------------------------------------------------------------------------------
// enumeration
// ---------------------------------------------------------------------------------------------------

type c14intCase struct {
	Part   string `json:"part"` // "ints"
	Unit   string `json:"type"`
	Field  string `json:"field"`
	Value  string `json:"value"`
	Field2 string `json:"field2,omitempty"`
	Value2 string `json:"value2,omitempty"`
	Mode   string `json:"mode"` // all | jsonproto | ssz
	Step   string `json:"step"`
}

var c14shareLeaf = c14leaf{path: "(ParSignedData).ShareIdx", bits: 32, signed: true, share: true, wrapper: true}

func c14isBig(u *c14unit) bool { return strings.Contains(u.Name, "Proposal") }

// intBase returns the unit's base value (generated once per process).
func (e *c14env) intBase(u *c14unit) (base any, ok bool) {
	if len(u.insts) == 0 {
		if p := c14guard(func() { u.insts = append(u.insts, u.Gen()) }); p != nil {
			e.r.Note("fixture generator of " + u.Name + " failed: " + p.Val)
			e.r.NotExhaustive("a fixture could not be generated")
			return nil, false
		}
	}
	return u.insts[0], true
}

func c14wrapperLevel(u *c14unit, path string) bool {
	switch {
	case u.Name == "AttestationData":
		return true
	case strings.HasPrefix(u.Name, "VersionedAttestation/"), strings.HasPrefix(u.Name, "VersionedAggregatedAttestation/"):
		return strings.HasSuffix(path, ".ValidatorIndex") || strings.HasSuffix(path, ".Data.Slot") || strings.HasSuffix(path, ".Data.Index")
	case strings.HasPrefix(u.Name, "VersionedSignedAggregateAndProof/"):
		return strings.HasSuffix(path, ".Message.AggregatorIndex") || strings.HasSuffix(path, ".Aggregate.Data.Slot") || strings.HasSuffix(path, ".Aggregate.Data.Index")
	case c14isBig(u):
		// the block header fields: <Version>.Slot/.ProposerIndex, <Version>.Message.Slot, <Version>.Block.Slot, ...
		return !strings.Contains(path, ".Body.") && (strings.HasSuffix(path, ".Slot") || strings.HasSuffix(path, ".ProposerIndex"))
	}
	return false
}

func (e *c14env) intLeaves(u *c14unit, base any, allElems bool) []c14leaf {
	var ls []c14leaf
	c14leaves(reflect.ValueOf(base), "", nil, false, allElems, &ls)
	keep := ls[:0]
	for _, lf := range ls {
		// The aggregate attestation a beacon node returns has no validator index: the field only exists because the
		// struct is shared with single attestations, the workflow never sets it and no codec carries it.
		if strings.HasPrefix(u.Name, "VersionedAggregatedAttestation/") && lf.path == ".VersionedAttestation.ValidatorIndex" {
			continue
		}
		lf.wrapper = c14wrapperLevel(u, lf.path)
		keep = append(keep, lf)
	}
	ls = keep
	if u.Signed && len(u.Duties) > 0 {
		ls = append(ls, c14shareLeaf)
	}
	return ls
}

// c14pass: one sweep over the value alphabets of the fields that are being set.
type c14pass struct {
	mode string // "all" | "jsonproto" | "ssz" (see intOracle)
	alph [][]c14intVal
}

func c14withNil(lf c14leaf, vals []c14intVal) []c14intVal {
	if lf.share {
		var pos []c14intVal
		for _, v := range vals {
			if int64(v.u) >= 0 { // share indices are positive; 0 is the "absent" value of the proto field
				pos = append(pos, v)
			}
		}
		return pos
	}
	if lf.ptr {
		return append([]c14intVal{{nil: true}}, vals...)
	}
	return vals
}

// intPasses: which alphabet goes through which codecs.
//
//	small units (everything but the proposals), both tiers; every unit in thorough:  full alphabet, every codec
//	proposals in quick: reduced alphabet through every codec; the header fields (slot, proposer index, share index)
//	                    additionally with the full alphabet through SSZ and the proto encoding with SSZ payload
func (e *c14env) intPasses(u *c14unit, lf c14leaf, thorough bool) []c14pass {
	full := c14withNil(lf, c14alphabet(lf.bits, lf.signed))
	if thorough || !c14isBig(u) {
		return []c14pass{{"all", [][]c14intVal{full}}, {"jsonproto", [][]c14intVal{full}}}
	}
	red := c14withNil(lf, c14reducedAlphabet(lf.bits, lf.signed))
	ps := []c14pass{{"all", [][]c14intVal{red}}, {"jsonproto", [][]c14intVal{red}}}
	if lf.wrapper {
		ps = append([]c14pass{{"ssz", [][]c14intVal{full}}}, ps...)
	}
	return ps
}

// intVariant builds the variant and evaluates it. The copy is made per call: nothing is shared between variants.
func (e *c14env) intVariant(u *c14unit, base any, sets []c14leaf, vals []c14intVal, mode string) (step, why string) {
	cp := reflect.New(reflect.TypeOf(base))
	cp.Elem().Set(c14deepCopy(reflect.ValueOf(base)))
	share, noJSON := 1, false
	for i, lf := range sets {
		if lf.share {
			share = int(int64(vals[i].u))
			continue
		}
		c14setLeaf(cp.Elem(), lf, vals[i])
		if !c14jsonDomain(u, lf, vals[i]) {
			noJSON = true
		}
	}
	x := cp.Elem().Interface()
	if p := c14guard(func() { step, why = e.intOracle(u, x, share, mode, noJSON) }); p != nil {
		return "panic", "panic " + p.Val + " in " + p.TopLib + " via " + p.TopCharon
	}
	return step, why
}

type c14intFail struct {
	step, why string
	vals      []string
	first     c14intCase
}

func c14normPath(p string) string { return c14idxRe.ReplaceAllString(p, "[]") }

// intRun enumerates the alphabet of one field (or the product of two) in the given passes.
func (e *c14env) intRun(u *c14unit, base any, sets []c14leaf, passes []c14pass, counter string) {
	r := e.r
	fails := map[string]*c14intFail{} // by step
	var order []string
	field := c14normPath(sets[0].path)
	if len(sets) == 2 {
		field += "*" + c14normPath(sets[1].path)
	}
	key := "int:" + u.Name + ":" + field
	valStr := func(cur []c14intVal) string {
		vs := cur[0].str(sets[0].signed)
		if len(sets) == 2 {
			vs += "*" + cur[1].str(sets[1].signed)
		}
		return vs
	}
	run := func(ps c14pass) {
		var walk func(k int, cur []c14intVal)
		walk = func(k int, cur []c14intVal) {
			if k < len(sets) {
				for _, v := range ps.alph[k] {
					walk(k+1, append(cur[:k:k], v))
				}
				return
			}
			r.Eval(key)
			step, why := e.intVariant(u, base, sets, cur, ps.mode)
			if step == "" {
				r.Count(counter, 1)
				return
			}
			for i := 0; i < 3; i++ { // confirmation
				if s2, _ := e.intVariant(u, base, sets, cur, ps.mode); s2 != step {
					r.Unconfirmed("int-roundtrip " + key)
					return
				}
			}
			if ps.mode == "jsonproto" && step != "panic" {
				step = "proto-json"
			}
			f := fails[step]
			if f == nil {
				c := c14intCase{Part: "ints", Unit: u.Name, Field: sets[0].path, Value: cur[0].str(sets[0].signed), Mode: ps.mode, Step: step}
				if len(sets) == 2 {
					c.Field2, c.Value2 = sets[1].path, cur[1].str(sets[1].signed)
				}
				f = &c14intFail{step: step, why: why, first: c}
				fails[step] = f
				order = append(order, step)
			}
			for _, have := range f.vals {
				if have == valStr(cur) {
					return
				}
			}
			f.vals = append(f.vals, valStr(cur))
		}
		walk(0, nil)
	}
	for _, ps := range passes {
		if ps.mode != "jsonproto" {
			run(ps)
			continue
		}
		if len(u.Duties) == 0 {
			continue
		}
		ps := ps
		e.t.Run("jsonproto", func(t *testing.T) {
			core.DisableSSZMarshallingForT(t)
			run(ps)
		})
	}
	for _, step := range order {
		f := fails[step]
		vs := "many"
		if len(f.vals) <= 4 {
			vs = strings.Join(f.vals, ",")
		}
		sig := fmt.Sprintf("kind=roundtrip-int step=%s type=%s field=%s values=%s", f.step, u.Name, field, vs)
		show := f.vals
		if len(show) > 12 {
			show = append(append([]string{}, show[:12]...), "...")
		}
		r.Violation(sig, fmt.Sprintf("%s with %s set to %s (all other fields at the generated base value): %s: %s; failing values (%d): %v",
			u.Name, field, f.vals[0], f.step, f.why, len(f.vals), show), f.first)
	}
}

// partInts: one field at a time. The leaves are dealt round-robin over K chunks (a chunk is the sharding unit).
func (e *c14env) partInts(u *c14unit, chunk, K int) {
	base, ok := e.intBase(u)
	if !ok {
		return
	}
	thorough := enumx.Thorough()
	leaves := e.intLeaves(u, base, thorough || !c14isBig(u))
	if chunk == 0 {
		e.r.Count("int_leaf_fields", len(leaves))
	}
	for li, lf := range leaves {
		if li%K != chunk {
			continue
		}
		if e.r.Expired() {
			return
		}
		e.intRun(u, base, []c14leaf{lf}, e.intPasses(u, lf, thorough), "int_variants_roundtripped")
	}
}

// partIntPairs (thorough): all pairs of the wrapper-level fields; full alphabets for the small units, the reduced
// alphabet for the proposals.
func (e *c14env) partIntPairs(u *c14unit, chunk, K int) {
	base, ok := e.intBase(u)
	if !ok {
		return
	}
	var ws []c14leaf
	for _, lf := range e.intLeaves(u, base, false) {
		if lf.wrapper && !lf.inList {
			ws = append(ws, lf)
		}
	}
	alph := func(lf c14leaf) []c14intVal {
		if c14isBig(u) || lf.share {
			return c14withNil(lf, c14reducedAlphabet(lf.bits, lf.signed))
		}
		return c14withNil(lf, c14alphabet(lf.bits, lf.signed))
	}
	// A work item is (pair, one of 4 slices of the first field's alphabet); the items are dealt round-robin over the
	// K chunks. Pairs go through Clone, SSZ, JSON and the proto encoding with SSZ payload (the JSON payload of the
	// proto encoding is covered one field at a time).
	const slices = 4
	n := 0
	for i := 0; i < len(ws); i++ {
		for j := i + 1; j < len(ws); j++ {
			if chunk == 0 {
				e.r.Count("int_field_pairs", 1)
			}
			a0, a1 := alph(ws[i]), alph(ws[j])
			for sl := 0; sl < slices; sl++ {
				n++
				if (n-1)%K != chunk {
					continue
				}
				if e.r.Expired() {
					return
				}
				var part []c14intVal
				for k, v := range a0 {
					if k%slices == sl {
						part = append(part, v)
					}
				}
				e.intRun(u, base, []c14leaf{ws[i], ws[j]}, []c14pass{{"all", [][]c14intVal{part, a1}}}, "int_pair_variants_roundtripped")
			}
		}
	}
}

// partIntDuty: core.Duty through its proto form and through a parsigex frame.
func (e *c14env) partIntDuty() {
	r := e.r
	types := []int64{-1, 0, 1, 2, 3, 4, 5, 6, 7, 8, 9, 10, 11, 12, 13, 14, 255, math.MaxInt32, math.MinInt32}
	for _, sv := range c14alphabet(64, false) {
		for _, tv := range types {
			r.Eval("int:Duty")
			r.Steps(1)
			d := core.Duty{Slot: sv.u, Type: core.DutyType(tv)}
			var got core.Duty
			p := c14guard(func() {
				msg := &pbv1.ParSigExMsg{Duty: core.DutyToProto(d)}
				b, err := proto.Marshal(msg)
				if err != nil {
					return
				}
				back := new(pbv1.ParSigExMsg)
				if err := proto.Unmarshal(b, back); err != nil {
					return
				}
				got = core.DutyFromProto(back.GetDuty())
			})
			if p == nil && got == d {
				r.Count("int_duty_roundtripped", 1)
				continue
			}
			r.Violation("kind=roundtrip-int step=proto type=Duty", fmt.Sprintf("core.Duty{Slot:%d,Type:%d} became %+v through DutyToProto/wire/DutyFromProto (panic=%v)", sv.u, tv, got, p != nil),
				c14intCase{Part: "ints", Unit: "Duty", Field: "Slot", Value: sv.str(false), Field2: "Type", Value2: strconv.FormatInt(tv, 10), Step: "proto"})
		}
	}
}

// replayInts re-runs one recorded variant on a freshly generated base value.
func (e *c14env) replayInts(c c14intCase, units []*c14unit) {
	for _, u := range units {
		if u.Name != c.Unit {
			continue
		}
		base, ok := e.intBase(u)
		if !ok {
			return
		}
		var sets []c14leaf
		var vals []c14intVal
		for _, fv := range [][2]string{{c.Field, c.Value}, {c.Field2, c.Value2}} {
			if fv[0] == "" {
				continue
			}
			for _, lf := range e.intLeaves(u, base, true) {
				if lf.path != fv[0] {
					continue
				}
				v := c14intVal{nil: fv[1] == "nil"}
				if !v.nil && lf.signed {
					n, _ := strconv.ParseInt(fv[1], 10, 64)
					v.u = uint64(n)
				} else if !v.nil {
					v.u, _ = strconv.ParseUint(fv[1], 10, 64)
				}
				sets, vals = append(sets, lf), append(vals, v)
			}
		}
		if len(sets) == 0 {
			fmt.Println("replay: the field does not exist in a freshly generated value")
			return
		}
		run := func() {
			step, why := e.intVariant(u, base, sets, vals, c.Mode)
			fmt.Printf("replay ints %s %s=%s %s=%s mode=%s: step=%q %s\n", c.Unit, c.Field, c.Value, c.Field2, c.Value2, c.Mode, step, why)
			if step != "" {
				e.r.Violation(fmt.Sprintf("kind=roundtrip-int step=%s type=%s field=%s", step, c.Unit, c.Field), why, c)
			}
		}
		if c.Mode == "jsonproto" {
			e.t.Run("jsonproto", func(t *testing.T) { core.DisableSSZMarshallingForT(t); run() })
		} else {
			run()
		}
		return
	}
	fmt.Println("replay: core.Duty variants are reproduced by re-running the check")
}
