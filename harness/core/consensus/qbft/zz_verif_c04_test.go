package qbft

// C04 – consensus termination under timely delivery with at most f crashed / late / silent members.
// Engine timex: exhaustive enumeration of fault scripts (crash points incl. halfway through a broadcast,
// silent and late members, late proposals, per-sender latency classes, every leader rotation, the three
// real round timers), each executed on the real qbft.Run + real newDefinition/leader/transport/Msg/timers
// in virtual time (DESIGN.md §5 C04).

import (
	"context"
	"fmt"
	"runtime"
	"sort"
	"strings"
	"testing"
	"testing/synctest"
	"time"

	k1 "github.com/decred/dcrd/dcrec/secp256k1/v4"
	"google.golang.org/protobuf/proto"

	"github.com/obolnetwork/charon/app/featureset"
	"github.com/obolnetwork/charon/app/log"
	"github.com/obolnetwork/charon/core"
	"github.com/obolnetwork/charon/core/consensus/instance"
	"github.com/obolnetwork/charon/core/consensus/timer"
	pbv1 "github.com/obolnetwork/charon/core/corepb/v1"
	"github.com/obolnetwork/charon/core/qbft"
	"github.com/obolnetwork/charon/zzverif/bsync"
	"github.com/obolnetwork/charon/zzverif/enumx"
)

const c04delta = 40 * time.Millisecond // base one-way latency; slow senders use 3*delta (< 1/3 of the shortest round timeout, 400ms)

type c04crash struct {
	Member int `json:"member"`
	At     int `json:"at_broadcast"` // 0 = silent from the start; k>0 = stops during its k-th broadcast
	Reach  int `json:"reach"`        // that broadcast still reaches: 0 nobody, 1 the first half of the others, 2 all but one, 3 only the last of the others, 4 only the first
}

type c04script struct {
	N         int        `json:"n"`
	Timer     string     `json:"timer"` // inc, eager_dlinear, linear
	PropTO    bool       `json:"proposal_timeout_feature"`
	DutyType  int        `json:"duty_type"`
	Slot      uint64     `json:"slot"`
	Crashes   []c04crash `json:"crashes"`
	Late      []int      `json:"late_start_quarters"` // per member: start offset in quarters of the first round timeout (0,1,3)
	Slow      []bool     `json:"slow_sender"`
	LateInput []int      `json:"late_input_quarters"`
	MapRot    int        `json:"maprot"`
	// wide family (timing alphabets beyond the two-class one): per member start offset in twentieths of the first round
	// timeout (overrides Late when set) and per sender latency class 0 = delta, 1 = 3*delta, 2 = 0.3 * shortest round timeout
	Late20 []int `json:"late_start_twentieths,omitempty"`
	Lat    []int `json:"latency_class,omitempty"`
	// production wiring of the round timer (core/consensus/qbft NewConsensus): timer_ctor "prod" = the timer is obtained from
	// timer.GetRoundTimerFunc(genesis, slotDuration)(duty) under the feature flags below (Timer then names the type that
	// the constructor is expected to yield); slot_aligned = genesis and slot duration are handed to the constructor (as
	// NewConsensus does) so that round r of the eager double-linear timer ends at dutyStart + f(r) on the wall clock,
	// whenever the member starts; false = zero genesis (the timer falls back to the member's own clock).
	// cluster_start_ms_after_duty_start: the instant the first members start, relative to the duty's start
	// (slot start + 1/3 slot for attester, 2/3 for aggregator duties, the scheduler's offsets).
	TimerCtor      string `json:"timer_ctor,omitempty"`
	FeatEDL        bool   `json:"feature_eager_double_linear,omitempty"`
	FeatLinear     bool   `json:"feature_linear,omitempty"`
	SlotAligned    bool   `json:"slot_aligned,omitempty"`
	SlotDurMs      int    `json:"slot_duration_ms,omitempty"`
	ClusterStartMs int    `json:"cluster_start_ms_after_duty_start,omitempty"`
	// layer "" = one qbft.Run per member (this file); "component" = four real Consensus components (zz_verif_c04comp_test.go)
	Layer string `json:"layer,omitempty"`
	// per member start offset in milliseconds after the cluster's start (overrides Late/Late20 when > 0); may exceed a round
	LateMs []int `json:"late_start_ms,omitempty"`
	// order in which a select with several ready cases picks one (runtime overlay): 0 = source order, 1 = reverse order
	SelOrder int `json:"select_order,omitempty"`
}

// c04roundCap: a member that has entered this many rounds without deciding is stopped by the harness (it is then judged as
// "never decided": the horizon of 90 s would let it go on to round ~90; the cap keeps the receive buffers of the members
// that have left, 100 messages each, from filling up).
const c04roundCap = 64

// c04lat returns the one-way latency of a sender.
func c04lat(sc c04script, m int) time.Duration {
	if len(sc.Lat) > m {
		switch sc.Lat[m] {
		case 1:
			return 3 * c04delta
		case 2:
			if sc.Timer == "linear" { // shortest round timeout 400ms
				return 3 * c04delta
			}
			return 300 * time.Millisecond // shortest round timeout 1s
		}
	}
	if sc.Slow[m] {
		return 3 * c04delta
	}
	return c04delta
}

func c04lateOff(sc c04script, m int) time.Duration {
	if len(sc.LateMs) > m && sc.LateMs[m] > 0 {
		return time.Duration(sc.LateMs[m]) * time.Millisecond
	}
	if len(sc.Late20) > m && sc.Late20[m] > 0 {
		return c04firstRound(sc) * time.Duration(sc.Late20[m]) / 20
	}
	return time.Duration(sc.Late[m]) * (c04firstRound(sc) / 4)
}

// c04faulty returns the members that are faulty in the sense of the statement (crash, silent, late start, late proposal).
func c04faulty(sc c04script) map[int]bool {
	f := map[int]bool{}
	for _, c := range sc.Crashes {
		f[c.Member] = true
	}
	for m := 0; m < sc.N; m++ {
		if c04lateOff(sc, m) > 0 || sc.LateInput[m] > 0 {
			f[m] = true
		}
	}
	return f
}

// c04dl is the deadliner of the per-member receive handler: the duty never expires during a run.
type c04dl struct{}

func (c04dl) Add(core.Duty) core.DeadlineStatus { return core.DeadlineScheduled }
func (c04dl) C() <-chan core.Duty               { return nil }

func (s c04script) String() string {
	out := fmt.Sprintf("n=%d timer=%s/%v duty=%d/%d", s.N, s.Timer, s.PropTO, s.DutyType, s.Slot)
	if s.TimerCtor != "" {
		out += fmt.Sprintf(" ctor=%s(linear=%v eager=%v aligned=%v slot=%dms) cluster_start=duty_start+%dms", s.TimerCtor, s.FeatLinear, s.FeatEDL, s.SlotAligned, s.SlotDurMs, s.ClusterStartMs)
	}
	out += fmt.Sprintf(" crashes=%v late=%v slow=%v lateinput=%v rot=%d", s.Crashes, s.Late, s.Slow, s.LateInput, s.MapRot)
	if len(s.LateMs) > 0 {
		out += fmt.Sprintf(" late_ms=%v", s.LateMs)
	}
	if len(s.Late20) > 0 || len(s.Lat) > 0 {
		out += fmt.Sprintf(" late20=%v lat=%v", s.Late20, s.Lat)
	}
	return out
}

// c04timerLabel names the timer in signatures: "@slot" marks the slot-aligned production form.
func c04timerLabel(sc c04script) string {
	if sc.TimerCtor == "prod" && sc.SlotAligned && sc.Timer == "eager_dlinear" {
		return sc.Timer + "@slot"
	}
	return sc.Timer
}

// c04dutyDelay: the scheduler's offset of a duty's start within its slot (core/scheduler: attester 1/3, aggregator and
// sync contribution 2/3, everything else at the slot start) - written down here independently of the timer package.
func c04dutyDelay(typ core.DutyType, slot time.Duration) time.Duration {
	switch typ {
	case core.DutyAttester:
		return slot / 3
	case core.DutyAggregator, core.DutySyncContribution:
		return 2 * slot / 3
	}
	return 0
}

// c04genesis places the genesis so that the duty starts ClusterStartMs before t0 (the cluster's start).
func c04genesis(sc c04script, t0 time.Time) time.Time {
	slot := time.Duration(sc.SlotDurMs) * time.Millisecond
	dutyStart := t0.Add(-time.Duration(sc.ClusterStartMs) * time.Millisecond)
	return dutyStart.Add(-c04dutyDelay(core.DutyType(sc.DutyType), slot)).Add(-slot * time.Duration(sc.Slot))
}

// c04alignedExpired: the number of rounds whose first slot-aligned deadline (dutyStart + timeout(r)) has passed at an instant
// given relative to the cluster's start.
func c04alignedExpired(sc c04script, at time.Duration) (n int64) {
	at += time.Duration(sc.ClusterStartMs) * time.Millisecond // since the duty's start
	for k := int64(1); c04timeout(sc, k) <= at; k++ {
		n++
	}
	return n
}

// c04clusterStartClass names the cluster's start relative to the first slot-aligned deadline (signatures).
func c04clusterStartClass(sc c04script) string {
	switch {
	case sc.ClusterStartMs == 0:
		return "on-time"
	case time.Duration(sc.ClusterStartMs)*time.Millisecond < c04timeout(sc, 1):
		return "within-first-round"
	}
	return "after-first-slot-deadline"
}

var c04keys []*k1.PrivateKey

func c04key(i int) *k1.PrivateKey {
	for len(c04keys) <= i {
		var b [32]byte
		b[0], b[31] = 0x42, byte(len(c04keys)+1)
		c04keys = append(c04keys, k1.PrivKeyFromBytes(b[:]))
	}
	return c04keys[i]
}

type c04member struct {
	idx        int
	ctx        context.Context
	cancel     context.CancelFunc
	outer      chan Msg
	started    bool
	startedAt  time.Duration
	capped     bool // stopped by the harness after c04roundCap rounds without a decision
	timerType  string
	crashed    bool
	silent     bool
	bcasts     int
	round      int64
	decided    bool
	decidedAt  time.Duration
	decidedRnd int64
	decidedVal string
	unjust     []string
	rejected   []string // messages of other (honest) members refused by this member's receive handler
	cons       *Consensus
	runErr     error
	exited     bool
}

type c04net struct {
	sc      c04script
	members []*c04member
	t0      time.Time
	ctx     context.Context
	seq     int
	// instant and highest round of the last fault (crash, late start, late input)
	lastFaultAt  time.Duration
	lastFaultRnd int64
}

func (n *c04net) maxRound() int64 {
	var r int64 = 1
	for _, m := range n.members {
		if m.started && !m.crashed && m.round > r {
			r = m.round
		}
	}
	return r
}

func (n *c04net) fault() {
	n.lastFaultAt = time.Since(n.t0)
	n.lastFaultRnd = n.maxRound()
}

type c04bcast struct {
	net *c04net
	m   *c04member
}

// Broadcast is the network: it converts the wire message exactly as the receiving handler does
// (valuesByHash + newMsg) and delivers it to every other member after the sender's latency.
func (b c04bcast) Broadcast(_ context.Context, pb *pbv1.QBFTConsensusMsg) error {
	n, m := b.net, b.m
	if m.crashed {
		return nil
	}
	m.bcasts++
	var targets []int
	for j := range n.members {
		if j != m.idx {
			targets = append(targets, j)
		}
	}
	crashNow := false
	for _, c := range n.sc.Crashes {
		if c.Member == m.idx && c.At > 0 && c.At == m.bcasts {
			crashNow = true
			switch c.Reach {
			case 0:
				targets = nil
			case 1:
				targets = targets[:len(targets)/2]
			case 3:
				targets = targets[len(targets)-1:]
			case 4:
				targets = targets[:1]
			default:
				targets = targets[:len(targets)-1]
			}
		}
	}
	lat := c04lat(n.sc, m.idx)
	for _, j := range targets {
		n.seq++
		// distinct arrival instants: no two deliveries and no delivery and timer coincide
		d := lat + time.Duration(m.idx*len(n.members)+j)*37*time.Microsecond + time.Duration(n.seq%97)*time.Microsecond
		wire, ok := proto.Clone(pb).(*pbv1.QBFTConsensusMsg)
		if !ok {
			return nil
		}
		dst := n.members[j]
		go func() {
			tm := time.NewTimer(d)
			defer tm.Stop()
			select {
			case <-tm.C:
			case <-n.ctx.Done():
				return
			}
			// the recipient's real receive handler: signature and justification verification, limits, conversion,
			// enqueueing into the duty's receive buffer (= dst.outer)
			_, _, err := dst.cons.handle(n.ctx, "", wire)
			if err != nil && n.ctx.Err() == nil {
				dst.rejected = append(dst.rejected, fmt.Sprintf("%v of member %d round %d (%d justifications, %d values): %s",
					qbft.MsgType(wire.GetMsg().GetType()), wire.GetMsg().GetPeerIdx(), wire.GetMsg().GetRound(),
					len(wire.GetJustification()), len(wire.GetValues()), c04errClass(err)))
			}
		}()
	}
	if crashNow {
		m.crashed = true
		n.fault()
		m.cancel()
	}
	return nil
}

func c04errClass(err error) string {
	s := err.Error()
	if i := strings.IndexAny(s, ":{"); i > 0 {
		s = s[:i]
	}
	if len(s) > 60 {
		s = s[:60]
	}
	return strings.ReplaceAll(strings.TrimSpace(s), " ", "-")
}

func c04timer(sc c04script, duty core.Duty, t0 time.Time) timer.RoundTimer {
	if sc.TimerCtor == "prod" {
		// as NewConsensus: timerFunc = timer.GetRoundTimerFunc(genesisTime, slotDuration); runInstance: roundTimer = timerFunc(duty)
		var genesis time.Time
		if sc.SlotAligned {
			genesis = c04genesis(sc, t0)
		}
		return timer.GetRoundTimerFunc(genesis, time.Duration(sc.SlotDurMs)*time.Millisecond)(duty)
	}
	switch sc.Timer {
	case "inc":
		return timer.NewIncreasingRoundTimerWithDuty(duty)
	case "eager_dlinear":
		return timer.NewDoubleEagerLinearRoundTimerWithDuty(duty)
	}
	return timer.NewLinearRoundTimerWithDuty(duty)
}

func c04firstRound(sc c04script) time.Duration {
	switch sc.Timer {
	case "inc":
		return timer.IncRoundStart + timer.IncRoundIncrease
	default:
		return time.Second
	}
}

type c04result struct {
	members     []*c04member
	lockWaiters int // goroutines found waiting for a lock of the code under test at the end of the execution
	faultAt     time.Duration
	faultR      int64
	horizon     time.Duration
}

func c04run(t *testing.T, sc c04script) (res c04result) {
	runtime.VerifSetMapRot(true, uint64(sc.MapRot))
	runtime.VerifSetSelMode(uint32(1 + sc.SelOrder))
	defer runtime.VerifSetMapRot(false, 0)
	defer runtime.VerifSetSelMode(0)
	feat := func(f featureset.Feature, on bool) {
		if on {
			featureset.EnableForT(t, f)
		} else {
			featureset.DisableForT(t, f)
		}
	}
	feat(featureset.ProposalTimeout, sc.PropTO)
	if sc.TimerCtor == "prod" {
		feat(featureset.EagerDoubleLinear, sc.FeatEDL)
		feat(featureset.Linear, sc.FeatLinear)
	}
	duty := core.Duty{Slot: sc.Slot, Type: core.DutyType(sc.DutyType)}
	horizon := 90 * time.Second
	res.horizon = horizon
	synctest.Test(t, func(t *testing.T) {
		ctx, cancelAll := context.WithCancel(context.Background())
		net := &c04net{sc: sc, t0: time.Now(), ctx: ctx}
		for i := 0; i < sc.N; i++ {
			mctx, mc := context.WithCancel(ctx)
			cons := &Consensus{pubkeys: map[int64]*k1.PublicKey{}, gaterFunc: func(core.Duty) bool { return true }, deadliner: c04dl{}, dropFilter: log.Filter()}
			cons.mutable.instances = make(map[core.Duty]*instance.IO[Msg])
			for j := 0; j < sc.N; j++ {
				cons.pubkeys[int64(j)] = c04key(j).PubKey()
			}
			net.members = append(net.members, &c04member{idx: i, ctx: mctx, cancel: mc, outer: cons.getRecvBuffer(duty), cons: cons, round: 1})
		}
		for _, c := range sc.Crashes {
			if c.At == 0 {
				net.members[c.Member].silent = true
				net.members[c.Member].crashed = true
			}
		}
		q := c04firstRound(sc) / 4
		_ = q
		done := make(chan int, sc.N)
		running := 0
		for _, m := range net.members {
			m := m
			if m.silent {
				continue
			}
			running++
			go func() {
				defer func() { m.exited = true; done <- m.idx }()
				if off := c04lateOff(sc, m.idx); off > 0 {
					select {
					case <-time.After(off + time.Duration(m.idx+1)*13*time.Microsecond):
					case <-m.ctx.Done():
						return
					}
					net.fault()
				}
				m.started, m.startedAt = true, time.Since(net.t0)
				rt := c04timer(sc, duty, net.t0)
				m.timerType = string(rt.Type())
				valueCh := make(chan instance.ValueWithHash, 1)
				hashCh := make(chan [32]byte, 1)
				verifyCh := make(chan proto.Message, 1)
				// the member's own proposal (every running member proposes the same data here; what is decided is not
				// the subject of C04), possibly late by less than a round
				// two validators per duty (the normal case): a proto map with two entries, inserted in descending key order so
				// that the sender's default marshalling (map iteration order, pinned to insertion order here) differs from the
				// canonical one - the agreed hash must not depend on which of the two a node sees
				v := &pbv1.UnsignedDataSet{Set: map[string][]byte{}}
				v.Set["0xdef"] = []byte(fmt.Sprintf("second-validator-of-%d", m.idx))
				v.Set["0xabc"] = []byte(fmt.Sprintf("proposal-of-%d", m.idx))
				hash, err := hashProto(v)
				if err != nil {
					m.runErr = err
					return
				}
				provide := func() {
					valueCh <- instance.ValueWithHash{Hash: hash, Value: v}
					hashCh <- hash
				}
				if off := time.Duration(sc.LateInput[m.idx]) * q; off > 0 {
					go func() {
						select {
						case <-time.After(off + time.Duration(m.idx+1)*17*time.Microsecond):
							net.fault()
							provide()
						case <-m.ctx.Done():
						}
					}()
				} else {
					provide()
				}
				subs := func() []subscriber {
					return []subscriber{func(_ context.Context, _ core.Duty, val proto.Message) error {
						set, _ := val.(*pbv1.UnsignedDataSet)
						m.decidedVal = string(set.GetSet()["0xabc"])
						return nil
					}}
				}
				def := newDefinition(sc.N, subs, rt, func(round int64) {
					m.decided, m.decidedAt, m.decidedRnd = true, time.Since(net.t0), round
					m.cancel() // as runInstance does
				}, false)
				origRC := def.LogRoundChange
				def.LogRoundChange = func(ctx context.Context, d core.Duty, process, round, newRound int64, rule qbft.UponRule, msgs []qbft.Msg[core.Duty, [32]byte, proto.Message]) {
					origRC(ctx, d, process, round, newRound, rule, msgs)
					m.round = newRound
					if newRound > c04roundCap && !m.decided {
						m.capped = true
						m.cancel()
					}
				}
				def.LogUnjust = func(_ context.Context, _ core.Duty, _ int64, msg qbft.Msg[core.Duty, [32]byte, proto.Message]) {
					m.unjust = append(m.unjust, fmt.Sprintf("%v from member %d round %d", msg.Type(), msg.Source(), msg.Round()))
				}
				tr := newTransport(c04bcast{net, m}, c04key(m.idx), valueCh, make(chan qbft.Msg[core.Duty, [32]byte, proto.Message]), newSniffer(int64(sc.N), int64(m.idx)))
				go tr.ProcessReceives(m.ctx, m.outer)
				qt := qbft.Transport[core.Duty, [32]byte, proto.Message]{Broadcast: tr.Broadcast, Receive: tr.RecvBuffer()}
				err = qbft.Run(m.ctx, def, qt, duty, int64(m.idx), hashCh, verifyCh)
				if err != nil && !isContextErr(err) {
					m.runErr = err
				}
			}()
		}
		// run until everybody has exited (decided or crashed) or the horizon
		deadline := time.After(horizon)
	wait:
		for running > 0 {
			select {
			case <-done:
				running--
			case <-deadline:
				break wait
			}
		}
		res.faultAt, res.faultR = net.lastFaultAt, net.lastFaultRnd
		cancelAll()
		synctest.Wait()
		// a member whose goroutine waits for a lock that nobody will release (only a changed tree does that) cannot end: it has
		// been judged as what it is - a member that did not decide -, now all locks are opened so that the bubble can be left
		if bsync.Waiting() > 0 {
			res.lockWaiters = bsync.Waiting()
			bsync.Teardown()
			defer bsync.Reset()
			synctest.Wait()
		}
		for running > 0 {
			<-done
			running--
		}
		synctest.Wait()
		res.members = net.members
	})
	return res
}

// c04timeout returns the duration of a round for the time bound.
func c04timeout(sc c04script, round int64) time.Duration {
	switch sc.Timer {
	case "inc":
		return timer.IncRoundStart + time.Duration(round)*timer.IncRoundIncrease
	case "eager_dlinear":
		d := time.Duration(round) * timer.LinearRoundInc
		if sc.PropTO && sc.DutyType == int(core.DutyProposer) {
			d += timer.ProposalRoundExtra
		}
		return d
	}
	if round == 1 {
		if sc.PropTO && sc.DutyType == int(core.DutyProposer) {
			return timer.LinearRoundInc + timer.ProposalRoundExtra
		}
		return time.Second
	}
	return time.Duration(200*(round-1)+200) * time.Millisecond
}

func c04check(sc c04script, r c04result) (sigs, descs []string) {
	bad := func(sig, f string, a ...any) {
		sigs = append(sigs, sig)
		descs = append(descs, fmt.Sprintf(f, a...))
	}
	crashed := map[int]bool{}
	for _, c := range sc.Crashes {
		crashed[c.Member] = true
	}
	// the termination clause is conditional on at most f faulty members (crashed, silent, late, proposal late); the other
	// clauses (no honest message refused, agreement) are judged in every script
	termination := len(c04faulty(sc)) <= (sc.N-1)/3
	wideLat := false
	for _, l := range sc.Lat {
		wideLat = wideLat || l == 2
	}
	vals := map[string]bool{}
	for _, m := range r.members {
		if len(m.unjust) > 0 {
			bad("kind=honest-message-rejected-as-unjustified", "member %d rejected as unjustified: %v", m.idx, m.unjust)
		}
		if len(m.rejected) > 0 {
			cls := m.rejected[0][strings.LastIndex(m.rejected[0], ": ")+2:]
			bad("kind=honest-message-refused-by-receive-handler err="+cls, "member %d's receive handler refused: %v", m.idx, m.rejected)
		}
		if crashed[m.idx] {
			continue
		}
		if m.runErr != nil {
			bad("kind=instance-error", "member %d: consensus instance ended with %v", m.idx, m.runErr)
			continue
		}
		if m.decided {
			vals[m.decidedVal] = true
		}
		if !termination {
			continue
		}
		if !m.decided {
			// classification only (the verdict is the line above): did this member start after every other running member had
			// decided and stopped its instance (as runInstance does on a decision)?
			var (
				lastOther    time.Duration
				lastOtherRnd int64
			)
			others, left, gone := 0, 0, 0
			var goneAt time.Duration
			var goneRnd int64
			for _, o := range r.members {
				if o.idx == m.idx || crashed[o.idx] {
					continue
				}
				others++
				if o.decided && m.started && o.decidedAt < m.startedAt {
					left++
					lastOther = max(lastOther, o.decidedAt)
					lastOtherRnd = max(lastOtherRnd, o.decidedRnd)
				}
				if o.decided && m.started && o.decidedAt >= m.startedAt {
					gone++
					goneAt = max(goneAt, o.decidedAt)
					goneRnd = max(goneRnd, o.decidedRnd)
				}
			}
			capped := ""
			if m.capped {
				capped = fmt.Sprintf(" (harness cap of %d rounds reached)", c04roundCap)
			}
			aligned := sc.TimerCtor == "prod" && sc.SlotAligned && sc.Timer == "eager_dlinear"
			if others > 0 && left == others && !(aligned && c04alignedExpired(sc, m.startedAt) >= lastOtherRnd) {
				// its timer of the round in which the others decided was still open when it started: everything it needs is in
				// its receive buffer (this is not the situation of the known finding about the slot-aligned timer)
				bad("kind=running-member-never-decided cause=the-others-had-decided-and-left-but-their-deciding-round-was-still-open-on-its-timer",
					"member %d kept running but had not decided after %s (round %d); all other running members had decided by %s (round %d) and stopped their instances (as runInstance does); this member started its instance at %s, when its timer for round %d had not expired yet%s",
					m.idx, r.horizon, m.round, lastOther, lastOtherRnd, m.startedAt, lastOtherRnd, capped)
				continue
			}
			if others > 0 && left == others {
				expired := c04alignedExpired(sc, m.startedAt)
				bad("kind=running-member-never-decided cause=joined-after-the-others-decided-and-left cluster-start="+c04clusterStartClass(sc),
					"member %d kept running but had not decided after %s (round %d); all other running members had decided by %s and stopped their instances (as runInstance does), this member started its instance at %s, when the slot-aligned deadlines of %d round(s) had already passed%s",
					m.idx, r.horizon, m.round, lastOther, m.startedAt, expired, capped)
				continue
			}
			if others > 0 && gone == others && m.round > goneRnd {
				// classification only: it was running while the others decided, in a round it had already left, and they stopped
				bad("kind=running-member-never-decided cause=the-others-decided-in-a-round-it-had-already-left-and-stopped",
					"member %d kept running but had not decided after %s (round %d); it started at %s, all other running members decided by %s in round %d or earlier - a round this member had left - and stopped their instances (as runInstance does): nobody answers its ROUND-CHANGEs%s",
					m.idx, r.horizon, m.round, m.startedAt, goneAt, goneRnd, capped)
				continue
			}
			bad("kind=running-member-never-decided", "member %d kept running but had not decided after %s (round %d)%s", m.idx, r.horizon, m.round, capped)
			continue
		}
		// one full leader rotation after the last fault
		if m.decidedRnd > r.faultR+int64(sc.N) {
			bad("kind=decided-later-than-one-rotation", "member %d decided in round %d; the last fault happened at %s when the furthest member was in round %d (n=%d)", m.idx, m.decidedRnd, r.faultAt, r.faultR, sc.N)
		}
		var bound time.Duration
		for k := r.faultR; k <= r.faultR+int64(sc.N); k++ {
			bound += c04timeout(sc, k)
		}
		bound = r.faultAt + bound + bound/2 + time.Second
		if m.decidedAt > bound && !wideLat {
			bad("kind=decided-later-than-one-rotation time", "member %d decided at %s; bound %s (last fault at %s in round %d)", m.idx, m.decidedAt, bound, r.faultAt, r.faultR)
		}
	}
	if len(vals) > 1 {
		bad("kind=disagreement", "running members decided different values: %v", vals)
	}
	return
}

func c04subsets(n, k int) [][]int {
	var out [][]int
	var rec func(start int, cur []int)
	rec = func(start int, cur []int) {
		if len(cur) == k {
			out = append(out, append([]int(nil), cur...))
			return
		}
		for i := start; i < n; i++ {
			rec(i+1, append(cur, i))
		}
	}
	rec(0, nil)
	return out
}

func TestVerifC04(t *testing.T) {
	log.InitConsoleForT(t, c04log) // the console log is scanned for two lines by the component layer and otherwise discarded
	r := enumx.New(t, "C04")
	defer r.Finish()
	confirmed := map[string]bool{} // signatures confirmed (3 re-runs) and reported by this process: further cases are counted
	var judge func(sc c04script)
	judge = func(sc c04script) {
		if sc.Layer == "component" {
			c04compJudge(t, r, sc, confirmed)
			return
		}
		res := c04run(t, sc)
		sigs, descs := c04check(sc, res)
		var rounds []string
		ndec := 0
		for _, m := range res.members {
			if m.decided {
				ndec++
				rounds = append(rounds, fmt.Sprint(m.decidedRnd))
			}
		}
		sort.Strings(rounds)
		cls := fmt.Sprintf("n=%d:%s:crashes=%d:decided=%d:rounds=%s", sc.N, sc.Timer, len(sc.Crashes), ndec, strings.Join(rounds, ""))
		r.Eval(cls)
		r.Outcome(cls)
		r.Steps(1)
		r.Count("members_decided", ndec)
		if res.lockWaiters > 0 {
			r.Count("goroutines_left_waiting_for_a_lock_of_the_code_under_test", res.lockWaiters)
		}
		for _, m := range res.members {
			if !m.started || c04lateOff(sc, m.idx) <= c04firstRound(sc) {
				continue
			}
			if m.decided {
				r.Count("members_started_beyond_one_round_decided", 1)
			} else {
				r.Count("members_started_beyond_one_round_never_decided", 1)
			}
			if m.capped {
				r.Count("members_stopped_by_the_round_cap", 1)
			}
		}
		for _, m := range res.members {
			if sc.TimerCtor == "prod" && m.started && m.timerType != sc.Timer {
				r.Note(fmt.Sprintf("harness: timer.GetRoundTimerFunc yielded %q where the script expects %q [%s]", m.timerType, sc.Timer, sc))
			}
		}
		for i, sig := range sigs {
			full := fmt.Sprintf("%s timer=%s n=%d", sig, c04timerLabel(sc), sc.N)
			if confirmed[full] {
				r.Violation(full, fmt.Sprintf("%s [script %s]", descs[i], sc), sc)
				continue
			}
			ok := true
			for k := 0; k < 3; k++ {
				s2, _ := c04check(sc, c04run(t, sc))
				found := false
				for _, x := range s2 {
					found = found || x == sig
				}
				if !found {
					ok = false
				}
			}
			if !ok {
				r.Unconfirmed(sig + " " + sc.String())
				continue
			}
			confirmed[full] = true
			r.Violation(full, fmt.Sprintf("%s [script %s]", descs[i], sc), sc)
		}
	}
	if r.ReplayPath != "" {
		var sc c04script
		if err := r.ReplayCase(&sc); err != nil {
			t.Fatal(err)
		}
		if sc.Layer != "component" {
			res := c04run(t, sc)
			for _, m := range res.members {
				fmt.Printf("member %d: started=%v@%s crashed=%v decided=%v@%s round=%d (now %d) val=%q unjust=%v err=%v\n", m.idx, m.started, m.startedAt, m.crashed, m.decided, m.decidedAt, m.decidedRnd, m.round, m.decidedVal, m.unjust, m.runErr)
			}
		}
		judge(sc)
		return
	}
	// Part 0: the component layer (zz_verif_c04comp_test.go)
	if !c04compPart(t, r, judge) {
		return
	}
	th := enumx.Thorough()
	ns := []int{4, 5, 6} // (6: the smallest size at which a quorum exists without the leader and one more member)
	if th {
		ns = []int{4, 5, 6, 7}
	}
	// the production timer constructor and start offsets beyond one round (qbft.Run layer), before the main family
	if !c04prodFamily(r, th, ns, judge) {
		return
	}
	if !th {
		// quick tier: n=7 (f=2, the smallest size at which TWO members can be faulty at once) with the default timer and the
		// attester duty only, every leader rotation, main family only
		ns = append(ns, 7)
	}
	timers := []string{"inc", "eager_dlinear", "linear"}
	sampled := 0
	for _, n := range ns {
		f := (n - 1) / 3
		for _, tm := range timers {
			for _, dt := range []int{int(core.DutyAttester), int(core.DutyProposer)} {
				if dt == int(core.DutyProposer) && !th && tm != "eager_dlinear" {
					continue
				}
				if n == 7 && !th && (tm != "eager_dlinear" || dt != int(core.DutyAttester)) {
					continue
				}
				for slot := uint64(0); slot < uint64(n); slot++ { // every leader rotation
					// sharding: the unit's main scripts are one work unit, every crash option of its wide family is another one
					// (every shard walks through the same enumeration; `active` says whether the current scripts are this shard's)
					mine := r.Mine()
					if r.Expired() {
						return
					}
					active := mine
					base := func() c04script {
						return c04script{N: n, Timer: tm, PropTO: dt == int(core.DutyProposer), DutyType: dt, Slot: slot,
							Late: make([]int, n), Slow: make([]bool, n), LateInput: make([]int, n)}
					}
					run := func(sc c04script) {
						if !active {
							return
						}
						judge(sc)
						if sampled < 3 && len(sc.Crashes) > 0 {
							sampled++
							r.Sample(sc.String())
						}
					}
					run(base())
					// The property allows at most f members to be faulty in any way (crash at any point, silent, late start,
					// proposal not available from the start). Every subset of at most f members; the first member of the subset
					// takes every fault kind, the others a fixed selection; each script also with one slow (3*delta) running sender.
					type fault struct {
						kind      string // crash, late, lateinput
						at, reach int
						q         int
					}
					var kinds []fault
					maxAt := 4
					if n > 4 {
						maxAt = 3
					}
					for at := 0; at <= maxAt; at++ {
						for reach := 0; reach < 3; reach++ {
							if at == 0 && reach > 0 {
								continue
							}
							kinds = append(kinds, fault{kind: "crash", at: at, reach: reach})
						}
					}
					for _, q := range []int{1, 3} {
						kinds = append(kinds, fault{kind: "late", q: q}, fault{kind: "lateinput", q: q})
					}
					others := []fault{{kind: "crash", at: 0}, {kind: "crash", at: 2, reach: 1}, {kind: "late", q: 3}}
					if f >= 2 {
						// with two faulty members: the second one also stops during its FIRST broadcast (a leader's PRE-PREPARE,
						// anybody else's PREPARE), reaching half of the others / all but one
						others = append(others, fault{kind: "crash", at: 1, reach: 1}, fault{kind: "crash", at: 1, reach: 2},
							fault{kind: "crash", at: 1, reach: 3}, fault{kind: "crash", at: 1, reach: 4}) // ... or exactly one of them
					}
					apply := func(sc *c04script, m int, f fault) {
						switch f.kind {
						case "crash":
							sc.Crashes = append(sc.Crashes, c04crash{m, f.at, f.reach})
						case "late":
							sc.Late[m] = f.q
						case "lateinput":
							sc.LateInput[m] = f.q
						}
					}
					for k := 1; k <= f; k++ {
						subs := c04subsets(n, k)
						if n > 4 && !th {
							subs = subs[:2]
						}
						for _, sub := range subs {
							for _, f0 := range kinds {
								for oi := range others {
									if k == 1 && oi > 0 {
										break
									}
									sc := base()
									apply(&sc, sub[0], f0)
									for _, o := range sub[1:] {
										apply(&sc, o, others[oi])
									}
									run(sc)
									inSub := map[int]bool{}
									for _, x := range sub {
										inSub[x] = true
									}
									cnt := 0
									for x := 0; x < n; x++ {
										if inSub[x] {
											continue
										}
										cnt++
										if n > 4 && cnt > 2 {
											break
										}
										s2 := sc
										s2.Slow = make([]bool, n)
										s2.Slow[x] = true
										run(s2)
									}
								}
							}
						}
					}
					// no fault: every latency-class assignment (n=4) / each single slow sender (n>4)
					lim := 1 << n
					if n > 4 {
						lim = n + 1
					}
					for mask := 1; mask < lim; mask++ {
						sc := base()
						if n > 4 {
							sc.Slow[mask-1] = true
						} else {
							for i := 0; i < n; i++ {
								sc.Slow[i] = mask&(1<<i) != 0
							}
						}
						run(sc)
					}
					// Wide family: the clauses that hold unconditionally (no message of an honest member is refused by another
					// honest member's receive handler or reported unjustified, agreement, no instance error) over a finer timing
					// alphabet, and the termination clause wherever at most f members are faulty: no crash or every crash kind of
					// every member x every assignment, to at most D of the other members, of a start offset in {0, 1/4, 3/4, 19/20} of
					// the first round and a latency class in {delta, 3*delta, 0.3 * shortest round timeout}.
					wideD := 0
					switch {
					case n == 4 && th:
						wideD = 3
					case n == 4:
						wideD = 2
					case n == 5 && th:
						wideD = 2
					case n == 5 && dt == int(core.DutyAttester):
						wideD = 1
					case th:
						wideD = 1
					}
					if dt == int(core.DutyProposer) && !th {
						wideD = 0
					}
					if wideD > 0 {
						type dev struct{ late20, lat int }
						var devs []dev
						for _, l20 := range []int{0, 5, 15, 19} {
							for lat := 0; lat <= 2; lat++ {
								if (l20 == 0 && lat == 0) || (lat == 2 && tm == "linear") {
									continue
								}
								devs = append(devs, dev{l20, lat})
							}
						}
						crashOpts := []*c04crash{nil}
						for m := 0; m < n; m++ {
							for _, k := range kinds {
								if k.kind == "crash" {
									crashOpts = append(crashOpts, &c04crash{m, k.at, k.reach})
								}
							}
						}
						for _, co := range crashOpts {
							if active = r.Mine(); !active {
								continue
							}
							var rest []int
							for m := 0; m < n; m++ {
								if co == nil || co.Member != m {
									rest = append(rest, m)
								}
							}
							for d := 1; d <= wideD && d <= len(rest); d++ {
								for _, pick := range c04subsets(len(rest), d) {
									idx := make([]int, d)
									for {
										sc := base()
										sc.Late20, sc.Lat = make([]int, n), make([]int, n)
										if co != nil {
											sc.Crashes = []c04crash{*co}
										}
										for i, pi := range pick {
											sc.Late20[rest[pi]], sc.Lat[rest[pi]] = devs[idx[i]].late20, devs[idx[i]].lat
										}
										if r.Expired() {
											return
										}
										run(sc)
										r.Count("wide_family_scripts", 1)
										if len(c04faulty(sc)) > f {
											r.Count("wide_family_scripts_judged_without_termination_clause", 1)
										}
										i := 0
										for ; i < d; i++ {
											idx[i]++
											if idx[i] < len(devs) {
												break
											}
											idx[i] = 0
										}
										if i == d {
											break
										}
									}
								}
							}
						}
					}
					active = mine
					if th && n == 4 {
						for rot := 1; rot <= 2; rot++ {
							for at := 0; at <= 3; at++ {
								for m := 0; m < n; m++ {
									sc := base()
									sc.MapRot = rot
									sc.Crashes = []c04crash{{m, at, 1}}
									run(sc)
								}
							}
						}
					}
				}
			}
		}
	}
}

// c04tcfg is one way of obtaining the round timer.
type c04tcfg struct {
	timer           string // the type the constructor yields
	ctor            string // "" = the timer type's own constructor (relative clock); "prod" = timer.GetRoundTimerFunc
	edl, linear, al bool   // features eager_double_linear / linear; slot aligned (genesis and slot duration given)
	duty            core.DutyType
	thOnly          bool
}

// c04prodFamily: the production timer constructor and start offsets beyond one round (qbft.Run layer).
//
// Units (n, way of obtaining the timer, duty type, slot = leader rotation):
//   - the three timer types through their own constructors (relative clock), as in the main family;
//   - timer.GetRoundTimerFunc(genesis, slotDuration)(duty), the constructor NewConsensus uses, under every combination of the
//     features eager_double_linear / linear that selects a different branch: eager double-linear slot-aligned (the production
//     default: attester, proposer, aggregator - the three duty-start offsets within a slot), eager double-linear with a zero
//     genesis, linear (proposer under the linear feature), eager double-linear slot-aligned under the linear feature
//     (attester), increasing (attester, with and without the linear feature).
//
// Per unit, for every cluster start in {duty start; + 500 ms, within the first round; + 1500 ms, after the first slot-aligned
// deadline} (slot-aligned timers only; the relative timers do not know the duty's start): no fault; every member starting
// 1.25 or 2.5 first-round timeouts after the others (beyond one round: the others have decided and left), n=4 also with every
// single slow sender; through the production constructor also every member starting 1/4 or 3/4 of a round late and every crash
// kind of every member (n>4 quick: of the first two members).
func c04prodFamily(r *enumx.Run, th bool, ns []int, judge func(c04script)) bool {
	att, prop, agg := core.DutyAttester, core.DutyProposer, core.DutyAggregator
	cfgs := []c04tcfg{
		{timer: "inc", duty: att}, {timer: "eager_dlinear", duty: att}, {timer: "eager_dlinear", duty: prop}, {timer: "linear", duty: att},
		{timer: "inc", duty: prop, thOnly: true}, {timer: "linear", duty: prop, thOnly: true},
		{timer: "eager_dlinear", ctor: "prod", edl: true, al: true, duty: att},
		{timer: "eager_dlinear", ctor: "prod", edl: true, al: true, duty: prop},
		{timer: "eager_dlinear", ctor: "prod", edl: true, al: true, duty: agg},
		{timer: "eager_dlinear", ctor: "prod", edl: true, duty: att},
		{timer: "linear", ctor: "prod", edl: true, linear: true, al: true, duty: prop},
		{timer: "eager_dlinear", ctor: "prod", edl: true, linear: true, al: true, duty: att},
		{timer: "inc", ctor: "prod", linear: true, al: true, duty: att},
		{timer: "inc", ctor: "prod", al: true, duty: att},
	}
	for _, n := range ns {
		f := (n - 1) / 3
		for _, cfg := range cfgs {
			if cfg.thOnly && !th {
				continue
			}
			aligned := cfg.ctor == "prod" && cfg.al && cfg.timer == "eager_dlinear"
			starts := []int{0}
			if aligned {
				starts = []int{0, 500, 1500}
			}
			for slot := uint64(0); slot < uint64(n); slot++ { // every leader rotation
				for _, cs := range starts {
					if !r.Mine() {
						continue
					}
					if r.Expired() {
						return false
					}
					base := func() c04script {
						sc := c04script{N: n, Timer: cfg.timer, PropTO: cfg.duty == prop, DutyType: int(cfg.duty), Slot: slot,
							Late: make([]int, n), Slow: make([]bool, n), LateInput: make([]int, n)}
						if cfg.ctor == "prod" {
							// ProposalTimeout is a stable (default-on) feature
							sc.PropTO, sc.TimerCtor, sc.FeatEDL, sc.FeatLinear, sc.SlotAligned, sc.SlotDurMs, sc.ClusterStartMs = true, "prod", cfg.edl, cfg.linear, cfg.al, 12000, cs
						}
						return sc
					}
					run := func(sc c04script) {
						if r.Expired() {
							return
						}
						judge(sc)
						if cfg.ctor == "prod" {
							r.Count("prod_constructor_scripts", 1)
						}
						if aligned {
							r.Count("prod_constructor_scripts_slot_aligned", 1)
							if cs >= 1500 {
								r.Count("prod_constructor_scripts_cluster_start_after_first_aligned_deadline", 1)
							} else if cs > 0 {
								r.Count("prod_constructor_scripts_cluster_start_within_first_round", 1)
							}
						}
					}
					if cfg.ctor == "prod" {
						run(base())
					}
					// start offsets beyond one round
					for m := 0; m < n; m++ {
						for _, q := range []int{5, 10} {
							sc := base()
							sc.Late[m] = q
							run(sc)
							r.Count("scripts_with_a_start_offset_beyond_one_round", 1)
							if n > 4 {
								continue
							}
							for x := 0; x < n; x++ {
								s2 := sc
								s2.Slow = make([]bool, n)
								s2.Slow[x] = true
								run(s2)
								r.Count("scripts_with_a_start_offset_beyond_one_round", 1)
							}
						}
					}
					if cfg.ctor != "prod" {
						continue
					}
					for m := 0; m < n; m++ {
						for _, q := range []int{1, 3} {
							sc := base()
							sc.Late[m] = q
							run(sc)
						}
					}
					maxAt := 4
					if n > 4 {
						maxAt = 3
					}
					for m := 0; m < n; m++ {
						if n > 4 && !th && m >= 2 {
							break
						}
						for at := 0; at <= maxAt; at++ {
							for reach := 0; reach < 3; reach++ {
								if at == 0 && reach > 0 {
									continue
								}
								sc := base()
								sc.Crashes = []c04crash{{m, at, reach}}
								run(sc)
								// f >= 2: a second member that joins beyond one round
								if f >= 2 && reach == 1 {
									s2 := sc
									s2.Late = make([]int, n)
									s2.Late[(m+1)%n] = 5
									run(s2)
									r.Count("scripts_with_a_start_offset_beyond_one_round", 1)
								}
							}
						}
					}
				}
			}
		}
	}
	return !r.Expired()
}
