package qbft

// C18 (consensus): the decided-value fan-out. The real Decide callback of the qbft definition is called with a
// hand-built commit message (no consensus instance is run), with two Subscribe subscribers (duty data) and two
// SubscribePriority subscribers (priority protocol result). Parties: each subscriber's value.

import (
	"context"
	"testing"

	"google.golang.org/protobuf/proto"
	"google.golang.org/protobuf/types/known/anypb"

	"github.com/obolnetwork/charon/core"
	"github.com/obolnetwork/charon/core/consensus/timer"
	pbv1 "github.com/obolnetwork/charon/core/corepb/v1"
	"github.com/obolnetwork/charon/core/qbft"
	"github.com/obolnetwork/charon/zzverif/alias"
	"github.com/obolnetwork/charon/zzverif/enumx"
)

const c18pk = core.PubKey("0x8a1d7b8dd64e0aafe7ea7b6c95065c9364cf99d38470db679bdf5c9bd8b0e6cd5c7a3b0a6d4c2e3c7a5e1e9e2b1a7c3d")

func c18decide(w *alias.World, c *Consensus, duty core.Duty, value proto.Message) {
	def := newDefinition(4, c.subscribers, timer.NewIncreasingRoundTimer(), func(int64) {}, false)
	anyV, err := anypb.New(value)
	if err != nil {
		w.Fail("any: %v", err)
		return
	}
	hash, err := hashProto(value)
	if err != nil {
		w.Fail("hash: %v", err)
		return
	}
	msg, err := newMsg(&pbv1.QBFTMsg{Type: int64(qbft.MsgCommit), Duty: core.DutyToProto(duty), PeerIdx: 1, Round: 1, ValueHash: hash[:]},
		nil, map[[32]byte]*anypb.Any{hash: anyV})
	if err != nil {
		w.Fail("msg: %v", err)
		return
	}
	def.Decide(context.Background(), duty, hash, 1, []qbft.Msg[core.Duty, [32]byte, proto.Message]{msg})
}

func c18spec(u alias.Unit, master core.UnsignedData) alias.Spec {
	return alias.Spec{Path: "consensus/Decide", Type: u.Name, Modes: []string{alias.SubArg}, Run: func(w *alias.World) {
		c := &Consensus{}
		called := 0
		for _, n := range []string{"sub1", "sub2"} {
			n := n
			c.Subscribe(func(_ context.Context, _ core.Duty, set core.UnsignedDataSet) error {
				called++
				w.Sub(n, set)
				return nil
			})
		}
		pb, err := core.UnsignedDataSetToProto(core.UnsignedDataSet{c18pk: alias.DeepCopy(master)})
		if err != nil {
			w.Fail("to proto: %v", err)
			return
		}
		c18decide(w, c, core.Duty{Slot: 123, Type: u.Duty}, pb)
		if w.Mode == alias.Clean && called != 2 {
			w.Fail("decided value not delivered (subscribers called %d times)", called)
		}
	}}
}

func c18prioritySpec() alias.Spec {
	return alias.Spec{Path: "consensus/DecidePriority", Type: "PriorityResult", Modes: []string{alias.SubArg}, Run: func(w *alias.World) {
		c := &Consensus{}
		called := 0
		for _, n := range []string{"sub1", "sub2"} {
			n := n
			c.SubscribePriority(func(_ context.Context, _ core.Duty, res *pbv1.PriorityResult) error {
				called++
				w.Sub(n, res)
				return nil
			})
		}
		duty := core.Duty{Slot: 123, Type: core.DutyInfoSync}
		res := &pbv1.PriorityResult{
			Msgs: []*pbv1.PriorityMsg{{Duty: core.DutyToProto(duty), PeerId: "peer1", Signature: []byte{1, 2, 3, 4},
				Topics: []*pbv1.PriorityTopicProposal{{Topic: mustAny(w, &pbv1.Duty{Slot: 1}), Priorities: []*anypb.Any{mustAny(w, &pbv1.Duty{Slot: 2})}}}}},
			Topics: []*pbv1.PriorityTopicResult{{Topic: mustAny(w, &pbv1.Duty{Slot: 1}),
				Priorities: []*pbv1.PriorityScoredResult{{Priority: mustAny(w, &pbv1.Duty{Slot: 2}), Score: 7}}}},
		}
		c18decide(w, c, duty, res)
		if w.Mode == alias.Clean && called != 2 {
			w.Fail("decided value not delivered (subscribers called %d times)", called)
		}
	}}
}

func mustAny(w *alias.World, m proto.Message) *anypb.Any {
	a, err := anypb.New(m)
	if err != nil {
		w.Fail("any: %v", err)
	}
	return a
}

func TestVerifC18Consensus(t *testing.T) {
	r := enumx.New(t, "C18")
	defer r.Finish()
	var specs []alias.Spec
	for _, u := range alias.UnsignedUnits(t) {
		specs = append(specs, c18spec(u, u.Gen().(core.UnsignedData)))
	}
	specs = append(specs, c18prioritySpec())
	for _, s := range specs {
		if !r.Mine() {
			continue
		}
		if r.Expired() {
			return
		}
		if !alias.Wanted(r, s.Path, s.Type) {
			continue
		}
		alias.Run(r, s)
	}
}
