package qbft

// C03 at the level of the consensus COMPONENT: the explicit-state search in core/qbft decides validity and integrity for
// qbft.Run instances whose transport hands over only authenticated messages; this part covers what the component puts
// in front of and behind such an instance - the signature verification of the sub-messages ("justification") a message
// carries (Consensus.handle / verifyMsg / newMsg), the lookup of the decided value (the Decide callback of
// newDefinition) and the instance life cycle - which is what decides whether the votes that core/qbft counts
// (classify counts flatten(buffer): the buffered messages AND everything attached to them, whatever the type of the
// carrying message) are votes that the named members really cast.
//
// Engine timex (the environment of the C02 component part, zz_verif_c02l_test.go / zz_verif_c05_test.go): every script
// of a finite product is executed on real Consensus components (real NewConsensus, gater, deadliner, eager double
// linear round timers, transport, wire decoding, handle; the stub libp2p host and network of the C05 harness) in a
// testing/synctest bubble. Three honest members, each proposing a DIFFERENT value, plus a fourth member that is honest or
// Byzantine under every index. The Byzantine member owns its own secp256k1 key, one private value W that nobody
// proposes, and whatever messages it has received. Its ordinary behaviour is the yes-voter of the C02 part (it also
// proposes its own value when it leads round 1) or silence; in addition it fires exactly ONE strategy at a fixed
// instant, addressed to one victim or to every honest member:
//
//   instants  pre    : before the round-1 leader proposed (an honest leader's Propose is delayed past the instant)
//             pp     : after the round-1 PRE-PREPARE was seen; every round-1 PREPARE between honest members is lost, so no
//                      honest member commits in round 1 (the Byzantine member still sees what was sent)
//             rt     : after round 1 timed out without a proposal (the leaders of rounds 1 and 2 propose late): round 2
//             late   : the victim starts late and has lost everything sent before; the others have decided in round 1
//             rt-pp  : (thorough) PRE-PREPARE seen, round-1 PREPAREs lost, rounds 1 and 2 timed out, leader 3 late: round 3
//             post   : (thorough) everybody has decided in round 1
//   forms     the outer message is always properly signed by the Byzantine member under its own index; attached are q-1
//             sub-messages that CLAIM votes of the two other members (plus its own genuine vote where the rule needs q):
//             commit+commits, commit+prepares, prepare+prepares, prepare+commits (amplification: outer types whose
//             justification core/qbft never asks for, yet flatten counts), decided+commits, roundchange+prepares
//             (prepared ROUND-CHANGE for the next round), preprepare-next+roundchanges (PRE-PREPARE for the next round, as its
//             leader or not), preprepare+commits (PRE-PREPARE for the current round, as its leader or not); each followed by the
//             Byzantine member's own genuine PREPARE and COMMIT for the same round and value (the message that makes classify count)
//   claims    unsigned (empty signature) | byzkey (signed with the Byzantine key, peer_idx names the other member) |
//             rewritten (a genuine message of that member of another type/round, type/round/value_hash rewritten, signature kept) |
//             revalued (a genuine message of that member of the same type and round for another value, value_hash rewritten)
//   targets   unproposed (W, attached as value) | leader (the value the round-1 leader really proposed) | zero (the zero hash)
//   controls  strategies made of genuine material only, which handle must accept: relay-genuine (its PREPARE carrying the
//             genuine PREPAREs of two members), decided-mixed (its DECIDED carrying its own COMMIT for W first and then a genuine
//             COMMIT quorum for the leader's value), extra-values (its votes for the leader's value with W attached in front)
//
// Oracle - the statement of C03 and nothing else, judged from harness-side records (the frames every honest member
// really sent, the messages the Byzantine member sent, the values handed to the subscribers):
//   1. no honest member hands more than one decision per duty to its subscribers;
//   2. no decision is the empty value;
//   3. a decided value was sent in a PRE-PREPARE by the designated leader of that PRE-PREPARE's round (honest leader: a frame
//      it really sent; Byzantine leader: any PRE-PREPARE it sent for a round it leads); with four honest members it is in
//      addition some member's own proposal;
//   4. there is a round r such that the number of honest members that really sent COMMIT(r, that value), plus one if a
//      Byzantine member exists, reaches the quorum ceil(2n/3) = 3.
// Whether handle rejected a forged message is counted (non-vacuity), never judged: that is C05's statement.

import (
	"context"
	"fmt"
	"io"
	"math/rand"
	"runtime"
	"sort"
	"strings"
	"sync"
	"testing"
	"testing/synctest"
	"time"

	"github.com/OffchainLabs/go-bitfield"
	eth2spec "github.com/attestantio/go-eth2-client/spec"
	eth2p0 "github.com/attestantio/go-eth2-client/spec/phase0"
	"go.uber.org/zap/zapcore"
	"google.golang.org/protobuf/proto"
	"google.golang.org/protobuf/types/known/anypb"

	"github.com/obolnetwork/charon/app/log"
	"github.com/obolnetwork/charon/core"
	pbv1 "github.com/obolnetwork/charon/core/corepb/v1"
	"github.com/obolnetwork/charon/core/qbft"
	"github.com/obolnetwork/charon/testutil"
	"github.com/obolnetwork/charon/zzverif/enumx"
)

type c03lScript struct {
	Duty   c02lDutyJ   `json:"duty"`
	Byz    int         `json:"byzantine"`      // -1: four honest members
	Base   string      `json:"byzantine_base"` // yes (yes-voter, proposes when it leads round 1) | silent
	When   string      `json:"when"`
	Life   [4]c02lLife `json:"life"`
	LoseP1 bool        `json:"round1_prepares_lost"`
	FireMs int         `json:"fire_at_ms"`
	Round  int64       `json:"round_at_fire"` // the round the honest members are in at the instant: the strategy is built for it
	Form   string      `json:"form"`          // "" = no strategy
	Claim  string      `json:"claim"`
	Target string      `json:"target"`
	Victim int         `json:"victim"` // the member that starts late in "late"; the only addressee unless ToAll
	ToAll  bool        `json:"to_all"`
	Rot    uint64      `json:"map_rotation"`
}

func (s c03lScript) String() string {
	return fmt.Sprintf("duty=%v byz=%d/%s when=%s [%s] r1-prepares-lost=%v fire=%dms round=%d form=%q claim=%q target=%q victim=%d to-all=%v map-rotation=%d",
		s.Duty.duty(), s.Byz, s.Base, s.When, c02lLives(s.Byz, s.Life), s.LoseP1, s.FireMs, s.Round, s.Form, s.Claim, s.Target, s.Victim, s.ToAll, s.Rot)
}

// ---------------------------------------------------------------------------------------------------------
// environment: the C02 component environment plus the Byzantine member's private value W per duty
// ---------------------------------------------------------------------------------------------------------

type c03lEnv struct {
	*c02lEnv
	w     map[core.Duty]*c05val // W: a well-typed value for the duty that nobody proposes
	byDet map[string]*c05val    // c02lValKey(deterministic bytes) -> value
}

func c03lNewEnv(t *testing.T) *c03lEnv {
	e := &c03lEnv{c02lEnv: c02lNewEnv(t), w: map[core.Duty]*c05val{}, byDet: map[string]*c05val{}}
	for di, d := range []core.Duty{c05D, c02lAgg} {
		rnd := rand.New(rand.NewSource(int64(31000 + di)))
		var set core.UnsignedDataSet
		if d.Type == core.DutyAttester {
			set = core.UnsignedDataSet{testutil.RandomCorePubKeySeed(t, rnd): testutil.RandomCoreAttestationDataSeed(t, rnd)}
		} else {
			bits := bitfield.NewBitlist(64)
			bits.SetBitAt(uint64(rnd.Intn(64)), true)
			set = core.UnsignedDataSet{testutil.RandomCorePubKeySeed(t, rnd): core.VersionedAggregatedAttestation{VersionedAttestation: eth2spec.VersionedAttestation{
				Version: eth2spec.DataVersionDeneb,
				Deneb: &eth2p0.Attestation{AggregationBits: bits, Data: testutil.RandomAttestationDataSeedPhase0(rnd),
					Signature: testutil.RandomEth2SignatureWithSeed(int64(31000 + di))},
			}}}
		}
		pb, err := core.UnsignedDataSetToProto(set)
		if err != nil {
			t.Fatal(err)
		}
		v := e.addValue(pb)
		e.w[d] = v
		e.labels[c02lValKey(v.det)] = fmt.Sprintf("%v#W", d)
	}
	for _, v := range e.table {
		e.byDet[c02lValKey(v.det)] = v
	}
	return e
}

// keyOfHash names the value a 32-byte consensus hash stands for: the key of its deterministic bytes if the harness
// knows the value, else the hash itself.
func (e *c03lEnv) keyOfHash(b []byte) string {
	h, ok := c02lHash32(b)
	if !ok {
		return "zero"
	}
	if v := e.table[h]; v != nil {
		return c02lValKey(v.det)
	}
	return fmt.Sprintf("hash:%x", h[:8])
}

func (e *c03lEnv) nameOfKey(k string) string {
	if l, ok := e.labels[k]; ok {
		return l
	}
	if len(k) > 13 {
		return "unknown:" + k[:13]
	}
	return k
}

// ---------------------------------------------------------------------------------------------------------
// what the Byzantine member can build
// ---------------------------------------------------------------------------------------------------------

var (
	c03lForms    = []string{"commit+commits", "commit+prepares", "prepare+prepares", "prepare+commits", "decided+commits", "roundchange+prepares", "preprepare-next+roundchanges", "preprepare+commits"}
	c03lClaims   = []string{"unsigned", "byzkey", "rewritten", "revalued"}
	c03lTargets  = []string{"unproposed", "leader", "zero"}
	c03lControls = []string{"relay-genuine", "decided-mixed", "extra-values"}
)

func c03lIsControl(form string) bool {
	for _, c := range c03lControls {
		if c == form {
			return true
		}
	}
	return false
}

// c03lMsg is one message of a strategy. cat: forged (carries at least one claimed sub-message), trigger (its own genuine
// vote that follows a forged message), control (genuine material only).
type c03lMsg struct {
	cat string
	m   *pbv1.QBFTConsensusMsg
}

// c03lKnow is the Byzantine member's knowledge at the instant: the genuine messages of the duty by member (carrying
// messages and the sub-messages they carried), and every value it holds.
type c03lKnow struct {
	by     map[int64][]*pbv1.QBFTMsg
	values map[[32]byte]*anypb.Any
	leader []byte // the value hash of the round-1 PRE-PREPARE of the round-1 leader (its own, if it is that leader and proposed)
}

func c03lKnowledge(e *c03lEnv, sc c03lScript, log []*pbv1.QBFTConsensusMsg) (k c03lKnow) {
	duty := sc.Duty.duty()
	k.by, k.values = map[int64][]*pbv1.QBFTMsg{}, map[[32]byte]*anypb.Any{}
	k.values[e.w[duty].hash] = e.w[duty].any
	if own := e.byDet[c02lValKey(e.props[duty][sc.Byz])]; own != nil {
		k.values[own.hash] = own.any
	}
	l1 := int64(c05leader(duty, 1))
	for _, m := range log {
		for _, v := range m.GetValues() {
			inner, err := v.UnmarshalNew()
			if err != nil {
				continue
			}
			if h, err := hashProto(inner); err == nil {
				k.values[h] = v
			}
		}
		if core.DutyFromProto(m.GetMsg().GetDuty()) != duty {
			continue
		}
		top := m.GetMsg()
		if qbft.MsgType(top.GetType()) == qbft.MsgPrePrepare && top.GetRound() == 1 && top.GetPeerIdx() == l1 && k.leader == nil {
			k.leader = top.GetValueHash()
		}
		if top.GetPeerIdx() == int64(sc.Byz) {
			continue // its own messages are no material about others; what THEY carried never claims others (it only sends such things in the strategy)
		}
		k.by[top.GetPeerIdx()] = append(k.by[top.GetPeerIdx()], top)
		for _, j := range m.GetJustification() {
			if j.GetPeerIdx() != int64(sc.Byz) {
				k.by[j.GetPeerIdx()] = append(k.by[j.GetPeerIdx()], j)
			}
		}
	}
	return k
}

func c03lSameBytes(a, b []byte) bool {
	ha, _ := c02lHash32(a)
	hb, _ := c02lHash32(b)
	return ha == hb
}

// c03lStrategy builds the messages of the script's strategy for one addressee. missing names what the strategy needs
// and the member does not hold.
func c03lStrategy(e *c03lEnv, sc c03lScript, k c03lKnow, to int) (out []c03lMsg, missing string) {
	duty := sc.Duty.duty()
	zero := c02lZero32()
	byz := int64(sc.Byz)
	r := sc.Round
	own := func(typ qbft.MsgType, round int64, vh []byte, pr int64, pvh []byte) *pbv1.QBFTMsg {
		if pvh == nil {
			pvh = zero
		}
		return e.sign(&pbv1.QBFTMsg{Type: int64(typ), Duty: core.DutyToProto(duty), PeerIdx: byz, Round: round, ValueHash: vh,
			PreparedRound: pr, PreparedValueHash: pvh}, byz)
	}
	wrap := func(top *pbv1.QBFTMsg, just []*pbv1.QBFTMsg, first ...[]byte) *pbv1.QBFTConsensusMsg {
		cm := &pbv1.QBFTConsensusMsg{Msg: top, Justification: just}
		need := append(append([][]byte{}, first...), top.GetValueHash(), top.GetPreparedValueHash())
		for _, j := range just {
			need = append(need, j.GetValueHash(), j.GetPreparedValueHash())
		}
		done := map[[32]byte]bool{}
		for _, b := range need {
			if h, ok := c02lHash32(b); ok && !done[h] && k.values[h] != nil {
				done[h] = true
				cm.Values = append(cm.Values, k.values[h])
			}
		}
		return cm
	}
	// the two other members whose votes are claimed (controls: whose genuine votes are carried)
	var others []int64
	for i := int64(0); i < c05n; i++ {
		if i != byz && i != int64(to) {
			others = append(others, i)
		}
	}
	genuine := func(j int64, typ qbft.MsgType, round int64, vh []byte) *pbv1.QBFTMsg {
		for _, g := range k.by[j] {
			if qbft.MsgType(g.GetType()) == typ && g.GetRound() == round && c03lSameBytes(g.GetValueHash(), vh) {
				return g
			}
		}
		return nil
	}

	if c03lIsControl(sc.Form) {
		if k.leader == nil {
			return nil, "leader-value"
		}
		lv := k.leader
		switch sc.Form {
		case "relay-genuine":
			var just []*pbv1.QBFTMsg
			for j := int64(0); j < c05n && len(just) < c02lQuorum-1; j++ {
				if g := genuine(j, qbft.MsgPrepare, r, lv); g != nil && j != byz {
					just = append(just, g)
				}
			}
			if len(just) < c02lQuorum-1 {
				return nil, "genuine-prepares"
			}
			out = append(out, c03lMsg{"control", wrap(own(qbft.MsgPrepare, r, lv, 0, nil), just)},
				c03lMsg{"control", wrap(own(qbft.MsgCommit, r, lv, 0, nil), nil)})
		case "decided-mixed":
			w := e.w[duty].hash[:]
			just := []*pbv1.QBFTMsg{own(qbft.MsgCommit, r, w, 0, nil), own(qbft.MsgCommit, r, lv, 0, nil)}
			for j := int64(0); j < c05n && len(just) < c02lQuorum+1; j++ {
				if g := genuine(j, qbft.MsgCommit, r, lv); g != nil && j != byz {
					just = append(just, g)
				}
			}
			if len(just) < c02lQuorum+1 {
				return nil, "genuine-commits"
			}
			out = append(out, c03lMsg{"control", wrap(own(qbft.MsgDecided, r, lv, 0, nil), just)})
		case "extra-values":
			w := e.w[duty].hash[:]
			out = append(out, c03lMsg{"control", wrap(own(qbft.MsgPrepare, r, lv, 0, nil), nil, w)},
				c03lMsg{"control", wrap(own(qbft.MsgCommit, r, lv, 0, nil), nil, w)})
		}
		return out, ""
	}

	var v []byte
	switch sc.Target {
	case "unproposed":
		v = e.w[duty].hash[:]
	case "leader":
		if k.leader == nil {
			return nil, "leader-value"
		}
		v = k.leader
	case "zero":
		v = zero
	}
	// claim: a sub-message that says "member j cast vote (typ, round, vh)" although the member holds no such message of j
	why := "genuine-messages-to-alter"
	claim := func(j int64, typ qbft.MsgType, round int64, vh []byte) *pbv1.QBFTMsg {
		if genuine(j, typ, round, vh) != nil {
			why = "nothing-to-forge:it-holds-the-genuine-vote" // attaching the real thing would be no forgery (control relay-genuine does that)
			return nil
		}
		base := &pbv1.QBFTMsg{Type: int64(typ), Duty: core.DutyToProto(duty), PeerIdx: j, Round: round, ValueHash: vh, PreparedRound: 0, PreparedValueHash: zero}
		switch sc.Claim {
		case "unsigned":
			return base
		case "byzkey":
			return e.sign(base, byz)
		case "rewritten":
			var pick *pbv1.QBFTMsg
			for _, g := range k.by[j] {
				if qbft.MsgType(g.GetType()) == typ && g.GetRound() == round {
					continue
				}
				if pick == nil || (g.GetRound() == round && pick.GetRound() != round) {
					pick = g
				}
			}
			if pick == nil {
				return nil
			}
			c := proto.Clone(pick).(*pbv1.QBFTMsg)
			c.Type, c.Round, c.ValueHash = int64(typ), round, vh
			return c
		case "revalued":
			for _, g := range k.by[j] {
				if qbft.MsgType(g.GetType()) == typ && g.GetRound() == round && !c03lSameBytes(g.GetValueHash(), vh) {
					c := proto.Clone(g).(*pbv1.QBFTMsg)
					c.ValueHash = vh
					return c
				}
			}
		}
		return nil
	}
	claims := func(typ qbft.MsgType, round int64, vh []byte) (l []*pbv1.QBFTMsg) {
		for _, j := range others {
			c := claim(j, typ, round, vh)
			if c == nil {
				return nil
			}
			l = append(l, c)
		}
		return l
	}
	voteRound := r
	var top *pbv1.QBFTMsg
	var just []*pbv1.QBFTMsg
	switch sc.Form {
	case "commit+commits":
		top, just = own(qbft.MsgCommit, r, v, 0, nil), claims(qbft.MsgCommit, r, v)
	case "commit+prepares":
		top, just = own(qbft.MsgCommit, r, v, 0, nil), claims(qbft.MsgPrepare, r, v)
	case "prepare+prepares":
		top, just = own(qbft.MsgPrepare, r, v, 0, nil), claims(qbft.MsgPrepare, r, v)
	case "prepare+commits":
		top, just = own(qbft.MsgPrepare, r, v, 0, nil), claims(qbft.MsgCommit, r, v)
	case "decided+commits":
		top, just = own(qbft.MsgDecided, r, v, 0, nil), claims(qbft.MsgCommit, r, v)
		if just != nil {
			just = append([]*pbv1.QBFTMsg{own(qbft.MsgCommit, r, v, 0, nil)}, just...)
		}
	case "roundchange+prepares":
		top, just = own(qbft.MsgRoundChange, r+1, zero, r, v), claims(qbft.MsgPrepare, r, v)
		if just != nil {
			just = append([]*pbv1.QBFTMsg{own(qbft.MsgPrepare, r, v, 0, nil)}, just...)
		}
	case "preprepare-next+roundchanges":
		voteRound = r + 1
		top, just = own(qbft.MsgPrePrepare, r+1, v, 0, nil), claims(qbft.MsgRoundChange, r+1, zero)
		if just != nil {
			just = append([]*pbv1.QBFTMsg{own(qbft.MsgRoundChange, r+1, zero, 0, nil)}, just...)
		}
	case "preprepare+commits":
		top, just = own(qbft.MsgPrePrepare, r, v, 0, nil), claims(qbft.MsgCommit, r, v)
	default:
		return nil, "unknown-form"
	}
	if just == nil {
		return nil, why
	}
	out = append(out, c03lMsg{"forged", wrap(top, just)},
		c03lMsg{"trigger", wrap(own(qbft.MsgPrepare, voteRound, v, 0, nil), nil)},
		c03lMsg{"trigger", wrap(own(qbft.MsgCommit, voteRound, v, 0, nil), nil)})
	return out, ""
}

// ---------------------------------------------------------------------------------------------------------
// one script
// ---------------------------------------------------------------------------------------------------------

type c03lDecision struct {
	key   string // names the value (key of its deterministic bytes)
	empty bool
}

type c03lResult struct {
	err       string
	decisions [c05n][]c03lDecision
	decoded   int
	proposed  map[string][]string       // value key -> the PRE-PREPAREs of designated leaders that carried it ("r1/p0")
	commits   map[string]map[int64]bool // "r<round>/<value key>" -> the honest members that really sent that COMMIT
	honestPP  int
	byzSent   int
	sent      map[string]int // strategy messages by category, per addressee
	rejected  map[string]int // of these, refused by handle
	reasons   map[string]int
	missing   string
	skipped   int
	harness   []string
}

// c03lOff: the duty's start relative to the start of the script, in ms (the genesis is placed so that the attester duty of the slot starts at 100 ms)
func c03lOff(d core.Duty) int {
	if d.Type == core.DutyAggregator {
		return 4000
	}
	return 0
}

func c03lReason(err error) string {
	s := err.Error()
	switch {
	case strings.Contains(s, "invalid justification"):
		return "invalid-justification"
	case strings.Contains(s, "signature"):
		return "signature"
	case strings.Contains(s, "value hash not found"):
		return "value-missing"
	}
	if len(s) > 40 {
		s = s[:40]
	}
	return s
}

func c03lRun(t *testing.T, e *c03lEnv, sc c03lScript) (res c03lResult) {
	runtime.VerifSetMapRot(true, sc.Rot)
	runtime.VerifSetSelMode(1)
	defer runtime.VerifSetMapRot(false, 0)
	defer runtime.VerifSetSelMode(0)
	duty := sc.Duty.duty()
	horizon := time.Duration(c03lOff(duty))*time.Millisecond + 14*time.Second
	res.proposed, res.commits = map[string][]string{}, map[string]map[int64]bool{}
	res.sent, res.rejected, res.reasons = map[string]int{}, map[string]int{}, map[string]int{}
	synctest.Test(t, func(t *testing.T) {
		ctx, cancel := context.WithCancel(context.Background())
		t0 := time.Now()
		genesis := t0.Add(100*time.Millisecond - c05slotDur/3 - time.Duration(c05slot)*c05slotDur)
		net := &c05net{q: make(chan c05sent, 1<<16)}
		go net.dispatch(ctx)
		deafUntil := func(i int) time.Duration {
			if i == sc.Byz || !sc.Life[i].Deaf || sc.Life[i].start() < 0 {
				return 0
			}
			return time.Duration(sc.Life[i].start()) * time.Millisecond
		}
		var (
			obs      sync.Mutex               // harness-side records
			byzLog   []*pbv1.QBFTConsensusMsg // everything the Byzantine member received and sent
			byzOwnPP []*pbv1.QBFTMsg          // the PRE-PREPAREs it sent (ordinary behaviour and strategy)
		)
		lost := func(m *pbv1.QBFTMsg) bool {
			return sc.LoseP1 && core.DutyFromProto(m.GetDuty()) == duty && qbft.MsgType(m.GetType()) == qbft.MsgPrepare && m.GetRound() == 1
		}
		// the Byzantine member's ordinary behaviour
		seenPP, seenRC := map[string]bool{}, map[string]bool{}
		sendTo := func(m *pbv1.QBFTConsensusMsg, to int) {
			b, err := proto.Marshal(m)
			if err != nil {
				return
			}
			net.q <- c05sent{From: sc.Byz, To: to, Frame: c05frame(b)}
		}
		byzSend := func(m *pbv1.QBFTConsensusMsg) {
			obs.Lock()
			byzLog = append(byzLog, m)
			if qbft.MsgType(m.GetMsg().GetType()) == qbft.MsgPrePrepare {
				byzOwnPP = append(byzOwnPP, m.GetMsg())
			}
			obs.Unlock()
			if lost(m.GetMsg()) {
				return
			}
			for i := 0; i < c05n; i++ {
				if i == sc.Byz || time.Since(t0) < deafUntil(i) {
					continue
				}
				obs.Lock()
				res.byzSent++
				obs.Unlock()
				sendTo(m, i)
			}
		}
		byzMsg := func(typ qbft.MsgType, round int64, vh []byte) *pbv1.QBFTMsg {
			return e.sign(&pbv1.QBFTMsg{Type: int64(typ), Duty: core.DutyToProto(duty), PeerIdx: int64(sc.Byz), Round: round,
				ValueHash: vh, PreparedRound: 0, PreparedValueHash: c02lZero32()}, int64(sc.Byz))
		}
		net.drop = func(from, to int, m *pbv1.QBFTConsensusMsg) bool {
			if to != sc.Byz {
				return lost(m.GetMsg()) || time.Since(t0) < deafUntil(to)
			}
			if core.DutyFromProto(m.GetMsg().GetDuty()) != duty {
				return true
			}
			obs.Lock()
			byzLog = append(byzLog, m)
			obs.Unlock()
			if sc.Base != "yes" {
				return true
			}
			round := m.GetMsg().GetRound()
			switch qbft.MsgType(m.GetMsg().GetType()) {
			case qbft.MsgPrePrepare:
				k := fmt.Sprintf("%d/%x", round, m.GetMsg().GetValueHash())
				if !seenPP[k] {
					seenPP[k] = true
					vals := m.GetValues()
					go func() {
						byzSend(&pbv1.QBFTConsensusMsg{Msg: byzMsg(qbft.MsgPrepare, round, m.GetMsg().GetValueHash()), Values: vals})
						byzSend(&pbv1.QBFTConsensusMsg{Msg: byzMsg(qbft.MsgCommit, round, m.GetMsg().GetValueHash()), Values: vals})
					}()
				}
			case qbft.MsgRoundChange:
				k := fmt.Sprintf("%d", round)
				if !seenRC[k] {
					seenRC[k] = true
					go byzSend(&pbv1.QBFTConsensusMsg{Msg: byzMsg(qbft.MsgRoundChange, round, c02lZero32())})
				}
			}
			return true
		}
		for i := 0; i < c05n; i++ {
			if i == sc.Byz {
				net.nodes = append(net.nodes, &c05node{idx: i, host: &c05host{id: e.peers[i].ID, idx: i, net: net}, delivered: map[core.Duty][][]byte{}})
				continue
			}
			nd, err := c05newNode(ctx, e.c05env, i, net, genesis, nil)
			if err != nil {
				res.err = err.Error()
				cancel()
				return
			}
			// observation only: what the component hands to its subscribers (before the typed decoding of Subscribe)
			nd.c.subs = append(nd.c.subs, func(_ context.Context, d core.Duty, value proto.Message) error {
				obs.Lock()
				defer obs.Unlock()
				if d != duty {
					return nil
				}
				dec := c03lDecision{key: "nil", empty: true}
				if value != nil && value.ProtoReflect().IsValid() {
					det := c05det(value)
					dec = c03lDecision{key: c02lValKey(det), empty: len(det) == 0}
				}
				res.decisions[i] = append(res.decisions[i], dec)
				return nil
			})
			net.nodes = append(net.nodes, nd)
		}
		for i, nd := range net.nodes {
			l := sc.Life[i]
			if i == sc.Byz {
				// as the leader of round 1 the yes-voter proposes its own value, at the instant an honest leader would, and votes for it
				if sc.Base == "yes" && c05leader(duty, 1) == i && l.Prop >= 0 && l.Prop-c03lOff(duty) < 1000 {
					go func() {
						select {
						case <-time.After(time.Duration(l.Prop)*time.Millisecond + time.Duration((i+1)*11)*time.Microsecond):
						case <-ctx.Done():
							return
						}
						ownV := e.byDet[c02lValKey(e.props[duty][i])]
						vals := []*anypb.Any{ownV.any}
						byzSend(&pbv1.QBFTConsensusMsg{Msg: byzMsg(qbft.MsgPrePrepare, 1, ownV.hash[:]), Values: vals})
						byzSend(&pbv1.QBFTConsensusMsg{Msg: byzMsg(qbft.MsgPrepare, 1, ownV.hash[:]), Values: vals})
						byzSend(&pbv1.QBFTConsensusMsg{Msg: byzMsg(qbft.MsgCommit, 1, ownV.hash[:]), Values: vals})
					}()
				}
				continue
			}
			if l.Part >= 0 {
				go func() {
					select {
					case <-time.After(time.Duration(l.Part)*time.Millisecond + time.Duration((i+1)*7)*time.Microsecond):
						_ = nd.c.Participate(ctx, duty)
					case <-ctx.Done():
					}
				}()
			}
			if l.Prop >= 0 {
				go func() {
					select {
					case <-time.After(time.Duration(l.Prop)*time.Millisecond + time.Duration((i+1)*11)*time.Microsecond):
						_ = nd.c.Propose(ctx, duty, e.sets[duty][i])
					case <-ctx.Done():
					}
				}()
			}
		}
		if sc.Form != "" && sc.Byz >= 0 {
			go func() {
				select {
				case <-time.After(time.Duration(sc.FireMs)*time.Millisecond + 500*time.Microsecond):
				case <-ctx.Done():
					return
				}
				obs.Lock()
				log := append([]*pbv1.QBFTConsensusMsg(nil), byzLog...)
				obs.Unlock()
				know := c03lKnowledge(e, sc, log)
				for to := 0; to < c05n; to++ {
					if to == sc.Byz || (!sc.ToAll && to != sc.Victim) {
						continue
					}
					msgs, missing := c03lStrategy(e, sc, know, to)
					if missing != "" {
						obs.Lock()
						res.missing = missing
						res.skipped++
						obs.Unlock()
						continue
					}
					for _, x := range msgs {
						// what the receive path does with a frame before it calls handle; then handle itself, so that its verdict is seen
						b, err := proto.Marshal(x.m)
						var dec *pbv1.QBFTConsensusMsg
						if err == nil {
							dec, err = c05decode(b)
						}
						if err != nil {
							obs.Lock()
							res.harness = append(res.harness, "strategy message does not encode/decode: "+err.Error())
							obs.Unlock()
							continue
						}
						_, _, herr := net.nodes[to].c.handle(ctx, e.peers[sc.Byz].ID, dec)
						obs.Lock()
						byzLog = append(byzLog, x.m)
						if qbft.MsgType(x.m.GetMsg().GetType()) == qbft.MsgPrePrepare {
							byzOwnPP = append(byzOwnPP, x.m.GetMsg())
						}
						res.sent[x.cat]++
						if herr != nil {
							res.rejected[x.cat]++
							res.reasons[x.cat+":"+c03lReason(herr)]++
						}
						obs.Unlock()
						synctest.Wait() // the addressee has digested it before the next one arrives
					}
				}
			}()
		}
		time.Sleep(horizon)
		cancel()
		synctest.Wait()
		// an instance posts its result into a one-slot channel that Propose reads; results nobody waits for are taken out
		// here so that every goroutine can end
		for k := 0; k < 6; k++ {
			for i, nd := range net.nodes {
				if i == sc.Byz {
					continue
				}
				select {
				case <-nd.c.getInstanceIO(duty).ErrCh:
				default:
				}
				select {
				case <-nd.c.getInstanceIO(duty).DecidedAtCh:
				default:
				}
			}
			synctest.Wait()
		}
		time.Sleep(2 * time.Minute) // stream handlers run on their own receive timeout
		synctest.Wait()
		obs.Lock()
		defer obs.Unlock()
		for i, nd := range net.nodes {
			if i == sc.Byz {
				continue
			}
			nd.mu.Lock()
			res.decoded += len(nd.delivered[duty])
			nd.mu.Unlock()
		}
		// the records the oracle reads: what every honest member really sent (frames handed to the network, lost or not) ...
		net.mu.Lock()
		sent := append([]c05sent(nil), net.sent...)
		net.mu.Unlock()
		for _, s := range sent {
			if s.From == sc.Byz {
				continue
			}
			m, err := c05unframe(s.Frame)
			if err != nil || core.DutyFromProto(m.GetMsg().GetDuty()) != duty || m.GetMsg().GetPeerIdx() != int64(s.From) {
				continue
			}
			top := m.GetMsg()
			switch qbft.MsgType(top.GetType()) {
			case qbft.MsgPrePrepare:
				if c05leader(duty, top.GetRound()) == s.From {
					k, who := e.keyOfHash(top.GetValueHash()), fmt.Sprintf("r%d/p%d", top.GetRound(), s.From)
					if len(res.proposed[k]) == 0 || res.proposed[k][len(res.proposed[k])-1] != who {
						res.proposed[k] = append(res.proposed[k], who)
						res.honestPP++
					}
				}
			case qbft.MsgCommit:
				k := fmt.Sprintf("r%d/%s", top.GetRound(), e.keyOfHash(top.GetValueHash()))
				if res.commits[k] == nil {
					res.commits[k] = map[int64]bool{}
				}
				res.commits[k][int64(s.From)] = true
			}
		}
		// ... and the PRE-PREPAREs the Byzantine member sent for rounds it leads
		for _, top := range byzOwnPP {
			if c05leader(duty, top.GetRound()) == sc.Byz {
				k, who := e.keyOfHash(top.GetValueHash()), fmt.Sprintf("r%d/byz%d", top.GetRound(), sc.Byz)
				if len(res.proposed[k]) == 0 || res.proposed[k][len(res.proposed[k])-1] != who {
					res.proposed[k] = append(res.proposed[k], who)
				}
			}
		}
	})
	return res
}

// c03lCheck is the oracle.
func c03lCheck(e *c03lEnv, sc c03lScript, r c03lResult) (sigs, descs []string) {
	duty := sc.Duty.duty()
	suffix := " level=component form=none"
	if sc.Form != "" {
		suffix = " level=component form=" + sc.Form
	}
	add := func(kind, desc string) {
		sig := "kind=" + kind + suffix
		for _, s := range sigs {
			if s == sig {
				return
			}
		}
		sigs, descs = append(sigs, sig), append(descs, desc)
	}
	byz := 0
	if sc.Byz >= 0 {
		byz = 1
	}
	for i := 0; i < c05n; i++ {
		if i == sc.Byz {
			continue
		}
		if len(r.decisions[i]) > 1 {
			var l []string
			for _, d := range r.decisions[i] {
				l = append(l, e.nameOfKey(d.key))
			}
			add("decided-twice", fmt.Sprintf("member %d handed %d decisions for duty %v to its subscribers: %v", i, len(l), duty, l))
		}
		for _, d := range r.decisions[i] {
			name := e.nameOfKey(d.key)
			if d.empty {
				add("decided-empty-value", fmt.Sprintf("member %d decided the empty value for duty %v", i, duty))
				continue
			}
			if len(r.proposed[d.key]) == 0 {
				var l []string
				for k, who := range r.proposed {
					l = append(l, fmt.Sprintf("%s by %v", e.nameOfKey(k), who))
				}
				sort.Strings(l)
				add("decided-unproposed-value", fmt.Sprintf("member %d decided %s for duty %v, a value that no designated leader sent in a PRE-PREPARE (leaders' proposals: %v; values are named <duty>#p<proposer>, W = the Byzantine member's private value)", i, name, duty, l))
			}
			if sc.Byz < 0 && !strings.HasPrefix(name, duty.String()+"#p") {
				add("decided-value-nobody-supplied", fmt.Sprintf("four honest members, yet member %d decided %s for duty %v, which is no member's own proposal", i, name, duty))
			}
			best, bestRound := 0, ""
			var all []string
			for k, who := range r.commits {
				if !strings.HasSuffix(k, "/"+d.key) {
					continue
				}
				all = append(all, fmt.Sprintf("%s: %d", strings.TrimSuffix(k, "/"+d.key), len(who)))
				if len(who) > best {
					best, bestRound = len(who), strings.TrimSuffix(k, "/"+d.key)
				}
			}
			if best+byz < c02lQuorum {
				sort.Strings(all)
				add("decision-without-commit-quorum", fmt.Sprintf("member %d decided %s for duty %v, but in no round did a quorum (%d) of members commit to it: the honest members that really sent COMMIT for it, per round: %v (best %q), plus %d Byzantine member",
					i, name, duty, c02lQuorum, all, bestRound, byz))
			}
		}
	}
	return
}

// ---------------------------------------------------------------------------------------------------------
// the script space
// ---------------------------------------------------------------------------------------------------------

// c03lShape expands (duty, Byzantine index, ordinary behaviour, instant, victim) into explicit life cycles.
func c03lShape(duty core.Duty, byz int, base, when string, victim int) c03lScript {
	off := c03lOff(duty)
	sc := c03lScript{Duty: c02lDJ(duty), Byz: byz, Base: base, When: when, Victim: victim, Round: 1}
	for i := 0; i < c05n; i++ {
		sc.Life[i] = c02lLife{Part: off, Prop: off}
	}
	l1, l2, l3 := c05leader(duty, 1), c05leader(duty, 2), c05leader(duty, 3)
	switch when {
	case "pre":
		sc.Life[l1].Prop = off + 600
		sc.FireMs = off + 300
	case "pp":
		sc.LoseP1 = true
		sc.FireMs = off + 600
	case "rt":
		sc.Life[l1].Prop, sc.Life[l2].Prop = off+1600, off+1600
		sc.FireMs, sc.Round = off+1300, 2
	case "late":
		sc.Life[victim] = c02lLife{Part: off + 900, Prop: off + 900, Deaf: true}
		sc.FireMs = off + 1000
	case "rt-pp":
		sc.LoseP1 = true
		sc.Life[l3].Prop = off + 2600
		sc.FireMs, sc.Round = off+2300, 3
	case "post":
		sc.FireMs = off + 600
	}
	if byz < 0 {
		sc.Base = ""
	}
	return sc
}

// c03lQuickVictim: the honest member with the highest index that leads neither round 1 nor round 2.
func c03lQuickVictim(duty core.Duty, byz int) int {
	for i := c05n - 1; i >= 0; i-- {
		if i != byz && i != c05leader(duty, 1) && i != c05leader(duty, 2) {
			return i
		}
	}
	return (byz + 1) % c05n
}

func c03lScripts(thorough bool) (scripts []c03lScript) {
	duties := []core.Duty{c05D}
	whens := []string{"pre", "pp", "rt", "late"}
	bases := []string{"yes"}
	if thorough {
		duties = append(duties, c02lAgg)
		whens = append(whens, "rt-pp", "post")
		bases = append(bases, "silent")
	}
	victims := func(duty core.Duty, byz int) (l []int) {
		if !thorough {
			return []int{c03lQuickVictim(duty, byz)}
		}
		for v := 0; v < c05n; v++ {
			if v != byz {
				l = append(l, v)
			}
		}
		return l
	}
	with := func(sc c03lScript, form, claim, target string, all bool, rot uint64) c03lScript {
		sc.Form, sc.Claim, sc.Target, sc.ToAll, sc.Rot = form, claim, target, all, rot
		return sc
	}
	full := func(duty core.Duty) {
		for byz := -1; byz < c05n; byz++ {
			for _, base := range []string{"yes", "silent"} {
				if byz < 0 && base != "yes" {
					continue
				}
				for _, when := range whens {
					for _, victim := range victims(duty, byz) {
						sh := c03lShape(duty, byz, base, when, victim)
						scripts = append(scripts, sh) // no strategy: the shape itself, also with four honest members
						if byz < 0 {
							continue
						}
						inBases := false
						for _, b := range bases {
							inBases = inBases || b == base
						}
						if !inBases {
							continue // quick: the silent member only without a strategy
						}
						for _, all := range []bool{false, true} {
							for _, form := range c03lForms {
								for _, claim := range c03lClaims {
									for _, target := range c03lTargets {
										scripts = append(scripts, with(sh, form, claim, target, all, 0))
									}
								}
							}
							for _, form := range c03lControls {
								for rot := uint64(0); rot < c05n; rot++ {
									scripts = append(scripts, with(sh, form, "", "", all, rot))
								}
							}
						}
					}
				}
			}
		}
	}
	full(c05D)
	if thorough {
		full(c02lAgg)
		return scripts
	}
	// quick: the second duty kind (aggregator: other leaders, no Participate, other duty start) with the strongest forms only
	for byz := -1; byz < c05n; byz++ {
		for _, when := range []string{"pre", "pp"} {
			sh := c03lShape(c02lAgg, byz, "yes", when, c03lQuickVictim(c02lAgg, byz))
			scripts = append(scripts, sh)
			if byz < 0 {
				continue
			}
			for _, form := range []string{"commit+commits", "decided+commits"} {
				for _, claim := range []string{"unsigned", "byzkey"} {
					scripts = append(scripts, with(sh, form, claim, "unproposed", false, 0))
				}
			}
		}
	}
	return scripts
}

func TestVerifC03L(t *testing.T) {
	log.InitConsoleForT(t, zapcore.AddSync(io.Discard))
	r := enumx.New(t, "C03")
	defer r.Finish()
	e := c03lNewEnv(t)
	decided := func(res c03lResult) (n, total int) {
		for i := range res.decisions {
			if len(res.decisions[i]) > 0 {
				n++
			}
			total += len(res.decisions[i])
		}
		return
	}
	judge := func(sc c03lScript) {
		res := c03lRun(t, e, sc)
		if res.err != "" {
			r.Note("component run not built: " + res.err)
			return
		}
		for _, h := range res.harness {
			r.Note(h)
		}
		sigs, descs := c03lCheck(e, sc, res)
		nd, total := decided(res)
		form := sc.Form
		if form == "" {
			form = "none"
		}
		cls := fmt.Sprintf("component:%v:byz=%v/%s:%s:%s:%s:%s:decided=%d", sc.Duty.duty().Type, sc.Byz >= 0, sc.Base, sc.When, form, sc.Claim, sc.Target, nd)
		r.Eval(cls)
		r.Outcome(cls)
		r.Steps(1)
		r.Count("component_scripts", 1)
		r.Count("component_members_decided", nd)
		r.Count("component_decisions_judged", total)
		r.Count("component_decisions_decoded_by_typed_subscriber", res.decoded)
		r.Count("component_leader_proposals_really_sent_by_honest_members", res.honestPP)
		r.Count("component_byzantine_ordinary_messages", res.byzSent)
		if sc.Form != "" {
			kind := "forgery"
			if c03lIsControl(sc.Form) {
				kind = "control"
			}
			r.Count("component_scripts_with_"+kind, 1)
			if res.sent["forged"]+res.sent["control"] == 0 {
				r.Count(fmt.Sprintf("component_strategy_material_not_held:%s:%s:%s", sc.When, kind, res.missing), 1)
			} else if nd > 0 {
				r.Count("component_scripts_with_"+kind+"_and_a_decision", 1)
			}
			for cat, n := range res.sent {
				r.Count("component_"+cat+"_messages_sent", n)
				r.Count("component_"+cat+"_messages_rejected_by_handle", res.rejected[cat])
				r.Count("component_"+cat+"_messages_accepted_by_handle", n-res.rejected[cat])
			}
			for k, n := range res.reasons {
				r.Count("component_rejected:"+k, n)
			}
			r.Count("component_forged_sent:"+sc.Form+":"+sc.Claim, res.sent["forged"])
		}
		for i, sig := range sigs {
			ok := true
			for k := 0; k < 3; k++ {
				s2, _ := c03lCheck(e, sc, c03lRun(t, e, sc))
				if !strings.Contains(strings.Join(s2, "|")+"|", sig+"|") {
					ok = false
				}
			}
			if !ok {
				r.Unconfirmed(sig + " " + sc.String())
				continue
			}
			r.Count("component_violating:"+sc.When+":"+strings.Fields(sig)[0], 1)
			r.Violation(sig, fmt.Sprintf("%s [script %s; strategy messages sent %v, refused by handle %v]", descs[i], sc, res.sent, res.rejected), sc)
		}
	}
	if r.ReplayPath != "" {
		var sc c03lScript
		if err := r.ReplayCase(&sc); err != nil {
			t.Fatal(err)
		}
		if sc.When == "" {
			fmt.Println("replay: the file is no component script of C03 (it belongs to the core/qbft part)")
			return
		}
		res := c03lRun(t, e, sc)
		fmt.Printf("replay %s ->", sc)
		for i, l := range res.decisions {
			for _, d := range l {
				fmt.Printf(" member %d: %s", i, e.nameOfKey(d.key))
			}
		}
		fmt.Printf(" | leaders' proposals:")
		for k, who := range res.proposed {
			fmt.Printf(" %s by %v", e.nameOfKey(k), who)
		}
		fmt.Printf(" | COMMITs really sent by honest members:")
		for k, who := range res.commits {
			i := strings.Index(k, "/")
			fmt.Printf(" %s/%s by %d", k[:i], e.nameOfKey(k[i+1:]), len(who))
		}
		fmt.Printf(" | strategy sent=%v refused=%v reasons=%v not-held=%q err=%q\n", res.sent, res.rejected, res.reasons, res.missing, res.err)
		judge(sc)
		return
	}
	scripts := c03lScripts(enumx.Thorough())
	samples := 0
	for i, sc := range scripts {
		if !r.Mine() {
			continue
		}
		if r.Expired() {
			r.NotExhaustive(fmt.Sprintf("component scripts: stopped by the budget at %d of %d", i, len(scripts)))
			return
		}
		judge(sc)
		if sc.Form != "" && samples < 3 {
			r.Sample(sc.String())
			samples++
		}
	}
}
