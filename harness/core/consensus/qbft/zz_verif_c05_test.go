package qbft

// C05 – a node's consensus instance is influenced only by authentic, well-formed peer messages.
//
// Part 1 (environment): 4 real Consensus components (real NewConsensus, real core.NewDutyGater, real
// core.NewDeadliner, real round timers) wired through a stub libp2p host whose streams carry the real wire
// frames into the real registered stream handler (p2p.RegisterHandler with maxConsensusMsgSize). One instance
// is run, in virtual time (testing/synctest), to a decision in round 2 with a prepared value; every frame sent
// is captured: this is the corpus of VALID messages (plus a DECIDED built with the package's createMsg).
// Part 2 (enumeration): every corpus message x alteration families, each fed to a fresh receiver component;
// the oracle (c05judge) is independent of verifyMsg/hashProto: a QBFTMsg is authentic iff exactly that content
// was signed in this process by the key of the member it names (registry of everything that was ever signed).

import (
	"bytes"
	"context"
	"crypto/sha256"
	"encoding/base64"
	"encoding/binary"
	"fmt"
	"io"
	"math"
	"math/rand"
	"runtime"
	"sort"
	"strings"
	"sync"
	"testing"
	"testing/synctest"
	"time"

	eth2api "github.com/attestantio/go-eth2-client/api"
	eth2v1 "github.com/attestantio/go-eth2-client/api/v1"
	k1 "github.com/decred/dcrd/dcrec/secp256k1/v4"
	"github.com/jonboulle/clockwork"
	"github.com/libp2p/go-libp2p/core/host"
	"github.com/libp2p/go-libp2p/core/network"
	"github.com/libp2p/go-libp2p/core/peer"
	"github.com/libp2p/go-libp2p/core/protocol"
	"go.uber.org/zap/zapcore"
	"google.golang.org/protobuf/encoding/protowire"
	"google.golang.org/protobuf/proto"
	"google.golang.org/protobuf/reflect/protoreflect"
	"google.golang.org/protobuf/reflect/protoregistry"
	"google.golang.org/protobuf/types/known/anypb"

	"github.com/obolnetwork/charon/app/eth2wrap"
	"github.com/obolnetwork/charon/app/log"
	"github.com/obolnetwork/charon/app/protonil"
	"github.com/obolnetwork/charon/core"
	"github.com/obolnetwork/charon/core/consensus/protocols"
	pbv1 "github.com/obolnetwork/charon/core/corepb/v1"
	"github.com/obolnetwork/charon/core/qbft"
	"github.com/obolnetwork/charon/p2p"
	"github.com/obolnetwork/charon/testutil"
	"github.com/obolnetwork/charon/zzverif/enumx"
)

const (
	c05n       = 4
	c05slot    = 1001 // leader(D, round) = (slot+type+round)%4 = (3+round)%4: round 1 -> member 0, round 2 -> member 1
	c05slotDur = 12 * time.Second
	c05spe     = 32
	c05nowOff  = 4500 * time.Millisecond // receivers: pinned "now" = start of slot c05slot + 4.5s
)

var (
	c05D    = core.Duty{Slot: c05slot, Type: core.DutyAttester}        // allowed, unexpired
	c05D2   = core.Duty{Slot: c05slot + 1, Type: core.DutyAttester}    // allowed, unexpired, other instance
	c05Dexp = core.Duty{Slot: c05slot - 64, Type: core.DutyAttester}   // expired (two epochs old)
	c05Dfar = core.Duty{Slot: c05slot + 4*32, Type: core.DutyAttester} // beyond the gater window (epoch+4)
)

// ---------------------------------------------------------------------------------------------------------
// stub beacon node, host, streams
// ---------------------------------------------------------------------------------------------------------

type c05eth2 struct {
	eth2wrap.Client
	genesis time.Time
}

func (c *c05eth2) Genesis(context.Context, *eth2api.GenesisOpts) (*eth2api.Response[*eth2v1.Genesis], error) {
	return &eth2api.Response[*eth2v1.Genesis]{Data: &eth2v1.Genesis{GenesisTime: c.genesis}}, nil
}

func (c *c05eth2) Spec(context.Context, *eth2api.SpecOpts) (*eth2api.Response[map[string]any], error) {
	return &eth2api.Response[map[string]any]{Data: map[string]any{"SECONDS_PER_SLOT": c05slotDur, "SLOTS_PER_EPOCH": uint64(c05spe)}}, nil
}

type c05conn struct {
	network.Conn
	p peer.ID
}

func (c c05conn) RemotePeer() peer.ID { return c.p }

// c05rstream is an inbound stream: the real registered handler reads the frame from it.
type c05rstream struct {
	network.Stream
	r    *bytes.Reader
	conn c05conn
}

func (s *c05rstream) Read(b []byte) (int, error)       { return s.r.Read(b) }
func (s *c05rstream) Write(b []byte) (int, error)      { return len(b), nil }
func (s *c05rstream) Close() error                     { return nil }
func (s *c05rstream) SetDeadline(time.Time) error      { return nil }
func (s *c05rstream) SetReadDeadline(time.Time) error  { return nil }
func (s *c05rstream) SetWriteDeadline(time.Time) error { return nil }
func (s *c05rstream) Protocol() protocol.ID            { return protocols.QBFTv2ProtocolID }
func (s *c05rstream) Conn() network.Conn               { return s.conn }

// c05wstream is an outbound stream: p2p.Send writes the frame into it; Close hands it to the network.
type c05wstream struct {
	network.Stream
	buf     bytes.Buffer
	onClose func([]byte)
	closed  bool
}

func (s *c05wstream) Write(b []byte) (int, error)      { return s.buf.Write(b) }
func (s *c05wstream) SetDeadline(time.Time) error      { return nil }
func (s *c05wstream) SetWriteDeadline(time.Time) error { return nil }
func (s *c05wstream) Protocol() protocol.ID            { return protocols.QBFTv2ProtocolID }
func (s *c05wstream) Close() error {
	if !s.closed {
		s.closed = true
		s.onClose(append([]byte(nil), s.buf.Bytes()...))
	}
	return nil
}

type c05host struct {
	host.Host
	id      peer.ID
	idx     int
	net     *c05net
	handler network.StreamHandler
}

func (h *c05host) ID() peer.ID { return h.id }
func (h *c05host) SetStreamHandlerMatch(_ protocol.ID, _ func(protocol.ID) bool, fn network.StreamHandler) {
	h.handler = fn
}
func (h *c05host) NewStream(_ context.Context, p peer.ID, _ ...protocol.ID) (network.Stream, error) {
	if h.net == nil {
		return nil, fmt.Errorf("c05: no network")
	}
	return &c05wstream{onClose: func(frame []byte) { h.net.deliver(h.idx, p, frame) }}, nil
}

// inject hands a raw frame to the real registered stream handler of this host.
func (h *c05host) inject(from peer.ID, frame []byte) {
	h.handler(&c05rstream{r: bytes.NewReader(frame), conn: c05conn{p: from}})
}

type c05sent struct {
	From, To int
	Frame    []byte
	Dropped  bool
}

type c05net struct {
	mu    sync.Mutex
	nodes []*c05node
	sent  []c05sent
	drop  func(from, to int, m *pbv1.QBFTConsensusMsg) bool
}

func (n *c05net) deliver(from int, to peer.ID, frame []byte) {
	ti := -1
	for i, nd := range n.nodes {
		if nd.host.id == to {
			ti = i
		}
	}
	if ti < 0 {
		return
	}
	dropped := false
	if m, err := c05unframe(frame); err == nil && n.drop != nil {
		dropped = n.drop(from, ti, m)
	}
	n.mu.Lock()
	n.sent = append(n.sent, c05sent{from, ti, frame, dropped})
	n.mu.Unlock()
	if !dropped {
		n.nodes[ti].host.inject(n.nodes[from].host.id, frame)
	}
}

func c05frame(payload []byte) []byte {
	return append(binary.AppendUvarint(nil, uint64(len(payload))), payload...)
}

// c05decode is what the receive path does with a frame payload before calling handle.
func c05decode(payload []byte) (*pbv1.QBFTConsensusMsg, error) {
	m := new(pbv1.QBFTConsensusMsg)
	if err := proto.Unmarshal(payload, m); err != nil {
		return nil, err
	}
	if err := protonil.Check(m); err != nil {
		return nil, err
	}
	return m, nil
}

func c05unframe(frame []byte) (*pbv1.QBFTConsensusMsg, error) {
	l, k := binary.Uvarint(frame)
	if k <= 0 || uint64(len(frame)-k) != l {
		return nil, fmt.Errorf("bad frame")
	}
	return c05decode(frame[k:])
}

// ---------------------------------------------------------------------------------------------------------
// cluster material and nodes
// ---------------------------------------------------------------------------------------------------------

type c05val struct {
	name protoreflect.FullName
	det  []byte
	any  *anypb.Any
	hash [32]byte
}

type c05env struct {
	t     *testing.T
	keys  []*k1.PrivateKey
	pubs  map[int64]*k1.PublicKey
	peers []p2p.Peer
	sets  map[core.Duty][]core.UnsignedDataSet // per duty: the proposal of each member
	props map[core.Duty][][]byte               // deterministic proto bytes of the same
	table map[[32]byte]*c05val                 // every value known to the harness by hash
	// registry: deterministic bytes of a QBFTMsg without signature -> signature -> index of the key that signed
	reg map[string]map[string]int64
}

func c05det(m proto.Message) []byte {
	b, err := proto.MarshalOptions{Deterministic: true}.Marshal(m)
	if err != nil {
		panic(err)
	}
	return b
}

func c05content(m *pbv1.QBFTMsg) string {
	c := proto.Clone(m).(*pbv1.QBFTMsg)
	c.Signature = nil
	return string(c05det(c))
}

func (e *c05env) register(m *pbv1.QBFTMsg, signer int64) {
	k := c05content(m)
	if e.reg[k] == nil {
		e.reg[k] = map[string]int64{}
	}
	e.reg[k][string(m.GetSignature())] = signer
}

// sign signs with the package's signMsg using member key `signer` and records the fact.
func (e *c05env) sign(m *pbv1.QBFTMsg, signer int64) *pbv1.QBFTMsg {
	s, err := signMsg(m, e.keys[signer])
	if err != nil {
		panic(err)
	}
	e.register(s, signer)
	return s
}

func (e *c05env) addValue(pb proto.Message) *c05val {
	h, err := hashProto(pb)
	if err != nil {
		panic(err)
	}
	a, err := anypb.New(pb)
	if err != nil {
		panic(err)
	}
	v := &c05val{name: pb.ProtoReflect().Descriptor().FullName(), det: c05det(pb), any: a, hash: h}
	e.table[h] = v
	return v
}

func c05newEnv(t *testing.T) *c05env {
	e := &c05env{t: t, pubs: map[int64]*k1.PublicKey{}, sets: map[core.Duty][]core.UnsignedDataSet{}, props: map[core.Duty][][]byte{},
		table: map[[32]byte]*c05val{}, reg: map[string]map[string]int64{}}
	for i := 0; i < c05n; i++ {
		k := testutil.GenerateInsecureK1Key(t, i)
		id, err := p2p.PeerIDFromKey(k.PubKey())
		if err != nil {
			t.Fatal(err)
		}
		e.keys = append(e.keys, k)
		e.pubs[int64(i)] = k.PubKey()
		e.peers = append(e.peers, p2p.Peer{ID: id, Index: i, Name: p2p.PeerName(id)})
	}
	for di, d := range []core.Duty{c05D, c05D2} {
		for i := 0; i < c05n; i++ {
			rnd := rand.New(rand.NewSource(int64(1000*di + i + 1)))
			set := core.UnsignedDataSet{testutil.RandomCorePubKeySeed(t, rnd): testutil.RandomCoreAttestationDataSeed(t, rnd)}
			pb, err := core.UnsignedDataSetToProto(set)
			if err != nil {
				t.Fatal(err)
			}
			e.sets[d] = append(e.sets[d], set)
			e.props[d] = append(e.props[d], c05det(pb))
			e.addValue(pb)
		}
	}
	return e
}

type c05node struct {
	idx       int
	c         *Consensus
	host      *c05host
	mu        sync.Mutex
	delivered map[core.Duty][][]byte
	sniffed   int
}

// c05newNode builds one real component. clock == nil: everything on the (bubble) real clock.
func c05newNode(ctx context.Context, e *c05env, idx int, net *c05net, genesis time.Time, clock clockwork.Clock) (*c05node, error) {
	cl := &c05eth2{genesis: genesis}
	nd := &c05node{idx: idx, delivered: map[core.Duty][][]byte{}}
	nd.host = &c05host{id: e.peers[idx].ID, idx: idx, net: net}
	dlf, err := core.NewDutyDeadlineFunc(ctx, cl)
	if err != nil {
		return nil, err
	}
	var (
		gater core.DutyGaterFunc
		dl    core.Deadliner
	)
	if clock != nil {
		gater, err = core.NewDutyGater(ctx, cl, core.WithDutyGaterForT(e.t, clock.Now, 2))
		dl = core.NewDeadlinerForT(ctx, e.t, dlf, clock)
	} else {
		gater, err = core.NewDutyGater(ctx, cl)
		dl = core.NewDeadliner(ctx, "c05", dlf)
	}
	if err != nil {
		return nil, err
	}
	nd.c, err = NewConsensus(ctx, cl, nd.host, new(p2p.Sender), e.peers, e.keys[idx], dl, gater,
		func(in *pbv1.SniffedConsensusInstance) { nd.mu.Lock(); nd.sniffed += len(in.GetMsgs()); nd.mu.Unlock() }, false)
	if err != nil {
		return nil, err
	}
	nd.c.Subscribe(func(_ context.Context, duty core.Duty, set core.UnsignedDataSet) error {
		pb, err := core.UnsignedDataSetToProto(set)
		if err != nil {
			return err
		}
		nd.mu.Lock()
		nd.delivered[duty] = append(nd.delivered[duty], c05det(pb))
		nd.mu.Unlock()
		return nil
	})
	nd.c.Start(ctx)
	return nd, nil
}

// ---------------------------------------------------------------------------------------------------------
// the live run (virtual time)
// ---------------------------------------------------------------------------------------------------------

type c05live struct {
	sent      []c05sent
	delivered [c05n]map[core.Duty][][]byte
	done      map[core.Duty]int
	sniffed   int
	err       string
}

func c05liveRun(t *testing.T, e *c05env) (res c05live) {
	runtime.VerifSetMapRot(true, 0)
	runtime.VerifSetSelMode(1)
	defer runtime.VerifSetMapRot(false, 0)
	defer runtime.VerifSetSelMode(0)
	res.done = map[core.Duty]int{}
	synctest.Test(t, func(t *testing.T) {
		ctx, cancel := context.WithCancel(context.Background())
		// start of duty D (slot start + 1/3 slot for attesters) = now + 100ms
		genesis := time.Now().Add(100*time.Millisecond - c05slotDur/3 - time.Duration(c05slot)*c05slotDur)
		net := &c05net{}
		// Scenario: round 1 — all COMMITs are lost, member 3 receives no PREPARE: members 0..2 prepare the
		// leader's value, member 3 does not; everybody times out; round 2 — leader re-proposes the prepared value.
		net.drop = func(_, to int, m *pbv1.QBFTConsensusMsg) bool {
			if core.DutyFromProto(m.GetMsg().GetDuty()) != c05D || m.GetMsg().GetRound() != 1 {
				return false
			}
			switch qbft.MsgType(m.GetMsg().GetType()) {
			case qbft.MsgCommit:
				return true
			case qbft.MsgPrepare:
				return to == 3
			}
			return false
		}
		for i := 0; i < c05n; i++ {
			nd, err := c05newNode(ctx, e, i, net, genesis, nil)
			if err != nil {
				res.err = err.Error()
				cancel()
				return
			}
			net.nodes = append(net.nodes, nd)
		}
		for _, duty := range []core.Duty{c05D, c05D2} {
			done := make(chan error, c05n)
			for i, nd := range net.nodes {
				go func() { done <- nd.c.Propose(ctx, duty, e.sets[duty][i]) }()
			}
			horizon := time.After(60 * time.Second)
		wait:
			for k := 0; k < c05n; k++ {
				select {
				case err := <-done:
					if err == nil {
						res.done[duty]++
					}
				case <-horizon:
					break wait
				}
			}
			synctest.Wait()
		}
		cancel()
		synctest.Wait()
		net.mu.Lock()
		res.sent = net.sent
		net.mu.Unlock()
		for i, nd := range net.nodes {
			nd.mu.Lock()
			res.delivered[i] = nd.delivered
			res.sniffed += nd.sniffed
			nd.mu.Unlock()
		}
	})
	return res
}

// ---------------------------------------------------------------------------------------------------------
// corpus
// ---------------------------------------------------------------------------------------------------------

type c05entry struct {
	Key  string
	Kind string
	msg  *pbv1.QBFTConsensusMsg
	wire []byte // frame payload
}

var c05kinds = []string{"PRE_PREPARE", "PRE_PREPARE_J", "PREPARE", "COMMIT", "ROUND_CHANGE", "ROUND_CHANGE_P", "DECIDED"}

func c05kind(m *pbv1.QBFTConsensusMsg) string {
	switch qbft.MsgType(m.GetMsg().GetType()) {
	case qbft.MsgPrePrepare:
		if len(m.GetJustification()) > 0 {
			return "PRE_PREPARE_J"
		}
		return "PRE_PREPARE"
	case qbft.MsgPrepare:
		return "PREPARE"
	case qbft.MsgCommit:
		return "COMMIT"
	case qbft.MsgRoundChange:
		if m.GetMsg().GetPreparedRound() > 0 {
			return "ROUND_CHANGE_P"
		}
		return "ROUND_CHANGE"
	case qbft.MsgDecided:
		return "DECIDED"
	}
	return "OTHER"
}

func c05key(m *pbv1.QBFTConsensusMsg) string {
	return fmt.Sprintf("%s/r%d/p%d", c05kind(m), m.GetMsg().GetRound(), m.GetMsg().GetPeerIdx())
}

// c05corpus extracts the distinct messages of one duty from the captured frames, registers what was signed,
// and adds the DECIDED message built with the package's createMsg from the real COMMIT quorum.
func c05corpus(e *c05env, live c05live, duty core.Duty, withDecided bool) (out []*c05entry, notes []string) {
	seen := map[string]bool{}
	for _, s := range live.sent {
		m, err := c05unframe(s.Frame)
		if err != nil {
			notes = append(notes, "captured frame does not decode: "+err.Error())
			continue
		}
		// everything the real component of member s.From sent was signed with its key
		e.register(m.GetMsg(), int64(s.From))
		if core.DutyFromProto(m.GetMsg().GetDuty()) != duty || seen[string(s.Frame)] {
			continue
		}
		seen[string(s.Frame)] = true
		_, k := binary.Uvarint(s.Frame)
		out = append(out, &c05entry{Key: c05key(m), Kind: c05kind(m), msg: m, wire: s.Frame[k:]})
	}
	if withDecided {
		var commits []qbft.Msg[core.Duty, [32]byte, proto.Message]
		values := map[[32]byte]*anypb.Any{}
		var vh [32]byte
		var round int64
		for _, en := range out {
			if en.Kind != "COMMIT" || en.msg.GetMsg().GetRound() < 2 || len(commits) == 3 {
				continue
			}
			if len(commits) > 0 && en.msg.GetMsg().GetRound() != round {
				continue
			}
			vals, err := valuesByHash(en.msg.GetValues())
			if err != nil {
				continue
			}
			cm, err := newMsg(en.msg.GetMsg(), nil, vals)
			if err != nil {
				continue
			}
			commits = append(commits, cm)
			vh, round = cm.Value(), cm.Round()
			for h, v := range vals {
				values[h] = v
			}
		}
		if len(commits) == 3 {
			dm, err := createMsg(qbft.MsgDecided, duty, 0, round, vh, 0, [32]byte{}, values, commits, e.keys[0])
			if err == nil {
				cm := dm.ToConsensusMsg()
				e.register(cm.GetMsg(), 0)
				w, _ := proto.Marshal(cm)
				if m, err := c05decode(w); err == nil {
					out = append(out, &c05entry{Key: c05key(m), Kind: "DECIDED", msg: m, wire: w})
				}
			} else {
				notes = append(notes, "createMsg(DECIDED): "+err.Error())
			}
		} else {
			notes = append(notes, "no COMMIT quorum of a round >= 2 captured, DECIDED not built")
		}
	}
	ord := map[string]int{}
	for i, k := range c05kinds {
		ord[k] = i
	}
	sort.SliceStable(out, func(i, j int) bool {
		a, b := out[i], out[j]
		if ord[a.Kind] != ord[b.Kind] {
			return ord[a.Kind] < ord[b.Kind]
		}
		if a.msg.GetMsg().GetRound() != b.msg.GetMsg().GetRound() {
			return a.msg.GetMsg().GetRound() < b.msg.GetMsg().GetRound()
		}
		return a.msg.GetMsg().GetPeerIdx() < b.msg.GetMsg().GetPeerIdx()
	})
	return out, notes
}

func c05describe(en *c05entry) string {
	var js []string
	for _, j := range en.msg.GetJustification() {
		js = append(js, fmt.Sprintf("%v/r%d/p%d", qbft.MsgType(j.GetType()), j.GetRound(), j.GetPeerIdx()))
	}
	return fmt.Sprintf("%s pr=%d just=[%s] values=%d bytes=%d", en.Key, en.msg.GetMsg().GetPreparedRound(), strings.Join(js, " "), len(en.msg.GetValues()), len(en.wire))
}


// ---------------------------------------------------------------------------------------------------------
// the oracle: is this exactly a message the named member signed for an allowed, unexpired duty, with all
// justifications likewise and for the same duty, within the limits, every referenced hash resolvable?
// It does not use verifyMsg / verifyMsgLimits / valuesByHash / newMsg / the gater / the deadliner.
// ---------------------------------------------------------------------------------------------------------

func c05dutyInvalid(d core.Duty) bool { return d.Type < 1 || d.Type > 13 }

func c05dutyGated(d core.Duty) bool { return d.Slot/c05spe > c05slot/c05spe+2 }

// c05dutyExpired replicates the duty deadline table of core/deadline.go for the receivers' pinned clock.
// Only meaningful for slots inside the gater window (no overflow).
func c05dutyExpired(d core.Duty) (expired, exempt bool) {
	var dur time.Duration
	switch int(d.Type) {
	case 4, 6: // exit, builder registration
		return false, true
	case 1, 7: // proposer, randao
		dur = c05slotDur / 3
	case 2, 9: // attester, aggregator
		dur = c05spe * c05slotDur
	case 8, 11: // prepare aggregator, prepare sync contribution
		dur = 2 * c05spe * c05slotDur
	default:
		dur = c05slotDur
	}
	off := time.Duration(int64(d.Slot)-c05slot)*c05slotDur + dur + c05slotDur/12
	return off < c05nowOff, false
}

// authentic: "" if m is exactly a content that the key of member m.peer_idx signed, else the rule broken.
func (e *c05env) authentic(m *pbv1.QBFTMsg, excused *int) string {
	idx := m.GetPeerIdx()
	if idx < 0 || idx >= c05n {
		return "unknown-peer"
	}
	ent := e.reg[c05content(m)]
	if ent == nil {
		return "unsigned-content"
	}
	signer, ok := ent[string(m.GetSignature())]
	if !ok {
		// Same content, other signature bytes. ECDSA signatures have equivalent encodings (recovery id 0/27);
		// only here the package's own verifier is consulted, and only to excuse an acceptance.
		for _, s := range ent {
			if s == idx {
				if ok, err := verifyMsgSig(m, e.pubs[idx]); err == nil && ok {
					*excused++
					return ""
				}
			}
		}
		return "bad-signature"
	}
	if signer != idx {
		return "wrong-signer"
	}
	return ""
}

func c05fieldsBad(m *pbv1.QBFTMsg) bool {
	return m.GetType() < 1 || m.GetType() > 5 || m.GetRound() < 1 || m.GetPreparedRound() < 0
}

func c05refHashes(m *pbv1.QBFTMsg) [][32]byte {
	var out [][32]byte
	for _, b := range [][]byte{m.GetValueHash(), m.GetPreparedValueHash()} {
		if len(b) == 32 && [32]byte(b) != [32]byte{} {
			out = append(out, [32]byte(b))
		}
	}
	return out
}

// judge returns must=true if the message must be rejected, with the rule it breaks and where.
func (e *c05env) judge(alt *pbv1.QBFTConsensusMsg, excused *int) (must bool, rule, where string) {
	if alt == nil || alt.GetMsg() == nil || alt.GetMsg().GetDuty() == nil {
		return true, "malformed", "msg"
	}
	m := alt.GetMsg()
	if r := e.authentic(m, excused); r != "" {
		return true, r, "msg"
	}
	if c05fieldsBad(m) {
		return true, "bad-field", "msg"
	}
	duty := core.DutyFromProto(m.GetDuty())
	switch {
	case c05dutyInvalid(duty):
		return true, "duty-invalid", "msg"
	case c05dutyGated(duty):
		return true, "duty-gated", "msg"
	}
	if exp, _ := c05dutyExpired(duty); exp {
		return true, "duty-expired", "msg"
	}
	if len(alt.GetJustification()) > 2*c05n {
		return true, "too-many-justifications", "justification"
	}
	if len(alt.GetValues()) > 2*(len(alt.GetJustification())+1) {
		return true, "too-many-values", "values"
	}
	for _, j := range alt.GetJustification() {
		if j == nil || j.GetDuty() == nil {
			return true, "malformed", "justification"
		}
		if r := e.authentic(j, excused); r != "" {
			return true, r, "justification"
		}
		if c05fieldsBad(j) {
			return true, "bad-field", "justification"
		}
		if core.DutyFromProto(j.GetDuty()) != duty {
			return true, "just-duty-mismatch", "justification"
		}
	}
	// every referenced hash must be resolvable by a value of the same type and content as the value it was made for
	type tv struct {
		name protoreflect.FullName
		det  string
	}
	have := map[tv]bool{}
	for _, v := range alt.GetValues() {
		if v == nil {
			continue
		}
		inner, err := v.UnmarshalNew()
		if err != nil {
			continue
		}
		have[tv{inner.ProtoReflect().Descriptor().FullName(), string(c05det(inner))}] = true
	}
	for _, q := range append([]*pbv1.QBFTMsg{m}, alt.GetJustification()...) {
		for _, h := range c05refHashes(q) {
			kv := e.table[h]
			if kv == nil || !have[tv{kv.name, string(kv.det)}] {
				return true, "hash-unresolvable", "values"
			}
		}
	}
	return false, "", ""
}

// ---------------------------------------------------------------------------------------------------------
// receivers and evaluation
// ---------------------------------------------------------------------------------------------------------

var c05rcvGenesis = time.Date(2024, 1, 1, 0, 0, 0, 0, time.UTC)

type c05rcv struct {
	nd     *c05node
	cancel context.CancelFunc
}

func c05newRcv(e *c05env) (*c05rcv, error) {
	ctx, cancel := context.WithCancel(context.Background())
	clock := clockwork.NewFakeClockAt(c05rcvGenesis.Add(time.Duration(c05slot)*c05slotDur + c05nowOff))
	nd, err := c05newNode(ctx, e, 3, nil, c05rcvGenesis, clock)
	if err != nil {
		cancel()
		return nil, err
	}
	return &c05rcv{nd, cancel}, nil
}

func c05snap(c *Consensus) string {
	c.mutable.Lock()
	defer c.mutable.Unlock()
	var l []string
	for d, inst := range c.mutable.instances {
		l = append(l, fmt.Sprintf("%v:%d:%v/%v/%v", d, len(inst.RecvBuffer), inst.Running.Load(), inst.Proposed.Load(), inst.Participated.Load()))
	}
	sort.Strings(l)
	return strings.Join(l, ",")
}

func c05drain(c *Consensus) (out []Msg, duties []core.Duty) {
	c.mutable.Lock()
	defer c.mutable.Unlock()
	for d, inst := range c.mutable.instances {
		for {
			select {
			case m := <-inst.RecvBuffer:
				out = append(out, m)
				duties = append(duties, d)
				continue
			default:
			}
			break
		}
	}
	return out, duties
}

type c05outcome struct {
	Decoded  bool   `json:"decoded"`
	Must     bool   `json:"must_reject"`
	Rule     string `json:"rule"`
	Where    string `json:"where"`
	Accepted bool   `json:"accepted"`
	Err      string `json:"handle_error"`
	Bad      string `json:"violation"` // "" or the violation kind
	Detail   string `json:"detail"`
	excused  int
}

// try feeds one frame payload to the receiver and judges the outcome.
func (e *c05env) try(rc *c05rcv, payload []byte, viaStream bool) (o c05outcome) {
	c := rc.nd.c
	dec, derr := c05decode(payload)
	o.Decoded = derr == nil
	if derr != nil {
		o.Must, o.Rule, o.Where = true, "undecodable", "frame"
	} else {
		o.Must, o.Rule, o.Where = e.judge(dec, &o.excused)
	}
	before := c05snap(c)
	if derr != nil || viaStream {
		// through the real registered stream handler (read limit, unmarshal, protonil, handle)
		rc.nd.host.inject(e.peers[0].ID, c05frame(payload))
		o.Accepted = c05snap(c) != before
	} else {
		_, _, err := c.handle(context.Background(), e.peers[0].ID, dec)
		o.Accepted = err == nil
		if err != nil {
			o.Err = err.Error()
			if c05snap(c) != before {
				o.Bad, o.Detail = "rejected-but-state-changed", fmt.Sprintf("handle returned %q but the instance state went from [%s] to [%s]", o.Err, before, c05snap(c))
			}
		}
	}
	msgs, duties := c05drain(c)
	if o.Bad != "" {
		return o
	}
	if !o.Accepted {
		if len(msgs) > 0 {
			o.Bad, o.Detail = "rejected-but-state-changed", "message found in a receive buffer after a rejection"
		}
		return o
	}
	if o.Must {
		o.Bad = "accepted-inauthentic"
		o.Detail = fmt.Sprintf("accepted (enqueued %d message(s)) although it breaks rule %q at %s", len(msgs), o.Rule, o.Where)
		return o
	}
	if len(msgs) != 1 || duties[0] != core.DutyFromProto(dec.GetMsg().GetDuty()) || !proto.Equal(msgs[0].msg, dec.GetMsg()) ||
		len(msgs[0].justificationProtos) != len(dec.GetJustification()) {
		o.Bad, o.Detail = "accepted-but-enqueued-differs", fmt.Sprintf("accepted message is not what was enqueued (%d entries)", len(msgs))
	}
	return o
}

type c05case struct {
	Key    string `json:"corpus_key"`
	Family string `json:"family"`
	ID     string `json:"alteration"`
	Base   string `json:"base_payload_b64"`
	Alt    string `json:"altered_payload_b64,omitempty"`
}

type c05x struct {
	t      *testing.T
	r      *enumx.Run
	e      *c05env
	rc     *c05rcv
	base   *c05entry
	family string
	only   string // replay: evaluate only this alteration id
	stream bool   // feed through the stream handler
	found  *c05outcome
}

// emit evaluates one altered payload. class names the distinct class for the evidence.
func (x *c05x) emit(id, class string, payload []byte) {
	if x.only != "" && id != x.only {
		return
	}
	o := x.e.try(x.rc, payload, x.stream)
	x.found = &o
	x.r.Eval(x.base.Kind + ":" + class)
	x.r.Steps(1)
	switch {
	case !o.Decoded:
		x.r.Count("rejected_at_decode", 1)
	case o.Accepted:
		x.r.Count("accepted", 1)
	default:
		x.r.Count("rejected_by_handle", 1)
	}
	if o.Must {
		x.r.Count("must_reject:"+o.Rule, 1)
	} else {
		x.r.Count("may_accept", 1)
		if !o.Accepted {
			x.r.Count("may_accept_but_rejected", 1)
		}
	}
	if !o.Accepted {
		x.r.Count("unchanged_state_checks", 1)
	}
	x.r.Count("signature_equivalents_excused", o.excused)
	if o.Bad == "" {
		return
	}
	// confirm three times on fresh receivers
	for k := 0; k < 3; k++ {
		rc, err := c05newRcv(x.e)
		if err != nil {
			x.r.Note("cannot build a receiver for confirmation: " + err.Error())
			return
		}
		o2 := x.e.try(rc, payload, x.stream)
		rc.cancel()
		if o2.Bad != o.Bad || o2.Rule != o.Rule {
			x.r.Unconfirmed(fmt.Sprintf("%s %s %s", x.base.Key, x.family, id))
			return
		}
	}
	sig := fmt.Sprintf("kind=%s rule=%s where=%s msgkind=%s", o.Bad, o.Rule, o.Where, x.base.Kind)
	desc := fmt.Sprintf("%s; corpus message %s, family %s, alteration %s; handle error: %q", o.Detail, c05describe(x.base), x.family, id, o.Err)
	x.r.Violation(sig, desc, c05case{Key: x.base.Key, Family: x.family, ID: id,
		Base: base64.StdEncoding.EncodeToString(x.base.wire), Alt: base64.StdEncoding.EncodeToString(payload)})
}

func (x *c05x) emitMsg(id, class string, alt *pbv1.QBFTConsensusMsg) {
	if x.only != "" && id != x.only {
		return
	}
	b, err := proto.Marshal(alt)
	if err != nil {
		x.r.Note("cannot marshal an altered message: " + err.Error())
		return
	}
	x.emit(id, class, b)
}

func c05clone(m *pbv1.QBFTConsensusMsg) *pbv1.QBFTConsensusMsg {
	return proto.Clone(m).(*pbv1.QBFTConsensusMsg)
}

// ---------------------------------------------------------------------------------------------------------
// family "wire": every byte of the frame payload xor mask
// ---------------------------------------------------------------------------------------------------------

// c05regions names the top-level element each payload byte belongs to.
func c05regions(wire []byte) []string {
	out := make([]string, len(wire))
	names := map[protowire.Number]string{1: "msg", 2: "justification", 3: "values"}
	cnt := map[protowire.Number]int{}
	off := 0
	for off < len(wire) {
		num, typ, n := protowire.ConsumeTag(wire[off:])
		if n < 0 {
			break
		}
		m := protowire.ConsumeFieldValue(num, typ, wire[off+n:])
		if m < 0 {
			break
		}
		nm := names[num]
		if num != 1 {
			nm = fmt.Sprintf("%s[%d]", nm, cnt[num])
		}
		cnt[num]++
		for i := off; i < off+n+m; i++ {
			out[i] = nm
		}
		off += n + m
	}
	return out
}

func (x *c05x) famWire(mask byte) {
	reg := c05regions(x.base.wire)
	for pos := range x.base.wire {
		p := append([]byte(nil), x.base.wire...)
		p[pos] ^= mask
		x.emit(fmt.Sprintf("wire[%d]^%02x", pos, mask), "wire:"+reg[pos], p)
	}
}

// ---------------------------------------------------------------------------------------------------------
// families "fields" (not re-signed) and "resigned": protoreflect walk over msg, duty, every justification
// ---------------------------------------------------------------------------------------------------------

type c05leaf struct {
	path   string                         // msg / justification[i]
	target func(*pbv1.QBFTConsensusMsg) *pbv1.QBFTMsg
	fds    []protoreflect.FieldDescriptor // field path inside the QBFTMsg
}

func (l c05leaf) name() string {
	s := l.path
	for _, fd := range l.fds {
		s += "." + string(fd.Name())
	}
	return s
}

func (l c05leaf) holder(alt *pbv1.QBFTConsensusMsg) protoreflect.Message {
	m := l.target(alt).ProtoReflect()
	for _, fd := range l.fds[:len(l.fds)-1] {
		m = m.Mutable(fd).Message()
	}
	return m
}

func c05leaves(base *pbv1.QBFTConsensusMsg) (out []c05leaf) {
	add := func(path string, target func(*pbv1.QBFTConsensusMsg) *pbv1.QBFTMsg) {
		var rec func(md protoreflect.MessageDescriptor, pre []protoreflect.FieldDescriptor)
		rec = func(md protoreflect.MessageDescriptor, pre []protoreflect.FieldDescriptor) {
			for i := 0; i < md.Fields().Len(); i++ {
				fd := md.Fields().Get(i)
				p := append(append([]protoreflect.FieldDescriptor(nil), pre...), fd)
				if fd.Kind() == protoreflect.MessageKind && !fd.IsList() && !fd.IsMap() {
					out = append(out, c05leaf{path, target, p}) // the sub-message itself (clearing it)
					rec(fd.Message(), p)
					continue
				}
				out = append(out, c05leaf{path, target, p})
			}
		}
		rec((&pbv1.QBFTMsg{}).ProtoReflect().Descriptor(), nil)
	}
	add("msg", func(m *pbv1.QBFTConsensusMsg) *pbv1.QBFTMsg { return m.Msg })
	for i := range base.GetJustification() {
		add(fmt.Sprintf("justification[%d]", i), func(m *pbv1.QBFTConsensusMsg) *pbv1.QBFTMsg { return m.Justification[i] })
	}
	return out
}

type c05sv struct {
	label string
	v     protoreflect.Value
}

func c05scalarAlts(fd protoreflect.FieldDescriptor, cur protoreflect.Value) (out []c05sv) {
	seen := map[string]bool{}
	add := func(label string, v protoreflect.Value) {
		k := v.String()
		if v.Equal(cur) || seen[k] {
			return
		}
		seen[k] = true
		out = append(out, c05sv{label, v})
	}
	switch fd.Kind() {
	case protoreflect.Int64Kind, protoreflect.Sint64Kind, protoreflect.Sfixed64Kind:
		c := cur.Int()
		add("+1", protoreflect.ValueOfInt64(c+1))
		add("-1", protoreflect.ValueOfInt64(c-1))
		for _, v := range []int64{0, 1, 2, 3, c05n, 5, 6, -1, math.MaxInt64, math.MinInt64} {
			add(fmt.Sprintf("=%d", v), protoreflect.ValueOfInt64(v))
		}
	case protoreflect.Int32Kind, protoreflect.Sint32Kind, protoreflect.Sfixed32Kind:
		c := int32(cur.Int())
		add("+1", protoreflect.ValueOfInt32(c+1))
		add("-1", protoreflect.ValueOfInt32(c-1))
		for v := int32(-1); v <= 14; v++ {
			add(fmt.Sprintf("=%d", v), protoreflect.ValueOfInt32(v))
		}
		add("=max", protoreflect.ValueOfInt32(math.MaxInt32))
		add("=min", protoreflect.ValueOfInt32(math.MinInt32))
	case protoreflect.Uint64Kind, protoreflect.Fixed64Kind:
		c := cur.Uint()
		add("+1", protoreflect.ValueOfUint64(c+1))
		add("-1", protoreflect.ValueOfUint64(c-1))
		last := uint64((c05slot/c05spe+3)*c05spe - 1)
		for _, v := range []uint64{0, math.MaxUint64, c05D.Slot, c05D2.Slot, c05Dexp.Slot, c05Dfar.Slot, last, last + 1, c05slot - 31, c05slot - 32} {
			add(fmt.Sprintf("=%d", v), protoreflect.ValueOfUint64(v))
		}
	case protoreflect.Uint32Kind, protoreflect.Fixed32Kind:
		c := uint32(cur.Uint())
		add("+1", protoreflect.ValueOfUint32(c+1))
		add("-1", protoreflect.ValueOfUint32(c-1))
		add("=0", protoreflect.ValueOfUint32(0))
		add("=max", protoreflect.ValueOfUint32(math.MaxUint32))
	case protoreflect.BoolKind:
		add("flip", protoreflect.ValueOfBool(!cur.Bool()))
	case protoreflect.StringKind:
		add("+x", protoreflect.ValueOfString(cur.String()+"x"))
		add("empty", protoreflect.ValueOfString(""))
	case protoreflect.EnumKind:
		add("+1", protoreflect.ValueOfEnum(cur.Enum()+1))
	}
	return out
}

func c05bytesAlts(cur []byte, thorough, isSig bool) (out []c05sv) {
	add := func(label string, b []byte) {
		if !bytes.Equal(b, cur) {
			out = append(out, c05sv{label, protoreflect.ValueOfBytes(b)})
		}
	}
	n := len(cur)
	step := 1
	if !thorough && n > 8 {
		step = (n + 7) / 8
	}
	for pos := 0; pos < n; pos += step {
		b := append([]byte(nil), cur...)
		b[pos] ^= 0xff
		add(fmt.Sprintf("flip[%d]", pos), b)
	}
	if n > 0 && (n-1)%step != 0 {
		b := append([]byte(nil), cur...)
		b[n-1] ^= 0xff
		add(fmt.Sprintf("flip[%d]", n-1), b)
	}
	if n > 0 {
		add("truncated", append([]byte(nil), cur[:n-1]...))
		add("zeroed", make([]byte, n))
	}
	add("extended", append(append([]byte(nil), cur...), 0))
	add("emptied", []byte{})
	if isSig && n == 65 && cur[64] <= 1 {
		b := append([]byte(nil), cur...)
		b[64] += 27
		add("recid+27", b) // an equivalent encoding of the same signature
	}
	return out
}

func c05flipClass(label string) string {
	if i := strings.IndexByte(label, '['); i > 0 {
		return label[:i]
	}
	return label
}

// famFields: every leaf altered, signatures left as they are.
func (x *c05x) famFields(thorough bool) {
	for _, lf := range c05leaves(x.base.msg) {
		fd := lf.fds[len(lf.fds)-1]
		cur := lf.holder(x.base.msg).Get(fd)
		switch {
		case fd.Kind() == protoreflect.MessageKind:
			alt := c05clone(x.base.msg)
			lf.holder(alt).Clear(fd)
			x.emitMsg("field="+lf.name()+":cleared", "field="+lf.name()+":cleared", alt)
		case fd.Kind() == protoreflect.BytesKind:
			for _, a := range c05bytesAlts(cur.Bytes(), thorough, fd.Name() == "signature") {
				alt := c05clone(x.base.msg)
				lf.holder(alt).Set(fd, a.v)
				x.emitMsg("field="+lf.name()+":"+a.label, "field="+lf.name()+":"+c05flipClass(a.label), alt)
			}
		default:
			for _, a := range c05scalarAlts(fd, cur) {
				alt := c05clone(x.base.msg)
				lf.holder(alt).Set(fd, a.v)
				x.emitMsg("field="+lf.name()+":"+a.label, "field="+lf.name()+":"+a.label, alt)
			}
		}
		// an unknown (newly added) field next to this one
	}
	// unknown fields appended at every level
	for _, lf := range c05leaves(x.base.msg) {
		if len(lf.fds) != 1 || lf.fds[0].Name() != "type" {
			continue
		}
		for _, where := range []string{"", ".duty"} {
			alt := c05clone(x.base.msg)
			m := lf.target(alt).ProtoReflect()
			if where == ".duty" {
				m = m.Mutable(m.Descriptor().Fields().ByName("duty")).Message()
			}
			m.SetUnknown(protowire.AppendVarint(protowire.AppendTag(nil, 15, protowire.VarintType), 1))
			x.emitMsg("field="+lf.path+where+":unknown-field-15", "field="+lf.path+where+":unknown-field", alt)
		}
	}
	alt := c05clone(x.base.msg)
	alt.ProtoReflect().SetUnknown(protowire.AppendVarint(protowire.AppendTag(nil, 15, protowire.VarintType), 1))
	x.emitMsg("field=outer:unknown-field-15", "field=outer:unknown-field", alt)
}

// famResigned: every leaf altered, then the altered QBFTMsg is signed again with the key of the member it
// (now) names. These are authentic messages; only the duty rules, field rules and hash resolution apply.
func (x *c05x) famResigned() {
	e := x.e
	resign := func(alt *pbv1.QBFTConsensusMsg, lf c05leaf) {
		tm := lf.target(alt)
		signer := tm.GetPeerIdx()
		if signer < 0 || signer >= c05n {
			signer = lf.target(x.base.msg).GetPeerIdx()
		}
		s := e.sign(tm, signer)
		if lf.path == "msg" {
			alt.Msg = s
		} else {
			for i := range alt.Justification {
				if alt.Justification[i] == tm {
					alt.Justification[i] = s
				}
			}
		}
	}
	var other *c05val // a valid value that this message does not refer to
	for _, p := range e.props[c05D2] {
		for _, v := range e.table {
			if bytes.Equal(v.det, p) && other == nil {
				other = v
			}
		}
	}
	for _, lf := range c05leaves(x.base.msg) {
		fd := lf.fds[len(lf.fds)-1]
		cur := lf.holder(x.base.msg).Get(fd)
		switch {
		case fd.Kind() == protoreflect.MessageKind:
			continue
		case fd.Kind() == protoreflect.BytesKind:
			if fd.Name() == "signature" {
				continue
			}
			alts := c05bytesAlts(cur.Bytes(), false, false)
			var keep []c05sv
			for _, a := range alts {
				switch a.label {
				case "flip[0]", "truncated", "zeroed", "extended", "emptied":
					keep = append(keep, a)
				}
			}
			keep = append(keep, c05sv{"=other-value", protoreflect.ValueOfBytes(other.hash[:])})
			for _, a := range keep {
				alt := c05clone(x.base.msg)
				lf.holder(alt).Set(fd, a.v)
				resign(alt, lf)
				x.emitMsg("resigned="+lf.name()+":"+a.label, "resigned="+lf.name()+":"+a.label, alt)
				if a.label == "=other-value" && len(alt.Values) < 2*(len(alt.Justification)+1) {
					alt2 := c05clone(alt)
					alt2.Values = append(alt2.Values, other.any)
					x.emitMsg("resigned="+lf.name()+":"+a.label+"+value", "resigned="+lf.name()+":"+a.label+"+value", alt2)
				}
			}
		default:
			for _, a := range c05scalarAlts(fd, cur) {
				alt := c05clone(x.base.msg)
				lf.holder(alt).Set(fd, a.v)
				resign(alt, lf)
				x.emitMsg("resigned="+lf.name()+":"+a.label, "resigned="+lf.name()+":"+a.label, alt)
			}
		}
	}
}
