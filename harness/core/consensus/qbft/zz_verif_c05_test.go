package qbft

// C05 – a node's consensus instance is influenced only by authentic, well-formed peer messages.
//
// Part 1 (environment): 4 real Consensus components (real NewConsensus, real core.NewDutyGater, real
// core.NewDeadliner, real round timers) wired through a stub libp2p host whose streams carry the real wire
// frames into the real registered stream handler (p2p.RegisterHandler with maxConsensusMsgSize). One instance
// is run, in virtual time (testing/synctest), to a decision with a value prepared in round 1 (the real eager timer
// ends round 2 the moment it starts, so the decision falls in round 3); every frame sent
// is captured: this is the corpus of VALID messages (plus a DECIDED built with the package's createMsg).
// Part 2 (enumeration): every corpus message x alteration families, each fed to a fresh receiver component;
// the oracle (c05judge) is independent of verifyMsg/hashProto: a QBFTMsg is authentic iff exactly that content
// was signed in this process by the key of the member it names (registry of everything that was ever signed).
// Part 3 (boundary slots): the peer-controlled duty slot at every power of two and at the overflow boundaries of the
// arithmetic a gater/deadline function can do with it, x every duty type: (a) the function returned by
// core.NewDutyGater called directly with the clock pinned (option-less constructor inside a bubble, and
// WithDutyGaterForT), (b) correctly signed messages of every kind for those duties through handle of a component
// wired to the option-less gater, the real deadline function and a real deadliner on the bubble's fake clock.
// Part 4 (history): the unsigned alteration families against ONE long-lived component that has seen the genuine
// messages first (A), sees them after each altered copy (B; F = on a fresh component per altered copy), or has seen
// the other duty's instance (C); plus the differential oracle: verdict with history == verdict of a fresh component.
// Part 5 (context) and part 6 (local life-cycle calls and the expiry window): see zz_verif_c05x_test.go.

import (
	"bytes"
	"context"
	"crypto/sha256"
	"encoding/base64"
	"encoding/binary"
	"fmt"
	"io"
	"math"
	"math/big"
	"math/rand"
	"os"
	"runtime"
	"sort"
	"strings"
	"sync"
	"testing"
	"testing/synctest"
	"time"

	eth2api "github.com/attestantio/go-eth2-client/api"
	eth2v1 "github.com/attestantio/go-eth2-client/api/v1"
	k1 "github.com/decred/dcrd/dcrec/secp256k1/v4"
	"github.com/jonboulle/clockwork"
	"github.com/libp2p/go-libp2p/core/host"
	"github.com/libp2p/go-libp2p/core/network"
	"github.com/libp2p/go-libp2p/core/peer"
	"github.com/libp2p/go-libp2p/core/protocol"
	"go.uber.org/zap/zapcore"
	"google.golang.org/protobuf/encoding/protowire"
	"google.golang.org/protobuf/proto"
	"google.golang.org/protobuf/reflect/protoreflect"
	"google.golang.org/protobuf/reflect/protoregistry"
	"google.golang.org/protobuf/types/known/anypb"

	"github.com/obolnetwork/charon/app/eth2wrap"
	"github.com/obolnetwork/charon/app/log"
	"github.com/obolnetwork/charon/app/protonil"
	"github.com/obolnetwork/charon/core"
	"github.com/obolnetwork/charon/core/consensus/protocols"
	pbv1 "github.com/obolnetwork/charon/core/corepb/v1"
	"github.com/obolnetwork/charon/core/qbft"
	"github.com/obolnetwork/charon/p2p"
	"github.com/obolnetwork/charon/testutil"
	"github.com/obolnetwork/charon/zzverif/enumx"
)

const (
	c05n       = 4
	c05slot    = 1001 // leader(D, round) = (slot+type+round)%4 = (3+round)%4: round 1 -> member 0, round 2 -> member 1
	c05slotDur = 12 * time.Second
	c05spe     = 32
	c05nowOff  = 4500 * time.Millisecond // receivers: pinned "now" = start of slot c05slot + 4.5s
)

var (
	c05D    = core.Duty{Slot: c05slot, Type: core.DutyAttester}        // allowed, unexpired
	c05D2   = core.Duty{Slot: c05slot + 1, Type: core.DutyAttester}    // allowed, unexpired, other instance
	c05Dexp = core.Duty{Slot: c05slot - 64, Type: core.DutyAttester}   // expired (two epochs old)
	c05Dfar = core.Duty{Slot: c05slot + 4*32, Type: core.DutyAttester} // beyond the gater window (epoch+4)
)

// ---------------------------------------------------------------------------------------------------------
// stub beacon node, host, streams
// ---------------------------------------------------------------------------------------------------------

type c05eth2 struct {
	eth2wrap.Client
	genesis time.Time
	slotDur time.Duration // 0: c05slotDur
	spe     uint64        // 0: c05spe
}

func (c *c05eth2) Genesis(context.Context, *eth2api.GenesisOpts) (*eth2api.Response[*eth2v1.Genesis], error) {
	return &eth2api.Response[*eth2v1.Genesis]{Data: &eth2v1.Genesis{GenesisTime: c.genesis}}, nil
}

func (c *c05eth2) Spec(context.Context, *eth2api.SpecOpts) (*eth2api.Response[map[string]any], error) {
	sd, spe := c.slotDur, c.spe
	if sd == 0 {
		sd = c05slotDur
	}
	if spe == 0 {
		spe = c05spe
	}
	return &eth2api.Response[map[string]any]{Data: map[string]any{"SECONDS_PER_SLOT": sd, "SLOTS_PER_EPOCH": spe}}, nil
}

type c05conn struct {
	network.Conn
	p peer.ID
}

func (c c05conn) RemotePeer() peer.ID { return c.p }

// c05rstream is an inbound stream: the real registered handler reads the frame from it.
type c05rstream struct {
	network.Stream
	r    *bytes.Reader
	conn c05conn
}

func (s *c05rstream) Read(b []byte) (int, error)       { return s.r.Read(b) }
func (s *c05rstream) Write(b []byte) (int, error)      { return len(b), nil }
func (s *c05rstream) Close() error                     { return nil }
func (s *c05rstream) SetDeadline(time.Time) error      { return nil }
func (s *c05rstream) SetReadDeadline(time.Time) error  { return nil }
func (s *c05rstream) SetWriteDeadline(time.Time) error { return nil }
func (s *c05rstream) Protocol() protocol.ID            { return protocols.QBFTv2ProtocolID }
func (s *c05rstream) Conn() network.Conn               { return s.conn }

// c05wstream is an outbound stream: p2p.Send writes the frame into it; Close hands it to the network.
type c05wstream struct {
	network.Stream
	buf     bytes.Buffer
	onClose func([]byte)
	closed  bool
}

func (s *c05wstream) Write(b []byte) (int, error)      { return s.buf.Write(b) }
func (s *c05wstream) SetDeadline(time.Time) error      { return nil }
func (s *c05wstream) SetWriteDeadline(time.Time) error { return nil }
func (s *c05wstream) Protocol() protocol.ID            { return protocols.QBFTv2ProtocolID }
func (s *c05wstream) Close() error {
	if !s.closed {
		s.closed = true
		s.onClose(append([]byte(nil), s.buf.Bytes()...))
	}
	return nil
}

type c05host struct {
	host.Host
	id      peer.ID
	idx     int
	net     *c05net
	handler network.StreamHandler
}

func (h *c05host) ID() peer.ID { return h.id }
func (h *c05host) SetStreamHandlerMatch(_ protocol.ID, _ func(protocol.ID) bool, fn network.StreamHandler) {
	h.handler = fn
}
func (h *c05host) NewStream(_ context.Context, p peer.ID, _ ...protocol.ID) (network.Stream, error) {
	if h.net == nil {
		return nil, fmt.Errorf("c05: no network")
	}
	return &c05wstream{onClose: func(frame []byte) { h.net.deliver(h.idx, p, frame) }}, nil
}

// inject hands a raw frame to the real registered stream handler of this host.
func (h *c05host) inject(from peer.ID, frame []byte) {
	h.handler(&c05rstream{r: bytes.NewReader(frame), conn: c05conn{p: from}})
}

type c05sent struct {
	From, To int
	Frame    []byte
	Dropped  bool
}

type c05net struct {
	mu    sync.Mutex
	nodes []*c05node
	sent  []c05sent
	drop  func(from, to int, m *pbv1.QBFTConsensusMsg) bool
	rewr  func(from int, frame []byte) []byte // a Byzantine member's outgoing frames
	q     chan c05sent                        // deliveries are serialised in send order: a long verification cannot be overtaken
}

func (n *c05net) dispatch(ctx context.Context) {
	for {
		select {
		case <-ctx.Done():
			return
		case s := <-n.q:
			n.nodes[s.To].host.inject(n.nodes[s.From].host.id, s.Frame)
		}
	}
}

func (n *c05net) deliver(from int, to peer.ID, frame []byte) {
	ti := -1
	for i, nd := range n.nodes {
		if nd.host.id == to {
			ti = i
		}
	}
	if ti < 0 {
		return
	}
	if n.rewr != nil {
		frame = n.rewr(from, frame)
	}
	dropped := false
	if m, err := c05unframe(frame); err == nil && n.drop != nil {
		dropped = n.drop(from, ti, m)
	}
	n.mu.Lock()
	n.sent = append(n.sent, c05sent{from, ti, frame, dropped})
	n.mu.Unlock()
	if !dropped {
		n.q <- c05sent{From: from, To: ti, Frame: frame}
	}
}

func c05frame(payload []byte) []byte {
	return append(binary.AppendUvarint(nil, uint64(len(payload))), payload...)
}

// c05decode is what the receive path does with a frame payload before calling handle.
func c05decode(payload []byte) (*pbv1.QBFTConsensusMsg, error) {
	m := new(pbv1.QBFTConsensusMsg)
	if err := proto.Unmarshal(payload, m); err != nil {
		return nil, err
	}
	if err := protonil.Check(m); err != nil {
		return nil, err
	}
	return m, nil
}

func c05unframe(frame []byte) (*pbv1.QBFTConsensusMsg, error) {
	l, k := binary.Uvarint(frame)
	if k <= 0 || uint64(len(frame)-k) != l {
		return nil, fmt.Errorf("bad frame")
	}
	return c05decode(frame[k:])
}

// ---------------------------------------------------------------------------------------------------------
// cluster material and nodes
// ---------------------------------------------------------------------------------------------------------

type c05val struct {
	name protoreflect.FullName
	det  []byte
	any  *anypb.Any
	hash [32]byte
}

type c05env struct {
	t     *testing.T
	keys  []*k1.PrivateKey
	pubs  map[int64]*k1.PublicKey
	peers []p2p.Peer
	sets  map[core.Duty][]core.UnsignedDataSet // per duty: the proposal of each member
	props map[core.Duty][][]byte               // deterministic proto bytes of the same
	table map[[32]byte]*c05val                 // every value known to the harness by hash
	// registry: deterministic bytes of a QBFTMsg without signature -> signature -> index of the key that signed
	reg map[string]map[string]int64
	// memo of the differential oracle: payload -> does a fresh component accept it
	fresh map[[32]byte]bool
	// violation signatures already confirmed and reported by this process (history families confirm once per signature)
	reported map[string]bool
}

func c05det(m proto.Message) []byte {
	b, err := proto.MarshalOptions{Deterministic: true}.Marshal(m)
	if err != nil {
		panic(err)
	}
	return b
}

func c05content(m *pbv1.QBFTMsg) string {
	c := proto.Clone(m).(*pbv1.QBFTMsg)
	c.Signature = nil
	return string(c05det(c))
}

func (e *c05env) register(m *pbv1.QBFTMsg, signer int64) {
	k := c05content(m)
	if e.reg[k] == nil {
		e.reg[k] = map[string]int64{}
	}
	e.reg[k][string(m.GetSignature())] = signer
}

// sign signs with the package's signMsg using member key `signer` and records the fact.
func (e *c05env) sign(m *pbv1.QBFTMsg, signer int64) *pbv1.QBFTMsg {
	s, err := signMsg(m, e.keys[signer])
	if err != nil {
		panic(err)
	}
	e.register(s, signer)
	return s
}

func (e *c05env) addValue(pb proto.Message) *c05val {
	h, err := hashProto(pb)
	if err != nil {
		panic(err)
	}
	a, err := anypb.New(pb)
	if err != nil {
		panic(err)
	}
	v := &c05val{name: pb.ProtoReflect().Descriptor().FullName(), det: c05det(pb), any: a, hash: h}
	e.table[h] = v
	return v
}

func c05newEnv(t *testing.T) *c05env {
	e := &c05env{t: t, pubs: map[int64]*k1.PublicKey{}, sets: map[core.Duty][]core.UnsignedDataSet{}, props: map[core.Duty][][]byte{},
		table: map[[32]byte]*c05val{}, reg: map[string]map[string]int64{}, fresh: map[[32]byte]bool{}, reported: map[string]bool{}}
	for i := 0; i < c05n; i++ {
		k := testutil.GenerateInsecureK1Key(t, i)
		id, err := p2p.PeerIDFromKey(k.PubKey())
		if err != nil {
			t.Fatal(err)
		}
		e.keys = append(e.keys, k)
		e.pubs[int64(i)] = k.PubKey()
		e.peers = append(e.peers, p2p.Peer{ID: id, Index: i, Name: p2p.PeerName(id)})
	}
	for di, d := range []core.Duty{c05D, c05D2} {
		for i := 0; i < c05n; i++ {
			rnd := rand.New(rand.NewSource(int64(1000*di + i + 1)))
			set := core.UnsignedDataSet{testutil.RandomCorePubKeySeed(t, rnd): testutil.RandomCoreAttestationDataSeed(t, rnd)}
			pb, err := core.UnsignedDataSetToProto(set)
			if err != nil {
				t.Fatal(err)
			}
			e.sets[d] = append(e.sets[d], set)
			e.props[d] = append(e.props[d], c05det(pb))
			e.addValue(pb)
		}
	}
	return e
}

type c05node struct {
	idx       int
	c         *Consensus
	host      *c05host
	mu        sync.Mutex
	delivered map[core.Duty][][]byte
	sniffed   int
}

// c05newNode builds one real component. clock == nil: everything on the (bubble) real clock.
func c05newNode(ctx context.Context, e *c05env, idx int, net *c05net, genesis time.Time, clock clockwork.Clock) (*c05node, error) {
	cl := &c05eth2{genesis: genesis}
	nd := &c05node{idx: idx, delivered: map[core.Duty][][]byte{}}
	nd.host = &c05host{id: e.peers[idx].ID, idx: idx, net: net}
	dlf, err := core.NewDutyDeadlineFunc(ctx, cl)
	if err != nil {
		return nil, err
	}
	var (
		gater core.DutyGaterFunc
		dl    core.Deadliner
	)
	if clock != nil {
		gater, err = core.NewDutyGater(ctx, cl, core.WithDutyGaterForT(e.t, clock.Now, 2))
		dl = core.NewDeadlinerForT(ctx, e.t, dlf, clock)
	} else {
		gater, err = core.NewDutyGater(ctx, cl)
		dl = core.NewDeadliner(ctx, "c05", dlf)
	}
	if err != nil {
		return nil, err
	}
	nd.c, err = NewConsensus(ctx, cl, nd.host, new(p2p.Sender), e.peers, e.keys[idx], dl, gater,
		func(in *pbv1.SniffedConsensusInstance) { nd.mu.Lock(); nd.sniffed += len(in.GetMsgs()); nd.mu.Unlock() }, false)
	if err != nil {
		return nil, err
	}
	nd.c.Subscribe(func(_ context.Context, duty core.Duty, set core.UnsignedDataSet) error {
		pb, err := core.UnsignedDataSetToProto(set)
		if err != nil {
			return err
		}
		nd.mu.Lock()
		nd.delivered[duty] = append(nd.delivered[duty], c05det(pb))
		nd.mu.Unlock()
		return nil
	})
	nd.c.Start(ctx)
	return nd, nil
}

// ---------------------------------------------------------------------------------------------------------
// the live run (virtual time)
// ---------------------------------------------------------------------------------------------------------

type c05live struct {
	doneBy    map[core.Duty][c05n]bool
	sent      []c05sent
	delivered [c05n]map[core.Duty][][]byte
	done      map[core.Duty]int
	sniffed   int
	err       string
}

// c05byzSwap: member 3 is Byzantine in the mildest way: it follows the protocol, but every value it attaches is
// re-labelled as another registered message type (same bytes, hence the same hash).
func c05byzSwap(from int, frame []byte) []byte {
	if from != 3 {
		return frame
	}
	m, err := c05unframe(frame)
	if err != nil {
		return frame
	}
	for _, v := range m.GetValues() {
		v.TypeUrl = "type.googleapis.com/core.corepb.v1.Duty"
	}
	b, err := proto.Marshal(m)
	if err != nil {
		return frame
	}
	return c05frame(b)
}

func c05liveRun(t *testing.T, e *c05env, rewr func(int, []byte) []byte) (res c05live) {
	res.doneBy = map[core.Duty][c05n]bool{}
	runtime.VerifSetMapRot(true, 0)
	runtime.VerifSetSelMode(1)
	defer runtime.VerifSetMapRot(false, 0)
	defer runtime.VerifSetSelMode(0)
	res.done = map[core.Duty]int{}
	synctest.Test(t, func(t *testing.T) {
		ctx, cancel := context.WithCancel(context.Background())
		// start of duty D (slot start + 1/3 slot for attesters) = now + 100ms
		genesis := time.Now().Add(100*time.Millisecond - c05slotDur/3 - time.Duration(c05slot)*c05slotDur)
		net := &c05net{q: make(chan c05sent, 4096), rewr: rewr}
		go net.dispatch(ctx)
		// Scenario: round 1 — all COMMITs are lost, member 3 receives no PREPARE: members 0..2 prepare the
		// leader's value, member 3 does not; everybody times out; round 2 — leader re-proposes the prepared value.
		net.drop = func(_, to int, m *pbv1.QBFTConsensusMsg) bool {
			if core.DutyFromProto(m.GetMsg().GetDuty()) != c05D || m.GetMsg().GetRound() != 1 {
				return false
			}
			switch qbft.MsgType(m.GetMsg().GetType()) {
			case qbft.MsgCommit:
				return true
			case qbft.MsgPrepare:
				return to == 3
			}
			return false
		}
		for i := 0; i < c05n; i++ {
			nd, err := c05newNode(ctx, e, i, net, genesis, nil)
			if err != nil {
				res.err = err.Error()
				cancel()
				return
			}
			net.nodes = append(net.nodes, nd)
		}
		for _, duty := range []core.Duty{c05D, c05D2} {
			done := make(chan error, c05n)
			var by [c05n]bool
			for i, nd := range net.nodes {
				go func() {
					err := nd.c.Propose(ctx, duty, e.sets[duty][i])
					by[i] = err == nil
					done <- err
				}()
			}
			horizon := time.After(60 * time.Second)
		wait:
			for k := 0; k < c05n; k++ {
				select {
				case err := <-done:
					if err == nil {
						res.done[duty]++
					}
				case <-horizon:
					break wait
				}
			}
			synctest.Wait()
			res.doneBy[duty] = by
		}
		cancel()
		synctest.Wait()
		net.mu.Lock()
		res.sent = net.sent
		net.mu.Unlock()
		for i, nd := range net.nodes {
			nd.mu.Lock()
			res.delivered[i] = nd.delivered
			res.sniffed += nd.sniffed
			nd.mu.Unlock()
		}
	})
	return res
}

// ---------------------------------------------------------------------------------------------------------
// corpus
// ---------------------------------------------------------------------------------------------------------

type c05entry struct {
	Key  string
	Kind string
	msg  *pbv1.QBFTConsensusMsg
	wire []byte // frame payload
}

var c05kinds = []string{"PRE_PREPARE", "PRE_PREPARE_J", "PREPARE", "COMMIT", "ROUND_CHANGE", "ROUND_CHANGE_P", "DECIDED"}

func c05kind(m *pbv1.QBFTConsensusMsg) string {
	switch qbft.MsgType(m.GetMsg().GetType()) {
	case qbft.MsgPrePrepare:
		if len(m.GetJustification()) > 0 {
			return "PRE_PREPARE_J"
		}
		return "PRE_PREPARE"
	case qbft.MsgPrepare:
		return "PREPARE"
	case qbft.MsgCommit:
		return "COMMIT"
	case qbft.MsgRoundChange:
		if m.GetMsg().GetPreparedRound() > 0 {
			return "ROUND_CHANGE_P"
		}
		return "ROUND_CHANGE"
	case qbft.MsgDecided:
		return "DECIDED"
	}
	return "OTHER"
}

func c05key(m *pbv1.QBFTConsensusMsg) string {
	return fmt.Sprintf("%s/r%d/p%d", c05kind(m), m.GetMsg().GetRound(), m.GetMsg().GetPeerIdx())
}

// c05corpus extracts the distinct messages of one duty from the captured frames, registers what was signed,
// and adds the DECIDED message built with the package's createMsg from the real COMMIT quorum.
func c05corpus(e *c05env, live c05live, duty core.Duty, withDecided bool) (out []*c05entry, notes []string) {
	seen := map[string]bool{}
	for _, s := range live.sent {
		m, err := c05unframe(s.Frame)
		if err != nil {
			notes = append(notes, "captured frame does not decode: "+err.Error())
			continue
		}
		// everything the real component of member s.From sent was signed with its key
		e.register(m.GetMsg(), int64(s.From))
		if core.DutyFromProto(m.GetMsg().GetDuty()) != duty || seen[string(s.Frame)] {
			continue
		}
		seen[string(s.Frame)] = true
		_, k := binary.Uvarint(s.Frame)
		out = append(out, &c05entry{Key: c05key(m), Kind: c05kind(m), msg: m, wire: s.Frame[k:]})
	}
	if withDecided {
		var commits []qbft.Msg[core.Duty, [32]byte, proto.Message]
		values := map[[32]byte]*anypb.Any{}
		var vh [32]byte
		var round int64
		for _, en := range out {
			if en.Kind != "COMMIT" || en.msg.GetMsg().GetRound() < 2 || len(commits) == 3 {
				continue
			}
			if len(commits) > 0 && en.msg.GetMsg().GetRound() != round {
				continue
			}
			vals, err := valuesByHash(en.msg.GetValues())
			if err != nil {
				continue
			}
			cm, err := newMsg(en.msg.GetMsg(), nil, vals)
			if err != nil {
				continue
			}
			commits = append(commits, cm)
			vh, round = cm.Value(), cm.Round()
			for h, v := range vals {
				values[h] = v
			}
		}
		if len(commits) == 3 {
			dm, err := createMsg(qbft.MsgDecided, duty, 0, round, vh, 0, [32]byte{}, values, commits, e.keys[0])
			if err == nil {
				cm := dm.ToConsensusMsg()
				e.register(cm.GetMsg(), 0)
				w, _ := proto.Marshal(cm)
				if m, err := c05decode(w); err == nil {
					out = append(out, &c05entry{Key: c05key(m), Kind: "DECIDED", msg: m, wire: w})
				}
			} else {
				notes = append(notes, "createMsg(DECIDED): "+err.Error())
			}
		} else {
			notes = append(notes, "no COMMIT quorum of a round >= 2 captured, DECIDED not built")
		}
	}
	ord := map[string]int{}
	for i, k := range c05kinds {
		ord[k] = i
	}
	sort.SliceStable(out, func(i, j int) bool {
		a, b := out[i], out[j]
		if ord[a.Kind] != ord[b.Kind] {
			return ord[a.Kind] < ord[b.Kind]
		}
		if a.msg.GetMsg().GetRound() != b.msg.GetMsg().GetRound() {
			return a.msg.GetMsg().GetRound() < b.msg.GetMsg().GetRound()
		}
		return a.msg.GetMsg().GetPeerIdx() < b.msg.GetMsg().GetPeerIdx()
	})
	return out, notes
}

func c05describe(en *c05entry) string {
	var js []string
	for _, j := range en.msg.GetJustification() {
		js = append(js, fmt.Sprintf("%v/r%d/p%d", qbft.MsgType(j.GetType()), j.GetRound(), j.GetPeerIdx()))
	}
	return fmt.Sprintf("%s pr=%d just=[%s] values=%d bytes=%d", en.Key, en.msg.GetMsg().GetPreparedRound(), strings.Join(js, " "), len(en.msg.GetValues()), len(en.wire))
}

// ---------------------------------------------------------------------------------------------------------
// the oracle: is this exactly a message the named member signed for an allowed, unexpired duty, with all
// justifications likewise and for the same duty, within the limits, every referenced hash resolvable?
// It does not use verifyMsg / verifyMsgLimits / valuesByHash / newMsg / the gater / the deadliner.
// ---------------------------------------------------------------------------------------------------------

func c05dutyInvalid(d core.Duty) bool { return d.Type < 1 || d.Type > 13 }

// c05window is what a receiver's clock, beacon spec and gater option say: the oracle's view of "allowed" and
// "unexpired". Everything is recomputed with math/big, so no slot value can overflow on the oracle's side.
type c05window struct {
	nowOff  time.Duration // now - genesis (negative: the clock is before genesis)
	slotDur time.Duration
	spe     uint64
	allowed int // future epochs the gater lets through (documented default: 2)
}

var c05defWin = c05window{nowOff: time.Duration(c05slot)*c05slotDur + c05nowOff, slotDur: c05slotDur, spe: c05spe, allowed: 2}

func c05big(u uint64) *big.Int { return new(big.Int).SetUint64(u) }

// curSlot is the slot the clock is in (0 before genesis).
func (w c05window) curSlot() uint64 {
	if w.nowOff < 0 {
		return 0
	}
	return uint64(w.nowOff / w.slotDur)
}

// gated: the duty's epoch lies more than `allowed` epochs after the current epoch. epoch(slot) = floor(slot/spe).
func (w c05window) gated(d core.Duty) bool {
	ep := new(big.Int).Div(c05big(d.Slot), c05big(w.spe))
	lim := new(big.Int).Div(c05big(w.curSlot()), c05big(w.spe))
	lim.Add(lim, big.NewInt(int64(w.allowed)))
	return ep.Cmp(lim) > 0
}

// expired replicates the duty deadline table of core/deadline.go: the deadline genesis + slot*slotDur + duration(type)
// + slotDur/12 lies strictly before now.
func (w c05window) expired(d core.Duty) (expired, exempt bool) {
	var dur time.Duration
	switch int(d.Type) {
	case 4, 6: // exit, builder registration
		return false, true
	case 1, 7: // proposer, randao
		dur = w.slotDur / 3
	case 2, 9: // attester, aggregator
		dur = time.Duration(w.spe) * w.slotDur
	case 8, 11: // prepare aggregator, prepare sync contribution
		dur = 2 * time.Duration(w.spe) * w.slotDur
	default:
		dur = w.slotDur
	}
	dl := new(big.Int).Mul(c05big(d.Slot), big.NewInt(int64(w.slotDur)))
	dl.Add(dl, big.NewInt(int64(dur+w.slotDur/12)))
	return dl.Cmp(big.NewInt(int64(w.nowOff))) < 0, false
}

// authentic: "" if m is exactly a content that the key of member m.peer_idx signed, else the rule broken.
func (e *c05env) authentic(m *pbv1.QBFTMsg, excused *int) string {
	idx := m.GetPeerIdx()
	if idx < 0 || idx >= c05n {
		return "unknown-peer"
	}
	ent := e.reg[c05content(m)]
	if ent == nil {
		return "unsigned-content"
	}
	signer, ok := ent[string(m.GetSignature())]
	if !ok {
		// Same content, other signature bytes. ECDSA signatures have equivalent encodings (recovery id 0/27);
		// only here the package's own verifier is consulted, and only to excuse an acceptance.
		for _, s := range ent {
			if s == idx {
				if ok, err := verifyMsgSig(m, e.pubs[idx]); err == nil && ok {
					*excused++
					return ""
				}
			}
		}
		return "bad-signature"
	}
	if signer != idx {
		return "wrong-signer"
	}
	return ""
}

func c05fieldsBad(m *pbv1.QBFTMsg) bool {
	return m.GetType() < 1 || m.GetType() > 5 || m.GetRound() < 1 || m.GetPreparedRound() < 0
}

func c05refHashes(m *pbv1.QBFTMsg) [][32]byte {
	var out [][32]byte
	for _, b := range [][]byte{m.GetValueHash(), m.GetPreparedValueHash()} {
		if len(b) == 32 && [32]byte(b) != [32]byte{} {
			out = append(out, [32]byte(b))
		}
	}
	return out
}

// judge returns must=true if the message must be rejected, with the rule it breaks and where.
func (e *c05env) judge(alt *pbv1.QBFTConsensusMsg, excused *int, w c05window) (must bool, rule, where string) {
	if alt == nil || alt.GetMsg() == nil || alt.GetMsg().GetDuty() == nil {
		return true, "malformed", "msg"
	}
	m := alt.GetMsg()
	if r := e.authentic(m, excused); r != "" {
		return true, r, "msg"
	}
	if c05fieldsBad(m) {
		return true, "bad-field", "msg"
	}
	duty := core.DutyFromProto(m.GetDuty())
	switch {
	case c05dutyInvalid(duty):
		return true, "duty-invalid", "msg"
	case w.gated(duty):
		return true, "duty-gated", "msg"
	}
	if exp, _ := w.expired(duty); exp {
		return true, "duty-expired", "msg"
	}
	if len(alt.GetJustification()) > 2*c05n {
		return true, "too-many-justifications", "justification"
	}
	if len(alt.GetValues()) > 2*(len(alt.GetJustification())+1) {
		return true, "too-many-values", "values"
	}
	for _, j := range alt.GetJustification() {
		if j == nil || j.GetDuty() == nil {
			return true, "malformed", "justification"
		}
		if r := e.authentic(j, excused); r != "" {
			return true, r, "justification"
		}
		if c05fieldsBad(j) {
			return true, "bad-field", "justification"
		}
		if core.DutyFromProto(j.GetDuty()) != duty {
			return true, "just-duty-mismatch", "justification"
		}
	}
	// every referenced hash must be resolvable by a value of the same type and content as the value it was made for
	type tv struct {
		name protoreflect.FullName
		det  string
	}
	have := map[tv]bool{}
	haveBytes := map[string]bool{}
	for _, v := range alt.GetValues() {
		if v == nil {
			continue
		}
		inner, err := v.UnmarshalNew()
		if err != nil {
			continue
		}
		have[tv{inner.ProtoReflect().Descriptor().FullName(), string(c05det(inner))}] = true
		haveBytes[string(c05det(inner))] = true
	}
	for _, q := range append([]*pbv1.QBFTMsg{m}, alt.GetJustification()...) {
		for _, h := range c05refHashes(q) {
			kv := e.table[h]
			if kv != nil && !have[tv{kv.name, string(kv.det)}] && haveBytes[string(kv.det)] {
				// the bytes are there, but as a message of another type than the one that was proposed and hashed
				return true, "value-type-substituted", "values"
			}
			if kv == nil || !have[tv{kv.name, string(kv.det)}] {
				return true, "hash-unresolvable", "values"
			}
		}
	}
	return false, "", ""
}

// ---------------------------------------------------------------------------------------------------------
// receivers and evaluation
// ---------------------------------------------------------------------------------------------------------

var c05rcvGenesis = time.Date(2024, 1, 1, 0, 0, 0, 0, time.UTC)

type c05rcv struct {
	nd     *c05node
	cancel context.CancelFunc
	win    c05window
}

func c05newRcv(e *c05env) (*c05rcv, error) {
	ctx, cancel := context.WithCancel(context.Background())
	clock := clockwork.NewFakeClockAt(c05rcvGenesis.Add(time.Duration(c05slot)*c05slotDur + c05nowOff))
	nd, err := c05newNode(ctx, e, 3, nil, c05rcvGenesis, clock)
	if err != nil {
		cancel()
		return nil, err
	}
	return &c05rcv{nd, cancel, c05defWin}, nil
}

// c05newRcvBubble must be called inside a synctest bubble: a receiver built with the option-less constructors
// (core.NewDutyGater with its default window and time.Now, core.NewDeadliner on the real clock), i.e. on the
// bubble's fake clock, which stands still while the harness goroutine runs. Genesis is placed so that "now" is
// w.nowOff after it.
func c05newRcvBubble(e *c05env, w c05window) (*c05rcv, error) {
	ctx, cancel := context.WithCancel(context.Background())
	nd, err := c05newNode(ctx, e, 3, nil, time.Now().Add(-w.nowOff), nil)
	if err != nil {
		cancel()
		return nil, err
	}
	return &c05rcv{nd, cancel, w}, nil
}

func c05snap(c *Consensus) string {
	c.mutable.Lock()
	defer c.mutable.Unlock()
	var l []string
	for d, inst := range c.mutable.instances {
		l = append(l, fmt.Sprintf("%v:%d:%v/%v/%v", d, len(inst.RecvBuffer), inst.Running.Load(), inst.Proposed.Load(), inst.Participated.Load()))
	}
	sort.Strings(l)
	return strings.Join(l, ",")
}

// c05peek returns the content of every receive buffer, oldest first, and puts it back (nobody else reads or
// writes the buffers while the harness holds the lock: no instance is running on a receiver).
func c05peek(c *Consensus) map[core.Duty][]Msg {
	c.mutable.Lock()
	defer c.mutable.Unlock()
	out := map[core.Duty][]Msg{}
	for d, inst := range c.mutable.instances {
		n := len(inst.RecvBuffer)
		for i := 0; i < n; i++ {
			m := <-inst.RecvBuffer
			out[d] = append(out[d], m)
		}
		for _, m := range out[d] {
			inst.RecvBuffer <- m
		}
	}
	return out
}

func c05maxBuffered(c *Consensus) (n int) {
	c.mutable.Lock()
	defer c.mutable.Unlock()
	for _, inst := range c.mutable.instances {
		n = max(n, len(inst.RecvBuffer))
	}
	return n
}

func c05drain(c *Consensus) (out []Msg, duties []core.Duty) {
	c.mutable.Lock()
	defer c.mutable.Unlock()
	for d, inst := range c.mutable.instances {
		for {
			select {
			case m := <-inst.RecvBuffer:
				out = append(out, m)
				duties = append(duties, d)
				continue
			default:
			}
			break
		}
	}
	return out, duties
}

type c05outcome struct {
	Decoded  bool   `json:"decoded"`
	Must     bool   `json:"must_reject"`
	Rule     string `json:"rule"`
	Where    string `json:"where"`
	Accepted bool   `json:"accepted"`
	Err      string `json:"handle_error"`
	Bad      string `json:"violation"` // "" or the violation kind
	Detail   string `json:"detail"`
	excused  int
}

// try feeds one frame payload to the receiver and judges the outcome; afterwards the receive buffers are emptied
// (the instance map keeps its entries).
func (e *c05env) try(rc *c05rcv, payload []byte, viaStream bool) (o c05outcome) {
	return e.tryOpt(rc, payload, viaStream, false)
}

// tryOpt with keep=true leaves everything that was enqueued where it is (history on a long-lived component): the
// buffers are only emptied, like a consumer would, when one of them gets close to its capacity.
func (e *c05env) tryOpt(rc *c05rcv, payload []byte, viaStream, keep bool) (o c05outcome) {
	c := rc.nd.c
	dec, derr := c05decode(payload)
	o.Decoded = derr == nil
	if derr != nil {
		o.Must, o.Rule, o.Where = true, "undecodable", "frame"
	} else {
		o.Must, o.Rule, o.Where = e.judge(dec, &o.excused, rc.win)
	}
	if keep {
		if c05maxBuffered(c) > 80 {
			c05drain(c)
		}
		return e.tryKeep(rc, dec, derr, payload, o)
	}
	before := c05snap(c)
	if derr != nil || viaStream {
		// through the real registered stream handler (read limit, unmarshal, protonil, handle)
		rc.nd.host.inject(e.peers[0].ID, c05frame(payload))
		o.Accepted = c05snap(c) != before
	} else {
		_, _, err := c.handle(context.Background(), e.peers[0].ID, dec)
		o.Accepted = err == nil
		if err != nil {
			o.Err = err.Error()
			if c05snap(c) != before {
				o.Bad, o.Detail = "rejected-but-state-changed", fmt.Sprintf("handle returned %q but the instance state went from [%s] to [%s]", o.Err, before, c05snap(c))
			}
		}
	}
	msgs, duties := c05drain(c)
	if o.Bad != "" {
		return o
	}
	if !o.Accepted {
		if len(msgs) > 0 {
			o.Bad, o.Detail = "rejected-but-state-changed", "message found in a receive buffer after a rejection"
		}
		return o
	}
	if o.Must {
		o.Bad = "accepted-inauthentic"
		o.Detail = fmt.Sprintf("accepted (enqueued %d message(s)) although it breaks rule %q at %s", len(msgs), o.Rule, o.Where)
		return o
	}
	if len(msgs) != 1 || duties[0] != core.DutyFromProto(dec.GetMsg().GetDuty()) || !proto.Equal(msgs[0].msg, dec.GetMsg()) ||
		len(msgs[0].justificationProtos) != len(dec.GetJustification()) {
		o.Bad, o.Detail = "accepted-but-enqueued-differs", fmt.Sprintf("accepted message is not what was enqueued (%d entries)", len(msgs))
	}
	return o
}

// tryKeep: like try, but nothing is removed from the buffers; what an acceptance enqueued is read by c05peek.
func (e *c05env) tryKeep(rc *c05rcv, dec *pbv1.QBFTConsensusMsg, derr error, payload []byte, o c05outcome) c05outcome {
	c := rc.nd.c
	before := c05snap(c)
	bufBefore := c05peek(c)
	if derr != nil {
		rc.nd.host.inject(e.peers[0].ID, c05frame(payload))
		o.Accepted = c05snap(c) != before
	} else {
		_, _, err := c.handle(context.Background(), e.peers[0].ID, dec)
		o.Accepted = err == nil
		if err != nil {
			o.Err = err.Error()
		}
	}
	after := c05snap(c)
	if !o.Accepted {
		if after != before {
			o.Bad, o.Detail = "rejected-but-state-changed", fmt.Sprintf("rejected (%q) but the instance state went from [%s] to [%s]", o.Err, before, after)
		}
		return o
	}
	if o.Must {
		o.Bad = "accepted-inauthentic"
		o.Detail = fmt.Sprintf("accepted although it breaks rule %q at %s; instance state went from [%s] to [%s]", o.Rule, o.Where, before, after)
		return o
	}
	// exactly one message more, in the buffer of its duty, and it is the message that was sent
	bufAfter := c05peek(c)
	duty := core.DutyFromProto(dec.GetMsg().GetDuty())
	grown := 0
	for d, l := range bufAfter {
		grown += len(l) - len(bufBefore[d])
	}
	l := bufAfter[duty]
	if grown != 1 || len(l) != len(bufBefore[duty])+1 || !proto.Equal(l[len(l)-1].msg, dec.GetMsg()) ||
		len(l[len(l)-1].justificationProtos) != len(dec.GetJustification()) {
		o.Bad, o.Detail = "accepted-but-enqueued-differs", fmt.Sprintf("accepted message is not what was enqueued (buffers grew by %d)", grown)
	}
	return o
}

type c05case struct {
	Key    string `json:"corpus_key"`
	Family string `json:"family"`
	ID     string `json:"alteration"`
	Base   string `json:"base_payload_b64"`
	Alt    string `json:"altered_payload_b64,omitempty"`
}

type c05x struct {
	t      *testing.T
	r      *enumx.Run
	e      *c05env
	rc     *c05rcv
	base   *c05entry
	family string
	only   string // replay: evaluate only this alteration id
	stream bool   // feed through the stream handler
	found  *c05outcome
	mk     func() (*c05rcv, error) // builds another receiver like rc (nil: c05newRcv)
	hist   *c05hist                // non-nil: the family runs against a component with history
	// dimension "ctx" (zz_verif_c05x_test.go): every emitted payload is run under a context that ends at its k-th observation
	ctxdim        bool
	ctxBothCauses bool
	ctxSeen       int
	ctxPart       int
	ctxParts      int
}

func (x *c05x) newRcv() (*c05rcv, error) {
	if x.mk != nil {
		return x.mk()
	}
	return c05newRcv(x.e)
}

// emit evaluates one altered payload. class names the distinct class for the evidence.
func (x *c05x) emit(id, class string, payload []byte) {
	if x.only != "" && id != x.only {
		return
	}
	if x.ctxdim {
		x.emitCtx(id, class, payload)
		return
	}
	if x.hist != nil {
		x.emitHist(id, class, payload)
		return
	}
	o := x.e.try(x.rc, payload, x.stream)
	x.found = &o
	x.r.Eval(x.base.Kind + ":" + class)
	x.r.Steps(1)
	if strings.HasPrefix(class, "bslot:") {
		// non-vacuity of the boundary-slot dimension, per slot class
		cl := strings.SplitN(class, ":", 3)[1]
		switch {
		case o.Accepted:
			x.r.Count("bslot_handle_accepted:"+cl, 1)
		default:
			x.r.Count("bslot_handle_rejected:"+cl, 1)
		}
		if o.Must {
			x.r.Count("bslot_handle_must_reject:"+o.Rule, 1)
		}
	}
	switch {
	case !o.Decoded:
		x.r.Count("rejected_at_decode", 1)
	case o.Accepted:
		x.r.Count("accepted", 1)
		if !strings.HasPrefix(class, "wire:") {
			x.r.Outcome("accepted " + x.base.Kind + ":" + c05noIndex(class))
		}
	default:
		x.r.Count("rejected_by_handle", 1)
	}
	if o.Must {
		x.r.Count("must_reject:"+o.Rule, 1)
	} else {
		x.r.Count("may_accept", 1)
		if !o.Accepted {
			x.r.Count("may_accept_but_rejected", 1)
		}
	}
	if !o.Accepted {
		x.r.Count("unchanged_state_checks", 1)
	}
	x.r.Count("signature_equivalents_excused", o.excused)
	if o.Bad == "" {
		return
	}
	x.r.Count("violating:"+class, 1)
	// confirm three times on fresh receivers
	for k := 0; k < 3; k++ {
		rc, err := x.newRcv()
		if err != nil {
			x.r.Note("cannot build a receiver for confirmation: " + err.Error())
			return
		}
		o2 := x.e.try(rc, payload, x.stream)
		rc.cancel()
		if o2.Bad != o.Bad || o2.Rule != o.Rule {
			x.r.Unconfirmed(fmt.Sprintf("%s %s %s", x.base.Key, x.family, id))
			return
		}
	}
	sig := fmt.Sprintf("kind=%s rule=%s where=%s msgkind=%s", o.Bad, o.Rule, o.Where, x.base.Kind)
	desc := fmt.Sprintf("%s; corpus message %s, family %s, alteration %s; handle error: %q", o.Detail, c05describe(x.base), x.family, id, o.Err)
	x.r.Violation(sig, desc, c05case{Key: x.base.Key, Family: x.family, ID: id,
		Base: base64.StdEncoding.EncodeToString(x.base.wire), Alt: base64.StdEncoding.EncodeToString(payload)})
}

func (x *c05x) emitMsg(id, class string, alt *pbv1.QBFTConsensusMsg) {
	if x.only != "" && id != x.only {
		return
	}
	b, err := proto.Marshal(alt)
	if err != nil {
		x.r.Note("cannot marshal an altered message: " + err.Error())
		return
	}
	x.emit(id, class, b)
}

// c05noIndex replaces list indices by [i] (evidence only).
func c05noIndex(s string) string {
	var b strings.Builder
	in := false
	for _, c := range s {
		switch {
		case c == '[':
			in = true
			b.WriteString("[i")
		case c == ']':
			in = false
			b.WriteRune(c)
		case !in:
			b.WriteRune(c)
		}
	}
	return b.String()
}

func c05clone(m *pbv1.QBFTConsensusMsg) *pbv1.QBFTConsensusMsg {
	return proto.Clone(m).(*pbv1.QBFTConsensusMsg)
}

// ---------------------------------------------------------------------------------------------------------
// family "wire": every byte of the frame payload xor mask
// ---------------------------------------------------------------------------------------------------------

// c05regions names the top-level element each payload byte belongs to.
func c05regions(wire []byte) []string {
	out := make([]string, len(wire))
	names := map[protowire.Number]string{1: "msg", 2: "justification", 3: "values"}
	cnt := map[protowire.Number]int{}
	off := 0
	for off < len(wire) {
		num, typ, n := protowire.ConsumeTag(wire[off:])
		if n < 0 {
			break
		}
		m := protowire.ConsumeFieldValue(num, typ, wire[off+n:])
		if m < 0 {
			break
		}
		nm := names[num]
		if num != 1 {
			nm = fmt.Sprintf("%s[%d]", nm, cnt[num])
		}
		cnt[num]++
		for i := off; i < off+n+m; i++ {
			out[i] = nm
		}
		off += n + m
	}
	return out
}

func (x *c05x) famWire(mask byte) {
	reg := c05regions(x.base.wire)
	for pos := range x.base.wire {
		p := append([]byte(nil), x.base.wire...)
		p[pos] ^= mask
		x.emit(fmt.Sprintf("wire[%d]^%02x", pos, mask), "wire:"+reg[pos], p)
	}
}

// ---------------------------------------------------------------------------------------------------------
// families "fields" (not re-signed) and "resigned": protoreflect walk over msg, duty, every justification
// ---------------------------------------------------------------------------------------------------------

type c05leaf struct {
	path   string // msg / justification[i]
	target func(*pbv1.QBFTConsensusMsg) *pbv1.QBFTMsg
	fds    []protoreflect.FieldDescriptor // field path inside the QBFTMsg
}

func (l c05leaf) name() string {
	s := l.path
	for _, fd := range l.fds {
		s += "." + string(fd.Name())
	}
	return s
}

func (l c05leaf) holder(alt *pbv1.QBFTConsensusMsg) protoreflect.Message {
	m := l.target(alt).ProtoReflect()
	for _, fd := range l.fds[:len(l.fds)-1] {
		m = m.Mutable(fd).Message()
	}
	return m
}

func c05leaves(base *pbv1.QBFTConsensusMsg) (out []c05leaf) {
	add := func(path string, target func(*pbv1.QBFTConsensusMsg) *pbv1.QBFTMsg) {
		var rec func(md protoreflect.MessageDescriptor, pre []protoreflect.FieldDescriptor)
		rec = func(md protoreflect.MessageDescriptor, pre []protoreflect.FieldDescriptor) {
			for i := 0; i < md.Fields().Len(); i++ {
				fd := md.Fields().Get(i)
				p := append(append([]protoreflect.FieldDescriptor(nil), pre...), fd)
				if fd.Kind() == protoreflect.MessageKind && !fd.IsList() && !fd.IsMap() {
					out = append(out, c05leaf{path, target, p}) // the sub-message itself (clearing it)
					rec(fd.Message(), p)
					continue
				}
				out = append(out, c05leaf{path, target, p})
			}
		}
		rec((&pbv1.QBFTMsg{}).ProtoReflect().Descriptor(), nil)
	}
	add("msg", func(m *pbv1.QBFTConsensusMsg) *pbv1.QBFTMsg { return m.Msg })
	for i := range base.GetJustification() {
		add(fmt.Sprintf("justification[%d]", i), func(m *pbv1.QBFTConsensusMsg) *pbv1.QBFTMsg { return m.Justification[i] })
	}
	return out
}

type c05sv struct {
	label string
	v     protoreflect.Value
}

func c05scalarAlts(fd protoreflect.FieldDescriptor, cur protoreflect.Value) (out []c05sv) {
	seen := map[string]bool{}
	add := func(label string, v protoreflect.Value) {
		k := v.String()
		if v.Equal(cur) || seen[k] {
			return
		}
		seen[k] = true
		out = append(out, c05sv{label, v})
	}
	switch fd.Kind() {
	case protoreflect.Int64Kind, protoreflect.Sint64Kind, protoreflect.Sfixed64Kind:
		c := cur.Int()
		add("+1", protoreflect.ValueOfInt64(c+1))
		add("-1", protoreflect.ValueOfInt64(c-1))
		for _, v := range []int64{0, 1, 2, 3, c05n, 5, 6, -1, math.MaxInt64, math.MinInt64} {
			add(fmt.Sprintf("=%d", v), protoreflect.ValueOfInt64(v))
		}
	case protoreflect.Int32Kind, protoreflect.Sint32Kind, protoreflect.Sfixed32Kind:
		c := int32(cur.Int())
		add("+1", protoreflect.ValueOfInt32(c+1))
		add("-1", protoreflect.ValueOfInt32(c-1))
		for v := int32(-1); v <= 14; v++ {
			add(fmt.Sprintf("=%d", v), protoreflect.ValueOfInt32(v))
		}
		add("=max", protoreflect.ValueOfInt32(math.MaxInt32))
		add("=min", protoreflect.ValueOfInt32(math.MinInt32))
	case protoreflect.Uint64Kind, protoreflect.Fixed64Kind:
		c := cur.Uint()
		add("+1", protoreflect.ValueOfUint64(c+1))
		add("-1", protoreflect.ValueOfUint64(c-1))
		last := uint64((c05slot/c05spe+3)*c05spe - 1)
		for _, v := range []uint64{0, math.MaxUint64, c05D.Slot, c05D2.Slot, c05Dexp.Slot, c05Dfar.Slot, last, last + 1, c05slot - 31, c05slot - 32} {
			add(fmt.Sprintf("=%d", v), protoreflect.ValueOfUint64(v))
		}
	case protoreflect.Uint32Kind, protoreflect.Fixed32Kind:
		c := uint32(cur.Uint())
		add("+1", protoreflect.ValueOfUint32(c+1))
		add("-1", protoreflect.ValueOfUint32(c-1))
		add("=0", protoreflect.ValueOfUint32(0))
		add("=max", protoreflect.ValueOfUint32(math.MaxUint32))
	case protoreflect.BoolKind:
		add("flip", protoreflect.ValueOfBool(!cur.Bool()))
	case protoreflect.StringKind:
		add("+x", protoreflect.ValueOfString(cur.String()+"x"))
		add("empty", protoreflect.ValueOfString(""))
	case protoreflect.EnumKind:
		add("+1", protoreflect.ValueOfEnum(cur.Enum()+1))
	}
	return out
}

func c05bytesAlts(cur []byte, thorough, isSig bool) (out []c05sv) {
	add := func(label string, b []byte) {
		if !bytes.Equal(b, cur) {
			out = append(out, c05sv{label, protoreflect.ValueOfBytes(b)})
		}
	}
	n := len(cur)
	step := 1
	if !thorough && n > 8 {
		step = (n + 7) / 8
	}
	for pos := 0; pos < n; pos += step {
		b := append([]byte(nil), cur...)
		b[pos] ^= 0xff
		add(fmt.Sprintf("flip[%d]", pos), b)
	}
	if n > 0 && (n-1)%step != 0 {
		b := append([]byte(nil), cur...)
		b[n-1] ^= 0xff
		add(fmt.Sprintf("flip[%d]", n-1), b)
	}
	if n > 0 {
		add("truncated", append([]byte(nil), cur[:n-1]...))
		add("zeroed", make([]byte, n))
	}
	add("extended", append(append([]byte(nil), cur...), 0))
	add("emptied", []byte{})
	if isSig && n == 65 && cur[64] <= 1 {
		b := append([]byte(nil), cur...)
		b[64] += 27
		add("recid+27", b) // an equivalent encoding of the same signature
	}
	return out
}

func c05flipClass(label string) string {
	if i := strings.IndexByte(label, '['); i > 0 {
		return label[:i]
	}
	return label
}

// famFields: every leaf altered, signatures left as they are.
func (x *c05x) famFields(thorough bool) {
	for _, lf := range c05leaves(x.base.msg) {
		fd := lf.fds[len(lf.fds)-1]
		cur := lf.holder(x.base.msg).Get(fd)
		switch {
		case fd.Kind() == protoreflect.MessageKind:
			alt := c05clone(x.base.msg)
			lf.holder(alt).Clear(fd)
			x.emitMsg("field="+lf.name()+":cleared", "field="+lf.name()+":cleared", alt)
		case fd.Kind() == protoreflect.BytesKind:
			for _, a := range c05bytesAlts(cur.Bytes(), thorough, fd.Name() == "signature") {
				alt := c05clone(x.base.msg)
				lf.holder(alt).Set(fd, a.v)
				x.emitMsg("field="+lf.name()+":"+a.label, "field="+lf.name()+":"+c05flipClass(a.label), alt)
			}
			if fd.Name() == "value_hash" || fd.Name() == "prepared_value_hash" {
				// the hash of another valid value, that value attached: only the signature stands in the way
				for i, o := range x.e.otherValues(x.base.msg) {
					if !thorough && i >= 2 {
						break
					}
					alt := c05clone(x.base.msg)
					lf.holder(alt).Set(fd, protoreflect.ValueOfBytes(o.hash[:]))
					if len(alt.Values) < 2*(len(alt.Justification)+1) {
						alt.Values = append(alt.Values, o.any)
					}
					x.emitMsg(fmt.Sprintf("field=%s:=other-value[%d]+value", lf.name(), i), "field="+lf.name()+":=other-value+value", alt)
				}
			}
		default:
			for _, a := range c05scalarAlts(fd, cur) {
				alt := c05clone(x.base.msg)
				lf.holder(alt).Set(fd, a.v)
				x.emitMsg("field="+lf.name()+":"+a.label, "field="+lf.name()+":"+a.label, alt)
			}
		}
		// an unknown (newly added) field next to this one
	}
	// unknown fields appended at every level
	for _, lf := range c05leaves(x.base.msg) {
		if len(lf.fds) != 1 || lf.fds[0].Name() != "type" {
			continue
		}
		for _, where := range []string{"", ".duty"} {
			alt := c05clone(x.base.msg)
			m := lf.target(alt).ProtoReflect()
			if where == ".duty" {
				m = m.Mutable(m.Descriptor().Fields().ByName("duty")).Message()
			}
			m.SetUnknown(protowire.AppendVarint(protowire.AppendTag(nil, 15, protowire.VarintType), 1))
			x.emitMsg("field="+lf.path+where+":unknown-field-15", "field="+lf.path+where+":unknown-field", alt)
		}
	}
	alt := c05clone(x.base.msg)
	alt.ProtoReflect().SetUnknown(protowire.AppendVarint(protowire.AppendTag(nil, 15, protowire.VarintType), 1))
	x.emitMsg("field=outer:unknown-field-15", "field=outer:unknown-field", alt)
	// the duty changed consistently in the message and all its justifications (the duty-equality rule holds)
	for _, d := range []struct {
		name string
		slot uint64
		typ  int32
	}{
		{"other-allowed-slot", c05D2.Slot, int32(c05D2.Type)}, {"previous-slot", c05slot - 1, int32(core.DutyAttester)},
		{"proposer-same-slot", c05slot, int32(core.DutyProposer)}, {"aggregator-same-slot", c05slot, int32(core.DutyAggregator)},
		{"aggregator-other-slot", c05D2.Slot, int32(core.DutyAggregator)},
	} {
		alt := c05clone(x.base.msg)
		alt.Msg.Duty = &pbv1.Duty{Slot: d.slot, Type: d.typ}
		for _, j := range alt.Justification {
			j.Duty = &pbv1.Duty{Slot: d.slot, Type: d.typ}
		}
		x.emitMsg("field=all.duty:="+d.name, "field=all.duty:="+d.name, alt)
	}
}

// famResigned: every leaf altered, then the altered QBFTMsg is signed again with the key of the member it
// (now) names. These are authentic messages; only the duty rules, field rules and hash resolution apply.
func (x *c05x) famResigned() {
	e := x.e
	resign := func(alt *pbv1.QBFTConsensusMsg, lf c05leaf) {
		tm := lf.target(alt)
		signer := tm.GetPeerIdx()
		if signer < 0 || signer >= c05n {
			signer = lf.target(x.base.msg).GetPeerIdx()
		}
		s := e.sign(tm, signer)
		if lf.path == "msg" {
			alt.Msg = s
		} else {
			for i := range alt.Justification {
				if alt.Justification[i] == tm {
					alt.Justification[i] = s
				}
			}
		}
	}
	var other *c05val // a valid value that this message does not refer to
	for _, p := range e.props[c05D2] {
		for _, v := range e.table {
			if bytes.Equal(v.det, p) && other == nil {
				other = v
			}
		}
	}
	for _, lf := range c05leaves(x.base.msg) {
		fd := lf.fds[len(lf.fds)-1]
		cur := lf.holder(x.base.msg).Get(fd)
		switch {
		case fd.Kind() == protoreflect.MessageKind:
			continue
		case fd.Kind() == protoreflect.BytesKind:
			if fd.Name() == "signature" {
				continue
			}
			alts := c05bytesAlts(cur.Bytes(), false, false)
			var keep []c05sv
			for _, a := range alts {
				switch a.label {
				case "flip[0]", "truncated", "zeroed", "extended", "emptied":
					keep = append(keep, a)
				}
			}
			keep = append(keep, c05sv{"=other-value", protoreflect.ValueOfBytes(other.hash[:])})
			for _, a := range keep {
				alt := c05clone(x.base.msg)
				lf.holder(alt).Set(fd, a.v)
				resign(alt, lf)
				x.emitMsg("resigned="+lf.name()+":"+a.label, "resigned="+lf.name()+":"+a.label, alt)
				if a.label == "=other-value" && len(alt.Values) < 2*(len(alt.Justification)+1) {
					alt2 := c05clone(alt)
					alt2.Values = append(alt2.Values, other.any)
					x.emitMsg("resigned="+lf.name()+":"+a.label+"+value", "resigned="+lf.name()+":"+a.label+"+value", alt2)
				}
			}
		default:
			for _, a := range c05scalarAlts(fd, cur) {
				alt := c05clone(x.base.msg)
				lf.holder(alt).Set(fd, a.v)
				resign(alt, lf)
				x.emitMsg("resigned="+lf.name()+":"+a.label, "resigned="+lf.name()+":"+a.label, alt)
			}
		}
	}
}

// ---------------------------------------------------------------------------------------------------------
// family "values": the referenced values
// ---------------------------------------------------------------------------------------------------------

func (e *c05env) otherValues(base *pbv1.QBFTConsensusMsg) (out []*c05val) {
	ref := map[[32]byte]bool{}
	for _, q := range append([]*pbv1.QBFTMsg{base.GetMsg()}, base.GetJustification()...) {
		for _, h := range c05refHashes(q) {
			ref[h] = true
		}
	}
	var hs [][32]byte
	for h := range e.table {
		if !ref[h] {
			hs = append(hs, h)
		}
	}
	sort.Slice(hs, func(i, j int) bool { return bytes.Compare(hs[i][:], hs[j][:]) < 0 })
	for _, h := range hs {
		out = append(out, e.table[h])
	}
	return out
}

var c05swapTypes = []string{"core.corepb.v1.Duty", "core.corepb.v1.ParSignedDataSet", "core.corepb.v1.PriorityResult",
	"core.corepb.v1.QBFTMsg", "core.corepb.v1.QBFTConsensusMsg", "google.protobuf.Empty", "google.protobuf.Any", "google.protobuf.Timestamp"}

func (x *c05x) famValues(thorough bool) {
	base := x.base.msg
	others := x.e.otherValues(base)
	limit := 2 * (len(base.GetJustification()) + 1)
	for k, v := range base.GetValues() {
		tag := fmt.Sprintf("values[%d]", k)
		with := func(id string, a *anypb.Any) {
			alt := c05clone(base)
			alt.Values[k] = a
			x.emitMsg(tag+":"+id, "values:"+c05flipClass(id), alt)
		}
		alt := c05clone(base)
		alt.Values = append(alt.Values[:k:k], alt.Values[k+1:]...)
		x.emitMsg(tag+":removed", "values:removed", alt)
		if len(base.GetValues()) < limit {
			alt = c05clone(base)
			alt.Values = append(alt.Values, proto.Clone(v).(*anypb.Any))
			x.emitMsg(tag+":duplicated", "values:duplicated", alt)
		}
		for i, o := range others {
			if !thorough && i >= 2 {
				break
			}
			with(fmt.Sprintf("replaced-by-valid[%d]", i), o.any)
		}
		for _, name := range c05swapTypes {
			if _, err := protoregistry.GlobalTypes.FindMessageByName(protoreflect.FullName(name)); err != nil {
				continue
			}
			with("type-url="+name, &anypb.Any{TypeUrl: "type.googleapis.com/" + name, Value: v.GetValue()})
		}
		with("type-url-prefix", &anypb.Any{TypeUrl: "example.org/x/" + v.GetTypeUrl()[strings.LastIndexByte(v.GetTypeUrl(), '/')+1:], Value: v.GetValue()})
		with("type-url-emptied", &anypb.Any{Value: v.GetValue()})
		with("value-emptied", &anypb.Any{TypeUrl: v.GetTypeUrl()})
		if n := len(v.GetValue()); n > 0 {
			with("value-truncated", &anypb.Any{TypeUrl: v.GetTypeUrl(), Value: v.GetValue()[:n-1]})
		}
		with("value-extended", &anypb.Any{TypeUrl: v.GetTypeUrl(), Value: append(append([]byte(nil), v.GetValue()...), 0)})
		// WELL-FORMED extensions: fields the value's type does not know (a decoder accepts and keeps them), after and before
		// the known content - the bytes of the value change, so it no longer hashes to the hash that refers to it
		for _, uf := range []struct {
			id string
			b  []byte
		}{
			{"unknown-varint-field-15", protowire.AppendVarint(protowire.AppendTag(nil, 15, protowire.VarintType), 1)},
			{"unknown-bytes-field-1000", protowire.AppendBytes(protowire.AppendTag(nil, 1000, protowire.BytesType), []byte("extra"))},
			{"unknown-field-of-the-highest-number", protowire.AppendVarint(protowire.AppendTag(nil, 1<<29-1, protowire.VarintType), 7)},
		} {
			with("value-with-"+uf.id+"-appended", &anypb.Any{TypeUrl: v.GetTypeUrl(), Value: append(append([]byte(nil), v.GetValue()...), uf.b...)})
			with("value-with-"+uf.id+"-prepended", &anypb.Any{TypeUrl: v.GetTypeUrl(), Value: append(append([]byte(nil), uf.b...), v.GetValue()...)})
		}
		// every single-field change of the inner UnsignedDataSet, packed again as a well-formed Any
		inner := new(pbv1.UnsignedDataSet)
		if err := v.UnmarshalTo(inner); err != nil {
			continue
		}
		repack := func(id string, f func(s *pbv1.UnsignedDataSet)) {
			s := proto.Clone(inner).(*pbv1.UnsignedDataSet)
			f(s)
			a, err := anypb.New(s)
			if err != nil {
				return
			}
			with(id, a)
		}
		var keys []string
		for pk := range inner.GetSet() {
			keys = append(keys, pk)
		}
		sort.Strings(keys)
		for ki, pk := range keys {
			data := inner.GetSet()[pk]
			kt := fmt.Sprintf("inner[%d]", ki)
			repack(kt+".key-changed", func(s *pbv1.UnsignedDataSet) {
				delete(s.Set, pk)
				s.Set[pk[:len(pk)-1]+"0"] = data
				s.Set[pk[:len(pk)-1]+"1"] = data
			})
			repack(kt+".removed", func(s *pbv1.UnsignedDataSet) { delete(s.Set, pk) })
			repack(kt+".data-emptied", func(s *pbv1.UnsignedDataSet) { s.Set[pk] = nil })
			repack(kt+".data-truncated", func(s *pbv1.UnsignedDataSet) { s.Set[pk] = data[:len(data)-1] })
			repack(kt+".data-extended", func(s *pbv1.UnsignedDataSet) { s.Set[pk] = append(append([]byte(nil), data...), ' ') })
			step := 1
			if !thorough {
				step = (len(data) + 15) / 16
			}
			for pos := 0; pos < len(data); pos += step {
				for _, mask := range []byte{0x01, 0x80} {
					if !thorough && mask != 0x01 {
						continue
					}
					repack(fmt.Sprintf("%s.data-flip[%d]^%02x", kt, pos, mask), func(s *pbv1.UnsignedDataSet) {
						b := append([]byte(nil), data...)
						b[pos] ^= mask
						s.Set[pk] = b
					})
				}
			}
		}
		repack("inner.entry-added", func(s *pbv1.UnsignedDataSet) { s.Set["0xadded"] = []byte("{}") })
	}
	// the list as a whole
	if len(others) > 0 && len(base.GetValues()) < limit {
		alt := c05clone(base)
		alt.Values = append(alt.Values, others[0].any)
		x.emitMsg("values:unreferenced-valid-appended", "values:unreferenced-valid-appended", alt)
		rev := c05clone(alt)
		for i, j := 0, len(rev.Values)-1; i < j; i, j = i+1, j-1 {
			rev.Values[i], rev.Values[j] = rev.Values[j], rev.Values[i]
		}
		x.emitMsg("values:reordered", "values:reordered", rev)
		alt = c05clone(base)
		alt.Values = append(alt.Values, &anypb.Any{})
		x.emitMsg("values:empty-any-appended", "values:empty-any-appended", alt)
		alt = c05clone(base)
		alt.Values = append(alt.Values, &anypb.Any{TypeUrl: others[0].any.GetTypeUrl(), Value: []byte{0xff}})
		x.emitMsg("values:garbage-any-appended", "values:garbage-any-appended", alt)
	}
	if len(base.GetValues()) > 0 {
		alt := c05clone(base)
		alt.Values = nil
		x.emitMsg("values:all-removed", "values:all-removed", alt)
	}
}

// ---------------------------------------------------------------------------------------------------------
// family "subst": substitutions between messages, signers and duties
// ---------------------------------------------------------------------------------------------------------

type c05mat struct {
	corpus  []*c05entry // duty D
	corpus2 []*c05entry // duty D2
}

func c05find(l []*c05entry, kind string) *c05entry {
	for _, en := range l {
		if en.Kind == kind {
			return en
		}
	}
	return nil
}

// restamp moves the message and all its justifications to another duty, each signed again by its member.
func (e *c05env) restamp(base *pbv1.QBFTConsensusMsg, slot uint64, typ int32, justToo bool) *pbv1.QBFTConsensusMsg {
	alt := c05clone(base)
	alt.Msg.Duty = &pbv1.Duty{Slot: slot, Type: typ}
	alt.Msg = e.sign(alt.Msg, alt.Msg.GetPeerIdx())
	if justToo {
		for i, j := range alt.Justification {
			j.Duty = &pbv1.Duty{Slot: slot, Type: typ}
			alt.Justification[i] = e.sign(j, j.GetPeerIdx())
		}
	}
	return alt
}

func (x *c05x) famSubst(mat c05mat, thorough bool) {
	e, base := x.e, x.base.msg
	limit := 2 * (len(base.GetJustification()) + 1)
	// (1) a justification of another duty's instance (with its value, so that only the duty rule is broken)
	for _, kind := range []string{"PREPARE", "COMMIT", "PRE_PREPARE"} {
		src := c05find(mat.corpus2, kind)
		if src == nil {
			continue
		}
		alt := c05clone(base)
		alt.Justification = append(alt.Justification, proto.Clone(src.msg.GetMsg()).(*pbv1.QBFTMsg))
		alt.Values = append(alt.Values, src.msg.GetValues()...)
		x.emitMsg("just-appended-from-other-duty:"+src.Key, "subst:just-from-other-duty", alt)
		if len(base.GetJustification()) > 0 {
			alt = c05clone(base)
			alt.Justification[len(alt.Justification)-1] = proto.Clone(src.msg.GetMsg()).(*pbv1.QBFTMsg)
			if len(alt.Values) < limit {
				alt.Values = append(alt.Values, src.msg.GetValues()...)
			}
			x.emitMsg("just-replaced-from-other-duty:"+src.Key, "subst:just-from-other-duty", alt)
		}
	}
	// the other direction: a message of D2 justified by messages of D
	if src := c05find(mat.corpus2, "PREPARE"); src != nil && len(base.GetJustification()) > 0 {
		alt := c05clone(src.msg)
		alt.Justification = append(alt.Justification, base.GetJustification()...)
		alt.Values = append(alt.Values, base.GetValues()...)
		x.emitMsg("other-duty-msg-with-these-justifications", "subst:just-from-other-duty", alt)
	}
	// a justification taken from another message of the same instance: authentic, allowed
	for _, src := range mat.corpus {
		if src.Kind == "PREPARE" && src.msg.GetMsg().GetRound() == 1 && len(base.GetValues()) > 0 {
			alt := c05clone(base)
			alt.Justification = append(alt.Justification, proto.Clone(src.msg.GetMsg()).(*pbv1.QBFTMsg))
			x.emitMsg("just-appended-from-same-duty:"+src.Key, "subst:just-from-same-duty", alt)
			break
		}
	}
	// (2) signed by another member's key, with and without naming that member
	for k := int64(0); k < c05n; k++ {
		if k == base.GetMsg().GetPeerIdx() {
			continue
		}
		alt := c05clone(base)
		alt.Msg = e.sign(alt.Msg, k)
		x.emitMsg(fmt.Sprintf("msg-signed-by-member-%d-not-named", k), "subst:msg-signed-by-other-key", alt)
		alt = c05clone(base)
		alt.Msg.PeerIdx = k
		alt.Msg = e.sign(alt.Msg, k)
		x.emitMsg(fmt.Sprintf("msg-signed-by-member-%d-and-named", k), "subst:msg-signed-by-other-key-and-named", alt)
		for i, j := range base.GetJustification() {
			if k == j.GetPeerIdx() || (!thorough && i > 0) {
				continue
			}
			alt = c05clone(base)
			alt.Justification[i] = e.sign(alt.Justification[i], k)
			x.emitMsg(fmt.Sprintf("justification[%d]-signed-by-member-%d-not-named", i, k), "subst:just-signed-by-other-key", alt)
		}
	}
	// a key outside the cluster
	{
		var b [32]byte
		b[0], b[31] = 0x05, 0x05
		s, err := signMsg(base.GetMsg(), k1.PrivKeyFromBytes(b[:]))
		if err == nil {
			alt := c05clone(base)
			alt.Msg = s
			x.emitMsg("msg-signed-by-foreign-key", "subst:msg-signed-by-foreign-key", alt)
		}
	}
	// (3) signatures swapped between messages
	n := 0
	for _, src := range append(append([]*c05entry(nil), mat.corpus...), mat.corpus2...) {
		if src.Key == x.base.Key && core.DutyFromProto(src.msg.GetMsg().GetDuty()) == c05D {
			continue
		}
		if !thorough && n >= 3 {
			break
		}
		n++
		alt := c05clone(base)
		alt.Msg.Signature = src.msg.GetMsg().GetSignature()
		x.emitMsg(fmt.Sprintf("msg-signature-from:%v/%s", core.DutyFromProto(src.msg.GetMsg().GetDuty()).Slot, src.Key), "subst:msg-signature-swapped", alt)
	}
	for i, j := range base.GetJustification() {
		alt := c05clone(base)
		alt.Justification[i].Signature = base.GetMsg().GetSignature()
		x.emitMsg(fmt.Sprintf("justification[%d]-signature-from-msg", i), "subst:just-signature-from-msg", alt)
		alt = c05clone(base)
		alt.Msg.Signature = j.GetSignature()
		x.emitMsg(fmt.Sprintf("msg-signature-from-justification[%d]", i), "subst:msg-signature-from-just", alt)
		k := (i + 1) % len(base.GetJustification())
		alt = c05clone(base)
		alt.Justification[i].Signature, alt.Justification[k].Signature = alt.Justification[k].Signature, alt.Justification[i].Signature
		x.emitMsg(fmt.Sprintf("justification[%d]<->[%d]-signatures", i, k), "subst:just-signatures-swapped", alt)
	}
	// justifications reordered / one dropped / one doubled: still authentic
	if nj := len(base.GetJustification()); nj > 1 {
		alt := c05clone(base)
		alt.Justification[0], alt.Justification[nj-1] = alt.Justification[nj-1], alt.Justification[0]
		x.emitMsg("justifications-reordered", "subst:justifications-reordered", alt)
		alt = c05clone(base)
		alt.Justification = alt.Justification[:nj-1]
		x.emitMsg("justification-dropped", "subst:justification-dropped", alt)
	}
	// a justification carrying its own (nested) content is not expressible on the wire; the main message used as its own justification:
	{
		alt := c05clone(base)
		alt.Justification = append(alt.Justification, proto.Clone(base.GetMsg()).(*pbv1.QBFTMsg))
		x.emitMsg("msg-as-own-justification", "subst:msg-as-own-justification", alt)
	}
	// (4) correctly signed messages for other duties
	type dd struct {
		name string
		slot uint64
		typ  int32
	}
	last := uint64((c05slot/c05spe+3)*c05spe - 1)
	for _, d := range []dd{
		{"expired", c05Dexp.Slot, int32(c05Dexp.Type)}, {"far-future", c05Dfar.Slot, int32(c05Dfar.Type)},
		{"type-0", c05slot, 0}, {"type-14", c05slot, 14}, {"type--1", c05slot, -1}, {"type-max", c05slot, math.MaxInt32},
		{"other-allowed", c05D2.Slot, int32(c05D2.Type)}, {"proposer-same-slot", c05slot, int32(core.DutyProposer)},
		{"last-allowed-slot", last, int32(core.DutyAttester)}, {"first-gated-slot", last + 1, int32(core.DutyAttester)},
		{"last-expired-slot", c05slot - 32, int32(core.DutyAttester)}, {"first-unexpired-slot", c05slot - 31, int32(core.DutyAttester)},
		{"slot-0", 0, int32(core.DutyAttester)}, {"slot-max", math.MaxUint64, int32(core.DutyAttester)},
		{"exit-exempt", c05slot, int32(core.DutyExit)},
	} {
		x.emitMsg("duty="+d.name, "subst:duty="+d.name, e.restamp(base, d.slot, d.typ, true))
		if len(base.GetJustification()) > 0 {
			x.emitMsg("duty="+d.name+"(msg-only)", "subst:duty="+d.name+"(msg-only)", e.restamp(base, d.slot, d.typ, false))
		}
	}
}

// ---------------------------------------------------------------------------------------------------------
// family "limits": justification and value counts, peer index, round, prepared round
// ---------------------------------------------------------------------------------------------------------

func (x *c05x) famLimits(mat c05mat) {
	e, base := x.e, x.base.msg
	pad := c05find(mat.corpus, "ROUND_CHANGE") // an authentic message of duty D that refers to no value
	others := e.otherValues(base)
	if pad != nil {
		for _, nj := range []int{2*c05n - 1, 2 * c05n, 2*c05n + 1, 2*c05n + 2, 3 * c05n} {
			if nj < len(base.GetJustification()) {
				continue
			}
			alt := c05clone(base)
			for len(alt.Justification) < nj {
				alt.Justification = append(alt.Justification, proto.Clone(pad.msg.GetMsg()).(*pbv1.QBFTMsg))
			}
			x.emitMsg(fmt.Sprintf("justifications=%d", nj), fmt.Sprintf("limits:justifications=2n%+d", nj-2*c05n), alt)
			// and the value list filled up to / beyond its limit at the same time
			for _, dv := range []int{0, 1} {
				alt2 := c05clone(alt)
				for i := 0; len(alt2.Values) < 2*(nj+1)+dv && len(others) > 0; i++ {
					alt2.Values = append(alt2.Values, others[i%len(others)].any)
				}
				x.emitMsg(fmt.Sprintf("justifications=%d,values=%d", nj, len(alt2.Values)), fmt.Sprintf("limits:justifications=2n%+d,values=max%+d", nj-2*c05n, dv), alt2)
			}
		}
	}
	if len(others) > 0 {
		lim := 2 * (len(base.GetJustification()) + 1)
		for _, nv := range []int{lim - 1, lim, lim + 1, lim + 2, 2*lim + 1} {
			if nv < len(base.GetValues()) {
				continue
			}
			alt := c05clone(base)
			for i := 0; len(alt.Values) < nv; i++ {
				alt.Values = append(alt.Values, others[i%len(others)].any)
			}
			x.emitMsg(fmt.Sprintf("values=%d", nv), fmt.Sprintf("limits:values=max%+d", nv-lim), alt)
			// the same count made of copies of the referenced value / of empty Anys
			alt = c05clone(base)
			for len(alt.Values) < nv {
				if len(base.GetValues()) > 0 {
					alt.Values = append(alt.Values, proto.Clone(base.GetValues()[0]).(*anypb.Any))
				} else {
					alt.Values = append(alt.Values, others[0].any)
				}
			}
			x.emitMsg(fmt.Sprintf("values=%d(copies)", nv), fmt.Sprintf("limits:values=max%+d(copies)", nv-lim), alt)
		}
	}
	// field limits on correctly signed messages (the signer is the member originally named when the index is unknown)
	orig := base.GetMsg().GetPeerIdx()
	set := func(id string, f func(m *pbv1.QBFTMsg)) {
		alt := c05clone(base)
		f(alt.Msg)
		alt.Msg = e.sign(alt.Msg, orig)
		x.emitMsg(id, "limits:"+id, alt)
		for i := range base.GetJustification() {
			if i > 0 {
				break
			}
			alt = c05clone(base)
			f(alt.Justification[i])
			alt.Justification[i] = e.sign(alt.Justification[i], base.GetJustification()[i].GetPeerIdx())
			x.emitMsg(fmt.Sprintf("justification[%d].%s", i, id), "limits:justification."+id, alt)
		}
	}
	set("peer_idx=n", func(m *pbv1.QBFTMsg) { m.PeerIdx = c05n })
	set("peer_idx=-1", func(m *pbv1.QBFTMsg) { m.PeerIdx = -1 })
	set("peer_idx=max", func(m *pbv1.QBFTMsg) { m.PeerIdx = math.MaxInt64 })
	set("round=0", func(m *pbv1.QBFTMsg) { m.Round = 0 })
	set("round=-1", func(m *pbv1.QBFTMsg) { m.Round = -1 })
	set("prepared_round=-1", func(m *pbv1.QBFTMsg) { m.PreparedRound = -1 })
	set("prepared_round=min", func(m *pbv1.QBFTMsg) { m.PreparedRound = math.MinInt64 })
	set("prepared_round=round", func(m *pbv1.QBFTMsg) { m.PreparedRound = m.Round })
	set("prepared_round=round+1", func(m *pbv1.QBFTMsg) { m.PreparedRound = m.Round + 1 })
	set("type=0", func(m *pbv1.QBFTMsg) { m.Type = 0 })
	set("type=6", func(m *pbv1.QBFTMsg) { m.Type = 6 })
}

// ---------------------------------------------------------------------------------------------------------
// family "raw": byte strings handed to the real registered stream handler
// ---------------------------------------------------------------------------------------------------------

const c05maxFrame = 32 * 1024 * 1024 // the documented cap of a consensus frame

// rawFrame feeds arbitrary stream content. Only content that is one complete frame of an acceptable message
// may change the state.
func (x *c05x) rawFrame(id, class string, stream []byte) {
	if x.only != "" && id != x.only {
		return
	}
	e, c := x.e, x.rc.nd.c
	run := func(rc *c05rcv) (changed bool, must bool, rule string) {
		must, rule = true, "not-a-frame"
		if l, k := binary.Uvarint(stream); k > 0 && l <= c05maxFrame && uint64(len(stream)-k) >= l {
			if dec, err := c05decode(stream[k : k+int(l)]); err == nil {
				var ex int
				must, rule, _ = e.judge(dec, &ex, rc.win)
			} else {
				rule = "undecodable"
			}
		} else if k > 0 && l > c05maxFrame {
			rule = "frame-too-large"
		}
		before := c05snap(rc.nd.c)
		rc.nd.host.inject(e.peers[0].ID, stream)
		changed = c05snap(rc.nd.c) != before
		c05drain(rc.nd.c)
		return changed, must, rule
	}
	_ = c
	changed, must, rule := run(x.rc)
	x.r.Eval(x.base.Kind + ":" + class)
	x.r.Steps(1)
	x.r.Count("raw_streams", 1)
	if !changed {
		x.r.Count("unchanged_state_checks", 1)
	} else {
		x.r.Count("accepted", 1)
	}
	if must {
		x.r.Count("must_reject:"+rule, 1)
	}
	if !(changed && must) {
		return
	}
	for k := 0; k < 3; k++ {
		rc, err := c05newRcv(e)
		if err != nil {
			return
		}
		ch2, _, _ := run(rc)
		rc.cancel()
		if !ch2 {
			x.r.Unconfirmed(x.base.Key + " raw " + id)
			return
		}
	}
	x.r.Violation(fmt.Sprintf("kind=accepted-inauthentic rule=%s where=frame msgkind=%s", rule, x.base.Kind),
		fmt.Sprintf("stream content %s (%d bytes) changed the instance state although it is not an acceptable frame (%s); corpus message %s", id, len(stream), rule, x.base.Key),
		c05case{Key: x.base.Key, Family: x.family, ID: id, Base: base64.StdEncoding.EncodeToString(x.base.wire)})
}

func (x *c05x) famRaw() {
	frame := c05frame(x.base.wire)
	for k := 0; k < len(frame); k++ {
		x.rawFrame(fmt.Sprintf("frame[:%d]", k), "raw:frame-truncated", frame[:k])
	}
	x.rawFrame("frame+1", "raw:frame-plus-trailing-byte", append(append([]byte(nil), frame...), 0)) // first frame is read, the rest ignored
	// the payload cut at every length, framed correctly (what a sender that drops the tail would produce)
	x.stream = true
	for k := 0; k < len(x.base.wire); k++ {
		x.emit(fmt.Sprintf("payload[:%d]", k), "raw:payload-truncated", x.base.wire[:k])
	}
	x.stream = false
	// length prefix beyond the cap in front of the valid payload
	x.rawFrame("length=cap+1", "raw:length-beyond-cap", append(binary.AppendUvarint(nil, c05maxFrame+1), x.base.wire...))
	x.rawFrame("length=2^63", "raw:length-beyond-cap", append(binary.AppendUvarint(nil, 1<<63), x.base.wire...))
}

// famRawShort: all byte strings of length <= 2 whose first byte is in [lo,hi).
func (x *c05x) famRawShort(lo, hi int) {
	if lo == 0 {
		x.rawFrame("bytes=", "raw:short", nil)
	}
	for a := lo; a < hi; a++ {
		x.rawFrame(fmt.Sprintf("bytes=%02x", a), "raw:short", []byte{byte(a)})
		for b := 0; b < 256; b++ {
			x.rawFrame(fmt.Sprintf("bytes=%02x%02x", a, b), "raw:short", []byte{byte(a), byte(b)})
		}
	}
}

// famOversize: an otherwise acceptable message (valid COMMIT plus one unreferenced value within the count limit)
// whose frame is larger than the cap, and the same with a value that keeps it below the cap.
func (x *c05x) famOversize() {
	for _, sz := range []int{1 << 20, c05maxFrame - 2048, c05maxFrame + 1} {
		big, err := anypb.New(&pbv1.UnsignedDataSet{Set: map[string][]byte{"0xbig": make([]byte, sz)}})
		if err != nil {
			x.r.Note("cannot build the oversize value")
			return
		}
		alt := c05clone(x.base.msg)
		alt.Values = append(alt.Values, big)
		b, err := proto.Marshal(alt)
		if err != nil {
			return
		}
		cls := "raw:large-frame-below-cap"
		if len(b) > c05maxFrame {
			cls = "raw:large-frame-above-cap"
		}
		x.rawFrame(fmt.Sprintf("extra-value=%d", sz), cls, c05frame(b))
	}
}


// ---------------------------------------------------------------------------------------------------------
// dimension "boundary slots": the peer-controlled duty slot (uint64 on the wire) at every power of two and at
// the overflow boundaries of the arithmetic the gater and the deadline function could do with it
// ---------------------------------------------------------------------------------------------------------

type c05bslot struct {
	slot  uint64
	class string
}

// c05boundarySlots: for every k in 0..63: 2^k-1, 2^k, 2^k+1, 2^k+cur, 2^k+cur+3*spe; the boundaries of
// slot*slotDur in int64 nanoseconds, of int64(slot), 2^64-1; the window boundaries of w. First class wins.
func c05boundarySlots(w c05window) (out []c05bslot) {
	seen := map[uint64]bool{}
	add := func(s uint64, class string) {
		if !seen[s] {
			seen[s] = true
			out = append(out, c05bslot{s, class})
		}
	}
	cur := w.curSlot()
	first := (cur/w.spe + uint64(w.allowed) + 1) * w.spe // first slot of the first epoch that is not allowed
	add(first-1, "window-last-allowed")
	add(first, "window-first-gated")
	add(first+1, "window-first-gated+1")
	add(cur, "current-slot")
	add(cur+3*w.spe-1, "cur+3spe-1")
	add(cur+3*w.spe, "cur+3spe")
	for k := 0; k < 64; k++ {
		p := uint64(1) << k
		add(p-1, "2^k-1")
		add(p, "2^k")
		add(p+1, "2^k+1")
		add(p+cur, "2^k+cur")
		add(p+cur+3*w.spe, "2^k+cur+3spe")
	}
	m := uint64(math.MaxInt64 / int64(w.slotDur)) // largest slot whose start offset fits int64 nanoseconds
	add(m-1, "ns-overflow-2")
	add(m, "ns-overflow-1")
	add(m+1, "ns-overflow")
	add(m+cur, "ns-overflow+cur")
	add(math.MaxInt64, "int64-max")
	add(1<<63, "int64-overflow")
	add(1<<63+1000, "int64-overflow+1000")
	add(math.MaxUint64, "uint64-max")
	return out
}

// duty types on the wire (int32): every valid one and the invalid neighbours/extremes
var c05wireTypes = []int32{-1, 0, 1, 2, 3, 4, 5, 6, 7, 8, 9, 10, 11, 12, 13, 14, math.MaxInt32, math.MinInt32}

// famBoundarySlots: the base message, correctly signed again (all justifications too) for every boundary slot, one
// duty type per unit. The receiver is wired to the option-less core.NewDutyGater, core.NewDutyDeadlineFunc and a
// real deadliner on the bubble's fake clock.
func (x *c05x) famBoundarySlots(typ int32, thorough bool) {
	for _, bs := range c05boundarySlots(x.rc.win) {
		id := fmt.Sprintf("slot=%d,type=%d", bs.slot, typ)
		cls := fmt.Sprintf("bslot:%s:t=%d", bs.class, typ)
		x.emitMsg("duty="+id, cls, x.e.restamp(x.base.msg, bs.slot, typ, true))
		if thorough && len(x.base.msg.GetJustification()) > 0 {
			x.emitMsg("duty="+id+"(msg-only)", cls+"(msg-only)", x.e.restamp(x.base.msg, bs.slot, typ, false))
		}
	}
}

type c05gcfg struct {
	name    string
	slotDur time.Duration
	spe     uint64
}

var c05gcfgs = []c05gcfg{{"12s/32", 12 * time.Second, 32}, {"5s/16", 5 * time.Second, 16}, {"1s/8", time.Second, 8}}

type c05gclock struct {
	name string
	off  func(c c05gcfg) time.Duration // now - genesis
}

var c05gclocks = []c05gclock{
	{"genesis", func(c c05gcfg) time.Duration { return 0 }},
	{"genesis+1ns", func(c c05gcfg) time.Duration { return 1 }},
	{"slot1-1ns", func(c c05gcfg) time.Duration { return c.slotDur - 1 }},
	{"epoch1-1ns", func(c c05gcfg) time.Duration { return time.Duration(c.spe)*c.slotDur - 1 }},
	{"epoch1", func(c c05gcfg) time.Duration { return time.Duration(c.spe) * c.slotDur }},
	{"slot1001+3/8", func(c c05gcfg) time.Duration { return 1001*c.slotDur + 3*c.slotDur/8 }},
	{"slot10000019+3/5", func(c c05gcfg) time.Duration { return 10_000_019*c.slotDur + 3*c.slotDur/5 }},
	{"before-genesis-1ns", func(c c05gcfg) time.Duration { return -1 }},
	{"before-genesis-1slot", func(c c05gcfg) time.Duration { return -c.slotDur }},
	{"before-genesis-1epoch", func(c c05gcfg) time.Duration { return -time.Duration(c.spe) * c.slotDur }},
	{"before-genesis-1000epochs-1ns", func(c c05gcfg) time.Duration { return -1000*time.Duration(c.spe)*c.slotDur - 1 }},
}

// duty types as the gater function sees them (core.DutyType is an int): as on the wire, plus values that only
// look valid after a narrowing conversion
var c05directTypes = []int{-1, 0, 1, 2, 3, 4, 5, 6, 7, 8, 9, 10, 11, 12, 13, 14, 15, math.MaxInt32, math.MinInt32, 1<<32 + 2, -(1 << 32) + 2}

// c05gaterUnit calls the function returned by core.NewDutyGater directly, clock pinned at one instant, for every
// boundary slot x duty type. Expectation (math/big): allowed iff the type is valid and epoch(slot) <= current epoch +
// allowed future epochs. With the clock before genesis only invalid types are judged.
func c05gaterUnit(t *testing.T, r *enumx.Run, cfg c05gcfg, ck c05gclock, only string) {
	off := ck.off(cfg)
	ctx := context.Background()
	run := func(variant string, allowed int, mk func() (core.DutyGaterFunc, error)) {
		w := c05window{nowOff: off, slotDur: cfg.slotDur, spe: cfg.spe, allowed: allowed}
		g, err := mk()
		if err != nil {
			r.Note("cannot build a duty gater: " + err.Error())
			return
		}
		vclass := variant
		if i := strings.IndexByte(variant, '/'); i > 0 {
			vclass = variant[:i]
		}
		for _, bs := range c05boundarySlots(w) {
			for _, typ := range c05directTypes {
				id := fmt.Sprintf("%s|%d|%d", variant, bs.slot, typ)
				if only != "" && id != only {
					continue
				}
				d := core.Duty{Slot: bs.slot, Type: core.DutyType(typ)}
				got := g(d)
				r.Eval(fmt.Sprintf("gater:%s:%s:t=%d", vclass, bs.class, typ))
				r.Steps(1)
				var want, judged bool
				switch {
				case c05dutyInvalid(d):
					want, judged = false, true
				case off < 0:
					r.Count("gater_direct_not_judged_before_genesis", 1)
				default:
					want, judged = !w.gated(d), true
				}
				if got {
					r.Count("gater_direct_allowed:"+bs.class, 1)
				} else {
					r.Count("gater_direct_refused:"+bs.class, 1)
				}
				if !judged || got == want {
					continue
				}
				same := true
				for k := 0; k < 3; k++ {
					if g2, err := mk(); err != nil || g2(d) != got {
						same = false
					}
				}
				if !same {
					r.Unconfirmed("gater " + cfg.name + " " + ck.name + " " + id)
					continue
				}
				dir, tc := "refuses-allowed-duty", "valid"
				if got {
					dir = "allows-disallowed-duty"
				}
				if c05dutyInvalid(d) {
					tc = "invalid"
				}
				before := ""
				if off < 0 {
					before = " clock=before-genesis"
				}
				r.Violation(fmt.Sprintf("kind=gater-%s slotclass=%s type=%s gater=%s%s", dir, bs.class, tc, vclass, before),
					fmt.Sprintf("core.NewDutyGater (%s, slot %v, %d slots per epoch, clock %s = genesis%+d ns, allowed future epochs %d) returned %v for duty slot %d type %d; "+
						"current slot %d, epoch(slot)=%d, current epoch %d", variant, cfg.slotDur, cfg.spe, ck.name, int64(off), allowed, got, bs.slot, typ,
						w.curSlot(), bs.slot/cfg.spe, w.curSlot()/cfg.spe),
					c05case{Key: cfg.name + "|" + ck.name, Family: "gater", ID: id})
			}
		}
	}
	// the option-less constructor (default window, time.Now) inside a bubble: the fake clock stands still
	synctest.Test(t, func(t *testing.T) {
		genesis := time.Now().Add(-off)
		run("default", 2, func() (core.DutyGaterFunc, error) {
			return core.NewDutyGater(ctx, &c05eth2{genesis: genesis, slotDur: cfg.slotDur, spe: cfg.spe})
		})
	})
	now := c05rcvGenesis.Add(off)
	for _, a := range []int{0, 1, 2, 5} {
		run(fmt.Sprintf("forT/%d", a), a, func() (core.DutyGaterFunc, error) {
			return core.NewDutyGater(ctx, &c05eth2{genesis: c05rcvGenesis, slotDur: cfg.slotDur, spe: cfg.spe},
				core.WithDutyGaterForT(t, func() time.Time { return now }, a))
		})
	}
}

// ---------------------------------------------------------------------------------------------------------
// dimension "history": the same alteration families against a long-lived component that has already seen the
// genuine messages (or sees them afterwards), and signatures seen in one duty reused in another
// ---------------------------------------------------------------------------------------------------------

type c05hist struct {
	// "A": the genuine messages first, then every altered copy, all on one component, nothing removed
	// "B": on one component: each altered copy, then the genuine messages whose signatures it carries
	// "F": like B, on a fresh component per altered copy (the altered copy is the first thing it ever sees)
	// "C": like A, after all genuine messages of the other duty's instance as well
	mode   string
	prefix []*c05entry          // genuine: the messages used as justifications (each as a main message), then the base
	bySig  map[string]*c05entry // signature of the main message -> corpus entry (both duties)
	log    [][]byte             // every payload delivered to the long-lived component, in order
}

func (h *c05hist) longLived() bool { return h.mode != "F" }

// freshAccepts: the differential oracle's reference - does a component without any history accept the payload
func (e *c05env) freshAccepts(payload []byte) (bool, error) {
	k := sha256.Sum256(payload)
	if v, ok := e.fresh[k]; ok {
		return v, nil
	}
	rc, err := c05newRcv(e)
	if err != nil {
		return false, err
	}
	defer rc.cancel()
	var acc bool
	if dec, derr := c05decode(payload); derr != nil {
		before := c05snap(rc.nd.c)
		rc.nd.host.inject(e.peers[0].ID, c05frame(payload))
		acc = c05snap(rc.nd.c) != before
	} else {
		_, _, err := rc.nd.c.handle(context.Background(), e.peers[0].ID, dec)
		acc = err == nil
	}
	e.fresh[k] = acc
	return acc, nil
}

func c05acc(b bool) string {
	if b {
		return "accepts"
	}
	return "rejects"
}

// deliver hands one payload to the component with history and applies both oracles.
func (x *c05x) histDeliver(rc *c05rcv, payload []byte) c05outcome {
	if x.hist.longLived() {
		x.hist.log = append(x.hist.log, payload)
	}
	o := x.e.tryOpt(rc, payload, false, true)
	x.r.Steps(1)
	if o.Bad == "" {
		x.r.Count("hist_differential_checks", 1)
		if fa, err := x.e.freshAccepts(payload); err == nil && fa != o.Accepted {
			o.Bad = "history-changes-verdict"
			o.Rule = "fresh-" + c05acc(fa) + "-with-history-" + c05acc(o.Accepted)
			o.Detail = fmt.Sprintf("a component without history %s this message, the component with history %s it (handle error %q)", c05acc(fa), c05acc(o.Accepted), o.Err)
		}
	}
	return o
}

// histConfirm replays the whole delivery log (long-lived modes) or the given short sequence on new components.
func (x *c05x) histConfirm(seq [][]byte, want c05outcome) bool {
	for k := 0; k < 3; k++ {
		rc, err := c05newRcv(x.e)
		if err != nil {
			return false
		}
		var last c05outcome
		for _, p := range seq {
			last = x.e.tryOpt(rc, p, false, true)
		}
		rc.cancel()
		if last.Bad == "" {
			if fa, err := x.e.freshAccepts(seq[len(seq)-1]); err == nil && fa != last.Accepted {
				last.Bad = "history-changes-verdict"
			}
		}
		if last.Bad != want.Bad || last.Accepted != want.Accepted {
			return false
		}
	}
	return true
}

func (x *c05x) histViolation(id, what string, seq [][]byte, o c05outcome) {
	x.r.Count("violating:hist"+x.hist.mode+":"+what, 1)
	sig := fmt.Sprintf("kind=%s rule=%s where=%s msgkind=%s history=%s", o.Bad, o.Rule, o.Where, x.base.Kind, x.hist.mode)
	if x.e.reported[sig] {
		x.r.Count("violating_cases", 1)
		return
	}
	if !x.histConfirm(seq, o) {
		x.r.Unconfirmed(fmt.Sprintf("%s %s %s", x.base.Key, x.family, id))
		return
	}
	x.e.reported[sig] = true
	desc := fmt.Sprintf("%s; corpus message %s, family %s, %s %s; %d deliveries to this component before it (genuine messages first: %v); handle error: %q",
		o.Detail, c05describe(x.base), x.family, what, id, len(seq)-1, x.hist.mode == "A" || x.hist.mode == "C", o.Err)
	x.r.Violation(sig, desc, c05case{Key: x.base.Key, Family: x.family, ID: id,
		Base: base64.StdEncoding.EncodeToString(x.base.wire), Alt: base64.StdEncoding.EncodeToString(seq[len(seq)-1])})
}

// victims: the genuine messages whose signatures the altered message carries, then the base message.
func (x *c05x) victims(payload []byte) (out []*c05entry) {
	seen := map[*c05entry]bool{}
	add := func(en *c05entry) {
		if en != nil && !seen[en] {
			seen[en] = true
			out = append(out, en)
		}
	}
	if dec, err := c05decode(payload); err == nil {
		for _, q := range append([]*pbv1.QBFTMsg{dec.GetMsg()}, dec.GetJustification()...) {
			add(x.hist.bySig[string(q.GetSignature())])
		}
	}
	if !seen[x.base] {
		for en := range seen {
			if en.Key == x.base.Key && bytes.Equal(en.wire, x.base.wire) {
				return out
			}
		}
		add(x.base)
	}
	return out
}

// emitHist evaluates one altered payload against a component with history.
func (x *c05x) emitHist(id, class string, payload []byte) {
	h := x.hist
	rc := x.rc
	if !h.longLived() {
		var err error
		if rc, err = c05newRcv(x.e); err != nil {
			x.r.Note("cannot build a receiver: " + err.Error())
			return
		}
		defer rc.cancel()
	}
	o := x.histDeliver(rc, payload)
	x.found = &o
	x.r.Eval(x.base.Kind + ":hist" + h.mode + ":" + class)
	switch {
	case o.Accepted:
		x.r.Count("hist"+h.mode+"_altered_accepted", 1)
	default:
		x.r.Count("hist"+h.mode+"_altered_rejected", 1)
	}
	if o.Must {
		x.r.Count("hist"+h.mode+"_must_reject:"+o.Rule, 1)
		if (o.Rule == "bad-signature" || o.Rule == "unsigned-content") && !o.Accepted {
			x.r.Count("hist_replayed_signature_rejected", 1)
		}
	}
	x.r.Count("signature_equivalents_excused", o.excused)
	seq := [][]byte{payload}
	if h.longLived() {
		seq = h.log
	}
	if o.Bad != "" {
		x.histViolation(id, "altered copy", append([][]byte(nil), seq...), o)
	}
	if h.mode != "B" && h.mode != "F" {
		return
	}
	// the genuine messages afterwards: they must be taken exactly as a component without history takes them
	for _, en := range x.victims(payload) {
		g := x.histDeliver(rc, en.wire)
		x.r.Eval(x.base.Kind + ":hist" + h.mode + ":genuine-after:" + c05noIndex(class))
		if g.Accepted && g.Bad == "" {
			x.r.Count("hist"+h.mode+"_genuine_after_altered_accepted", 1)
			continue
		}
		x.r.Count("hist"+h.mode+"_genuine_after_altered_not_accepted", 1)
		if g.Bad != "" {
			g.Where = "genuine-after-altered"
			s2 := [][]byte{payload, en.wire}
			if h.longLived() {
				s2 = append([][]byte(nil), h.log...)
			}
			x.histViolation(id, "genuine message "+en.Key+" delivered after altered copy", s2, g)
		}
	}
}

// histGenuine delivers a genuine corpus message to the long-lived component.
func (x *c05x) histGenuine(en *c05entry, phase string) {
	g := x.histDeliver(x.rc, en.wire)
	x.r.Eval(x.base.Kind + ":hist" + x.hist.mode + ":genuine-" + phase)
	if g.Accepted && g.Bad == "" {
		x.r.Count("hist"+x.hist.mode+"_genuine_"+phase+"_accepted", 1)
		return
	}
	x.r.Count("hist"+x.hist.mode+"_genuine_"+phase+"_not_accepted", 1)
	if g.Bad != "" {
		g.Where = "genuine-" + phase
		x.histViolation("genuine:"+en.Key, "genuine message ("+phase+")", append([][]byte(nil), x.hist.log...), g)
		return
	}
	x.r.Note(fmt.Sprintf("history: genuine message %s is accepted neither with nor without history (%s)", en.Key, g.Err))
}

// histPrefix: every message used as a justification of the base (transitively), as the genuine main message it
// once was, then the base itself.
func (x *c05x) histPrefix(mat c05mat) (out []*c05entry) {
	seen := map[*c05entry]bool{}
	var add func(q *pbv1.QBFTMsg)
	add = func(q *pbv1.QBFTMsg) {
		for _, en := range mat.corpus {
			if seen[en] || !proto.Equal(en.msg.GetMsg(), q) {
				continue
			}
			seen[en] = true
			for _, j := range en.msg.GetJustification() {
				add(j)
			}
			out = append(out, en)
		}
	}
	for _, j := range x.base.msg.GetJustification() {
		add(j)
	}
	for en := range seen {
		if bytes.Equal(en.wire, x.base.wire) {
			return out
		}
	}
	return append(out, x.base)
}

// famCross: signatures seen in one duty's instance reused in the other's.
func (x *c05x) famCross(mat c05mat) {
	base := x.base.msg
	dD := &pbv1.Duty{Slot: c05D.Slot, Type: int32(c05D.Type)}
	dD2 := &pbv1.Duty{Slot: c05D2.Slot, Type: int32(c05D2.Type)}
	limit := 2 * (len(base.GetJustification()) + 1)
	// the counterpart in the other duty's instance: same type and member (same round if there is one)
	counterpart := func(q *pbv1.QBFTMsg) *c05entry {
		var best *c05entry
		score := -1
		for _, en := range mat.corpus2 {
			m := en.msg.GetMsg()
			sc := 0
			if m.GetPeerIdx() == q.GetPeerIdx() {
				sc += 4
			}
			if m.GetType() == q.GetType() {
				sc += 2
			}
			if m.GetRound() == q.GetRound() {
				sc++
			}
			if sc > score {
				best, score = en, sc
			}
		}
		return best
	}
	elems := append([]*pbv1.QBFTMsg{base.GetMsg()}, base.GetJustification()...)
	set := func(alt *pbv1.QBFTConsensusMsg, pos int, q *pbv1.QBFTMsg) {
		if pos == 0 {
			alt.Msg = q
		} else {
			alt.Justification[pos-1] = q
		}
	}
	for pos, q := range elems {
		where := "msg"
		if pos > 0 {
			where = fmt.Sprintf("justification[%d]", pos-1)
		}
		c2 := counterpart(q)
		if c2 == nil {
			continue
		}
		// this element's content with the signature its member made in the other duty
		alt := c05clone(base)
		cq := proto.Clone(q).(*pbv1.QBFTMsg)
		cq.Signature = c2.msg.GetMsg().GetSignature()
		set(alt, pos, cq)
		x.emitMsg("xduty:"+where+":signature-from:"+c2.Key, "xduty:"+where+":signature-from-other-duty", alt)
		// the other duty's message itself, its duty field rewritten, in this place (its value attached)
		alt = c05clone(base)
		cq = proto.Clone(c2.msg.GetMsg()).(*pbv1.QBFTMsg)
		cq.Duty = dD
		set(alt, pos, cq)
		for _, v := range c2.msg.GetValues() {
			if len(alt.Values) < limit {
				alt.Values = append(alt.Values, v)
			}
		}
		x.emitMsg("xduty:"+where+":other-duty-message-relabelled:"+c2.Key, "xduty:"+where+":other-duty-message-relabelled", alt)
	}
	// whole messages of the other duty's instance relabelled as this duty (signatures as they are)
	for _, en := range mat.corpus2 {
		alt := c05clone(en.msg)
		alt.Msg.Duty = dD
		for _, j := range alt.Justification {
			j.Duty = dD
		}
		x.emitMsg("xduty:whole-other-duty-message-relabelled:"+en.Key, "xduty:whole-other-duty-message-relabelled:"+en.Kind, alt)
	}
	// this message relabelled as the other duty
	{
		alt := c05clone(base)
		alt.Msg.Duty = dD2
		for _, j := range alt.Justification {
			j.Duty = dD2
		}
		x.emitMsg("xduty:whole-message-relabelled-as-other-duty", "xduty:whole-message-relabelled-as-other-duty", alt)
	}
	// a genuine message of the other duty carrying this message's justifications relabelled as that duty
	if src := c05find(mat.corpus2, "PREPARE"); src != nil && len(base.GetJustification()) > 0 {
		alt := c05clone(src.msg)
		for _, j := range base.GetJustification() {
			cj := proto.Clone(j).(*pbv1.QBFTMsg)
			cj.Duty = dD2
			alt.Justification = append(alt.Justification, cj)
		}
		alt.Values = append(alt.Values, base.GetValues()...)
		x.emitMsg("xduty:other-duty-message-with-these-justifications-relabelled", "xduty:just-relabelled-into-other-duty", alt)
	}
}

// runHist: fam = "hist-<mode>/<alteration family>"
func (x *c05x) runHist(fam string, mat c05mat, thorough bool) {
	mode, sub := fam[5:6], fam[7:]
	h := &c05hist{mode: mode, bySig: map[string]*c05entry{}, prefix: x.histPrefix(mat)}
	for _, en := range append(append([]*c05entry(nil), mat.corpus...), mat.corpus2...) {
		h.bySig[string(en.msg.GetMsg().GetSignature())] = en
	}
	x.hist = h
	defer func() { x.hist = nil }()
	if mode == "C" {
		for _, en := range mat.corpus2 {
			x.histGenuine(en, "other-duty-first")
		}
	}
	if mode == "A" || mode == "C" {
		for _, en := range h.prefix {
			x.histGenuine(en, "first")
		}
	}
	switch sub {
	case "fields":
		x.famFields(thorough)
	case "subst":
		x.famSubst(mat, thorough)
	case "cross":
		x.famCross(mat)
	}
	if h.longLived() && x.only == "" {
		for _, en := range h.prefix {
			x.histGenuine(en, "last")
		}
		if mode == "C" {
			for _, en := range mat.corpus2 {
				x.histGenuine(en, "other-duty-last")
			}
		}
	}
}

// ---------------------------------------------------------------------------------------------------------
// second half: the value handed to the subscribers is exactly the proposed data whose hash was agreed
// ---------------------------------------------------------------------------------------------------------

func c05checkDecided(e *c05env, live c05live, count func(string, int), byz bool) (sig, desc string) {
	for _, duty := range []core.Duty{c05D, c05D2} {
		// the agreed hash: the value hash of the COMMITs of the highest round
		var agreed []byte
		var round int64
		for _, s := range live.sent {
			m, err := c05unframe(s.Frame)
			if err != nil || core.DutyFromProto(m.GetMsg().GetDuty()) != duty || qbft.MsgType(m.GetMsg().GetType()) != qbft.MsgCommit {
				continue
			}
			if m.GetMsg().GetRound() >= round {
				round, agreed = m.GetMsg().GetRound(), m.GetMsg().GetValueHash()
			}
		}
		lead := c05leader(duty, 1)
		for i := 0; i < c05n; i++ {
			got := live.delivered[i][duty]
			if byz && i == 3 {
				continue // the Byzantine member's own output is not judged
			}
			if len(got) == 0 {
				if live.doneBy[duty][i] {
					return "kind=decided-but-proposal-not-delivered", fmt.Sprintf("duty %v: member %d decided (Propose returned nil) but its subscriber never received the proposed data", duty, i)
				}
				count("subscriber_not_called", 1)
				continue
			}
			for _, b := range got {
				count("subscriber_payloads_compared", 1)
				if !bytes.Equal(b, e.props[duty][lead]) {
					who := -1
					for k, p := range e.props[duty] {
						if bytes.Equal(p, b) {
							who = k
						}
					}
					return "kind=decided-value-differs", fmt.Sprintf("duty %v: member %d's subscriber got a payload that is not byte-identical to the proposal of the leader (member %d); it equals the proposal of member %d (-1: nobody's)", duty, i, lead, who)
				}
				if len(agreed) == 32 {
					if kv := e.table[[32]byte(agreed)]; kv == nil || !bytes.Equal(kv.det, b) {
						return "kind=decided-value-differs", fmt.Sprintf("duty %v: member %d's subscriber got a payload that is not the value of the agreed hash %x", duty, i, agreed)
					}
				}
			}
			if len(got) > 1 {
				return "kind=decided-twice", fmt.Sprintf("duty %v: member %d's subscriber was called %d times", duty, i, len(got))
			}
		}
	}
	return "", ""
}

// the messages of the scripted scenario for duty D (see c05liveRun), in corpus order
const c05expectedKeys = "PRE_PREPARE/r1/p0 PRE_PREPARE_J/r3/p2 " +
	"PREPARE/r1/p0 PREPARE/r1/p1 PREPARE/r1/p2 PREPARE/r1/p3 PREPARE/r3/p0 PREPARE/r3/p1 PREPARE/r3/p2 PREPARE/r3/p3 " +
	"COMMIT/r1/p0 COMMIT/r1/p1 COMMIT/r1/p2 COMMIT/r3/p0 COMMIT/r3/p1 COMMIT/r3/p2 COMMIT/r3/p3 " +
	"ROUND_CHANGE/r2/p3 ROUND_CHANGE/r3/p3 " +
	"ROUND_CHANGE_P/r2/p0 ROUND_CHANGE_P/r2/p1 ROUND_CHANGE_P/r2/p2 ROUND_CHANGE_P/r3/p0 ROUND_CHANGE_P/r3/p1 ROUND_CHANGE_P/r3/p2 " +
	"DECIDED/r3/p0"

func c05leader(d core.Duty, round int64) int {
	return int((int64(d.Slot) + int64(d.Type) + round) % c05n)
}

// ---------------------------------------------------------------------------------------------------------
// driver
// ---------------------------------------------------------------------------------------------------------

func (x *c05x) runFamily(fam string, mat c05mat, thorough bool) {
	x.family = fam
	if strings.HasPrefix(fam, "hist-") {
		x.runHist(fam, mat, thorough)
		return
	}
	// non-vacuity: the unaltered message is accepted by this fresh receiver
	if x.only == "" && !strings.HasPrefix(fam, "bslots2/") {
		o := x.e.try(x.rc, x.base.wire, false)
		x.r.Eval(x.base.Kind + ":unaltered")
		if o.Accepted && o.Bad == "" && !o.Must {
			x.r.Count("unaltered_accepted", 1)
		} else {
			x.r.Count("unaltered_not_accepted", 1)
			x.r.Note(fmt.Sprintf("the unaltered corpus message %s was not accepted by a fresh receiver (must=%v rule=%s err=%s %s)", x.base.Key, o.Must, o.Rule, o.Err, o.Bad))
		}
	}
	switch {
	case strings.HasPrefix(fam, "wire^"):
		var mask byte
		fmt.Sscanf(fam, "wire^%02x", &mask)
		x.famWire(mask)
	case fam == "fields":
		x.famFields(thorough)
	case fam == "resigned":
		x.famResigned()
	case fam == "values":
		x.famValues(thorough)
	case fam == "subst":
		x.famSubst(mat, thorough)
	case fam == "limits":
		x.famLimits(mat)
	case fam == "raw":
		x.famRaw()
	case fam == "oversize":
		x.famOversize()
	case strings.HasPrefix(fam, "bslots/t="), strings.HasPrefix(fam, "bslots2/t="):
		var typ int32
		fmt.Sscanf(fam[strings.IndexByte(fam, '=')+1:], "%d", &typ)
		x.famBoundarySlots(typ, thorough)
	case strings.HasPrefix(fam, "ctx/"):
		x.runCtx(fam, mat, thorough)
	case strings.HasPrefix(fam, "raw-short/"):
		var lo, hi int
		fmt.Sscanf(fam, "raw-short/%d-%d", &lo, &hi)
		x.famRawShort(lo, hi)
	}
}

// c05win2 is a second clock for the boundary-slot dimension: a chain that has been running for some years
var c05win2 = c05window{nowOff: 10_000_019*c05slotDur + 7300*time.Millisecond, slotDur: c05slotDur, spe: c05spe, allowed: 2}

// runUnit runs one (message, family) unit on a receiver of the kind the family needs.
func (x *c05x) runUnit(fam string, mat c05mat, thorough bool) error {
	if strings.HasPrefix(fam, "bslots") {
		// inside a bubble: option-less gater and deadliner on the bubble's fake clock
		w := c05defWin
		if strings.HasPrefix(fam, "bslots2/") {
			w = c05win2
		}
		var rerr error
		synctest.Test(x.t, func(t *testing.T) {
			var made []*c05rcv
			x.mk = func() (*c05rcv, error) {
				rc, err := c05newRcvBubble(x.e, w)
				if err == nil {
					made = append(made, rc)
				}
				return rc, err
			}
			rc, err := x.mk()
			if err != nil {
				rerr = err
				return
			}
			x.rc = rc
			x.runFamily(fam, mat, thorough)
			for _, rc := range made {
				rc.cancel()
			}
			synctest.Wait()
		})
		x.mk = nil
		return rerr
	}
	rc, err := c05newRcv(x.e)
	if err != nil {
		return err
	}
	x.rc = rc
	x.runFamily(fam, mat, thorough)
	rc.cancel()
	return nil
}

// c05timing prints the wall time of a unit when VERIF_C05_TIMING is set (tuning of the unit sizes only).
func c05timing(t0 time.Time, unit string) {
	if os.Getenv("VERIF_C05_TIMING") != "" {
		fmt.Printf("c05timing %6d ms %s\n", time.Since(t0).Milliseconds(), unit)
	}
}

func TestVerifC05(t *testing.T) {
	log.InitConsoleForT(t, zapcore.AddSync(io.Discard))
	r := enumx.New(t, "C05")
	defer r.Finish()
	thorough := enumx.Thorough()
	e := c05newEnv(t)
	// The scenario is scripted, deliveries are serialised and time is virtual, but goroutine preemption is not
	// controlled: the run is repeated until it produced exactly the expected set of messages, so that every
	// shard enumerates the same units.
	var (
		live            c05live
		corpus, corpus2 []*c05entry
		notes, notes2   []string
	)
	for attempt := 1; attempt <= 12; attempt++ {
		live = c05liveRun(t, e, nil)
		if live.err != "" {
			r.NotExhaustive("cannot build the cluster: " + live.err)
			return
		}
		corpus, notes = c05corpus(e, live, c05D, true)
		corpus2, notes2 = c05corpus(e, live, c05D2, false)
		var ks []string
		for _, en := range corpus {
			ks = append(ks, en.Key)
		}
		if strings.Join(ks, " ") == c05expectedKeys {
			break
		}
		r.Count("live_run_repeated", 1)
	}
	for _, n := range append(notes, notes2...) {
		r.Note(n)
	}
	mat := c05mat{corpus, corpus2}
	// sanity of the registry: every justification seen on the wire was sent before as a main message
	var keys []string
	kinds := map[string]int{}
	for _, en := range append(append([]*c05entry(nil), corpus...), corpus2...) {
		var ex int
		if must, rule, where := e.judge(en.msg, &ex, c05defWin); must && core.DutyFromProto(en.msg.GetMsg().GetDuty()) == c05D {
			r.Note(fmt.Sprintf("harness: corpus message %s is not authentic for the oracle (%s at %s)", en.Key, rule, where))
		}
	}
	for _, en := range corpus {
		keys = append(keys, en.Key)
		kinds[en.Kind]++
	}
	kh := sha256.Sum256([]byte(strings.Join(keys, "|")))
	if strings.Join(keys, " ") != c05expectedKeys {
		r.NotExhaustive("the live run did not produce the expected message set; got: " + strings.Join(keys, " "))
	}
	r.Count(fmt.Sprintf("corpus_keys_%d_%x", len(keys), kh[:4]), 1)
	for _, k := range c05kinds {
		if kinds[k] == 0 {
			r.NotExhaustive("the live run produced no message of kind " + k)
		}
	}
	r.Count("live_frames_sent", len(live.sent))
	r.Count("live_decisions_D", live.done[c05D])
	r.Count("live_decisions_D2", live.done[c05D2])

	wireMasks := []byte{0x01, 0x80}
	if thorough {
		wireMasks = []byte{0x01, 0x02, 0x04, 0x08, 0x10, 0x20, 0x40, 0x80}
	}
	families := []string{"fields", "resigned", "values", "subst", "limits", "raw"}
	for _, m := range wireMasks {
		families = append(families, fmt.Sprintf("wire^%02x", m))
	}
	// history on a long-lived component
	families = append(families, "hist-A/fields", "hist-A/subst", "hist-B/fields", "hist-B/subst", "hist-F/fields", "hist-F/subst",
		"hist-C/cross", "hist-B/cross", "hist-F/cross")
	// the handler's context ends at its k-th observation
	ctxParts := 4
	if thorough {
		ctxParts = 8
	}
	for i := 0; i < ctxParts; i++ {
		families = append(families, fmt.Sprintf("ctx/fields#%d/%d", i, ctxParts))
	}
	families = append(families, "ctx/subst", "ctx/cross", "ctx/extra")
	// boundary slots through handle, one unit per duty type
	for _, typ := range c05wireTypes {
		families = append(families, fmt.Sprintf("bslots/t=%d", typ))
	}
	if thorough {
		for _, typ := range c05wireTypes {
			families = append(families, fmt.Sprintf("bslots2/t=%d", typ))
		}
	}

	if r.ReplayPath != "" {
		var c c05case
		if err := r.ReplayCase(&c); err != nil {
			t.Fatal(err)
		}
		if c.Family == "decided-byz" {
			sig, desc := c05checkDecided(e, c05liveRun(t, e, c05byzSwap), r.Count, true)
			fmt.Printf("replay decided-byz: %s %s\n", sig, desc)
			if sig != "" {
				r.Violation(sig+" cause=value-type-relabelling-member", desc, c)
			}
			return
		}
		if c.Family == "decided" {
			sig, desc := c05checkDecided(e, live, r.Count, false)
			fmt.Printf("replay decided: %s %s\n", sig, desc)
			if sig != "" {
				r.Violation(sig, desc, c)
			}
			return
		}
		if c.Family == "seq" {
			var sc c05seqCase
			if err := r.ReplayCase(&sc); err != nil {
				t.Fatal(err)
			}
			for _, v := range c05seqVariants(e, corpus) {
				if v.name == sc.Variant {
					c05seqEval(t, r, e, v, sc.Flood, sc.Ops)
					res := c05seqBubble(t, e, v, sc.Flood, sc.Ops)
					fmt.Printf("replay seq %s flood=%v %v: %+v %s\n", sc.Variant, sc.Flood, sc.Ops, res.steps, res.harness)
				}
			}
			return
		}
		if c.Family == "gater" {
			for _, cfg := range c05gcfgs {
				for _, ck := range c05gclocks {
					if cfg.name+"|"+ck.name == c.Key {
						c05gaterUnit(t, r, cfg, ck, c.ID)
						fmt.Printf("replay gater %s / %s: evaluated (see violations)\n", c.Key, c.ID)
					}
				}
			}
			return
		}
		raw, _ := base64.StdEncoding.DecodeString(c.Base)
		m, err := c05decode(raw)
		if err != nil {
			t.Fatalf("replay: base message does not decode: %v", err)
		}
		for _, q := range append([]*pbv1.QBFTMsg{m.GetMsg()}, m.GetJustification()...) {
			e.register(q, q.GetPeerIdx()) // the stored base message came out of a real run
		}
		base := &c05entry{Key: c.Key, Kind: c05kind(m), msg: m, wire: raw}
		for _, en := range corpus {
			if bytes.Equal(en.wire, raw) {
				base = en
			}
		}
		x := &c05x{t: t, r: r, e: e, base: base, only: c.ID}
		if err := x.runUnit(c.Family, mat, true); err != nil {
			t.Fatal(err)
		}
		if x.found != nil {
			fmt.Printf("replay %s / %s / %s: %+v\n", c.Key, c.Family, c.ID, *x.found)
		} else {
			fmt.Printf("replay %s / %s / %s: alteration evaluated (see violations)\n", c.Key, c.Family, c.ID)
		}
		return
	}

	// unit: the decided values of the live run
	if r.Mine() {
		r.Eval("decided:payload-equals-leader-proposal")
		if sig, desc := c05checkDecided(e, live, r.Count, false); sig != "" {
			ok := true
			for k := 0; k < 3; k++ {
				e2 := c05newEnv(t)
				if s2, _ := c05checkDecided(e2, c05liveRun(t, e2, nil), func(string, int) {}, false); s2 != sig {
					ok = false
				}
			}
			if ok {
				r.Violation(sig, desc, c05case{Family: "decided"})
			} else {
				r.Unconfirmed("decided " + sig)
			}
		}
	}

	// unit: the same two instances with a member that re-labels the type of the values it forwards. Every frame it
	// sends breaks the rule "values hash to the hashes referencing them" (c05judge: value-type-substituted); if
	// receivers nevertheless take them, what the honest members hand to their subscribers is judged as above.
	if r.Mine() {
		r.Eval("decided:payload-equals-leader-proposal/value-type-relabelling-member")
		lb := c05liveRun(t, e, c05byzSwap)
		if sig, desc := c05checkDecided(e, lb, r.Count, true); sig != "" {
			ok := true
			for k := 0; k < 3; k++ {
				if s2, _ := c05checkDecided(e, c05liveRun(t, e, c05byzSwap), func(string, int) {}, true); s2 != sig {
					ok = false
				}
			}
			if ok {
				r.Violation(sig+" cause=value-type-relabelling-member", desc+"; scenario: member 3 attaches every value under the type name core.corepb.v1.Duty (same bytes, same hash)", c05case{Family: "decided-byz"})
			} else {
				r.Unconfirmed("decided-byz " + sig)
			}
		}
	}

	seenKind := map[string]bool{}
	sampled := 0
	for _, en := range corpus {
		if !thorough && seenKind[en.Kind] {
			continue
		}
		seenKind[en.Kind] = true
		for _, fam := range families {
			if !r.Mine() {
				continue
			}
			if r.Expired() {
				return
			}
			x := &c05x{t: t, r: r, e: e, base: en}
			t0 := time.Now()
			if err := x.runUnit(fam, mat, thorough); err != nil {
				r.NotExhaustive("cannot build a receiver: " + err.Error())
				return
			}
			c05timing(t0, en.Key+" "+fam)
			if sampled < 2 {
				sampled++
				r.Sample(map[string]any{"corpus_message": c05describe(en), "family": fam})
			}
		}
	}
	// global units: the duty gater called directly, one unit per (beacon spec, clock)
	for _, cfg := range c05gcfgs {
		for _, ck := range c05gclocks {
			if !r.Mine() {
				continue
			}
			if r.Expired() {
				return
			}
			c05gaterUnit(t, r, cfg, ck, "")
		}
	}
	// global units: local life-cycle calls and the expiry window, one unit per (duty, deadliner output full?, first operation)
	seqLen := 3
	if thorough {
		seqLen = 4
	}
	for _, v := range c05seqVariants(e, corpus) {
		if len(v.msgs) != len(c05kinds) {
			r.NotExhaustive("seq: not every message kind is available for duty " + v.name)
			continue
		}
		for _, flood := range []bool{false, true} {
			var firsts []string
			for _, en := range v.msgs {
				firsts = append(firsts, "m:"+en.Kind)
			}
			for _, first := range append(firsts, c05seqLocalOps...) {
				if !r.Mine() {
					continue
				}
				if r.Expired() {
					return
				}
				t0 := time.Now()
				c05seqUnit(t, r, e, v, flood, first, seqLen)
				c05timing(t0, fmt.Sprintf("seq %s flood=%v %s", v.name, flood, first))
			}
		}
	}
	// global units: short byte strings, oversize frames
	commit := c05find(corpus, "COMMIT")
	if commit == nil {
		return
	}
	var glob []string
	for lo := 0; lo < 256; lo += 32 {
		glob = append(glob, fmt.Sprintf("raw-short/%d-%d", lo, lo+32))
	}
	glob = append(glob, "oversize")
	for _, fam := range glob {
		if !r.Mine() {
			continue
		}
		if r.Expired() {
			return
		}
		rc, err := c05newRcv(e)
		if err != nil {
			r.NotExhaustive("cannot build a receiver: " + err.Error())
			return
		}
		x := &c05x{t: t, r: r, e: e, rc: rc, base: commit, only: ""}
		x.family = fam
		x.runFamily(fam, mat, thorough)
		rc.cancel()
	}
}
