package qbft

// C05, dimensions 5 and 6 (the driver is TestVerifC05 in zz_verif_c05_test.go).
//
// Part 5 (the handler's context ends while a message is being processed): Consensus.handle runs under the receive
// deadline of the stream handler and looks at its context at several places (in the justification loop, after the
// verification, in the final select between "enqueue" and "ctx.Done()"). c05kctx is a context.Context that reports
// "done" from its k-th observation on (calls of Err and Done are counted; from the k-th on Done hands out a channel that
// is already closed). For every message that must be rejected because of a JUSTIFICATION (taken from the alteration
// families fields / subst / cross plus a few appended justifications) and for every message a plain run accepts, k is
// enumerated over 0..K under both pinned select orders.
//
// Part 6 (local life-cycle calls and the expiry window): one component, the real core deadliner on a clockwork fake
// clock, the real NewDutyDeadlineFunc; all sequences over {peer message of each kind, Propose, Participate, clock to the
// deadline, clock past the deadline, let the component consume the pending expiry notifications} ending in a peer
// message; the expectation for every delivery is recomputed from the clock.

import (
	"context"
	"encoding/base64"
	"errors"
	"fmt"
	"runtime"
	"strings"
	"sync"
	"testing"
	"testing/synctest"
	"time"

	"github.com/jonboulle/clockwork"
	"google.golang.org/protobuf/proto"

	"github.com/obolnetwork/charon/core"
	pbv1 "github.com/obolnetwork/charon/core/corepb/v1"
	"github.com/obolnetwork/charon/p2p"
	"github.com/obolnetwork/charon/zzverif/enumx"
)

// ---------------------------------------------------------------------------------------------------------
// dimension "ctx": the context becomes done at its k-th observation
// ---------------------------------------------------------------------------------------------------------

// c05kctx reports done from observation number k on (observations are numbered from 0; k < 0: never).
type c05kctx struct {
	k     int
	n     int
	cause error
	open  chan struct{}
	trace []byte // 'e'/'d': Err/Done answered "not done", 'E'/'D': answered "done"
}

func c05newKctx(k int, cause error) *c05kctx {
	return &c05kctx{k: k, cause: cause, open: make(chan struct{})}
}

func (c *c05kctx) observe() bool {
	i := c.n
	c.n++
	return c.k >= 0 && i >= c.k
}

func (c *c05kctx) Deadline() (time.Time, bool) { return time.Time{}, false }
func (c *c05kctx) Value(any) any               { return nil }

func (c *c05kctx) Err() error {
	if c.observe() {
		c.trace = append(c.trace, 'E')
		return c.cause
	}
	c.trace = append(c.trace, 'e')
	return nil
}

func (c *c05kctx) Done() <-chan struct{} {
	if c.observe() {
		c.trace = append(c.trace, 'D')
		select {
		case <-c.open:
		default:
			close(c.open) // a channel handed out earlier is done now as well
		}
		return c.open
	}
	c.trace = append(c.trace, 'd')
	return c.open
}

// rules of the oracle that mean "rejected because of a justification"
var c05ctxRules = map[string]bool{"unknown-peer": true, "unsigned-content": true, "bad-signature": true, "wrong-signer": true,
	"bad-field": true, "just-duty-mismatch": true, "malformed": true}

type c05ctxOut struct {
	err     error
	obs     int
	trace   string
	changed bool
	snapB   string
	snapA   string
	msgs    []Msg
	duties  []core.Duty
}

// ctxRun hands the payload to handle under a context that is done from its k-th observation on, with the select
// order pinned; before it the instance map is emptied, afterwards the receive buffers.
func (e *c05env) ctxRun(rc *c05rcv, payload []byte, k, mode int, cause error) (o c05ctxOut, ok bool) {
	dec, err := c05decode(payload)
	if err != nil {
		return o, false
	}
	c := rc.nd.c
	// every run starts without any instance IO, so that an IO created on behalf of a rejected message shows
	c.mutable.Lock()
	clear(c.mutable.instances)
	c.mutable.Unlock()
	o.snapB = c05snap(c)
	kc := c05newKctx(k, cause)
	runtime.VerifSetSelMode(uint32(mode))
	_, _, o.err = c.handle(kc, e.peers[0].ID, dec)
	runtime.VerifSetSelMode(0)
	o.snapA = c05snap(c)
	o.changed = o.snapA != o.snapB
	o.obs, o.trace = kc.n, string(kc.trace)
	o.msgs, o.duties = c05drain(c)
	return o, true
}

// ctxVerdict: "" or the violation kind.
func c05ctxVerdict(o c05ctxOut, dec *pbv1.QBFTConsensusMsg, must bool, cause error) (bad, detail string) {
	if must {
		switch {
		case len(o.msgs) > 0:
			return "accepted-inauthentic", fmt.Sprintf("%d message(s) in a receive buffer (handle returned %v)", len(o.msgs), o.err)
		case o.err == nil:
			return "accepted-inauthentic", "handle returned nil"
		case o.changed:
			return "rejected-but-state-changed", fmt.Sprintf("handle returned %q but the instance state went from [%s] to [%s]", o.err, o.snapB, o.snapA)
		}
		return "", ""
	}
	// a message that a plain run accepts: enqueued unchanged, or rejected with the context's error
	if o.err == nil {
		if len(o.msgs) != 1 || o.duties[0] != core.DutyFromProto(dec.GetMsg().GetDuty()) || !proto.Equal(o.msgs[0].msg, dec.GetMsg()) ||
			len(o.msgs[0].justificationProtos) != len(dec.GetJustification()) {
			return "accepted-but-enqueued-differs", fmt.Sprintf("handle returned nil, %d entries enqueued", len(o.msgs))
		}
		return "", ""
	}
	if len(o.msgs) > 0 {
		return "rejected-but-state-changed", fmt.Sprintf("handle returned %q and %d message(s) are in a receive buffer", o.err, len(o.msgs))
	}
	if !errors.Is(o.err, cause) {
		return "valid-message-rejected-without-context-error", fmt.Sprintf("handle returned %q, which is not the context's error %q", o.err, cause)
	}
	return "", ""
}

type c05ctxCase struct {
	c05case
	K     int    `json:"ctx_done_from_observation"`
	Mode  int    `json:"select_mode"`
	Cause string `json:"ctx_error"`
	Trace string `json:"observations"`
}

func c05ctxPhase(k, plainObs, nj int) string {
	switch {
	case k < 0:
		return "never"
	case k >= plainObs:
		return "beyond-undisturbed-run"
	case k < nj:
		return "in-justification-loop"
	case k == nj:
		return "post-verification-check"
	case k == nj+1:
		return "enqueue-select"
	}
	return "later"
}

// emitCtx: one altered (or unaltered) payload under every k and both select orders.
func (x *c05x) emitCtx(id, class string, payload []byte) {
	e, r := x.e, x.r
	dec, derr := c05decode(payload)
	if derr != nil {
		r.Count("ctx_skipped_undecodable", 1)
		return
	}
	var ex int
	must, rule, where := e.judge(dec, &ex, x.rc.win)
	if must && !(where == "justification" && c05ctxRules[rule]) {
		r.Count("ctx_skipped_rejected_for_another_reason", 1)
		return
	}
	// the undisturbed run: how often is the context looked at, what is the verdict
	plain, _ := e.ctxRun(x.rc, payload, -1, 1, context.DeadlineExceeded)
	r.Steps(1)
	if !must && plain.err != nil {
		r.Count("ctx_skipped_may_accept_but_rejected", 1) // legal, nothing to compare with
		return
	}
	// a large family is split into n units: this unit takes every n-th eligible message
	x.ctxSeen++
	if x.ctxParts > 1 && (x.ctxSeen-1)%x.ctxParts != x.ctxPart {
		return
	}
	ruleName := rule
	if !must {
		ruleName = "valid"
		r.Count("ctx_valid_messages", 1)
	} else {
		r.Count("ctx_must_reject_messages:"+rule, 1)
	}
	nj := len(dec.GetJustification())
	kmax := max(plain.obs, nj+2) + 1
	causes := []error{context.DeadlineExceeded}
	if x.ctxBothCauses {
		causes = append(causes, context.Canceled)
	}
	one := func(o c05ctxOut, k, mode int, cause error) {
		bad, detail := c05ctxVerdict(o, dec, must, cause)
		r.Eval(fmt.Sprintf("%s:ctx:%s:%s:sel=%d", x.base.Kind, c05noIndex(class), c05ctxPhase(k, plain.obs, nj), mode))
		r.Steps(1)
		done := strings.ContainsAny(o.trace, "ED")
		switch {
		case o.err == nil && done:
			r.Count("ctx_enqueued_although_context_done", 1) // legal for a valid message only
		case o.err == nil:
			r.Count("ctx_enqueued_context_alive", 1)
		case errors.Is(o.err, cause):
			r.Count("ctx_rejected_with_context_error", 1)
		default:
			r.Count("ctx_rejected_with_verification_error", 1)
		}
		if strings.HasSuffix(o.trace, "D") || strings.HasSuffix(o.trace, "DE") {
			// both cases of the final select were ready
			r.Count(fmt.Sprintf("ctx_final_select_both_ready:sel=%d:%s", mode, map[bool]string{true: "enqueued", false: "ctx-won"}[o.err == nil]), 1)
		}
		if bad == "" {
			return
		}
		r.Count("violating:ctx:"+ruleName, 1)
		sig := fmt.Sprintf("kind=%s rule=%s where=%s msgkind=%s dim=ctx-done-at-kth-observation selmode=%d", bad, ruleName, map[bool]string{true: where, false: "msg"}[must], x.base.Kind, mode)
		if e.reported[sig] {
			return
		}
		for n := 0; n < 3; n++ {
			rc, err := c05newRcv(e)
			if err != nil {
				r.Note("cannot build a receiver for confirmation: " + err.Error())
				return
			}
			o2, _ := e.ctxRun(rc, payload, k, mode, cause)
			rc.cancel()
			if b2, _ := c05ctxVerdict(o2, dec, must, cause); b2 == "" {
				r.Unconfirmed(fmt.Sprintf("%s %s %s k=%d sel=%d", x.base.Key, x.family, id, k, mode))
				return
			}
		}
		e.reported[sig] = true
		desc := fmt.Sprintf("%s; the context reported done from observation %d on (-1: never; %s; observations of this run: %q, of the undisturbed run: %q), select order pinned to mode %d; "+
			"corpus message %s, family %s, alteration %s; oracle: %s", detail, k, cause, o.trace, plain.trace, mode, c05describe(x.base), x.family, id,
			map[bool]string{true: "must be rejected (" + rule + " at " + where + ")", false: "valid: enqueued unchanged or rejected with the context's error"}[must])
		r.Violation(sig, desc, c05ctxCase{c05case: c05case{Key: x.base.Key, Family: x.family, ID: id, Base: base64.StdEncoding.EncodeToString(x.base.wire),
			Alt: base64.StdEncoding.EncodeToString(payload)}, K: k, Mode: mode, Cause: cause.Error(), Trace: o.trace})
	}
	one(plain, -1, 1, context.DeadlineExceeded)
	for _, cause := range causes {
		for k := 0; k <= kmax; k++ {
			for _, mode := range []int{1, 2} {
				o, _ := e.ctxRun(x.rc, payload, k, mode, cause)
				one(o, k, mode, cause)
			}
		}
	}
}

// famCtxExtra: justifications appended / prepended to messages of every kind, so that kinds without justifications
// take part as well.
func (x *c05x) famCtxExtra(mat c05mat) {
	e, base := x.e, x.base.msg
	x.emit("unaltered", "ctx:unaltered", x.base.wire)
	var src *c05entry
	for _, en := range mat.corpus {
		if en.Kind == "PREPARE" && en.msg.GetMsg().GetRound() == 1 {
			src = en
			break
		}
	}
	if src == nil {
		return
	}
	limit := 2 * (len(base.GetJustification()) + 2)
	put := func(id, class string, front bool, j *pbv1.QBFTMsg) {
		alt := c05clone(base)
		if front {
			alt.Justification = append([]*pbv1.QBFTMsg{j}, alt.Justification...)
		} else {
			alt.Justification = append(alt.Justification, j)
		}
		for _, v := range src.msg.GetValues() {
			if len(alt.Values) < limit {
				alt.Values = append(alt.Values, v)
			}
		}
		x.emitMsg(id, class, alt)
	}
	for _, front := range []bool{false, true} {
		pos := map[bool]string{false: "appended", true: "prepended"}[front]
		good := proto.Clone(src.msg.GetMsg()).(*pbv1.QBFTMsg)
		put("just-"+pos+":authentic", "ctx:just-"+pos+":authentic", front, good)
		flipped := proto.Clone(good).(*pbv1.QBFTMsg)
		flipped.Signature = append([]byte(nil), flipped.Signature...)
		flipped.Signature[7] ^= 0x10
		put("just-"+pos+":signature-bit", "ctx:just-"+pos+":signature-bit", front, flipped)
		other := proto.Clone(good).(*pbv1.QBFTMsg)
		other.Signature = nil
		other = e.sign(other, (good.GetPeerIdx()+1)%c05n)
		put("just-"+pos+":other-members-key", "ctx:just-"+pos+":other-members-key", front, other)
		if s2 := c05find(mat.corpus2, "PREPARE"); s2 != nil {
			put("just-"+pos+":other-duty", "ctx:just-"+pos+":other-duty", front, proto.Clone(s2.msg.GetMsg()).(*pbv1.QBFTMsg))
		}
		round := proto.Clone(good).(*pbv1.QBFTMsg)
		round.Round++
		put("just-"+pos+":round+1", "ctx:just-"+pos+":round+1", front, round)
	}
}

// runCtx: fam = "ctx/<alteration family>" or "ctx/<alteration family>#<part>/<parts>"
func (x *c05x) runCtx(fam string, mat c05mat, thorough bool) {
	x.ctxdim = true
	x.ctxBothCauses = thorough
	x.ctxSeen, x.ctxPart, x.ctxParts = 0, 0, 1
	defer func() { x.ctxdim = false }()
	sub := fam[4:]
	if i := strings.IndexByte(sub, '#'); i > 0 {
		fmt.Sscanf(sub[i+1:], "%d/%d", &x.ctxPart, &x.ctxParts)
		sub = sub[:i]
	}
	if x.only != "" {
		x.ctxParts = 1
	}
	switch sub {
	case "fields":
		x.famFields(thorough)
	case "subst":
		x.famSubst(mat, thorough)
	case "cross":
		x.famCross(mat)
	case "extra":
		x.famCtxExtra(mat)
	}
}

// ---------------------------------------------------------------------------------------------------------
// dimension "seq": local life-cycle calls and the expiry window
// ---------------------------------------------------------------------------------------------------------

// c05gateDL holds back the output of the real deadliner: the component's reader (the goroutine of Start) gets the
// expiry notifications only when the harness releases them.
type c05gateDL struct {
	core.Deadliner
	out chan core.Duty
}

func (g *c05gateDL) C() <-chan core.Duty { return g.out }

func (g *c05gateDL) release() (n int) {
	for {
		select {
		case d := <-g.Deadliner.C():
			g.out <- d
			n++
		default:
			return n
		}
	}
}

type c05seqVariant struct {
	name string
	duty core.Duty
	msgs []*c05entry // one valid message per kind, for this duty
}

// c05seqDeadline: deadline of the two duty types used here, as an offset from genesis (the table of core/deadline.go).
func c05seqDeadline(d core.Duty) time.Duration {
	dur := c05slotDur // default
	switch d.Type {
	case core.DutyProposer:
		dur = c05slotDur / 3
	case core.DutyAttester:
		dur = c05spe * c05slotDur
	}
	return time.Duration(d.Slot)*c05slotDur + dur + c05slotDur/12
}

var c05seqLocalOps = []string{"P", "Q", "T0", "T", "C"}

type c05seqStep struct {
	Op       string `json:"op"`
	Expired  bool   `json:"duty_expired"`
	State    string `json:"state_before"`
	Accepted bool   `json:"accepted"`
	Err      string `json:"handle_error"`
	Bad      string `json:"violation"`
	Detail   string `json:"detail"`
}

type c05seqRes struct {
	steps   []c05seqStep // one per peer message of the sequence
	harness string       // harness-side problem (not a violation)
}

type c05seqCase struct {
	Family  string   `json:"family"`
	Variant string   `json:"duty"`
	Flood   bool     `json:"deadliner_output_full"`
	Ops     []string `json:"ops"`
}

// c05seqState describes the instance IO of the duty (evidence and signatures).
func c05seqState(c *Consensus, d core.Duty) string {
	c.mutable.Lock()
	defer c.mutable.Unlock()
	inst, ok := c.mutable.instances[d]
	if !ok {
		return "no-io"
	}
	s := "io"
	if inst.Running.Load() {
		s += "+running"
	}
	if inst.Proposed.Load() {
		s += "+proposed"
	}
	if inst.Participated.Load() {
		s += "+participated"
	}
	if len(inst.RecvBuffer) > 0 {
		s += "+buffered"
	}
	return s
}

// c05seqRun executes one sequence on a new component. Must be called inside a synctest bubble (only for
// synctest.Wait: the bubble's own clock never moves; the component's clock is the clockwork fake clock).
func c05seqRun(t *testing.T, e *c05env, v *c05seqVariant, flood bool, ops []string) (res c05seqRes) {
	ctx, cancel := context.WithCancel(context.Background())
	defer func() {
		cancel()
		synctest.Wait()
	}()
	start := time.Duration(c05slot)*c05slotDur + c05nowOff
	at := start
	if flood {
		at -= c05slotDur
	}
	clock := clockwork.NewFakeClockAt(c05rcvGenesis.Add(at))
	cl := &c05eth2{genesis: c05rcvGenesis}
	dlf, err := core.NewDutyDeadlineFunc(ctx, cl)
	if err != nil {
		res.harness = err.Error()
		return res
	}
	realDL := core.NewDeadlinerForT(ctx, t, dlf, clock) // = the deadliner of core.NewDeadliner on this clock
	gate := &c05gateDL{Deadliner: realDL, out: make(chan core.Duty, 64)}
	gater, err := core.NewDutyGater(ctx, cl, core.WithDutyGaterForT(t, clock.Now, 2))
	if err != nil {
		res.harness = err.Error()
		return res
	}
	var (
		mu      sync.Mutex
		sniffed []*pbv1.QBFTConsensusMsg
	)
	host := &c05host{id: e.peers[3].ID, idx: 3}
	c, err := NewConsensus(ctx, cl, host, new(p2p.Sender), e.peers, e.keys[3], gate, gater, func(in *pbv1.SniffedConsensusInstance) {
		mu.Lock()
		for _, m := range in.GetMsgs() {
			sniffed = append(sniffed, m.GetMsg())
		}
		mu.Unlock()
	}, false)
	if err != nil {
		res.harness = err.Error()
		return res
	}
	c.Subscribe(func(context.Context, core.Duty, core.UnsignedDataSet) error { return nil })
	c.Start(ctx)
	if flood {
		// ten other duties expire while nobody reads the deadliner's output: its 10-slot channel is full, the
		// notification for the duty under test will be dropped
		fillers := []core.Duty{{Slot: c05slot - 1, Type: core.DutyProposer}, {Slot: c05slot - 1, Type: core.DutyRandao},
			{Slot: c05slot - 1, Type: core.DutySignature}, {Slot: c05slot - 1, Type: core.DutyBuilderProposer}, {Slot: c05slot - 1, Type: core.DutySyncMessage},
			{Slot: c05slot - 1, Type: core.DutySyncContribution}, {Slot: c05slot - 1, Type: core.DutyInfoSync},
			{Slot: c05slot - c05spe, Type: core.DutyAttester}, {Slot: c05slot - c05spe, Type: core.DutyAggregator},
			{Slot: c05slot - 2*c05spe, Type: core.DutyPrepareAggregator}}
		for _, f := range fillers {
			if st := realDL.Add(f); st != core.DeadlineScheduled {
				res.harness = fmt.Sprintf("filler duty %v not scheduled (%v)", f, st)
				return res
			}
		}
		clock.Advance(c05slotDur)
		synctest.Wait()
		if n := len(realDL.C()); n != 10 {
			res.harness = fmt.Sprintf("deadliner output holds %d notifications, expected 10", n)
			return res
		}
	}
	deadline := c05seqDeadline(v.duty)
	nowOff := func() time.Duration { return clock.Now().Sub(c05rcvGenesis) }
	byKind := map[string]*c05entry{}
	for _, en := range v.msgs {
		byKind[en.Kind] = en
	}
	consumer := false // a local call may have started an instance that reads the receive buffer
	accepted := map[string]int{}
	type rej struct {
		en   *c05entry
		step int
	}
	var rejected []rej
	for _, op := range ops {
		switch {
		case op == "P" || op == "Q":
			if exp, _ := (c05window{nowOff: nowOff(), slotDur: c05slotDur, spe: c05spe, allowed: 2}).expired(v.duty); !exp {
				consumer = true
			}
			if op == "P" {
				go func() { _ = c.Propose(ctx, v.duty, e.sets[c05D][3]) }()
			} else {
				go func() { _ = c.Participate(ctx, v.duty) }()
			}
			synctest.Wait()
		case op == "T0":
			if d := deadline - nowOff(); d > 0 {
				clock.Advance(d)
			}
			synctest.Wait()
		case op == "T":
			if d := deadline - nowOff(); d >= 0 {
				clock.Advance(d + 1)
			} else {
				clock.Advance(c05slotDur)
			}
			synctest.Wait()
		case op == "C":
			gate.release()
			synctest.Wait()
		case strings.HasPrefix(op, "m:"):
			en := byKind[op[2:]]
			if en == nil {
				res.harness = "no message of kind " + op[2:]
				return res
			}
			dec, err := c05decode(en.wire)
			if err != nil {
				res.harness = "corpus message does not decode"
				return res
			}
			w := c05window{nowOff: nowOff(), slotDur: c05slotDur, spe: c05spe, allowed: 2}
			st := c05seqStep{Op: op, State: c05seqState(c, v.duty)}
			st.Expired, _ = w.expired(v.duty)
			before, bufBefore := c05snap(c), c05peek(c)
			_, _, herr := c.handle(context.Background(), e.peers[0].ID, dec)
			synctest.Wait()
			after, bufAfter := c05snap(c), c05peek(c)
			st.Accepted = herr == nil
			if herr != nil {
				st.Err = herr.Error()
			}
			grown := 0
			for d, l := range bufAfter {
				grown += len(l) - len(bufBefore[d])
			}
			switch {
			case st.Expired && st.Accepted:
				st.Bad, st.Detail = "accepted-expired-duty", fmt.Sprintf("handle returned nil for a duty whose deadline passed %v ago; instance state [%s] -> [%s]", nowOff()-deadline, before, after)
			case st.Expired && (after != before || grown != 0):
				st.Bad, st.Detail = "rejected-but-state-changed", fmt.Sprintf("handle returned %q but the instance state went from [%s] to [%s] (buffers grew by %d)", st.Err, before, after, grown)
			case !st.Expired && !st.Accepted:
				st.Bad, st.Detail = "unexpired-valid-message-rejected", fmt.Sprintf("handle returned %q for a valid message whose duty expires in %v", st.Err, deadline-nowOff())
			case !st.Expired && !consumer:
				l := bufAfter[v.duty]
				if grown != 1 || len(l) != len(bufBefore[v.duty])+1 || !proto.Equal(l[len(l)-1].msg, dec.GetMsg()) {
					st.Bad, st.Detail = "accepted-but-enqueued-differs", fmt.Sprintf("accepted message is not what was enqueued (buffers grew by %d)", grown)
				}
			}
			if st.Accepted {
				accepted[en.Key]++
			} else {
				rejected = append(rejected, rej{en, len(res.steps)})
			}
			res.steps = append(res.steps, st)
		default:
			res.harness = "unknown op " + op
			return res
		}
	}
	// what did running instances receive? A rejected message must not be among it.
	cancel()
	synctest.Wait()
	mu.Lock()
	defer mu.Unlock()
	for _, rj := range rejected {
		n := 0
		for _, m := range sniffed {
			if proto.Equal(m, rj.en.msg) {
				n++
			}
		}
		if n > accepted[rj.en.Key] && res.steps[rj.step].Bad == "" {
			res.steps[rj.step].Bad = "rejected-but-state-changed"
			res.steps[rj.step].Detail = fmt.Sprintf("handle returned %q but a running instance received the message (%d times, %d deliveries were accepted)", res.steps[rj.step].Err, n, accepted[rj.en.Key])
		}
	}
	return res
}

func c05seqClass(ops []string) string {
	var l []string
	for _, op := range ops {
		if strings.HasPrefix(op, "m:") {
			op = "m"
		}
		l = append(l, op)
	}
	return strings.Join(l, ",")
}

func c05seqBubble(t *testing.T, e *c05env, v *c05seqVariant, flood bool, ops []string) (res c05seqRes) {
	synctest.Test(t, func(t *testing.T) { res = c05seqRun(t, e, v, flood, ops) })
	return res
}

// c05seqEval runs one sequence and judges every delivery in it.
func c05seqEval(t *testing.T, r *enumx.Run, e *c05env, v *c05seqVariant, flood bool, ops []string) {
	res := c05seqBubble(t, e, v, flood, ops)
	cls := c05seqClass(ops)
	r.Eval(fmt.Sprintf("seq:%s:flood=%v:%s:%s", v.name, flood, cls, ops[len(ops)-1]))
	r.Steps(len(ops))
	if res.harness != "" {
		r.Count("seq_harness_problem", 1)
		r.Note("seq: " + res.harness)
		return
	}
	for i, st := range res.steps {
		final := i == len(res.steps)-1
		if final {
			if st.Accepted {
				r.Count("seq_final_accepted:"+cls, 1)
			} else {
				r.Count("seq_final_rejected:"+cls, 1)
			}
		}
		switch {
		case st.Expired && !st.Accepted:
			r.Count("seq_expired_rejected:state="+st.State, 1)
		case st.Expired:
			r.Count("seq_expired_accepted:state="+st.State, 1)
		case st.Accepted:
			r.Count("seq_unexpired_accepted", 1)
		default:
			r.Count("seq_unexpired_rejected", 1)
		}
		if st.Bad == "" {
			continue
		}
		r.Count("violating:seq:"+st.Bad, 1)
		sig := fmt.Sprintf("kind=%s dim=seq duty=%s expired=%v state=%s msgkind=%s", st.Bad, v.name, st.Expired, st.State, st.Op[2:])
		if e.reported[sig] {
			continue
		}
		same := true
		for k := 0; k < 3; k++ {
			r2 := c05seqBubble(t, e, v, flood, ops)
			if r2.harness != "" || len(r2.steps) <= i || r2.steps[i].Bad != st.Bad {
				same = false
			}
		}
		if !same {
			r.Unconfirmed(fmt.Sprintf("seq %s flood=%v %v", v.name, flood, ops))
			continue
		}
		e.reported[sig] = true
		r.Violation(sig, fmt.Sprintf("%s; delivery %d (%s) of the sequence %v on one component (duty %v, deadliner output full: %v); P = local Propose, Q = local Participate, "+
			"T0 = clock to the duty's deadline, T = clock 1ns past the deadline (again: one more slot), C = the pending expiry notifications reach the component, m:X = valid peer message of kind X",
			st.Detail, i+1, st.Op, ops, v.duty, flood), c05seqCase{Family: "seq", Variant: v.name, Flood: flood, Ops: ops})
	}
}

// c05seqVariants: the attester duty of the corpus and the same messages signed again for the proposer duty of that slot.
func c05seqVariants(e *c05env, corpus []*c05entry) (out []*c05seqVariant) {
	att := &c05seqVariant{name: "attester", duty: c05D}
	prop := &c05seqVariant{name: "proposer", duty: core.Duty{Slot: c05slot, Type: core.DutyProposer}}
	for _, kind := range c05kinds {
		en := c05find(corpus, kind)
		if en == nil {
			continue
		}
		att.msgs = append(att.msgs, en)
		alt := e.restamp(en.msg, prop.duty.Slot, int32(prop.duty.Type), true)
		w, err := proto.Marshal(alt)
		if err != nil {
			continue
		}
		if m, err := c05decode(w); err == nil {
			prop.msgs = append(prop.msgs, &c05entry{Key: en.Key, Kind: kind, msg: m, wire: w})
		}
	}
	return []*c05seqVariant{att, prop}
}

// c05seqUnit enumerates every sequence that starts with `first`, has at most maxLen operations and ends in a peer message.
func c05seqUnit(t *testing.T, r *enumx.Run, e *c05env, v *c05seqVariant, flood bool, first string, maxLen int) {
	var alphabet []string
	for _, en := range v.msgs {
		alphabet = append(alphabet, "m:"+en.Kind)
	}
	alphabet = append(alphabet, c05seqLocalOps...)
	var rec func(ops []string)
	rec = func(ops []string) {
		if r.Expired() {
			return
		}
		if strings.HasPrefix(ops[len(ops)-1], "m:") {
			c05seqEval(t, r, e, v, flood, append([]string(nil), ops...))
		}
		if len(ops) == maxLen {
			return
		}
		for _, op := range alphabet {
			if len(ops) == maxLen-1 && !strings.HasPrefix(op, "m:") {
				continue
			}
			rec(append(ops, op))
		}
	}
	rec([]string{first})
}
