package qbft

// C14 (consensus hash of a value on the RECEIVING side, for encodings that are not canonical).
//
// The leader hashes its value with hashProto (deterministic marshalling) and signs that hash, but ships the value
// wrapped by anypb.New, i.e. marshalled with the DEFAULT options: the entries of the proto map of a
// core.UnsignedDataSet with two or more validators appear on the wire in whatever order the sender's map iteration
// produced. The receiver (Consensus.handle -> valuesByHash -> newMsg) has to file the value under the hash of the
// VALUE, not of the bytes it happened to receive.
//
// Sender, exactly as in production: Consensus.Propose / ProposePriority (UnsignedDataSetToProto, hashProto, the
// instance's ValueCh / HashCh) -> the real transport (newTransport on that ValueCh) -> transport.Broadcast
// (getValue: anypb.New; createMsg: signMsg, newMsg) -> the broadcaster gets Msg.ToConsensusMsg(). The sender's map
// iteration is pinned to every rotation the runtime overlay offers, separately while the set is converted (r1) and
// while it is wrapped (r2). In addition the entries of the encoded map field are permuted by hand (protowire): every
// permutation for k <= 3, every rotation of the forward and of the reversed order for k = 8, each also with the
// key and value fields of every entry swapped - all of them encodings of the same value that a conforming
// protobuf implementation may emit.
//
// Receiver, the real path of a peer: proto.Marshal -> proto.Unmarshal -> protonil.Check -> Consensus.handle ->
// the instance's outer receive buffer -> transport.ProcessReceives (setValues) -> inner receive buffer -> the Msg
// accessors; then what the instance does with it: transport.Broadcast of the answer (PREPARE for the value, or the
// PRE-PREPARE of the next leader for a prepared value) which needs the value from the transport's cache, Compare
// (attester) and Decide -> subscriber.
//
// Oracle: the message is accepted; the hash under which the receiver files the value (Msg.Value / PreparedValue, the
// keys of Msg.Values) is the hash the leader signed = hashProto(original value); the answer can be built; the
// decided value equals the original. For every encoding.

import (
	"bytes"
	"context"
	"encoding/base64"
	"encoding/json"
	"fmt"
	"reflect"
	"runtime"
	"sort"
	"testing"

	eth2api "github.com/attestantio/go-eth2-client/api"
	eth2spec "github.com/attestantio/go-eth2-client/spec"
	k1 "github.com/decred/dcrd/dcrec/secp256k1/v4"
	"google.golang.org/protobuf/encoding/protowire"
	"google.golang.org/protobuf/proto"
	"google.golang.org/protobuf/types/known/anypb"
	"google.golang.org/protobuf/types/known/structpb"

	"github.com/obolnetwork/charon/app/log"
	"github.com/obolnetwork/charon/app/protonil"
	"github.com/obolnetwork/charon/core"
	"github.com/obolnetwork/charon/core/consensus/instance"
	"github.com/obolnetwork/charon/core/consensus/timer"
	pbv1 "github.com/obolnetwork/charon/core/corepb/v1"
	"github.com/obolnetwork/charon/core/qbft"
	"github.com/obolnetwork/charon/testutil"
	"github.com/obolnetwork/charon/zzverif/enumx"
)

type c14cCase struct {
	Part      string `json:"part"` // "canon"
	Type      string `json:"type"`
	Duty      int    `json:"duty_type"`
	K         int    `json:"entries"`
	Kind      string `json:"msg_kind"`      // pre-prepare | round-change
	How       string `json:"encoding_from"` // sender-rot:r1=..,r2=.. | perm:[...] | perm-kvswap:[...]
	TypeURL   string `json:"type_url"`
	Canonical string `json:"canonical_value_b64"`
	Encoding  string `json:"any_value_b64"`
}

type c14cCapture struct{ msgs []*pbv1.QBFTConsensusMsg }

func (c *c14cCapture) Broadcast(_ context.Context, m *pbv1.QBFTConsensusMsg) error {
	c.msgs = append(c.msgs, m)
	return nil
}

//go:noinline
func c14cNewSet() core.UnsignedDataSet { return make(core.UnsignedDataSet) }

const (
	c14cLeader   = 1
	c14cReceiver = 2
)

type c14cEnv struct {
	r    *enumx.Run
	ctx  context.Context
	keys map[int64]*k1.PrivateKey
	send *Consensus // the leader
	recv *Consensus // a peer
	def  qbft.Definition[core.Duty, [32]byte, proto.Message]
	// what the peer's subscribers got
	gotSet  core.UnsignedDataSet
	gotPrio *pbv1.PriorityResult
	decided int
	bad     int // deliveries of the current value that were not handled as the value
}

func c14cNewEnv(t *testing.T, r *enumx.Run) *c14cEnv {
	e := &c14cEnv{r: r, ctx: context.Background(), keys: map[int64]*k1.PrivateKey{}}
	pubs := map[int64]*k1.PublicKey{}
	for i := 0; i < 4; i++ {
		k := testutil.GenerateInsecureK1Key(t, i)
		e.keys[int64(i)] = k
		pubs[int64(i)] = k.PubKey()
	}
	mk := func() *Consensus {
		c := &Consensus{pubkeys: pubs, deadliner: c14qDeadliner{ch: make(chan core.Duty)}, gaterFunc: func(core.Duty) bool { return true },
			dropFilter: log.Filter(), compareAttestations: true}
		c.mutable.instances = make(map[core.Duty]*instance.IO[Msg])
		return c
	}
	e.send, e.recv = mk(), mk()
	e.recv.Subscribe(func(_ context.Context, _ core.Duty, set core.UnsignedDataSet) error {
		e.gotSet = set
		e.decided++
		return nil
	})
	e.recv.SubscribePriority(func(_ context.Context, _ core.Duty, res *pbv1.PriorityResult) error {
		e.gotPrio = res
		e.decided++
		return nil
	})
	e.def = newDefinition(4, e.recv.subscribers, timer.NewIncreasingRoundTimer(), func(int64) {}, true)
	return e
}

// c14cValue is one consensus value: either a set (per validator data) or a priority result.
type c14cValue struct {
	typ  string
	duty core.Duty
	k    int
	set  core.UnsignedDataSet // nil for a priority result
	prio *pbv1.PriorityResult
	// reference
	ref   proto.Message // the value as a proto message, built under rotation 0
	canon []byte        // its deterministic bytes
	hash  [32]byte      // hashProto(ref): the hash the leader signs
}

func (v *c14cValue) fill() error {
	runtime.VerifSetMapRot(true, 0)
	defer runtime.VerifSetMapRot(false, 0)
	if v.set != nil {
		pb, err := core.UnsignedDataSetToProto(v.set)
		if err != nil {
			return err
		}
		v.ref = pb
	} else {
		v.ref = v.prio
	}
	var err error
	if v.canon, err = (proto.MarshalOptions{Deterministic: true}).Marshal(v.ref); err != nil {
		return err
	}
	v.hash, err = hashProto(v.ref)
	return err
}

// sameAsOriginal compares what the peer's subscriber got with the original value.
func (e *c14cEnv) sameAsOriginal(v *c14cValue) string {
	if v.set == nil {
		if e.gotPrio == nil {
			return "no priority result delivered"
		}
		if !proto.Equal(e.gotPrio, v.prio) {
			return "the decided priority result differs from the original"
		}
		return ""
	}
	if e.gotSet == nil {
		return "no set delivered"
	}
	if len(e.gotSet) != len(v.set) {
		return fmt.Sprintf("the decided set has %d entries, the original %d", len(e.gotSet), len(v.set))
	}
	for pk, want := range v.set {
		got, ok := e.gotSet[pk]
		if !ok {
			return "a validator of the original set is missing in the decided set"
		}
		if reflect.TypeOf(got) != reflect.TypeOf(want) {
			return fmt.Sprintf("decided entry has type %T, original %T", got, want)
		}
		a, err1 := json.Marshal(want)
		b, err2 := json.Marshal(got)
		if err1 != nil || err2 != nil || !bytes.Equal(a, b) {
			return "a decided entry differs from the original entry of that validator"
		}
	}
	return ""
}

// leaderMsgs runs the production sending side for the value: Propose under rotation r1, the transport's Broadcast
// under rotation r2. Returns the PRE-PREPARE (round 1, value) and a ROUND-CHANGE (round 2, prepared value) as the
// broadcaster got them, and the hash the leader's instance was given.
func (e *c14cEnv) leaderMsgs(v *c14cValue, r1, r2 uint64) (pre, rc *pbv1.QBFTConsensusMsg, hash [32]byte, err error) {
	c := e.send
	c.mutable.instances = make(map[core.Duty]*instance.IO[Msg])
	inst := c.getInstanceIO(v.duty)
	inst.MaybeStart()   // as if Participate had started the instance: Propose only feeds its inputs ...
	inst.ErrCh <- nil // ... and returns the instance's result
	runtime.VerifSetMapRot(true, r1)
	if v.set != nil {
		err = c.Propose(e.ctx, v.duty, v.set)
	} else {
		err = c.ProposePriority(e.ctx, v.duty, v.prio)
	}
	runtime.VerifSetMapRot(false, 0)
	if err != nil {
		return nil, nil, hash, err
	}
	select {
	case hash = <-inst.HashCh:
	default:
		return nil, nil, hash, fmt.Errorf("propose did not provide a hash")
	}
	bc := &c14cCapture{}
	tr := newTransport(bc, e.keys[c14cLeader], inst.ValueCh, make(chan qbft.Msg[core.Duty, [32]byte, proto.Message], 8), newSniffer(4, c14cLeader))
	runtime.VerifSetMapRot(true, r2)
	err = tr.Broadcast(e.ctx, qbft.MsgPrePrepare, v.duty, c14cLeader, 1, hash, 0, [32]byte{}, nil)
	if err == nil {
		err = tr.Broadcast(e.ctx, qbft.MsgRoundChange, v.duty, c14cLeader, 2, [32]byte{}, 1, hash, nil)
	}
	runtime.VerifSetMapRot(false, 0)
	if err != nil {
		return nil, nil, hash, err
	}
	if len(bc.msgs) != 2 || len(bc.msgs[0].GetValues()) != 1 || len(bc.msgs[1].GetValues()) != 1 {
		return nil, nil, hash, fmt.Errorf("unexpected broadcast shape")
	}
	return bc.msgs[0], bc.msgs[1], hash, nil
}

// deliver: the real receive path of a peer. Returns "" or the verdict that breaks the property.
func (e *c14cEnv) deliver(v *c14cValue, m *pbv1.QBFTConsensusMsg, kind string) (verdict, detail string) {
	b, err := proto.Marshal(m)
	if err != nil {
		return "harness", "marshal: " + err.Error()
	}
	in := new(pbv1.QBFTConsensusMsg)
	if err := proto.Unmarshal(b, in); err != nil {
		return "harness", "unmarshal: " + err.Error()
	}
	if err := protonil.Check(in); err != nil {
		return "rejected", "protonil: " + err.Error()
	}
	c := e.recv
	c.mutable.instances = make(map[core.Duty]*instance.IO[Msg])
	e.gotSet, e.gotPrio, e.decided = nil, nil, 0
	e.r.Steps(4)
	if _, _, err := c.handle(e.ctx, "", in); err != nil {
		return "rejected", "Consensus.handle: " + err.Error()
	}
	bc := &c14cCapture{}
	tr := newTransport(bc, e.keys[c14cReceiver], make(chan instance.ValueWithHash), make(chan qbft.Msg[core.Duty, [32]byte, proto.Message], 8), newSniffer(4, c14cReceiver))
	if len(c.getRecvBuffer(v.duty)) != 1 {
		return "accepted-not-buffered", "Consensus.handle returned no error but did not enqueue the message"
	}
	ctx, cancel := context.WithCancel(e.ctx)
	go tr.ProcessReceives(ctx, c.getRecvBuffer(v.duty))
	got, ok := (<-tr.RecvBuffer()).(Msg)
	cancel()
	if !ok {
		return "harness", "receive buffer element is not a Msg"
	}
	filed := got.Value()
	if kind == "round-change" {
		filed = got.PreparedValue()
	}
	if filed != v.hash {
		return "filed-under-other-hash", fmt.Sprintf("the accepted message names %x, the leader signed %x", filed[:4], v.hash[:4])
	}
	if _, ok := got.Values()[v.hash]; !ok || len(got.Values()) != 1 {
		return "filed-under-other-hash", "the values of the accepted message are not keyed by the hash the leader signed"
	}
	if kind == "pre-prepare" {
		src, err := got.ValueSource()
		if err != nil || src == nil {
			return "value-not-found", "ValueSource of the accepted PRE-PREPARE fails"
		}
	}
	// the answer of the instance needs the value from the transport's cache
	if kind == "pre-prepare" {
		err = tr.Broadcast(e.ctx, qbft.MsgPrepare, v.duty, c14cReceiver, 1, v.hash, 0, [32]byte{}, nil)
	} else {
		err = tr.Broadcast(e.ctx, qbft.MsgPrePrepare, v.duty, c14cReceiver, 2, v.hash, 0, [32]byte{}, nil)
	}
	if err != nil {
		return "answer-unknown-value", "the peer cannot build its answer for the value: " + err.Error()
	}
	if len(bc.msgs) != 1 {
		return "harness", "no answer captured"
	}
	relayed, err := valuesByHash(bc.msgs[0].GetValues())
	if err != nil {
		return "answer-value-wrong", "values of the answer: " + err.Error()
	}
	if _, ok := relayed[v.hash]; !ok || len(relayed) != 1 {
		return "answer-value-wrong", "the answer does not carry the value under the signed hash"
	}
	if v.duty.Type == core.DutyAttester && kind == "pre-prepare" { // the algorithm compares the value of a PRE-PREPARE only
		errCh, protoCh := make(chan error, 2), make(chan proto.Message, 2)
		e.def.Compare(e.ctx, got, nil, v.ref, errCh, protoCh)
		select {
		case err := <-errCh:
			if err != nil {
				return "compare-refused", "Compare of the leader's value against the equal local value: " + err.Error()
			}
		default:
			return "harness", "Compare returned nothing"
		}
	}
	e.def.Decide(e.ctx, v.duty, v.hash, got.Round(), []qbft.Msg[core.Duty, [32]byte, proto.Message]{got})
	e.r.Steps(6)
	if e.decided == 0 {
		return "not-decided", "Decide did not deliver the value to the subscriber"
	}
	if why := e.sameAsOriginal(v); why != "" {
		return "decided-value-differs", why
	}
	return "", ""
}

// ---- hand-made encodings of the map field ------------------------------------------------------------------

// c14cSplit splits an encoded message into its raw top-level fields.
func c14cSplit(b []byte) ([][]byte, bool) {
	var out [][]byte
	for len(b) > 0 {
		num, typ, n := protowire.ConsumeTag(b)
		if n < 0 {
			return nil, false
		}
		m := protowire.ConsumeFieldValue(num, typ, b[n:])
		if m < 0 {
			return nil, false
		}
		out = append(out, b[:n+m])
		b = b[n+m:]
	}
	return out, true
}

// c14cSwapKV re-emits a map entry field with its inner fields (key, value) in reverse order.
func c14cSwapKV(field []byte) ([]byte, bool) {
	num, typ, n := protowire.ConsumeTag(field)
	if n < 0 || typ != protowire.BytesType {
		return nil, false
	}
	payload, m := protowire.ConsumeBytes(field[n:])
	if m < 0 {
		return nil, false
	}
	inner, ok := c14cSplit(payload)
	if !ok || len(inner) != 2 {
		return nil, false
	}
	var p []byte
	p = append(p, inner[1]...)
	p = append(p, inner[0]...)
	return protowire.AppendBytes(protowire.AppendTag(nil, num, typ), p), true
}

func c14cOrders(k int) [][]int {
	id := make([]int, k)
	for i := range id {
		id[i] = i
	}
	if k <= 3 {
		var out [][]int
		var rec func(cur []int, used []bool)
		rec = func(cur []int, used []bool) {
			if len(cur) == k {
				out = append(out, append([]int{}, cur...))
				return
			}
			for i := 0; i < k; i++ {
				if !used[i] {
					used[i] = true
					rec(append(cur, i), used)
					used[i] = false
				}
			}
		}
		rec(nil, make([]bool, k))
		return out
	}
	var out [][]int
	for _, rev := range []bool{false, true} {
		for r := 0; r < k; r++ {
			o := make([]int, k)
			for i := range o {
				j := (i + r) % k
				if rev {
					j = k - 1 - j
				}
				o[i] = j
			}
			out = append(out, o)
		}
	}
	return out
}

// ---- values ------------------------------------------------------------------------------------------------

type c14cType struct {
	name string
	duty core.DutyType
	gen  func() core.UnsignedData // nil: priority result
}

func c14cMust[T any](v T, err error) T {
	if err != nil {
		panic("c14 canon fixture: " + err.Error())
	}
	return v
}

func c14cTypes(t *testing.T) []c14cType {
	prop := func(p *eth2api.VersionedProposal) core.UnsignedData { return c14cMust(core.NewVersionedProposal(p)) }
	types := []c14cType{
		{"AttestationData", core.DutyAttester, func() core.UnsignedData { return testutil.RandomCoreAttestationData(t) }},
		{"VersionedProposal/capella", core.DutyProposer, func() core.UnsignedData { return testutil.RandomCapellaCoreVersionedProposal() }},
		{"VersionedProposal/electra", core.DutyProposer, func() core.UnsignedData { return prop(testutil.RandomElectraVersionedProposal()) }},
		{"VersionedProposal/deneb-blinded", core.DutyProposer, func() core.UnsignedData {
			return prop(&eth2api.VersionedProposal{Version: eth2spec.DataVersionDeneb, Blinded: true, DenebBlinded: testutil.RandomDenebBlindedBeaconBlock()})
		}},
		{"VersionedAggregatedAttestation/deneb", core.DutyAggregator, func() core.UnsignedData { return testutil.RandomDenebCoreVersionedAggregateAttestation() }},
		{"VersionedAggregatedAttestation/electra", core.DutyAggregator, func() core.UnsignedData {
			return c14cMust(core.NewVersionedAggregatedAttestation(&eth2spec.VersionedAttestation{Version: eth2spec.DataVersionElectra, Electra: testutil.RandomElectraAttestation()}))
		}},
		{"AggregatedAttestation/legacy", core.DutyAggregator, func() core.UnsignedData { return core.NewAggregatedAttestation(testutil.RandomAggregateAttestation()) }},
		{"SyncContribution", core.DutySyncContribution, func() core.UnsignedData { return testutil.RandomCoreSyncContribution() }},
		{"SyncContributions", core.DutySyncContribution, func() core.UnsignedData {
			return core.SyncContributions{testutil.RandomCoreSyncContribution(), testutil.RandomCoreSyncContribution()}
		}},
		{"PriorityResult", core.DutyInfoSync, nil},
	}
	if enumx.Thorough() {
		types = append(types,
			c14cType{"VersionedProposal/phase0", core.DutyProposer, func() core.UnsignedData {
				return prop(&eth2api.VersionedProposal{Version: eth2spec.DataVersionPhase0, Phase0: testutil.RandomPhase0BeaconBlock()})
			}},
			c14cType{"VersionedProposal/altair", core.DutyProposer, func() core.UnsignedData {
				return prop(&eth2api.VersionedProposal{Version: eth2spec.DataVersionAltair, Altair: testutil.RandomAltairBeaconBlock()})
			}},
			c14cType{"VersionedProposal/bellatrix", core.DutyProposer, func() core.UnsignedData { return testutil.RandomBellatrixCoreVersionedProposal() }},
			c14cType{"VersionedProposal/deneb", core.DutyProposer, func() core.UnsignedData { return prop(testutil.RandomDenebVersionedProposal()) }},
			c14cType{"VersionedProposal/fulu", core.DutyProposer, func() core.UnsignedData { return prop(testutil.RandomFuluVersionedProposal()) }},
			c14cType{"VersionedProposal/bellatrix-blinded", core.DutyProposer, func() core.UnsignedData { return testutil.RandomBellatrixVersionedBlindedProposal() }},
			c14cType{"VersionedProposal/capella-blinded", core.DutyProposer, func() core.UnsignedData { return testutil.RandomCapellaVersionedBlindedProposal() }},
			c14cType{"VersionedProposal/electra-blinded", core.DutyProposer, func() core.UnsignedData {
				return prop(&eth2api.VersionedProposal{Version: eth2spec.DataVersionElectra, Blinded: true, ElectraBlinded: testutil.RandomElectraBlindedBeaconBlock()})
			}},
			c14cType{"VersionedProposal/fulu-blinded", core.DutyProposer, func() core.UnsignedData {
				return prop(&eth2api.VersionedProposal{Version: eth2spec.DataVersionFulu, Blinded: true, FuluBlinded: testutil.RandomElectraBlindedBeaconBlock()})
			}},
		)
	}
	return types
}

func c14cPriority(t *testing.T, duty core.Duty, k int) *pbv1.PriorityResult {
	str := func(s string) *anypb.Any { return c14cMust(anypb.New(structpb.NewStringValue(s))) }
	res := &pbv1.PriorityResult{}
	for i := 0; i < k; i++ {
		res.Msgs = append(res.Msgs, &pbv1.PriorityMsg{
			Duty: core.DutyToProto(duty),
			Topics: []*pbv1.PriorityTopicProposal{
				{Topic: str("version"), Priorities: []*anypb.Any{str(fmt.Sprintf("v1.%d", i)), str("v1.0")}},
				{Topic: str("protocol"), Priorities: []*anypb.Any{str("/charon/consensus/qbft/2.0.0")}},
			},
			PeerId:    fmt.Sprintf("peer-%d", i),
			Signature: testutil.RandomSecp256k1Signature(),
		})
	}
	vers := &pbv1.PriorityTopicResult{Topic: str("version")}
	for i := 0; i < k; i++ {
		vers.Priorities = append(vers.Priorities, &pbv1.PriorityScoredResult{Priority: str(fmt.Sprintf("v1.%d", i)), Score: int64(1000 * (k - i))})
	}
	res.Topics = []*pbv1.PriorityTopicResult{vers,
		{Topic: str("protocol"), Priorities: []*pbv1.PriorityScoredResult{{Priority: str("/charon/consensus/qbft/2.0.0"), Score: int64(1000 * k)}}}}
	return res
}

// ---- the dimension -------------------------------------------------------------------------------------------

func (e *c14cEnv) report(v *c14cValue, m *pbv1.QBFTConsensusMsg, kind, how, class string) {
	r := e.r
	verdict, detail := e.deliver(v, m, kind)
	r.Eval(fmt.Sprintf("canon:%s:k=%d:%s:%s", v.typ, v.k, kind, class))
	if verdict != "" {
		e.bad++
	}
	if verdict == "" {
		r.Count("canon_qbft_accepted_filed_under_signed_hash", 1)
		if !bytes.Equal(m.GetValues()[0].GetValue(), v.canon) {
			r.Count("canon_qbft_accepted_noncanonical_encoding", 1)
		}
		return
	}
	if verdict == "harness" {
		r.Note("canon harness: " + detail)
		return
	}
	sig := fmt.Sprintf("kind=noncanonical-encoding path=qbft-receive verdict=%s type=%s encoding=%s", verdict, v.typ, class)
	for i := 0; i < 3; i++ {
		if v2, _ := e.deliver(v, m, kind); v2 != verdict {
			r.Unconfirmed(sig)
			return
		}
	}
	r.Violation(sig, fmt.Sprintf("a %s of the leader carrying a %d-entry %s (value encoded as %s; the value and the signed hash are those of the original) is not handled as the value it is: %s - %s. Equal values must yield equal consensus hashes on every node.",
		kind, v.k, v.typ, how, verdict, detail),
		c14cCase{Part: "canon", Type: v.typ, Duty: int(v.duty.Type), K: v.k, Kind: kind, How: how, TypeURL: m.GetValues()[0].GetTypeUrl(),
			Canonical: base64.StdEncoding.EncodeToString(v.canon), Encoding: base64.StdEncoding.EncodeToString(m.GetValues()[0].GetValue())})
}

func (e *c14cEnv) value(v *c14cValue) {
	r := e.r
	if err := v.fill(); err != nil {
		r.Note("canon fixture " + v.typ + ": " + err.Error())
		return
	}
	e.bad = 0
	distinct := map[string]bool{}
	bySender := map[string]bool{}
	var base [2]*pbv1.QBFTConsensusMsg
	kinds := []string{"pre-prepare", "round-change"}
	var sendFail []string
	sendOK := 0
	for r1 := 0; r1 < v.k; r1++ {
		for r2 := 0; r2 < v.k; r2++ {
			pre, rc, hash, err := e.leaderMsgs(v, uint64(r1), uint64(r2))
			if err != nil {
				sendFail = append(sendFail, fmt.Sprintf("r1=%d,r2=%d: %v", r1, r2, err))
				continue
			}
			sendOK++
			r.Steps(6)
			if hash != v.hash {
				// (also seen by the hash-determinism part; here it is the hash the real Propose hands to the instance)
				r.Violation(fmt.Sprintf("kind=nondeterministic-hash path=propose type=%s", v.typ),
					fmt.Sprintf("Consensus.Propose of the same %d-entry %s under map rotation %d hands the instance another hash than under rotation 0", v.k, v.typ, r1),
					map[string]any{"part": "", "type": v.typ, "k": v.k, "r1": r1})
				continue
			}
			if r1 == 0 && r2 == 0 {
				base = [2]*pbv1.QBFTConsensusMsg{pre, rc}
			}
			enc := string(pre.GetValues()[0].GetValue())
			distinct[enc], bySender[enc] = true, true
			how := fmt.Sprintf("sender-rot:r1=%d,r2=%d", r1, r2)
			e.report(v, pre, kinds[0], how, "sender-rotation")
			e.report(v, rc, kinds[1], how, "sender-rotation")
		}
	}
	switch {
	case len(sendFail) > 0 && sendOK == 0:
		r.Note("canon sender " + v.typ + ": " + sendFail[0])
	case len(sendFail) > 0:
		// whether the leader can send its own value must not depend on its map iteration order
		again := 0
		for i := 0; i < 3; i++ {
			for r1 := 0; r1 < v.k; r1++ {
				for r2 := 0; r2 < v.k; r2++ {
					if _, _, _, err := e.leaderMsgs(v, uint64(r1), uint64(r2)); err != nil {
						again++
					}
				}
			}
		}
		sig := fmt.Sprintf("kind=noncanonical-encoding path=qbft-send verdict=leader-cannot-send type=%s", v.typ)
		if again != 3*len(sendFail) {
			r.Unconfirmed(sig)
		} else {
			r.Violation(sig, fmt.Sprintf("the leader's own transport cannot broadcast its %d-entry %s under %d of %d pinned map iteration orders (it can under the others): %s. The hash of a value must not depend on the byte order of its encoding.",
				v.k, v.typ, len(sendFail), len(sendFail)+sendOK, sendFail[0]), map[string]any{"part": "", "type": v.typ, "k": v.k, "failed": sendFail})
		}
	}
	r.Count(fmt.Sprintf("canon_qbft_encodings_by_sender_rotation:k=%d", v.k), len(bySender))
	if v.set != nil && len(bySender) != v.k && len(sendFail) == 0 {
		r.NotExhaustive(fmt.Sprintf("canon: the pinned map rotations of the sender produced %d distinct encodings of a %d-entry %s, expected %d", len(bySender), v.k, v.typ, v.k))
	}
	if v.set != nil && base[0] != nil {
		fields, ok := c14cSplit(base[0].GetValues()[0].GetValue())
		if !ok || len(fields) != v.k {
			r.Note("canon: cannot split the encoded set of " + v.typ)
		} else {
			for _, order := range c14cOrders(v.k) {
				for _, swap := range []bool{false, true} {
					var enc []byte
					good := true
					for _, i := range order {
						f := fields[i]
						if swap {
							if f, good = c14cSwapKV(f); !good {
								break
							}
						}
						enc = append(enc, f...)
					}
					if !good {
						r.Note("canon: cannot swap key and value of an entry of " + v.typ)
						continue
					}
					// sanity: the hand-made bytes decode to the same value
					chk := new(pbv1.UnsignedDataSet)
					if err := proto.Unmarshal(enc, chk); err != nil || !proto.Equal(chk, v.ref) {
						r.Note("canon: hand-made encoding does not decode to the value")
						continue
					}
					distinct[string(enc)] = true
					class, how := "entries-permuted", fmt.Sprintf("perm:%v", order)
					if swap {
						class, how = "entries-permuted-kv-swapped", fmt.Sprintf("perm-kvswap:%v", order)
					}
					for ki, kind := range kinds {
						m := proto.Clone(base[ki]).(*pbv1.QBFTConsensusMsg)
						m.Values[0].Value = enc
						e.report(v, m, kind, how, class)
					}
				}
			}
		}
	}
	r.Count(fmt.Sprintf("canon_qbft_distinct_encodings_of_one_value:k=%d", v.k), len(distinct))
	r.Count("canon_qbft_values", 1)
	r.Count(fmt.Sprintf("canon_qbft_values:k=%d:distinct_encodings=%d", v.k, len(distinct)), 1)
	if e.bad == 0 && len(sendFail) == 0 {
		r.Count("canon_qbft_values_one_hash_for_all_encodings", 1)
	}
	if len(distinct) > 1 {
		r.Count("canon_qbft_values_with_several_encodings", 1)
	}
}

var c14cKs = []int{1, 2, 3, 8}

func c14qCanon(t *testing.T, r *enumx.Run) {
	e := c14cNewEnv(t, r)
	insts := 1
	if enumx.Thorough() {
		insts = 3
	}
	pks := make([]core.PubKey, 8)
	for i := range pks {
		pks[i] = testutil.RandomCorePubKey(t)
	}
	sort.Slice(pks, func(i, j int) bool { return pks[i] > pks[j] }) // insertion order = descending key order: rotation 0 is not the canonical order either
	for _, typ := range c14cTypes(t) {
		for _, k := range c14cKs {
			if !r.Mine() {
				continue
			}
			if r.Expired() {
				return
			}
			for inst := 0; inst < insts; inst++ {
				v := &c14cValue{typ: typ.name, duty: core.Duty{Slot: 100, Type: typ.duty}, k: k}
				if typ.gen == nil {
					v.prio = c14cPriority(t, v.duty, k)
				} else {
					v.set = c14cNewSet()
					for i := 0; i < k; i++ {
						v.set[pks[i]] = typ.gen()
					}
				}
				e.value(v)
			}
		}
	}
}

// c14cReplay re-runs one recorded case: the value is rebuilt from its canonical bytes, the leader's message by the
// production sending side, and the recorded encoding is put in place of the value bytes.
func c14cReplay(t *testing.T, r *enumx.Run, c c14cCase) {
	e := c14cNewEnv(t, r)
	canon, _ := base64.StdEncoding.DecodeString(c.Canonical)
	enc, _ := base64.StdEncoding.DecodeString(c.Encoding)
	v := &c14cValue{typ: c.Type, duty: core.Duty{Slot: 100, Type: core.DutyType(c.Duty)}, k: c.K}
	if c.Type == "PriorityResult" {
		v.prio = new(pbv1.PriorityResult)
		if err := proto.Unmarshal(canon, v.prio); err != nil {
			fmt.Println("replay: ", err)
			return
		}
	} else {
		pb := new(pbv1.UnsignedDataSet)
		if err := proto.Unmarshal(canon, pb); err != nil {
			fmt.Println("replay: ", err)
			return
		}
		set, err := core.UnsignedDataSetFromProto(v.duty.Type, pb)
		if err != nil {
			fmt.Println("replay: ", err)
			return
		}
		v.set = set
	}
	if err := v.fill(); err != nil {
		fmt.Println("replay: ", err)
		return
	}
	pre, rc, _, err := e.leaderMsgs(v, 0, 0)
	if err != nil {
		fmt.Println("replay: ", err)
		return
	}
	m := pre
	if c.Kind == "round-change" {
		m = rc
	}
	m.Values[0].Value = enc
	e.report(v, m, c.Kind, c.How, "replay")
	verdict, detail := e.deliver(v, m, c.Kind)
	fmt.Printf("replay canon %s k=%d %s %s: verdict=%q %s\n", c.Type, c.K, c.Kind, c.How, verdict, detail)
}
