package qbft

// C02 (and the "decides at most once" clause of C03) at the level of the consensus COMPONENT: the explicit-state search in
// core/qbft decides agreement for qbft.Run instances that live from the start of a duty to its decision; this part
// covers what the component adds around them - the life cycle Participate / Propose / decision / late calls, the per
// duty instance bookkeeping and the receive buffers - which is what decides whether a node really runs ONE instance
// with ONE continuous state per duty, and whether the instances of DIFFERENT duties that live on the same long-lived
// component are really separate.
//
// Engine timex: every script of a finite product is executed on real Consensus components (real NewConsensus,
// gater, deadliner, round timers, transport, wire handler; the stub libp2p host and network of the C05 harness)
// in a testing/synctest bubble:
//   - per honest member a life cycle: Participate and Propose at offsets from {0, after round 1 (1.2 s), later (2.4 s), never},
//     optionally "deaf" before its first call (everything sent to it earlier is lost);
//   - the fourth member is honest, or a Byzantine "yes-voter" under every index: it answers every PRE-PREPARE it sees
//     with PREPARE and COMMIT for that value and every ROUND-CHANGE with a null ROUND-CHANGE for that round (it never
//     contradicts itself in one round, yet supports whatever is proposed - within f = 1);
// Oracle: no honest component hands more than one decision per duty to its subscribers; all decisions of honest
// components are equal.
//
// Multi-duty dimension (c02lMulti): TWO duties X and Y (other slot, other type, or both; all inside the gater window) run
// on the same four components, the members propose different values for X and for Y, the instances overlap in time in
// every order (X decided before Y starts / concurrently / Y first), X takes one of three shapes (decided in round 1; round-1
// leader late = null ROUND-CHANGEs and a decision in a later round; every round-1 COMMIT lost = prepared ROUND-CHANGEs with
// PREPARE certificates and a justified PRE-PREPARE), and the Byzantine member - still the yes-voter in both instances -
// additionally moves material BETWEEN the instances at a fixed instant (before Y started at the victim / while Y runs
// undecided / after Y decided), to one victim or to every honest member, built only from what it has received plus its own
// key:
//   decided / preprepare / roundchange : its own DECIDED / PRE-PREPARE / ROUND-CHANGE for duty Y that carries the genuine COMMIT
//       quorum / ROUND-CHANGE quorum (+ PREPARE certificate) / PREPARE quorum of duty X as justification ("cold"), optionally
//       after the same message for duty X, where the material is in its legitimate place ("warm");
//   replay  : every honest message of X once more, unmodified (they are routed by their own signed duty);
//   relabel : the honest PRE-PREPARE, PREPAREs and COMMITs of X with the duty field rewritten to Y (signatures untouched) and its
//       own DECIDED for Y justified by the relabelled COMMITs;
//   xvalues : its own PRE-PREPARE / PREPARE / COMMIT for Y that refer to and carry a value of X, and its votes for Y's value
//       that carry a value of X in addition.
// The oracle is the same, per duty. A decided value that nobody proposed for that duty is named in the description of a
// disagreement (explanation only; that clause belongs to C03, whose check does not use this harness).

import (
	"context"
	"crypto/sha256"
	"fmt"
	"math/rand"
	"runtime"
	"sort"
	"strings"
	"sync"
	"testing"
	"testing/synctest"
	"time"

	"github.com/OffchainLabs/go-bitfield"
	eth2spec "github.com/attestantio/go-eth2-client/spec"
	eth2p0 "github.com/attestantio/go-eth2-client/spec/phase0"
	"google.golang.org/protobuf/proto"
	"google.golang.org/protobuf/types/known/anypb"

	"github.com/obolnetwork/charon/core"
	pbv1 "github.com/obolnetwork/charon/core/corepb/v1"
	"github.com/obolnetwork/charon/core/qbft"
	"github.com/obolnetwork/charon/testutil"
	"github.com/obolnetwork/charon/zzverif/enumx"
)

type c02lLife struct {
	Part int  `json:"participate_at_ms"` // -1 = never
	Prop int  `json:"propose_at_ms"`     // -1 = never
	Deaf bool `json:"deaf_before_first_call"`
}

type c02lDutyJ struct {
	Slot uint64 `json:"slot"`
	Type int    `json:"type"`
}

func (d c02lDutyJ) duty() core.Duty { return core.Duty{Slot: d.Slot, Type: core.DutyType(d.Type)} }

func c02lDJ(d core.Duty) c02lDutyJ { return c02lDutyJ{Slot: d.Slot, Type: int(d.Type)} }

// c02lMulti is the second duty of a script and what the Byzantine member moves between the two instances.
type c02lMulti struct {
	Pair   string      `json:"pair"`
	X      c02lDutyJ   `json:"duty_x"` // its life cycles are c02lScript.Life
	Y      c02lDutyJ   `json:"duty_y"`
	Order  string      `json:"order"`   // X<Y | X||Y | Y<X
	When   string      `json:"when"`    // the strategy fires: pre = before Y started at the victim | run = while Y runs undecided | post = after Y decided
	XShape string      `json:"x_shape"` // fast | late-leader | r1-commits-lost
	LossX  bool        `json:"x_round1_commits_lost"`
	LifeY  [4]c02lLife `json:"life_y"`
	Strat  string      `json:"strategy"` // "" = none
	Warm   bool        `json:"legitimate_use_first"`
	Victim int         `json:"victim"` // the member that starts Y late in "pre"; the only addressee unless ToAll
	ToAll  bool        `json:"to_all"`
	FireMs int         `json:"fire_at_ms"`
	Rot    uint64      `json:"map_rotation"` // start offset of every map iteration of the execution (runtime overlay)
}

type c02lScript struct {
	Byz   int         `json:"byzantine_yes_voter"` // -1: four honest members
	Life  [4]c02lLife `json:"life"`
	Multi *c02lMulti  `json:"multi,omitempty"`
}

func c02lLives(byz int, ls [4]c02lLife) string {
	var p []string
	for i, l := range ls {
		if i == byz {
			p = append(p, "byz")
			continue
		}
		d := ""
		if l.Deaf {
			d = "/deaf"
		}
		p = append(p, fmt.Sprintf("P%d,Q%d%s", l.Part, l.Prop, d))
	}
	return strings.Join(p, " ")
}

func (s c02lScript) String() string {
	out := fmt.Sprintf("byz=%d [%s]", s.Byz, c02lLives(s.Byz, s.Life))
	if m := s.Multi; m != nil {
		out += fmt.Sprintf(" X=%v Y=%v (%s) order=%s when=%s x-shape=%s Y[%s] strategy=%q warm=%v victim=%d to-all=%v fire=%dms map-rotation=%d",
			m.X.duty(), m.Y.duty(), m.Pair, m.Order, m.When, m.XShape, c02lLives(s.Byz, m.LifeY), m.Strat, m.Warm, m.Victim, m.ToAll, m.FireMs, m.Rot)
	}
	return out
}

func (l c02lLife) start() int {
	switch {
	case l.Part < 0:
		return l.Prop
	case l.Prop < 0:
		return l.Part
	case l.Part < l.Prop:
		return l.Part
	}
	return l.Prop
}

// ---------------------------------------------------------------------------------------------------------
// environment: the C05 environment plus proposals for the additional duties and names for every proposal
// ---------------------------------------------------------------------------------------------------------

var (
	c02lAgg  = core.Duty{Slot: c05slot, Type: core.DutyAggregator}     // same slot as c05D, other type
	c02lAgg2 = core.Duty{Slot: c05slot + 1, Type: core.DutyAggregator} // other slot and other type; leader(c02lAgg2, r) == leader(c05D, r)
)

type c02lEnv struct {
	*c05env
	labels map[string]string // sha256 of the deterministic bytes of a proposal -> "<duty>#p<member>"
}

func c02lValKey(det []byte) string {
	h := sha256.Sum256(det)
	return fmt.Sprintf("%x", h[:])
}

func c02lNewEnv(t *testing.T) *c02lEnv {
	e := &c02lEnv{c05env: c05newEnv(t), labels: map[string]string{}}
	for di, d := range []core.Duty{c02lAgg, c02lAgg2} {
		for i := 0; i < c05n; i++ {
			rnd := rand.New(rand.NewSource(int64(7000 + 1000*di + i)))
			bits := bitfield.NewBitlist(64)
			bits.SetBitAt(uint64(rnd.Intn(64)), true)
			agg := core.VersionedAggregatedAttestation{VersionedAttestation: eth2spec.VersionedAttestation{
				Version: eth2spec.DataVersionDeneb,
				Deneb: &eth2p0.Attestation{AggregationBits: bits, Data: testutil.RandomAttestationDataSeedPhase0(rnd),
					Signature: testutil.RandomEth2SignatureWithSeed(int64(7000 + 1000*di + i))},
			}}
			set := core.UnsignedDataSet{testutil.RandomCorePubKeySeed(t, rnd): agg}
			pb, err := core.UnsignedDataSetToProto(set)
			if err != nil {
				t.Fatal(err)
			}
			e.sets[d] = append(e.sets[d], set)
			e.props[d] = append(e.props[d], c05det(pb))
			e.addValue(pb)
		}
	}
	for d, l := range e.props {
		for i, det := range l {
			e.labels[c02lValKey(det)] = fmt.Sprintf("%v#p%d", d, i)
		}
	}
	return e
}

func (e *c02lEnv) label(value proto.Message) string {
	k := c02lValKey(c05det(value))
	if l, ok := e.labels[k]; ok {
		return l
	}
	return "unknown:" + k[:8]
}

// ---------------------------------------------------------------------------------------------------------
// what the Byzantine member can build from the messages it has received
// ---------------------------------------------------------------------------------------------------------

const c02lQuorum = (2*c05n + 2) / 3

// c02lMat is the genuine material of one duty's instance as one member has seen it.
type c02lMat struct {
	values     map[[32]byte]*anypb.Any
	all        []*pbv1.QBFTConsensusMsg // every message of the duty from OTHER members, in arrival order
	pp         *pbv1.QBFTConsensusMsg   // the first PRE-PREPARE of another member
	commits    []*pbv1.QBFTMsg          // COMMITs of one (round, value) from a quorum of distinct members (the highest such round), all of them
	prepares   []*pbv1.QBFTMsg          // PREPAREs, likewise
	rcs        []*pbv1.QBFTMsg          // ROUND-CHANGEs of one round from a quorum of distinct members (the lowest such round)
	rcPrepares []*pbv1.QBFTMsg          // the PREPARE certificate of the highest prepared round claimed among rcs (empty: all null)
}

func c02lHash32(b []byte) (h [32]byte, ok bool) {
	if len(b) != 32 {
		return h, false
	}
	copy(h[:], b)
	return h, h != [32]byte{}
}

func c02lMaterial(log []*pbv1.QBFTConsensusMsg, duty core.Duty, self int) (mat c02lMat) {
	mat.values = map[[32]byte]*anypb.Any{}
	type gk struct {
		typ   int64
		round int64
		vh    string
	}
	groups := map[gk]map[int64]*pbv1.QBFTConsensusMsg{}
	for _, m := range log {
		for _, v := range m.GetValues() {
			inner, err := v.UnmarshalNew()
			if err != nil {
				continue
			}
			if h, err := hashProto(inner); err == nil {
				mat.values[h] = v
			}
		}
		if core.DutyFromProto(m.GetMsg().GetDuty()) != duty {
			continue
		}
		if m.GetMsg().GetPeerIdx() != int64(self) {
			mat.all = append(mat.all, m)
			if qbft.MsgType(m.GetMsg().GetType()) == qbft.MsgPrePrepare && mat.pp == nil {
				mat.pp = m
			}
		}
		k := gk{m.GetMsg().GetType(), m.GetMsg().GetRound(), string(m.GetMsg().GetValueHash())}
		if qbft.MsgType(k.typ) == qbft.MsgRoundChange {
			k.vh = ""
		}
		if groups[k] == nil {
			groups[k] = map[int64]*pbv1.QBFTConsensusMsg{}
		}
		if _, dup := groups[k][m.GetMsg().GetPeerIdx()]; !dup {
			groups[k][m.GetMsg().GetPeerIdx()] = m
		}
	}
	var keys []gk
	for k, g := range groups {
		if len(g) >= c02lQuorum {
			keys = append(keys, k)
		}
	}
	sort.Slice(keys, func(a, b int) bool {
		if keys[a].round != keys[b].round {
			return keys[a].round < keys[b].round
		}
		return keys[a].vh < keys[b].vh
	})
	members := func(k gk) (out []*pbv1.QBFTConsensusMsg) {
		for i := int64(0); i < c05n; i++ {
			if m := groups[k][i]; m != nil {
				out = append(out, m)
			}
		}
		return out
	}
	tops := func(l []*pbv1.QBFTConsensusMsg) (out []*pbv1.QBFTMsg) {
		for _, m := range l {
			out = append(out, m.GetMsg())
		}
		return out
	}
	for _, k := range keys {
		switch qbft.MsgType(k.typ) {
		case qbft.MsgCommit:
			mat.commits = tops(members(k)) // ascending rounds: the highest stays
		case qbft.MsgPrepare:
			mat.prepares = tops(members(k))
		case qbft.MsgRoundChange:
			if mat.rcs != nil {
				continue
			}
			ms := members(k)
			mat.rcs = tops(ms)
			best := int64(0)
			for _, m := range ms {
				if pr := m.GetMsg().GetPreparedRound(); pr > best && len(m.GetJustification()) >= c02lQuorum {
					best = pr
					mat.rcPrepares = m.GetJustification()
				}
			}
		}
	}
	return mat
}

// c02lXmsg is one message of a cross-instance strategy. cat: primer (legitimate use of the material in its own instance),
// transplant, replay, relabel, xvalue.
type c02lXmsg struct {
	cat string
	m   *pbv1.QBFTConsensusMsg
}

func c02lXkey(m *pbv1.QBFTMsg) string {
	return fmt.Sprintf("%x/%v", m.GetSignature(), core.DutyFromProto(m.GetDuty()))
}

// c02lCross builds the messages of the strategy. missing names the genuine material the strategy needs and the member has not seen.
func c02lCross(e *c02lEnv, byz int, mu *c02lMulti, mat c02lMat, ymat c02lMat) (out []c02lXmsg, missing string) {
	X, Y := mu.X.duty(), mu.Y.duty()
	zero := c02lZero32()
	mk := func(typ qbft.MsgType, duty core.Duty, round int64, vh []byte, pr int64, pvh []byte, just []*pbv1.QBFTMsg, extra ...[]byte) *pbv1.QBFTConsensusMsg {
		if vh == nil {
			vh = zero
		}
		if pvh == nil {
			pvh = zero
		}
		cm := &pbv1.QBFTConsensusMsg{Justification: just, Msg: e.sign(&pbv1.QBFTMsg{Type: int64(typ), Duty: core.DutyToProto(duty), PeerIdx: int64(byz),
			Round: round, ValueHash: vh, PreparedRound: pr, PreparedValueHash: pvh}, int64(byz))}
		need := append([][]byte{vh, pvh}, extra...)
		for _, j := range just {
			need = append(need, j.GetValueHash(), j.GetPreparedValueHash())
		}
		done := map[[32]byte]bool{}
		for _, b := range need {
			if h, ok := c02lHash32(b); ok && !done[h] && mat.values[h] != nil {
				done[h] = true
				cm.Values = append(cm.Values, mat.values[h])
			}
		}
		return cm
	}
	// a value of X: the decided one, else the proposed one
	var vx []byte
	switch {
	case len(mat.commits) > 0:
		vx = mat.commits[0].GetValueHash()
	case len(mat.prepares) > 0:
		vx = mat.prepares[0].GetValueHash()
	case mat.pp != nil:
		vx = mat.pp.GetMsg().GetValueHash()
	}
	both := func(f func(d core.Duty) *pbv1.QBFTConsensusMsg) {
		if mu.Warm {
			out = append(out, c02lXmsg{"primer", f(X)})
		}
		out = append(out, c02lXmsg{"transplant", f(Y)})
	}
	switch mu.Strat {
	case "decided":
		if len(mat.commits) < c02lQuorum {
			return nil, "commit-quorum"
		}
		c := mat.commits[0]
		both(func(d core.Duty) *pbv1.QBFTConsensusMsg {
			return mk(qbft.MsgDecided, d, c.GetRound(), c.GetValueHash(), 0, nil, mat.commits)
		})
	case "roundchange":
		if len(mat.prepares) < c02lQuorum {
			return nil, "prepare-quorum"
		}
		p := mat.prepares[0]
		both(func(d core.Duty) *pbv1.QBFTConsensusMsg {
			return mk(qbft.MsgRoundChange, d, p.GetRound()+1, nil, p.GetRound(), p.GetValueHash(), mat.prepares)
		})
	case "preprepare":
		if len(mat.rcs) < c02lQuorum {
			return nil, "round-change-quorum"
		}
		just := append(append([]*pbv1.QBFTMsg{}, mat.rcs...), mat.rcPrepares...)
		v := vx
		if len(mat.rcPrepares) > 0 {
			v = mat.rcPrepares[0].GetValueHash()
		}
		if v == nil {
			return nil, "value"
		}
		both(func(d core.Duty) *pbv1.QBFTConsensusMsg {
			return mk(qbft.MsgPrePrepare, d, mat.rcs[0].GetRound(), v, 0, nil, just)
		})
	case "replay":
		if len(mat.all) == 0 {
			return nil, "messages"
		}
		for _, m := range mat.all {
			out = append(out, c02lXmsg{"replay", m})
		}
	case "relabel":
		if len(mat.commits) < c02lQuorum {
			return nil, "commit-quorum"
		}
		re := func(m *pbv1.QBFTMsg) *pbv1.QBFTMsg {
			c := proto.Clone(m).(*pbv1.QBFTMsg)
			c.Duty = core.DutyToProto(Y)
			return c
		}
		var tops []*pbv1.QBFTMsg
		if mat.pp != nil {
			tops = append(tops, mat.pp.GetMsg())
		}
		tops = append(append(tops, mat.prepares...), mat.commits...)
		for _, m := range tops {
			if m.GetPeerIdx() == int64(byz) {
				continue
			}
			cm := &pbv1.QBFTConsensusMsg{Msg: re(m)}
			if h, ok := c02lHash32(m.GetValueHash()); ok && mat.values[h] != nil {
				cm.Values = append(cm.Values, mat.values[h])
			}
			out = append(out, c02lXmsg{"relabel", cm})
		}
		var rj []*pbv1.QBFTMsg
		for _, c := range mat.commits {
			rj = append(rj, re(c))
		}
		c := mat.commits[0]
		out = append(out, c02lXmsg{"relabel", mk(qbft.MsgDecided, Y, c.GetRound(), c.GetValueHash(), 0, nil, rj)})
	case "xvalues":
		if vx == nil {
			return nil, "value"
		}
		out = append(out, c02lXmsg{"xvalue", mk(qbft.MsgPrePrepare, Y, 1, vx, 0, nil, nil)})
		for round := int64(1); round <= 2; round++ {
			out = append(out, c02lXmsg{"xvalue", mk(qbft.MsgPrepare, Y, round, vx, 0, nil, nil)},
				c02lXmsg{"xvalue", mk(qbft.MsgCommit, Y, round, vx, 0, nil, nil)})
		}
		if ymat.pp != nil { // its votes for Y's value, with a value of X attached in addition
			ypp := ymat.pp.GetMsg()
			for h, v := range ymat.values {
				if mat.values[h] == nil {
					mat.values[h] = v
				}
			}
			out = append(out, c02lXmsg{"xvalue", mk(qbft.MsgPrepare, Y, ypp.GetRound(), ypp.GetValueHash(), 0, nil, nil, vx)},
				c02lXmsg{"xvalue", mk(qbft.MsgCommit, Y, ypp.GetRound(), ypp.GetValueHash(), 0, nil, nil, vx)})
		}
	}
	return out, ""
}

// ---------------------------------------------------------------------------------------------------------
// one script
// ---------------------------------------------------------------------------------------------------------

type c02lResult struct {
	duties    []core.Duty
	decisions map[core.Duty]*[c05n][]string // per duty and member: the values handed to the subscribers, named after whose proposal for which duty they are
	decoded   int                           // of these, how many reached the typed subscriber of Subscribe
	err       string
	byzSent   int
	xsent     map[string]int // cross-instance messages by category, per addressee
	xaccepted map[string]int // of these, how many reached an instance's receive buffer (not counted for replay: indistinguishable from the originals)
	missing   string
	maxBuf    int
}

func c02lZero32() []byte { return make([]byte, 32) }

func c02lRun(t *testing.T, e *c02lEnv, sc c02lScript) (res c02lResult) {
	mu := sc.Multi
	rot := uint64(0)
	if mu != nil {
		rot = mu.Rot
	}
	runtime.VerifSetMapRot(true, rot)
	runtime.VerifSetSelMode(1)
	defer runtime.VerifSetMapRot(false, 0)
	defer runtime.VerifSetSelMode(0)
	res.duties = []core.Duty{c05D}
	lives := [][c05n]c02lLife{sc.Life}
	horizon := 14 * time.Second
	if mu != nil {
		res.duties = []core.Duty{mu.X.duty(), mu.Y.duty()}
		lives = append(lives, mu.LifeY)
		horizon = 20 * time.Second
	}
	res.decisions = map[core.Duty]*[c05n][]string{}
	for _, d := range res.duties {
		res.decisions[d] = &[c05n][]string{}
	}
	res.xsent, res.xaccepted = map[string]int{}, map[string]int{}
	inScript := func(d core.Duty) bool {
		for _, x := range res.duties {
			if x == d {
				return true
			}
		}
		return false
	}
	synctest.Test(t, func(t *testing.T) {
		ctx, cancel := context.WithCancel(context.Background())
		t0 := time.Now()
		genesis := t0.Add(100*time.Millisecond - c05slotDur/3 - time.Duration(c05slot)*c05slotDur)
		net := &c05net{q: make(chan c05sent, 1<<16)}
		go net.dispatch(ctx)
		deafUntil := func(i int) time.Duration {
			if i == sc.Byz || !sc.Life[i].Deaf || sc.Life[i].start() < 0 {
				return 0
			}
			return time.Duration(sc.Life[i].start()) * time.Millisecond
		}
		var (
			obs     sync.Mutex // harness-side records
			byzLog  []*pbv1.QBFTConsensusMsg
			sniffed [c05n][]*pbv1.QBFTConsensusMsg
			xkeys   = map[string]string{}
		)
		// the Byzantine member's reactions
		seenPP, seenRC := map[string]bool{}, map[string]bool{}
		sendTo := func(m *pbv1.QBFTConsensusMsg, to int) {
			b, err := proto.Marshal(m)
			if err != nil {
				return
			}
			net.q <- c05sent{From: sc.Byz, To: to, Frame: c05frame(b)}
		}
		byzSend := func(m *pbv1.QBFTConsensusMsg) {
			obs.Lock()
			byzLog = append(byzLog, m)
			obs.Unlock()
			for i := 0; i < c05n; i++ {
				if i == sc.Byz || time.Since(t0) < deafUntil(i) {
					continue
				}
				res.byzSent++
				sendTo(m, i)
			}
		}
		byzMsg := func(duty core.Duty, typ qbft.MsgType, round int64, vh []byte) *pbv1.QBFTMsg {
			return e.sign(&pbv1.QBFTMsg{Type: int64(typ), Duty: core.DutyToProto(duty), PeerIdx: int64(sc.Byz), Round: round,
				ValueHash: vh, PreparedRound: 0, PreparedValueHash: c02lZero32()}, int64(sc.Byz))
		}
		lostX := func(m *pbv1.QBFTMsg) bool {
			return mu != nil && mu.LossX && core.DutyFromProto(m.GetDuty()) == mu.X.duty() &&
				qbft.MsgType(m.GetType()) == qbft.MsgCommit && m.GetRound() == 1
		}
		net.drop = func(from, to int, m *pbv1.QBFTConsensusMsg) bool {
			if lostX(m.GetMsg()) {
				return true
			}
			if to != sc.Byz {
				return time.Since(t0) < deafUntil(to)
			}
			duty := core.DutyFromProto(m.GetMsg().GetDuty())
			if !inScript(duty) {
				return true
			}
			obs.Lock()
			byzLog = append(byzLog, m)
			obs.Unlock()
			round := m.GetMsg().GetRound()
			switch qbft.MsgType(m.GetMsg().GetType()) {
			case qbft.MsgPrePrepare:
				k := fmt.Sprintf("%v/%d/%x", duty, round, m.GetMsg().GetValueHash())
				if !seenPP[k] {
					seenPP[k] = true
					vals := m.GetValues()
					if mu != nil && mu.Strat == "xvalues" && duty == mu.Y.duty() {
						// the values of the other duty that it knows ride along with its votes: one before, one after the proposed value
						obs.Lock()
						xv := c02lMaterial(byzLog, mu.X.duty(), sc.Byz).values
						obs.Unlock()
						var hs [][32]byte
						for h := range xv {
							if e.table[h] != nil && strings.HasPrefix(e.labels[c02lValKey(e.table[h].det)], mu.X.duty().String()+"#") {
								hs = append(hs, h)
							}
						}
						sort.Slice(hs, func(a, b int) bool { return string(hs[a][:]) < string(hs[b][:]) })
						if len(hs) > 0 {
							vals = append([]*anypb.Any{xv[hs[0]]}, vals...)
							res.xsent["xvalue-attached"]++
						}
						if len(hs) > 1 {
							vals = append(vals, xv[hs[len(hs)-1]])
						}
					}
					go func() {
						byzSend(&pbv1.QBFTConsensusMsg{Msg: byzMsg(duty, qbft.MsgPrepare, round, m.GetMsg().GetValueHash()), Values: vals})
						if c := byzMsg(duty, qbft.MsgCommit, round, m.GetMsg().GetValueHash()); !lostX(c) {
							byzSend(&pbv1.QBFTConsensusMsg{Msg: c, Values: vals})
						}
					}()
				}
			case qbft.MsgRoundChange:
				k := fmt.Sprintf("%v/%d", duty, round)
				if !seenRC[k] {
					seenRC[k] = true
					go byzSend(&pbv1.QBFTConsensusMsg{Msg: byzMsg(duty, qbft.MsgRoundChange, round, c02lZero32())})
				}
			}
			return true
		}
		for i := 0; i < c05n; i++ {
			if i == sc.Byz {
				net.nodes = append(net.nodes, &c05node{idx: i, host: &c05host{id: e.peers[i].ID, idx: i, net: net}, delivered: map[core.Duty][][]byte{}})
				continue
			}
			nd, err := c05newNode(ctx, e.c05env, i, net, genesis, nil)
			if err != nil {
				res.err = err.Error()
				cancel()
				return
			}
			// observation only: what the component hands to its subscribers (before the typed decoding of Subscribe), and
			// what its instances took out of their receive buffers
			nd.c.subs = append(nd.c.subs, func(_ context.Context, duty core.Duty, value proto.Message) error {
				obs.Lock()
				defer obs.Unlock()
				if res.decisions[duty] == nil {
					res.decisions[duty] = &[c05n][]string{}
					res.duties = append(res.duties, duty)
				}
				res.decisions[duty][i] = append(res.decisions[duty][i], e.label(value))
				return nil
			})
			nd.c.snifferFunc = func(in *pbv1.SniffedConsensusInstance) {
				obs.Lock()
				defer obs.Unlock()
				for _, sm := range in.GetMsgs() {
					sniffed[i] = append(sniffed[i], sm.GetMsg())
				}
			}
			net.nodes = append(net.nodes, nd)
		}
		for di, duty := range res.duties {
			for i, nd := range net.nodes {
				if i == sc.Byz {
					continue
				}
				l := lives[di][i]
				if l.Part >= 0 {
					go func() {
						select {
						case <-time.After(time.Duration(l.Part)*time.Millisecond + time.Duration((i+1)*7+di*3)*time.Microsecond):
							_ = nd.c.Participate(ctx, duty)
						case <-ctx.Done():
						}
					}()
				}
				if l.Prop >= 0 {
					go func() {
						select {
						case <-time.After(time.Duration(l.Prop)*time.Millisecond + time.Duration((i+1)*11+di*5)*time.Microsecond):
							_ = nd.c.Propose(ctx, duty, e.sets[duty][i])
						case <-ctx.Done():
						}
					}()
				}
			}
		}
		if mu != nil && mu.Strat != "" && sc.Byz >= 0 {
			go func() {
				select {
				case <-time.After(time.Duration(mu.FireMs)*time.Millisecond + 500*time.Microsecond):
				case <-ctx.Done():
					return
				}
				obs.Lock()
				log := append([]*pbv1.QBFTConsensusMsg(nil), byzLog...)
				obs.Unlock()
				msgs, missing := c02lCross(e, sc.Byz, mu, c02lMaterial(log, mu.X.duty(), sc.Byz), c02lMaterial(log, mu.Y.duty(), sc.Byz))
				res.missing = missing
				ordinary := map[string]bool{} // what it sent anyway as the yes-voter (signatures are deterministic)
				for _, m := range log {
					if m.GetMsg().GetPeerIdx() == int64(sc.Byz) {
						ordinary[c02lXkey(m.GetMsg())] = true
					}
				}
				for _, x := range msgs {
					if k := c02lXkey(x.m.GetMsg()); !ordinary[k] {
						obs.Lock()
						xkeys[k] = x.cat
						obs.Unlock()
					}
					for i := 0; i < c05n; i++ {
						if i == sc.Byz || (!mu.ToAll && i != mu.Victim) {
							continue
						}
						res.xsent[x.cat]++
						sendTo(x.m, i)
					}
				}
			}()
		}
		time.Sleep(horizon)
		cancel()
		synctest.Wait()
		// an instance posts its result into a one-slot channel that Propose reads; results nobody waits for (Participate-only
		// life cycles, or a defect that runs an instance twice) are taken out here so that every goroutine can end
		for k := 0; k < 6; k++ {
			for i, nd := range net.nodes {
				if i == sc.Byz {
					continue
				}
				for _, duty := range res.duties {
					select {
					case <-nd.c.getInstanceIO(duty).ErrCh:
					default:
					}
					select {
					case <-nd.c.getInstanceIO(duty).DecidedAtCh:
					default:
					}
				}
			}
			synctest.Wait()
		}
		time.Sleep(2 * time.Minute) // stream handlers run on their own receive timeout
		synctest.Wait()
		obs.Lock()
		defer obs.Unlock()
		for i, nd := range net.nodes {
			if i == sc.Byz {
				continue
			}
			nd.mu.Lock()
			for _, l := range nd.delivered {
				res.decoded += len(l)
			}
			nd.mu.Unlock()
			res.maxBuf = max(res.maxBuf, c05maxBuffered(nd.c))
			if len(xkeys) == 0 {
				continue
			}
			got := sniffed[i]
			for _, l := range c05peek(nd.c) {
				for _, m := range l {
					got = append(got, m.ToConsensusMsg())
				}
			}
			for _, m := range got {
				if cat, ok := xkeys[c02lXkey(m.GetMsg())]; ok && cat != "replay" {
					res.xaccepted[cat]++
				}
			}
		}
	})
	return res
}

func c02lCheck(sc c02lScript, r c02lResult) (sigs, descs []string) {
	for di, duty := range r.duties {
		suffix, name := "", ""
		if sc.Multi != nil {
			strat := sc.Multi.Strat
			if strat == "" {
				strat = "none"
			}
			which := "other"
			switch di {
			case 0:
				which = "X"
			case 1:
				which = "Y"
			}
			suffix = fmt.Sprintf(" duties=2 duty=%s strategy=%s", which, strat)
			name = fmt.Sprintf(" %v (%s)", duty, which)
		}
		dec := r.decisions[duty]
		if dec == nil {
			continue
		}
		vals := map[string][]int{}
		for i := 0; i < c05n; i++ {
			if i == sc.Byz {
				continue
			}
			if len(dec[i]) > 1 {
				sigs = append(sigs, "kind=decided-twice level=component"+suffix)
				descs = append(descs, fmt.Sprintf("member %d handed %d decisions for one duty%s to its subscribers: %v", i, len(dec[i]), name, dec[i]))
			}
			for _, v := range dec[i] {
				vals[v] = append(vals[v], i)
			}
		}
		if len(vals) > 1 {
			sigs = append(sigs, "kind=disagreement level=component"+suffix)
			expl := ""
			for v := range vals {
				if !strings.HasPrefix(v, duty.String()+"#") {
					expl += fmt.Sprintf("; %s is not a value that a member proposed for %v", v, duty)
				}
			}
			descs = append(descs, fmt.Sprintf("honest members decided different values for one duty%s: %v (value -> members; values are named <duty>#p<proposer>)%s", name, vals, expl))
		}
	}
	return
}

// ---------------------------------------------------------------------------------------------------------
// the script spaces
// ---------------------------------------------------------------------------------------------------------

func c02lSingleScripts(thorough bool) (scripts []c02lScript) {
	lives := []c02lLife{{0, 0, false}, {0, 1200, false}, {1200, 1200, true}, {0, -1, false}}
	if thorough {
		lives = append(lives, c02lLife{-1, 0, false}, c02lLife{0, 300, false}, c02lLife{1200, 1200, false}, c02lLife{1200, 2400, true}, c02lLife{2400, 2400, true}, c02lLife{-1, 1200, true})
	}
	for byz := -1; byz < c05n; byz++ {
		idx := make([]int, c05n)
		for {
			sc := c02lScript{Byz: byz}
			skip := false
			for i := 0; i < c05n; i++ {
				if i == byz {
					if idx[i] != 0 {
						skip = true
					}
					continue
				}
				sc.Life[i] = lives[idx[i]]
			}
			if !skip {
				scripts = append(scripts, sc)
			}
			j := 0
			for j < c05n {
				idx[j]++
				if idx[j] < len(lives) {
					break
				}
				idx[j] = 0
				j++
			}
			if j == c05n {
				break
			}
		}
	}
	return scripts
}

type c02lPair struct {
	name string
	x, y core.Duty
}

var c02lPairs = []c02lPair{
	{"next-slot/same-type", c05D, c05D2},
	{"same-slot/other-type", c05D, c02lAgg},
	{"next-slot/other-type/same-leaders", c05D, c02lAgg2},
}

type c02lStrat struct {
	name   string
	warm   bool
	xshape string // the shape of X that the quick tier pairs the strategy with (one that yields its material)
}

const (
	c02lFire    = 2700 // ms: X is decided in every shape (at the latest at 2.1 s, round 3)
	c02lLateY   = 3000 // ms: the late start of Y ("pre": the victim; "run": Y's round-1 leader proposes)
	c02lYAfterX = 2400
)

// c02lMultiScript expands the symbolic coordinates into explicit life cycles.
func c02lMultiScript(byz int, p c02lPair, order, when, xshape string, st c02lStrat, victim int, toAll bool) c02lScript {
	tx, ty := 0, 0
	switch order {
	case "X<Y":
		ty = c02lYAfterX
	case "Y<X":
		tx = 300
	}
	mu := &c02lMulti{Pair: p.name, X: c02lDJ(p.x), Y: c02lDJ(p.y), Order: order, When: when, XShape: xshape, LossX: xshape == "r1-commits-lost",
		Strat: st.name, Warm: st.warm, Victim: victim, ToAll: toAll, FireMs: c02lFire}
	sc := c02lScript{Byz: byz, Multi: mu}
	for i := 0; i < c05n; i++ {
		sc.Life[i] = c02lLife{Part: tx, Prop: tx}
		mu.LifeY[i] = c02lLife{Part: ty, Prop: ty}
	}
	if xshape == "late-leader" {
		sc.Life[c05leader(p.x, 1)].Prop = tx + 1200
	}
	switch when {
	case "pre":
		mu.LifeY[victim] = c02lLife{Part: c02lLateY, Prop: c02lLateY}
	case "run":
		mu.LifeY[c05leader(p.y, 1)].Prop = c02lLateY
	}
	if byz >= 0 {
		sc.Life[byz], mu.LifeY[byz] = c02lLife{}, c02lLife{}
	}
	return sc
}

// c02lRotations: the same script under the other start offsets of map iteration (which of several attached values a
// member picks up, and which COMMIT of a quorum comes first, can depend on the iteration order of small maps).
func c02lRotations(sc c02lScript) (out []c02lScript) {
	for rot := uint64(1); rot < c05n; rot++ {
		mu := *sc.Multi
		mu.Rot = rot
		out = append(out, c02lScript{Byz: sc.Byz, Life: sc.Life, Multi: &mu})
	}
	return out
}

func c02lMultiScripts(thorough bool) (scripts []c02lScript) {
	orders := []string{"X<Y", "X||Y", "Y<X"}
	whens := []string{"pre", "run", "post"}
	shapes := []string{"fast", "late-leader", "r1-commits-lost"}
	strats := []c02lStrat{
		{"decided", true, "fast"}, {"preprepare", true, "r1-commits-lost"}, {"roundchange", true, "r1-commits-lost"},
		{"replay", false, "fast"}, {"relabel", false, "fast"}, {"xvalues", false, "fast"},
		{"decided", false, "fast"}, {"preprepare", false, "r1-commits-lost"}, {"roundchange", false, "r1-commits-lost"},
	}
	none := c02lStrat{}
	if !thorough {
		// four honest members, two duties: every pair x order x late-start shape of Y x {X decided in round 1, X with prepared round changes}
		for _, p := range c02lPairs {
			for _, o := range orders {
				for _, w := range whens {
					for _, xs := range []string{"fast", "r1-commits-lost"} {
						scripts = append(scripts, c02lMultiScript(-1, p, o, w, xs, none, 0, false))
					}
				}
			}
		}
		// Byzantine member under every index x the first two pairs x order x when x the six strategies (transplants warm) x {one victim, all}
		for byz := 0; byz < c05n; byz++ {
			for _, p := range c02lPairs[:2] {
				for _, o := range orders {
					for _, w := range whens {
						for _, st := range strats[:6] {
							for _, all := range []bool{false, true} {
								scripts = append(scripts, c02lMultiScript(byz, p, o, w, st.xshape, st, (byz+1)%c05n, all))
								if st.name == "xvalues" && all {
									scripts = append(scripts, c02lRotations(scripts[len(scripts)-1])...)
								}
							}
						}
					}
				}
			}
		}
		return scripts
	}
	for byz := -1; byz < c05n; byz++ {
		for _, p := range c02lPairs {
			for _, o := range orders {
				for _, w := range whens {
					for _, xs := range shapes {
						for victim := 0; victim < c05n; victim++ {
							if victim == byz {
								continue
							}
							scripts = append(scripts, c02lMultiScript(byz, p, o, w, xs, none, victim, false))
							if byz < 0 {
								continue
							}
							for _, st := range strats {
								for _, all := range []bool{false, true} {
									scripts = append(scripts, c02lMultiScript(byz, p, o, w, xs, st, victim, all))
									if st.name == "xvalues" && all {
										scripts = append(scripts, c02lRotations(scripts[len(scripts)-1])...)
									}
								}
							}
						}
					}
				}
			}
		}
	}
	return scripts
}

func TestVerifC02L(t *testing.T) {
	r := enumx.New(t, "C02")
	defer r.Finish()
	e := c02lNewEnv(t)
	judge := func(sc c02lScript) {
		res := c02lRun(t, e, sc)
		if res.err != "" {
			r.Note("component run not built: " + res.err)
			return
		}
		sigs, descs := c02lCheck(sc, res)
		var nd [2]int
		for di, duty := range res.duties {
			for i := range res.decisions[duty] {
				if di < 2 && len(res.decisions[duty][i]) > 0 {
					nd[di]++
				}
			}
		}
		cls := fmt.Sprintf("component:byz=%v:decided=%d", sc.Byz >= 0, nd[0])
		if mu := sc.Multi; mu != nil {
			cls = fmt.Sprintf("component2:strategy=%s:when=%s:decidedX=%d:decidedY=%d", mu.Strat, mu.When, nd[0], nd[1])
			r.Count("component_multi_duty_scripts", 1)
			r.Count("component_multi_duty_members_decided_y", nd[1])
			if mu.Strat != "" {
				if res.missing != "" {
					r.Count("component_cross_instance_material_not_seen:"+mu.Strat+":"+res.missing, 1)
				}
				for cat, n := range res.xsent {
					r.Count("component_cross_instance_sent:"+cat, n)
				}
				for cat, n := range res.xaccepted {
					r.Count("component_cross_instance_reached_a_receive_buffer:"+cat, n)
				}
			}
		} else {
			r.Count("component_scripts", 1)
		}
		r.Eval(cls)
		r.Outcome(cls)
		r.Steps(1)
		r.Count("component_members_decided", nd[0])
		r.Count("component_decisions_decoded_by_typed_subscriber", res.decoded)
		r.Count("component_byzantine_messages", res.byzSent)
		if res.maxBuf >= 100 {
			r.Count("component_receive_buffer_full", 1)
		}
		for i, sig := range sigs {
			ok := true
			for k := 0; k < 3; k++ {
				s2, _ := c02lCheck(sc, c02lRun(t, e, sc))
				if !strings.Contains(strings.Join(s2, "|")+"|", sig+"|") {
					ok = false
				}
			}
			if !ok {
				r.Unconfirmed(sig + " " + sc.String())
				continue
			}
			r.Violation(sig, fmt.Sprintf("%s [script %s]", descs[i], sc), sc)
		}
	}
	if r.ReplayPath != "" {
		var sc c02lScript
		if err := r.ReplayCase(&sc); err != nil {
			t.Fatal(err)
		}
		res := c02lRun(t, e, sc)
		fmt.Printf("replay %s ->", sc)
		for _, d := range res.duties {
			fmt.Printf(" %v: %v", d, *res.decisions[d])
		}
		fmt.Printf(" cross-instance sent=%v reached-a-buffer=%v not-seen=%q err=%q\n", res.xsent, res.xaccepted, res.missing, res.err)
		judge(sc)
		return
	}
	scripts := append(c02lSingleScripts(enumx.Thorough()), c02lMultiScripts(enumx.Thorough())...)
	samples := 0
	for i, sc := range scripts {
		if !r.Mine() {
			continue
		}
		if r.Expired() {
			r.NotExhaustive(fmt.Sprintf("component scripts: stopped by the budget at %d of %d", i, len(scripts)))
			return
		}
		judge(sc)
		if i < 2 || (sc.Multi != nil && sc.Multi.Strat != "" && samples < 2) {
			r.Sample(sc.String())
			if sc.Multi != nil {
				samples++
			}
		}
	}
}
