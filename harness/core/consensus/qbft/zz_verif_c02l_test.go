package qbft

// C02 (and the "decides at most once" clause of C03) at the level of the consensus COMPONENT: the explicit-state search in
// core/qbft decides agreement for qbft.Run instances that live from the start of a duty to its decision; this part
// covers what the component adds around them - the life cycle Participate / Propose / decision / late calls, the per
// duty instance bookkeeping and the receive buffers - which is what decides whether a node really runs ONE instance
// with ONE continuous state per duty.
//
// Engine timex: every script of a finite product is executed on real Consensus components (real NewConsensus,
// gater, deadliner, round timers, transport, wire handler; the stub libp2p host and network of the C05 harness)
// in a testing/synctest bubble:
//   - per honest member a life cycle: Participate and Propose at offsets from {0, after round 1 (1.2 s), later (2.4 s), never},
//     optionally "deaf" before its first call (everything sent to it earlier is lost);
//   - the fourth member is honest, or a Byzantine "yes-voter" under every index: it answers every PRE-PREPARE it sees
//     with PREPARE and COMMIT for that value and every ROUND-CHANGE with a null ROUND-CHANGE for that round (it never
//     contradicts itself in one round, yet supports whatever is proposed - within f = 1);
// Oracle: no honest component hands more than one decision per duty to its subscribers; all decisions of honest
// components are equal.

import (
	"context"
	"crypto/sha256"
	"fmt"
	"runtime"
	"sort"
	"strings"
	"testing"
	"testing/synctest"
	"time"

	"google.golang.org/protobuf/proto"

	"github.com/obolnetwork/charon/core"
	pbv1 "github.com/obolnetwork/charon/core/corepb/v1"
	"github.com/obolnetwork/charon/core/qbft"
	"github.com/obolnetwork/charon/zzverif/enumx"
)

type c02lLife struct {
	Part int  `json:"participate_at_ms"` // -1 = never
	Prop int  `json:"propose_at_ms"`     // -1 = never
	Deaf bool `json:"deaf_before_first_call"`
}

type c02lScript struct {
	Byz  int         `json:"byzantine_yes_voter"` // -1: four honest members
	Life [4]c02lLife `json:"life"`
}

func (s c02lScript) String() string {
	var p []string
	for i, l := range s.Life {
		if i == s.Byz {
			p = append(p, "byz")
			continue
		}
		d := ""
		if l.Deaf {
			d = "/deaf"
		}
		p = append(p, fmt.Sprintf("P%d,Q%d%s", l.Part, l.Prop, d))
	}
	return fmt.Sprintf("byz=%d [%s]", s.Byz, strings.Join(p, " "))
}

func (l c02lLife) start() int {
	switch {
	case l.Part < 0:
		return l.Prop
	case l.Prop < 0:
		return l.Part
	case l.Part < l.Prop:
		return l.Part
	}
	return l.Prop
}

type c02lResult struct {
	decisions [4][]string
	err       string
	byzSent   int
}

func c02lZero32() []byte { return make([]byte, 32) }

func c02lRun(t *testing.T, e *c05env, sc c02lScript) (res c02lResult) {
	runtime.VerifSetMapRot(true, 0)
	runtime.VerifSetSelMode(1)
	defer runtime.VerifSetMapRot(false, 0)
	defer runtime.VerifSetSelMode(0)
	duty := c05D
	synctest.Test(t, func(t *testing.T) {
		ctx, cancel := context.WithCancel(context.Background())
		t0 := time.Now()
		genesis := t0.Add(100*time.Millisecond - c05slotDur/3 - time.Duration(c05slot)*c05slotDur)
		net := &c05net{q: make(chan c05sent, 1<<16)}
		go net.dispatch(ctx)
		deafUntil := func(i int) time.Duration {
			if i == sc.Byz || !sc.Life[i].Deaf || sc.Life[i].start() < 0 {
				return 0
			}
			return time.Duration(sc.Life[i].start()) * time.Millisecond
		}
		// the Byzantine member's reactions
		seenPP, seenRC := map[string]bool{}, map[int64]bool{}
		byzSend := func(m *pbv1.QBFTConsensusMsg) {
			b, err := proto.Marshal(m)
			if err != nil {
				return
			}
			frame := c05frame(b)
			for i := 0; i < c05n; i++ {
				if i == sc.Byz || time.Since(t0) < deafUntil(i) {
					continue
				}
				res.byzSent++
				net.q <- c05sent{From: sc.Byz, To: i, Frame: frame}
			}
		}
		byzMsg := func(typ qbft.MsgType, round int64, vh []byte) *pbv1.QBFTMsg {
			return e.sign(&pbv1.QBFTMsg{Type: int64(typ), Duty: core.DutyToProto(duty), PeerIdx: int64(sc.Byz), Round: round,
				ValueHash: vh, PreparedRound: 0, PreparedValueHash: c02lZero32()}, int64(sc.Byz))
		}
		net.drop = func(from, to int, m *pbv1.QBFTConsensusMsg) bool {
			if to != sc.Byz {
				return time.Since(t0) < deafUntil(to)
			}
			if core.DutyFromProto(m.GetMsg().GetDuty()) != duty {
				return true
			}
			round := m.GetMsg().GetRound()
			switch qbft.MsgType(m.GetMsg().GetType()) {
			case qbft.MsgPrePrepare:
				k := fmt.Sprintf("%d/%x", round, m.GetMsg().GetValueHash())
				if !seenPP[k] {
					seenPP[k] = true
					vals := m.GetValues()
					go func() {
						byzSend(&pbv1.QBFTConsensusMsg{Msg: byzMsg(qbft.MsgPrepare, round, m.GetMsg().GetValueHash()), Values: vals})
						byzSend(&pbv1.QBFTConsensusMsg{Msg: byzMsg(qbft.MsgCommit, round, m.GetMsg().GetValueHash()), Values: vals})
					}()
				}
			case qbft.MsgRoundChange:
				if !seenRC[round] {
					seenRC[round] = true
					go byzSend(&pbv1.QBFTConsensusMsg{Msg: byzMsg(qbft.MsgRoundChange, round, c02lZero32())})
				}
			}
			return true
		}
		for i := 0; i < c05n; i++ {
			if i == sc.Byz {
				net.nodes = append(net.nodes, &c05node{idx: i, host: &c05host{id: e.peers[i].ID, idx: i, net: net}, delivered: map[core.Duty][][]byte{}})
				continue
			}
			nd, err := c05newNode(ctx, e, i, net, genesis, nil)
			if err != nil {
				res.err = err.Error()
				cancel()
				return
			}
			net.nodes = append(net.nodes, nd)
		}
		for i, nd := range net.nodes {
			if i == sc.Byz {
				continue
			}
			l := sc.Life[i]
			if l.Part >= 0 {
				go func() {
					select {
					case <-time.After(time.Duration(l.Part)*time.Millisecond + time.Duration(i+1)*7*time.Microsecond):
						_ = nd.c.Participate(ctx, duty)
					case <-ctx.Done():
					}
				}()
			}
			if l.Prop >= 0 {
				go func() {
					select {
					case <-time.After(time.Duration(l.Prop)*time.Millisecond + time.Duration(i+1)*11*time.Microsecond):
						_ = nd.c.Propose(ctx, duty, e.sets[duty][i])
					case <-ctx.Done():
					}
				}()
			}
		}
		time.Sleep(14 * time.Second)
		cancel()
		synctest.Wait()
		// an instance posts its result into a one-slot channel that Propose reads; results nobody waits for (Participate-only
		// life cycles, or a defect that runs an instance twice) are taken out here so that every goroutine can end
		for k := 0; k < 6; k++ {
			for i, nd := range net.nodes {
				if i == sc.Byz {
					continue
				}
				select {
				case <-nd.c.getInstanceIO(duty).ErrCh:
				default:
				}
				select {
				case <-nd.c.getInstanceIO(duty).DecidedAtCh:
				default:
				}
			}
			synctest.Wait()
		}
		time.Sleep(2 * time.Minute) // stream handlers run on their own receive timeout
		synctest.Wait()
		for i, nd := range net.nodes {
			nd.mu.Lock()
			for _, d := range nd.delivered[duty] {
				h := sha256.Sum256(d)
				res.decisions[i] = append(res.decisions[i], fmt.Sprintf("%x", h[:4]))
			}
			nd.mu.Unlock()
		}
	})
	return res
}

func c02lCheck(sc c02lScript, r c02lResult) (sigs, descs []string) {
	vals := map[string][]int{}
	for i := 0; i < c05n; i++ {
		if i == sc.Byz {
			continue
		}
		if len(r.decisions[i]) > 1 {
			sigs = append(sigs, "kind=decided-twice level=component")
			descs = append(descs, fmt.Sprintf("member %d handed %d decisions for one duty to its subscribers: %v", i, len(r.decisions[i]), r.decisions[i]))
		}
		for _, v := range r.decisions[i] {
			vals[v] = append(vals[v], i)
		}
	}
	if len(vals) > 1 {
		sigs = append(sigs, "kind=disagreement level=component")
		descs = append(descs, fmt.Sprintf("honest members decided different values for one duty: %v", vals))
	}
	return
}

func TestVerifC02L(t *testing.T) {
	r := enumx.New(t, "C02")
	defer r.Finish()
	e := c05newEnv(t)
	judge := func(sc c02lScript) {
		res := c02lRun(t, e, sc)
		if res.err != "" {
			r.Note("component run not built: " + res.err)
			return
		}
		sigs, descs := c02lCheck(sc, res)
		nd := 0
		for i := range res.decisions {
			if len(res.decisions[i]) > 0 {
				nd++
			}
		}
		cls := fmt.Sprintf("component:byz=%v:decided=%d", sc.Byz >= 0, nd)
		r.Eval(cls)
		r.Outcome(cls)
		r.Steps(1)
		r.Count("component_scripts", 1)
		r.Count("component_members_decided", nd)
		r.Count("component_byzantine_messages", res.byzSent)
		for i, sig := range sigs {
			ok := true
			for k := 0; k < 3; k++ {
				s2, _ := c02lCheck(sc, c02lRun(t, e, sc))
				if !strings.Contains(strings.Join(s2, "|"), sig) {
					ok = false
				}
			}
			if !ok {
				r.Unconfirmed(sig + " " + sc.String())
				continue
			}
			r.Violation(sig, fmt.Sprintf("%s [script %s]", descs[i], sc), sc)
		}
	}
	if r.ReplayPath != "" {
		var sc c02lScript
		if err := r.ReplayCase(&sc); err != nil {
			t.Fatal(err)
		}
		res := c02lRun(t, e, sc)
		fmt.Printf("replay %s -> decisions %v err=%q\n", sc, res.decisions, res.err)
		judge(sc)
		return
	}
	lives := []c02lLife{{0, 0, false}, {0, 1200, false}, {1200, 1200, true}, {0, -1, false}}
	if enumx.Thorough() {
		lives = append(lives, c02lLife{-1, 0, false}, c02lLife{0, 300, false}, c02lLife{1200, 1200, false}, c02lLife{1200, 2400, true}, c02lLife{2400, 2400, true}, c02lLife{-1, 1200, true})
	}
	var scripts []c02lScript
	for byz := -1; byz < c05n; byz++ {
		idx := make([]int, c05n)
		for {
			sc := c02lScript{Byz: byz}
			skip := false
			for i := 0; i < c05n; i++ {
				if i == byz {
					if idx[i] != 0 {
						skip = true
					}
					continue
				}
				sc.Life[i] = lives[idx[i]]
			}
			if !skip {
				scripts = append(scripts, sc)
			}
			j := 0
			for j < c05n {
				idx[j]++
				if idx[j] < len(lives) {
					break
				}
				idx[j] = 0
				j++
			}
			if j == c05n {
				break
			}
		}
	}
	sort.SliceStable(scripts, func(a, b int) bool { return false })
	for i, sc := range scripts {
		if !r.Mine() {
			continue
		}
		if r.Expired() {
			r.NotExhaustive(fmt.Sprintf("component scripts: stopped by the budget at %d of %d", i, len(scripts)))
			return
		}
		judge(sc)
		if i < 2 {
			r.Sample(sc.String())
		}
	}
}
