package qbft

// C14 (consensus side): the consensus hash is a pure function of the value (same hash for equal sets under
// every map iteration order and insertion order, after a wire round trip, and different for different
// values), and the real Decide/Compare callbacks survive structurally incomplete values proposed by a
// leader: Decide -> subscriber (UnsignedDataSetFromProto) -> dutydb.Store; Compare -> attestationChecker.

import (
	"bytes"
	"context"
	"encoding/base64"
	"encoding/json"
	"fmt"
	"io"
	"os"
	"runtime"
	"runtime/debug"
	"sort"
	"strings"
	"testing"

	"go.uber.org/zap/zapcore"
	"google.golang.org/protobuf/proto"
	"google.golang.org/protobuf/types/known/anypb"

	"github.com/obolnetwork/charon/app/log"
	"github.com/obolnetwork/charon/core"
	"github.com/obolnetwork/charon/core/consensus/timer"
	pbv1 "github.com/obolnetwork/charon/core/corepb/v1"
	"github.com/obolnetwork/charon/core/dutydb"
	"github.com/obolnetwork/charon/core/qbft"
	"github.com/obolnetwork/charon/testutil"
	"github.com/obolnetwork/charon/zzverif/enumx"
)

type c14qDeadliner struct{ ch chan core.Duty }

func (d c14qDeadliner) Add(core.Duty) core.DeadlineStatus { return core.DeadlineScheduled }
func (d c14qDeadliner) C() <-chan core.Duty               { return d.ch }

type c14qCase struct {
	Part     string `json:"part"`
	Duty     int    `json:"duty_type"`
	Data     string `json:"data_b64"`
	Unit     string `json:"type"`
	Mutation string `json:"mutation"`
	Where    string `json:"where"`
}

type c14qPanic struct {
	val, top, topCharon string
	chain               []string
}

func c14qGuard(f func()) (p *c14qPanic) {
	defer func() {
		r := recover()
		if r == nil {
			return
		}
		p = &c14qPanic{val: fmt.Sprint(r), topCharon: "(none)"}
		lines := strings.Split(string(debug.Stack()), "\n")
		type fr struct{ fn, file string }
		var frames []fr
		for i := 1; i+1 < len(lines); i++ {
			if strings.HasPrefix(lines[i], "\t") || lines[i] == "" || !strings.HasPrefix(lines[i+1], "\t") {
				continue
			}
			fn := lines[i]
			for k := 0; k < len(fn); k++ {
				if fn[k] == '(' && !(k+1 < len(fn) && fn[k+1] == '*') {
					fn = fn[:k]
					break
				}
			}
			frames = append(frames, fr{fn, lines[i+1]})
		}
		start := 0
		for i, f := range frames {
			if f.fn == "panic" || strings.HasPrefix(f.fn, "runtime.") {
				start = i + 1
			}
			if strings.HasPrefix(f.fn, "testing.") {
				break
			}
		}
		short := func(s string) string {
			s = strings.TrimPrefix(s, "github.com/obolnetwork/charon/")
			s = strings.TrimPrefix(s, "github.com/attestantio/go-eth2-client/")
			return strings.TrimPrefix(s, "github.com/")
		}
		for _, f := range frames[start:] {
			if strings.HasPrefix(f.fn, "testing.") {
				break
			}
			if strings.Contains(f.file, "zz_verif_") {
				continue
			}
			if p.top == "" {
				p.top = short(f.fn)
			}
			if strings.HasPrefix(f.fn, "github.com/obolnetwork/charon/") {
				if p.topCharon == "(none)" {
					p.topCharon = short(f.fn)
				}
				if len(p.chain) < 12 {
					p.chain = append(p.chain, short(f.fn))
				}
			}
		}
	}()
	f()
	return nil
}

// c14qMutations: the single-node mutations that yield structurally incomplete but well-formed JSON.
func c14qMutations(doc []byte, emit func(kind, path string, mutated []byte)) {
	dec := json.NewDecoder(bytes.NewReader(doc))
	dec.UseNumber()
	var root any
	if dec.Decode(&root) != nil {
		return
	}
	out := func(kind, path string) {
		if b, err := json.Marshal(root); err == nil {
			emit(kind, path, b)
		}
	}
	var walk func(node any, path string, replace func(any), remove func() func())
	walk = func(node any, path string, replace func(any), remove func() func()) {
		for _, m := range []struct {
			kind string
			v    any
		}{{"null", nil}, {"emptyarr", []any{}}, {"nullarr", []any{nil}}, {"emptyobj", map[string]any{}}, {"type:string", "x"}, {"type:number", json.Number("7")}, {"emptystr", ""}} {
			replace(m.v)
			out(m.kind, path)
		}
		replace(node)
		if remove != nil {
			undo := remove()
			out("removed", path)
			undo()
		}
		switch x := node.(type) {
		case map[string]any:
			keys := make([]string, 0, len(x))
			for k := range x {
				keys = append(keys, k)
			}
			sort.Strings(keys)
			for _, k := range keys {
				k := k
				walk(x[k], path+"."+k, func(v any) { x[k] = v }, func() func() {
					old := x[k]
					delete(x, k)
					return func() { x[k] = old }
				})
			}
		case []any:
			for i := range x {
				i := i
				walk(x[i], path+"[]", func(v any) { x[i] = v }, func() func() {
					replace(append(append([]any{}, x[:i]...), x[i+1:]...))
					return func() { replace(x) }
				})
			}
		}
	}
	walk(root, "$", func(v any) { root = v }, nil)
}

type c14qEnv struct {
	r     *enumx.Run
	def   qbft.Definition[core.Duty, [32]byte, proto.Message]
	db    *dutydb.MemDB
	stage string
	sub   struct{ decoded, stored int }
}

func c14qNewEnv(r *enumx.Run) *c14qEnv {
	e := &c14qEnv{r: r}
	c := &Consensus{}
	// exactly the production wiring: consensus.Subscribe(dutyDB.Store)
	c.Subscribe(func(ctx context.Context, duty core.Duty, set core.UnsignedDataSet) error {
		e.sub.decoded++
		e.stage = "store"
		err := e.db.Store(ctx, duty, set)
		if err == nil {
			e.sub.stored++
		}
		return err
	})
	e.def = newDefinition(4, c.subscribers, timer.NewIncreasingRoundTimer(), func(int64) {}, true)
	return e
}

// run pushes one (possibly malformed) leader value through Compare and Decide.
func (e *c14qEnv) run(c c14qCase) (p *c14qPanic, stage string) {
	data, _ := base64.StdEncoding.DecodeString(c.Data)
	pk := string(testutilPubKey)
	leader := &pbv1.UnsignedDataSet{Set: map[string][]byte{pk: data}}
	duty := core.Duty{Slot: 100, Type: core.DutyType(c.Duty)}
	e.db = dutydb.NewMemDB(c14qDeadliner{ch: make(chan core.Duty)})
	e.sub.decoded, e.sub.stored = 0, 0
	e.stage = "compare"
	p = c14qGuard(func() {
		anyV, err := anypb.New(leader)
		if err != nil {
			return
		}
		hash, err := hashProto(leader)
		if err != nil {
			return
		}
		values := map[[32]byte]*anypb.Any{hash: anyV}
		msg, err := newMsg(&pbv1.QBFTMsg{Type: int64(qbft.MsgPrePrepare), Duty: core.DutyToProto(duty), PeerIdx: 1, Round: 1, ValueHash: hash[:]}, nil, values)
		if err != nil {
			return
		}
		e.r.Steps(2)
		if c.Duty == int(core.DutyAttester) && localAtt != nil {
			errCh, protoCh := make(chan error, 2), make(chan proto.Message, 2)
			e.def.Compare(context.Background(), msg, nil, localAtt, errCh, protoCh)
		}
		e.stage = "decide"
		e.def.Decide(context.Background(), duty, hash, 1, []qbft.Msg[core.Duty, [32]byte, proto.Message]{msg})
	})
	return p, e.stage
}

var (
	testutilPubKey core.PubKey
	localAtt       *pbv1.UnsignedDataSet
)

func (e *c14qEnv) check(c c14qCase, key string) {
	r := e.r
	p, stage := e.run(c)
	r.Eval(key)
	switch {
	case p != nil:
	case e.sub.stored > 0:
		r.Count("decided_value_stored", 1)
	case e.sub.decoded > 0:
		r.Count("decided_value_decoded_store_refused", 1)
	default:
		r.Count("decided_value_rejected_by_decode", 1)
	}
	if p == nil {
		return
	}
	cls := "other"
	if strings.Contains(p.val, "nil pointer") {
		cls = "nil-deref"
	} else if strings.Contains(p.val, "out of range") {
		cls = "out-of-range"
	}
	sig := fmt.Sprintf("kind=panic path=qbft-%s stage=%s op=%s at=%s err=%s type=%s mutation=%s field=%s", c.Part, stage, p.topCharon, p.top, cls, c.Unit, c.Mutation, c.Where)
	for i := 0; i < 3; i++ {
		p2, st2 := e.run(c)
		if p2 == nil || p2.topCharon != p.topCharon || st2 != stage {
			r.Unconfirmed(sig)
			return
		}
	}
	r.Violation(sig, fmt.Sprintf("a leader value for %s (mutation %s at %s of a %s) panics in the %s callback: %q in %s; charon frames (innermost first) %v",
		core.DutyType(c.Duty), c.Mutation, c.Where, c.Unit, stage, p.val, p.top, p.chain), c)
}

func TestVerifC14Hash(t *testing.T) {
	r := enumx.New(t, "C14")
	defer r.Finish()
	log.InitConsoleForT(t, zapcore.AddSync(io.Discard))
	testutilPubKey = testutil.RandomCorePubKey(t)
	e := c14qNewEnv(r)
	if r.ReplayPath != "" {
		var c c14qCase
		if err := r.ReplayCase(&c); err == nil && c.Part == "nil-combo" {
			c14qNilCombos(t, r)
			return
		}
		var cc c14cCase
		if err := r.ReplayCase(&cc); err == nil && cc.Part == "canon" {
			c14cReplay(t, r, cc)
			return
		}
		if err := r.ReplayCase(&c); err != nil || c.Part == "" {
			fmt.Println("replay: not a qbft decide/compare case")
			return
		}
		la := testutil.RandomCoreAttestationData(t)
		localAtt, _ = core.UnsignedDataSetToProto(core.UnsignedDataSet{testutilPubKey: la})
		e.check(c, "replay")
		return
	}

	// ---- hash determinism ------------------------------------------------------------------------
	keys := []core.PubKey{testutil.RandomCorePubKey(t), testutil.RandomCorePubKey(t), testutil.RandomCorePubKey(t), testutil.RandomCorePubKey(t)}
	type gen struct {
		name string
		v    func(i int) core.UnsignedData
	}
	atts := []core.UnsignedData{testutil.RandomCoreAttestationData(t), testutil.RandomCoreAttestationData(t), testutil.RandomCoreAttestationData(t), testutil.RandomCoreAttestationData(t)}
	aggs := []core.UnsignedData{testutil.RandomDenebCoreVersionedAggregateAttestation(), testutil.RandomDenebCoreVersionedAggregateAttestation(), testutil.RandomDenebCoreVersionedAggregateAttestation(), testutil.RandomDenebCoreVersionedAggregateAttestation()}
	var contribs, props []core.UnsignedData
	for i := 0; i < 4; i++ {
		a, b := testutil.RandomCoreSyncContribution(), testutil.RandomCoreSyncContribution()
		contribs = append(contribs, core.SyncContributions{a, b})
		props = append(props, testutil.RandomCapellaCoreVersionedProposal())
	}
	gens := []gen{
		{"AttestationData", func(i int) core.UnsignedData { return atts[i] }},
		{"VersionedAggregatedAttestation", func(i int) core.UnsignedData { return aggs[i] }},
		{"SyncContributions", func(i int) core.UnsignedData { return contribs[i] }},
		{"VersionedProposal", func(i int) core.UnsignedData { return props[i] }},
	}
	build := func(g gen, order int, n int) (*pbv1.UnsignedDataSet, error) {
		set := core.UnsignedDataSet{}
		for k := 0; k < n; k++ {
			j := k
			if order == 1 {
				j = n - 1 - k
			} else if order == 2 {
				j = (k + 2) % n
			}
			set[keys[j]] = g.v(j)
		}
		return core.UnsignedDataSetToProto(set)
	}
	hashes := map[[32]byte]string{}
	for _, g := range gens {
		if !r.Mine() {
			continue
		}
		for n := 1; n <= 4; n++ {
			var ref [32]byte
			have := false
			for order := 0; order < 3; order++ {
				for rot := 0; rot < 4; rot++ {
					for wire := 0; wire < 2; wire++ {
						r.Eval(fmt.Sprintf("hash:%s:n=%d", g.name, n))
						r.Steps(2)
						runtime.VerifSetMapRot(true, uint64(rot))
						pb, err := build(g, order, n)
						var h [32]byte
						if err == nil && wire == 1 {
							// what a peer computes after receiving the value
							var b []byte
							b, err = proto.Marshal(pb)
							if err == nil {
								pb = new(pbv1.UnsignedDataSet)
								err = proto.Unmarshal(b, pb)
							}
						}
						if err == nil {
							h, err = hashProto(pb)
						}
						runtime.VerifSetMapRot(false, 0)
						if err != nil {
							r.Note("hash fixture: " + err.Error())
							continue
						}
						if !have {
							ref, have = h, true
							continue
						}
						if h != ref {
							// confirm
							same := true
							for k := 0; k < 3; k++ {
								runtime.VerifSetMapRot(true, uint64(rot))
								pb2, _ := build(g, order, n)
								h2, _ := hashProto(pb2)
								runtime.VerifSetMapRot(false, 0)
								if wire == 0 && h2 != h {
									same = false
								}
							}
							if !same {
								r.Unconfirmed("hash differs " + g.name)
								continue
							}
							r.Violation(fmt.Sprintf("kind=nondeterministic-hash type=%s", g.name),
								fmt.Sprintf("hashProto of the same %d-entry %s set differs (insertion order %d, map rotation %d, after wire round trip %v): nodes would disagree on the value hash", n, g.name, order, rot, wire == 1),
								map[string]any{"part": "", "type": g.name, "n": n, "order": order, "rot": rot})
						} else {
							r.Count("hash_equal", 1)
						}
					}
				}
			}
			if prev, ok := hashes[ref]; ok && have {
				r.Violation("kind=hash-collision", "different sets hash equal: "+prev+" / "+fmt.Sprintf("%s n=%d", g.name, n), nil)
			}
			hashes[ref] = fmt.Sprintf("%s n=%d", g.name, n)
		}
	}
	r.Count("distinct_set_hashes", len(hashes))

	// ---- Decide / Compare with malformed leader values ---------------------------------------------
	la := testutil.RandomCoreAttestationData(t)
	var err error
	if localAtt, err = core.UnsignedDataSetToProto(core.UnsignedDataSet{testutilPubKey: la}); err != nil {
		t.Fatal(err)
	}
	type unit struct {
		name string
		duty core.DutyType
		v    core.UnsignedData
	}
	units := []unit{
		{"AttestationData", core.DutyAttester, la},
		{"VersionedProposal/capella", core.DutyProposer, testutil.RandomCapellaCoreVersionedProposal()},
		{"VersionedProposal/bellatrix", core.DutyProposer, testutil.RandomBellatrixCoreVersionedProposal()},
		{"VersionedAggregatedAttestation/deneb", core.DutyAggregator, testutil.RandomDenebCoreVersionedAggregateAttestation()},
		{"SyncContribution", core.DutySyncContribution, testutil.RandomCoreSyncContribution()},
		{"SyncContributions", core.DutySyncContribution, core.SyncContributions{testutil.RandomCoreSyncContribution(), testutil.RandomCoreSyncContribution()}},
	}
	only := os.Getenv("VERIF_C14_ONLY")
	for _, u := range units {
		if !r.Mine() || r.Expired() {
			continue
		}
		if only != "" && !strings.Contains(u.name, only) {
			continue
		}
		doc, err := json.Marshal(u.v)
		if err != nil {
			r.Note(err.Error())
			continue
		}
		sszb, _ := core.UnsignedDataSetToProto(core.UnsignedDataSet{testutilPubKey: u.v})
		for _, valid := range [][]byte{doc, sszb.GetSet()[string(testutilPubKey)]} {
			e.check(c14qCase{Part: "decide", Duty: int(u.duty), Data: base64.StdEncoding.EncodeToString(valid), Unit: u.name, Mutation: "none"}, "decide:valid:"+u.name)
			if e.sub.stored == 0 {
				r.Note("valid leader value of " + u.name + " was not stored by the decide callback")
			}
		}
		c14qMutations(doc, func(kind, path string, mutated []byte) {
			e.check(c14qCase{Part: "decide", Duty: int(u.duty), Data: base64.StdEncoding.EncodeToString(mutated), Unit: u.name, Mutation: kind, Where: path}, "decide:"+kind+":"+u.name)
		})
	}

	// ---- the hash of a value on the receiving side, for every encoding a conforming sender may produce (zz_verif_c14canon_test.go) --
	c14qCanon(t, r)

	// ---- every optional / nested field of the wire message absent, up to two at a time (zz_verif_c14nil_test.go) --
	c14qNilCombos(t, r)
}
