package qbft

// C04, Part 0 - the termination scripts at the level of the consensus COMPONENT.
//
// The main part of C04 (zz_verif_c04_test.go) runs one qbft.Run per member with a definition, transport and timer that the
// harness assembles itself. What a node really runs is Consensus.Participate / Consensus.Propose -> runInstance, which
// picks the round timer through the function NewConsensus obtained from timer.GetRoundTimerFunc(genesis, slotDuration)
// (production default: the slot-aligned eager double-linear timer, whose round r ends at dutyStart + f(r) on the wall
// clock whenever the member starts), feeds the instance from the duty's receive buffer, broadcasts through
// Consensus.Broadcast / p2p.Sender and cancels the instance on a decision. This part executes C04's fault scripts on FOUR
// REAL COMPONENTS built by NewConsensus (the environment of the C05 / C02L / C03L harnesses: real gater, deadliner, timers,
// transport, stream handler, wire encoding; stub libp2p host; a network of the harness' own that delivers every frame
// after the sender's latency class) in a testing/synctest bubble, with start offsets both below and BEYOND one round and
// with the cluster starting at, within the first round after, and after the first slot-aligned deadline after the duty's
// start.
//
// Oracle = the statement of C04: with at most f=1 faulty members (crashed, silent, started late, proposal late) every
// member that keeps running hands a decision to its subscribers - before the duty's deadline at the very latest, and no
// later than the (extended) slot-aligned deadline of the n-th round after the furthest round at the last fault; running
// members agree; no "Unjustified consensus message" is logged by any component (that line IS the LogUnjust callback of
// newDefinition). Refusals by a receive handler are counted, not judged here (after a decision the instance is gone and
// late messages legitimately time out on the full receive buffer; the qbft.Run layer judges handler refusals).

import (
	"bytes"
	"context"
	"fmt"
	"math/rand"
	"runtime"
	"sort"
	"strings"
	"sync"
	"testing"
	"testing/synctest"
	"time"

	"google.golang.org/protobuf/proto"

	"github.com/obolnetwork/charon/app/featureset"
	"github.com/obolnetwork/charon/core"
	pbv1 "github.com/obolnetwork/charon/core/corepb/v1"
	"github.com/obolnetwork/charon/core/qbft"
	"github.com/obolnetwork/charon/testutil"
	"github.com/obolnetwork/charon/zzverif/bsync"
	"github.com/obolnetwork/charon/zzverif/enumx"
)

// c04sink receives the console log of the process: everything is discarded except the two lines the component layer counts.
type c04sink struct {
	mu         sync.Mutex
	unjust     int
	handlerErr map[string]int
}

var c04log = &c04sink{handlerErr: map[string]int{}}

func (s *c04sink) Write(p []byte) (int, error) {
	if bytes.Contains(p, []byte("Unjustified consensus message")) {
		s.mu.Lock()
		s.unjust++
		s.mu.Unlock()
	} else if bytes.Contains(p, []byte("P2P stream handler encountered an error")) {
		cls := "other"
		for _, k := range []string{"timeout enqueuing receive buffer", "duty expired or exempt", "receive cancelled", "invalid justification", "too many justifications", "too many values", "signature", "invalid duty"} {
			if bytes.Contains(p, []byte(k)) {
				cls = strings.ReplaceAll(k, " ", "-")
				break
			}
		}
		s.mu.Lock()
		s.handlerErr[cls]++
		s.mu.Unlock()
	}
	return len(p), nil
}

func (s *c04sink) Sync() error { return nil }

func (s *c04sink) reset() {
	s.mu.Lock()
	s.unjust, s.handlerErr = 0, map[string]int{}
	s.mu.Unlock()
}

func (s *c04sink) take() (int, map[string]int) {
	s.mu.Lock()
	defer s.mu.Unlock()
	return s.unjust, s.handlerErr
}

// c04compEnv: the C05 cluster material plus one attester proposal per member for every slot of c04compSlots (one slot per
// leader rotation).
type c04compEnvT struct {
	*c05env
	labels map[string]string // deterministic bytes of a proposal -> "slot/p<member>"
}

var (
	c04compEnv   *c04compEnvT
	c04compSlots = []uint64{c05slot, c05slot + 1, c05slot + 2, c05slot + 3}
)

func c04compGetEnv(t *testing.T) *c04compEnvT {
	if c04compEnv != nil {
		return c04compEnv
	}
	e := &c04compEnvT{c05env: c05newEnv(t), labels: map[string]string{}}
	for si, slot := range c04compSlots {
		d := core.Duty{Slot: slot, Type: core.DutyAttester}
		if len(e.sets[d]) == 0 {
			for i := 0; i < c05n; i++ {
				rnd := rand.New(rand.NewSource(int64(40400 + 100*si + i)))
				set := core.UnsignedDataSet{testutil.RandomCorePubKeySeed(t, rnd): testutil.RandomCoreAttestationDataSeed(t, rnd)}
				pb, err := core.UnsignedDataSetToProto(set)
				if err != nil {
					t.Fatal(err)
				}
				e.sets[d] = append(e.sets[d], set)
				e.props[d] = append(e.props[d], c05det(pb))
				e.addValue(pb)
			}
		}
		for i, det := range e.props[d] {
			e.labels[string(det)] = fmt.Sprintf("%d/p%d", slot, i)
		}
	}
	c04compEnv = e
	return e
}

type c04compMember struct {
	startedAt   time.Duration // instant of the first life-cycle call (-1: never)
	proposedAt  time.Duration
	partRet     bool
	partErr     string
	propRet     bool
	propErr     string
	crashed     bool
	crashedAt   time.Duration
	decisions   []string
	decidedAt   time.Duration
	maxRound    int64 // highest round of a frame this member sent
	commitRound int64 // highest round of a COMMIT it sent
	roundAtDec  int64 // maxRound at its first decision: a lower bound of the round it decided in
	broadcasts  int
	framesSent  int
	framesLost  int // frames of the broadcast during which it crashed that were not sent any more
	roundsAtEnd int64
}

type c04compResult struct {
	err         string
	members     [c05n]*c04compMember
	deadline    time.Duration // the duty's deadline (core.NewDutyDeadlineFunc), since the cluster's start
	faultAt     time.Duration
	faultR      int64
	unjust      int
	handler     map[string]int
	delivered   int
	lockWaiters int
}

func c04compErrClass(err error) string {
	if err == nil {
		return ""
	}
	s := err.Error()
	switch {
	case strings.Contains(s, "consensus timeout"):
		return "consensus-timeout"
	case strings.Contains(s, "context canceled"):
		return "context-canceled"
	}
	return c04errClass(err)
}

// c04compRun executes one script on four real components.
func c04compRun(t *testing.T, e *c04compEnvT, sc c04script) (res c04compResult) {
	runtime.VerifSetMapRot(true, uint64(sc.MapRot))
	runtime.VerifSetSelMode(uint32(1 + sc.SelOrder))
	defer runtime.VerifSetMapRot(false, 0)
	defer runtime.VerifSetSelMode(0)
	feat := func(f featureset.Feature, on bool) {
		if on {
			featureset.EnableForT(t, f)
		} else {
			featureset.DisableForT(t, f)
		}
	}
	feat(featureset.ProposalTimeout, sc.PropTO)
	feat(featureset.EagerDoubleLinear, sc.FeatEDL)
	feat(featureset.Linear, sc.FeatLinear)
	feat(featureset.ConsensusParticipate, true)
	duty := core.Duty{Slot: sc.Slot, Type: core.DutyType(sc.DutyType)}
	if sc.N != c05n || len(e.sets[duty]) != c05n || sc.SlotDurMs != int(c05slotDur/time.Millisecond) || !sc.SlotAligned || sc.TimerCtor != "prod" {
		res.err = "component layer: n=4, an attester duty of the prepared slots, 12 s slots and the production timer constructor only"
		return
	}
	for i := range res.members {
		res.members[i] = &c04compMember{startedAt: -1, proposedAt: -1}
	}
	crashOf := map[int]c04crash{}
	for _, c := range sc.Crashes {
		crashOf[c.Member] = c
	}
	c04log.reset()
	synctest.Test(t, func(t *testing.T) {
		ctx, cancel := context.WithCancel(context.Background())
		t0 := time.Now()
		genesis := c04genesis(sc, t0)
		net := &c05net{q: make(chan c05sent, 16)} // q is not used: every frame is delivered by a goroutine of its own after the latency
		var (
			obs  sync.Mutex
			seq  int
			mctx [c05n]context.Context
			mcan [c05n]context.CancelFunc
			seen [c05n]map[string]bool
		)
		fault := func() { // obs held
			res.faultAt = time.Since(t0)
			res.faultR = 1
			for i, m := range res.members {
				if _, silent := crashOf[i]; silent && crashOf[i].At == 0 {
					continue
				}
				if !m.crashed && m.startedAt >= 0 && m.maxRound > res.faultR {
					res.faultR = m.maxRound
				}
			}
		}
		for i := range mctx {
			mctx[i], mcan[i] = context.WithCancel(ctx)
			seen[i] = map[string]bool{}
		}
		// the network: the sender's k-th broadcast = the k-th distinct message it hands to the network; a member that crashes
		// during a broadcast reaches nobody / the first half / all but one of the others with it and sends nothing afterwards
		net.drop = func(from, to int, m *pbv1.QBFTConsensusMsg) bool {
			obs.Lock()
			defer obs.Unlock()
			fm := res.members[from]
			top := m.GetMsg()
			if top.GetRound() > fm.maxRound && !fm.crashed {
				fm.maxRound = top.GetRound()
			}
			if qbft.MsgType(top.GetType()) == qbft.MsgCommit && top.GetRound() > fm.commitRound && !fm.crashed {
				fm.commitRound = top.GetRound()
			}
			key := fmt.Sprintf("%d/%d/%x/%d/%x", top.GetType(), top.GetRound(), top.GetValueHash(), top.GetPreparedRound(), top.GetPreparedValueHash())
			if !seen[from][key] {
				seen[from][key] = true
				if !fm.crashed {
					fm.broadcasts++
				}
				if c, ok := crashOf[from]; ok && c.At > 0 && c.At == fm.broadcasts && !fm.crashed {
					fm.crashed, fm.crashedAt = true, time.Since(t0)
					seen[from]["crash:"+key] = true
					fault()
					mcan[from]()
				}
			}
			if fm.crashed {
				if !seen[from]["crash:"+key] {
					return true // sent after the crash: never happened
				}
				var others []int
				for j := 0; j < c05n; j++ {
					if j != from {
						others = append(others, j)
					}
				}
				switch crashOf[from].Reach {
				case 0:
					others = nil
				case 1:
					others = others[:len(others)/2]
				case 3:
					others = others[len(others)-1:]
				case 4:
					others = others[:1]
				default:
					others = others[:len(others)-1]
				}
				reached := false
				for _, j := range others {
					reached = reached || j == to
				}
				if !reached {
					fm.framesLost++
					return true
				}
			}
			fm.framesSent++
			seq++
			lat := c04lat(sc, from) + time.Duration(from*c05n+to)*37*time.Microsecond + time.Duration(seq%97)*time.Microsecond
			b, err := proto.Marshal(m)
			if err != nil {
				return true
			}
			frame := c05frame(b)
			go func() {
				tm := time.NewTimer(lat)
				defer tm.Stop()
				select {
				case <-tm.C:
				case <-ctx.Done():
					return
				}
				obs.Lock()
				res.delivered++
				obs.Unlock()
				net.nodes[to].host.inject(net.nodes[from].host.id, frame) // the real registered stream handler -> Consensus.handle
			}()
			return true // the harness delivers it itself
		}
		for i := 0; i < c05n; i++ {
			nd, err := c05newNode(ctx, e.c05env, i, net, genesis, nil)
			if err != nil {
				res.err = err.Error()
				cancel()
				return
			}
			// observation only: what the component hands to its subscribers
			nd.c.subs = append(nd.c.subs, func(_ context.Context, d core.Duty, value proto.Message) error {
				obs.Lock()
				defer obs.Unlock()
				if d != duty {
					return nil
				}
				m := res.members[i]
				label := "nil"
				if value != nil && value.ProtoReflect().IsValid() {
					label = e.labels[string(c05det(value))]
					if label == "" {
						label = "unknown"
					}
				}
				if len(m.decisions) == 0 {
					m.decidedAt, m.roundAtDec = time.Since(t0), max(m.maxRound, 1)
				}
				m.decisions = append(m.decisions, label)
				return nil
			})
			net.nodes = append(net.nodes, nd)
		}
		if dl, ok := func() (time.Time, bool) {
			dlf, err := core.NewDutyDeadlineFunc(ctx, &c05eth2{genesis: genesis})
			if err != nil {
				return time.Time{}, false
			}
			return dlf(duty)
		}(); ok {
			res.deadline = dl.Sub(t0)
		} else {
			res.err = "no deadline for the duty"
			cancel()
			return
		}
		// life cycles: Participate at the member's start, Propose at the same instant or late_input_quarters * 250 ms later
		for i, nd := range net.nodes {
			if c, ok := crashOf[i]; ok && c.At == 0 {
				continue // silent from the start: never starts, sends nothing
			}
			m := res.members[i]
			start := c04lateOff(sc, i)
			if start > 0 {
				start += time.Duration(i+1) * 13 * time.Microsecond
			}
			input := start + time.Duration(sc.LateInput[i])*250*time.Millisecond
			if sc.LateInput[i] > 0 {
				input += time.Duration(i+1) * 17 * time.Microsecond
			}
			go func() {
				if start > 0 {
					select {
					case <-time.After(start):
					case <-mctx[i].Done():
						return
					}
					obs.Lock()
					fault()
					obs.Unlock()
				}
				obs.Lock()
				m.startedAt = time.Since(t0)
				obs.Unlock()
				err := nd.c.Participate(mctx[i], duty)
				obs.Lock()
				m.partRet, m.partErr = true, c04compErrClass(err)
				obs.Unlock()
			}()
			go func() {
				select { // always after Participate (one microsecond at least)
				case <-time.After(input + time.Microsecond):
				case <-mctx[i].Done():
					return
				}
				if sc.LateInput[i] > 0 {
					obs.Lock()
					fault()
					obs.Unlock()
				}
				obs.Lock()
				m.proposedAt = time.Since(t0)
				obs.Unlock()
				err := nd.c.Propose(mctx[i], duty, e.sets[duty][i])
				obs.Lock()
				m.propRet, m.propErr = true, c04compErrClass(err)
				obs.Unlock()
			}()
		}
		// until the duty's deadline (the retryer's context of the fetcher ends there), or until everybody who can has decided
		// and a grace of 5 s has passed
		end := time.After(res.deadline)
		tick := time.NewTicker(time.Second)
	wait:
		for {
			select {
			case <-end:
				break wait
			case <-tick.C:
				obs.Lock()
				all := true
				var last time.Duration
				for i, m := range res.members {
					if c, ok := crashOf[i]; (ok && c.At == 0) || m.crashed {
						continue
					}
					if len(m.decisions) == 0 || !m.propRet {
						all = false
					}
					last = max(last, m.decidedAt)
				}
				now := time.Since(t0)
				obs.Unlock()
				if all && now > last+5*time.Second && now > c04compMaxStart(sc)+5*time.Second {
					break wait
				}
			}
		}
		tick.Stop()
		cancel()
		synctest.Wait()
		// goroutines waiting for a lock that nobody will release (only a changed tree does that): the verdict stands (a member
		// that did not decide), the locks are opened so that the bubble can be left
		if bsync.Waiting() > 0 {
			res.lockWaiters = bsync.Waiting()
			bsync.Teardown()
			defer bsync.Reset()
			synctest.Wait()
		}
		// an instance posts its result into a one-slot channel that Propose reads; results nobody waits for are taken out here
		// so that every goroutine can end
		for k := 0; k < 6; k++ {
			for _, nd := range net.nodes {
				select {
				case <-nd.c.getInstanceIO(duty).ErrCh:
				default:
				}
				select {
				case <-nd.c.getInstanceIO(duty).DecidedAtCh:
				default:
				}
			}
			synctest.Wait()
		}
		time.Sleep(2 * time.Minute) // stream handlers run on their own receive timeout
		synctest.Wait()
	})
	res.unjust, res.handler = c04log.take()
	return res
}

func c04compMaxStart(sc c04script) (d time.Duration) {
	for i := 0; i < sc.N; i++ {
		d = max(d, c04lateOff(sc, i)+time.Duration(sc.LateInput[i])*250*time.Millisecond)
	}
	return d
}

// c04compCheck is the oracle of the component layer.
func c04compCheck(sc c04script, r c04compResult) (sigs, descs []string) {
	bad := func(sig, f string, a ...any) {
		sigs = append(sigs, sig)
		descs = append(descs, fmt.Sprintf(f, a...))
	}
	silent := map[int]bool{}
	for _, c := range sc.Crashes {
		if c.At == 0 {
			silent[c.Member] = true
		}
	}
	out := func(i int) bool { return silent[i] || r.members[i].crashed }
	if r.unjust > 0 {
		bad("kind=honest-message-rejected-as-unjustified", "%d message(s) of honest members were logged as 'Unjustified consensus message' (LogUnjust) by a component", r.unjust)
	}
	termination := len(c04faulty(sc)) <= (sc.N-1)/3
	per := make([]string, sc.N)
	vals := map[string]bool{}
	for i, m := range r.members {
		per[i] = fmt.Sprint(len(m.decisions))
		if !out(i) && len(m.decisions) > 0 {
			vals[m.decisions[0]] = true
		}
	}
	for i, m := range r.members {
		if out(i) || !termination {
			continue
		}
		if len(m.decisions) == 0 {
			others, left := 0, 0
			var (
				lastOther    time.Duration
				lastOtherRnd int64
			)
			for j, o := range r.members {
				if j == i || out(j) {
					continue
				}
				others++
				if len(o.decisions) > 0 && m.startedAt >= 0 && o.decidedAt < m.startedAt {
					left++
					lastOther = max(lastOther, o.decidedAt)
					lastOtherRnd = max(lastOtherRnd, o.commitRound, 1) // the round of the COMMIT it sent last: the round it decided in, or an earlier one
				}
			}
			what := fmt.Sprintf("real Consensus component of member %d (Participate called %s, Propose %s after the cluster's start, cluster start = duty start + %dms) handed no decision to its subscribers before the duty deadline (%s after the cluster's start): Propose returned %q (returned=%v, Participate returned=%v); it sent %d broadcasts, the last for round %d",
				i, m.startedAt, m.proposedAt, sc.ClusterStartMs, r.deadline, m.propErr, m.propRet, m.partRet, m.broadcasts, m.maxRound)
			if others > 0 && left == others && c04alignedExpired(sc, m.startedAt) < lastOtherRnd {
				bad("kind=running-member-never-decided cause=the-others-had-decided-and-left-but-their-deciding-round-was-still-open-on-its-timer",
					"%s; the other running components had decided by %s after the cluster's start (COMMITs of round %d) and ended their instances, and the slot-aligned timer of that round had not expired when this member started: everything it needs was in its receive buffer (decisions per member: %s)", what, lastOther, lastOtherRnd, strings.Join(per, " "))
			} else if others > 0 && left == others {
				bad("kind=running-member-never-decided cause=joined-after-the-others-decided-and-left cluster-start="+c04clusterStartClass(sc),
					"%s; the other running components had decided by %s after the cluster's start and ended their instances (decisions per member: %s)", what, lastOther, strings.Join(per, " "))
			} else {
				bad("kind=running-member-never-decided", "%s (decisions per member: %s)", what, strings.Join(per, " "))
			}
			continue
		}
		// one full leader rotation after the last fault: the (extended: first deadline + timeout) slot-aligned deadline of
		// round faultR+n, measured from the duty's start
		faultR := max(r.faultR, 1)
		bound := 2*c04timeout(sc, faultR+int64(sc.N)) - time.Duration(sc.ClusterStartMs)*time.Millisecond + 200*time.Millisecond
		if m.roundAtDec > faultR+int64(sc.N) {
			bad("kind=decided-later-than-one-rotation", "component of member %d had reached round %d when it decided (%s after the cluster's start); the last fault happened at %s when the furthest running member was in round %d (n=%d)",
				i, m.roundAtDec, m.decidedAt, r.faultAt, faultR, sc.N)
		} else if m.decidedAt > bound {
			bad("kind=decided-later-than-one-rotation time", "component of member %d decided %s after the cluster's start; the last fault happened at %s when the furthest running member was in round %d: the extended slot-aligned deadline of round %d is %s after the cluster's start",
				i, m.decidedAt, r.faultAt, faultR, faultR+int64(sc.N), bound)
		}
	}
	if len(vals) > 1 {
		var l []string
		for v := range vals {
			l = append(l, v)
		}
		sort.Strings(l)
		bad("kind=disagreement", "running components decided different values: %v", l)
	}
	return
}

func c04compString(sc c04script) string {
	return fmt.Sprintf("component script: duty %d/%d, cluster start duty start+%dms, start offsets of the members %v ms, proposals late by %v quarters of a second, crashes %v, slow senders %v, select order %d, map rotation %d",
		sc.Slot, sc.DutyType, sc.ClusterStartMs, sc.LateMs, sc.LateInput, sc.Crashes, sc.Slow, sc.SelOrder, sc.MapRot)
}

// c04compJudge runs one component script, counts, and reports what the oracle finds (after three confirming re-runs).
func c04compJudge(t *testing.T, r *enumx.Run, sc c04script, confirmed map[string]bool) {
	e := c04compGetEnv(t)
	res := c04compRun(t, e, sc)
	if res.err != "" {
		r.Note("component run not built: " + res.err)
		return
	}
	sigs, descs := c04compCheck(sc, res)
	ndec, nret := 0, 0
	var late []string
	for i, m := range res.members {
		if len(m.decisions) > 0 {
			ndec++
		}
		if m.propRet && m.propErr == "" {
			nret++
		}
		if c04lateOff(sc, i) >= time.Second {
			if len(m.decisions) > 0 {
				r.Count("component_members_started_beyond_one_round_decided", 1)
				late = append(late, "late-decided")
			} else {
				r.Count("component_members_started_beyond_one_round_never_decided", 1)
				late = append(late, "late-undecided")
			}
		}
		if m.crashed {
			r.Count("component_members_crashed_during_a_broadcast", 1)
			r.Count("component_frames_of_the_interrupted_broadcast_not_sent", m.framesLost)
		}
		if len(m.decisions) > 0 && res.faultR > 1 {
			r.Count("component_decisions_after_a_fault_in_a_later_round", 1)
		}
	}
	cls := fmt.Sprintf("component:cs=%d:crashes=%d:decided=%d:%s", sc.ClusterStartMs, len(sc.Crashes), ndec, strings.Join(late, ","))
	r.Eval(cls)
	r.Outcome(cls)
	r.Steps(1)
	r.Count("component_scripts", 1)
	if res.lockWaiters > 0 {
		r.Count("goroutines_left_waiting_for_a_lock_of_the_code_under_test", res.lockWaiters)
	}
	r.Count("component_members_decided", ndec)
	r.Count("component_propose_calls_returned_nil", nret)
	r.Count("component_frames_delivered_through_the_stream_handler", res.delivered)
	for k, v := range res.handler {
		r.Count("component_handler_refusals_counted_not_judged:"+k, v)
	}
	for i, sig := range sigs {
		full := fmt.Sprintf("%s timer=%s n=%d layer=component", sig, c04timerLabel(sc), sc.N)
		desc := fmt.Sprintf("%s [%s]", descs[i], c04compString(sc))
		if confirmed[full] {
			r.Violation(full, desc, sc)
			continue
		}
		ok := true
		for k := 0; k < 3; k++ {
			s2, _ := c04compCheck(sc, c04compRun(t, e, sc))
			found := false
			for _, x := range s2 {
				found = found || x == sig
			}
			ok = ok && found
		}
		if !ok {
			r.Unconfirmed(sig + " " + c04compString(sc))
			continue
		}
		confirmed[full] = true
		r.Violation(full, desc, sc)
	}
}

// c04compPart enumerates the component scripts. It returns false when the budget is used up.
//
// Units (slot = leader rotation, cluster start in {duty start, +500 ms, +1500 ms}, group); the groups of one (slot, cluster
// start):
//
//	base   no fault; every single slow (3*delta) sender; (thorough) reverse select order; map rotations 1, 2
//	late   every member starting 250 / 750 ms (within the first round) or 1250 / 2500 ms (beyond it) after the others;
//	       the offsets beyond one round also with every single slow sender and under the reverse select order
//	input  every member proposing 250 / 750 / 1250 ms after its Participate
//	crash  every member silent from the start, or stopping during its k-th broadcast (k = 1..4) having reached nobody / one /
//	       two of the three others
func c04compPart(t *testing.T, r *enumx.Run, judge func(c04script)) bool {
	th := enumx.Thorough()
	slots := c04compSlots[:2]
	if th {
		slots = c04compSlots
	}
	for _, slot := range slots {
		for _, cs := range []int{0, 500, 1500} {
			for _, group := range []string{"base", "late", "input", "crash"} {
				if !r.Mine() {
					continue
				}
				if r.Expired() {
					return false
				}
				base := func() c04script {
					return c04script{N: c05n, Timer: "eager_dlinear", PropTO: true, DutyType: int(core.DutyAttester), Slot: slot,
						Late: make([]int, c05n), Slow: make([]bool, c05n), LateInput: make([]int, c05n),
						TimerCtor: "prod", FeatEDL: true, SlotAligned: true, SlotDurMs: 12000, ClusterStartMs: cs,
						Layer: "component", LateMs: make([]int, c05n)}
				}
				run := func(sc c04script) {
					if r.Expired() {
						return
					}
					judge(sc)
				}
				switch group {
				case "base":
					run(base())
					for x := 0; x < c05n; x++ {
						sc := base()
						sc.Slow[x] = true
						run(sc)
					}
					if th {
						sc := base()
						sc.SelOrder = 1
						run(sc)
					}
					for rot := 1; rot <= 2; rot++ {
						sc := base()
						sc.MapRot = rot
						run(sc)
					}
				case "late":
					for m := 0; m < c05n; m++ {
						for _, ms := range []int{250, 750, 1250, 2500} {
							sc := base()
							sc.LateMs[m] = ms
							run(sc)
							if ms < 1000 {
								continue
							}
							for x := 0; x < c05n; x++ {
								if !th && x != m && x != (m+1)%c05n {
									continue
								}
								s2 := sc
								s2.Slow = make([]bool, c05n)
								s2.Slow[x] = true
								run(s2)
							}
							s3 := sc
							s3.SelOrder = 1
							run(s3)
						}
					}
				case "input":
					for m := 0; m < c05n; m++ {
						for _, q := range []int{1, 3, 5} {
							sc := base()
							sc.LateInput[m] = q
							run(sc)
						}
					}
				case "crash":
					for m := 0; m < c05n; m++ {
						for at := 0; at <= 4; at++ {
							for reach := 0; reach < 3; reach++ {
								if at == 0 && reach > 0 {
									continue
								}
								sc := base()
								sc.Crashes = []c04crash{{m, at, reach}}
								run(sc)
							}
						}
					}
				}
			}
		}
	}
	return !r.Expired()
}
