package qbft

// C14 (consensus wire message): every optional / nested field of a QBFTConsensusMsg absent (and the hash fields
// also present with 1, 31 and 33 bytes), one at a time and in every combination of two, signed afresh by the sending peers after the fields were removed (a cluster peer can
// sign anything) or carrying the signatures of the complete message, in memory and after a wire round trip.
// Path: protonil.Check (what p2p.RegisterHandler does with every request) -> the real Consensus.handle ->
// the accepted Msg from the receive buffer -> every accessor of the qbft.Msg interface, re-encoding
// (ToConsensusMsg -> proto.Marshal), the real Compare and Decide callbacks (-> subscriber -> dutydb.Store).
// Oracle: an error or a value that everything handles; no panic.

import (
	"context"
	"fmt"
	"testing"

	k1 "github.com/decred/dcrd/dcrec/secp256k1/v4"
	"google.golang.org/protobuf/proto"
	"google.golang.org/protobuf/types/known/anypb"

	"github.com/obolnetwork/charon/app/log"
	"github.com/obolnetwork/charon/app/protonil"
	"github.com/obolnetwork/charon/core"
	"github.com/obolnetwork/charon/core/consensus/instance"
	"github.com/obolnetwork/charon/core/consensus/timer"
	pbv1 "github.com/obolnetwork/charon/core/corepb/v1"
	"github.com/obolnetwork/charon/core/dutydb"
	"github.com/obolnetwork/charon/core/qbft"
	"github.com/obolnetwork/charon/testutil"
	"github.com/obolnetwork/charon/zzverif/enumx"
)

type c14nCase struct {
	Part   string   `json:"part"` // "nil-combo"
	Fields []string `json:"absent_fields"`
	Sign   string   `json:"signatures"` // fresh | stale
	Wire   bool     `json:"over_wire"`
}

type c14nField struct {
	name    string
	postSig bool // applied after signing (the field is a signature)
	apply   func(m *pbv1.QBFTConsensusMsg)
}

func c14nJust(m *pbv1.QBFTConsensusMsg, i int, f func(j *pbv1.QBFTMsg)) {
	if i < len(m.GetJustification()) && m.Justification[i] != nil {
		f(m.Justification[i])
	}
}

func c14nFields() []c14nField {
	msg := func(f func(q *pbv1.QBFTMsg)) func(m *pbv1.QBFTConsensusMsg) {
		return func(m *pbv1.QBFTConsensusMsg) {
			if m.Msg != nil {
				f(m.Msg)
			}
		}
	}
	val := func(i int, f func(a *anypb.Any)) func(m *pbv1.QBFTConsensusMsg) {
		return func(m *pbv1.QBFTConsensusMsg) {
			if i < len(m.GetValues()) && m.Values[i] != nil {
				f(m.Values[i])
			}
		}
	}
	return []c14nField{
		{"msg", false, func(m *pbv1.QBFTConsensusMsg) { m.Msg = nil }},
		{"msg.duty", false, msg(func(q *pbv1.QBFTMsg) { q.Duty = nil })},
		{"msg.value_hash", false, msg(func(q *pbv1.QBFTMsg) { q.ValueHash = nil })},
		{"msg.prepared_value_hash", false, msg(func(q *pbv1.QBFTMsg) { q.PreparedValueHash = nil })},
		{"msg.signature", true, msg(func(q *pbv1.QBFTMsg) { q.Signature = nil })},
		// partial values of the byte fields: present but shorter / longer than a hash
		{"msg.value_hash=1-byte", false, msg(func(q *pbv1.QBFTMsg) { q.ValueHash = []byte{7} })},
		{"msg.prepared_value_hash=31-bytes", false, msg(func(q *pbv1.QBFTMsg) {
			if len(q.PreparedValueHash) > 31 {
				q.PreparedValueHash = q.PreparedValueHash[:31]
			}
		})},
		{"justification[0].prepared_value_hash=33-bytes", false, func(m *pbv1.QBFTConsensusMsg) {
			c14nJust(m, 0, func(j *pbv1.QBFTMsg) { j.PreparedValueHash = append(append([]byte{}, j.PreparedValueHash...), 1) })
		}},
		{"justification", false, func(m *pbv1.QBFTConsensusMsg) { m.Justification = nil }},
		{"justification[0]", false, func(m *pbv1.QBFTConsensusMsg) {
			if len(m.Justification) > 0 {
				m.Justification[0] = nil
			}
		}},
		{"justification[1]", false, func(m *pbv1.QBFTConsensusMsg) {
			if len(m.Justification) > 1 {
				m.Justification[1] = nil
			}
		}},
		{"justification[0].duty", false, func(m *pbv1.QBFTConsensusMsg) { c14nJust(m, 0, func(j *pbv1.QBFTMsg) { j.Duty = nil }) }},
		{"justification[0].prepared_value_hash", false, func(m *pbv1.QBFTConsensusMsg) {
			c14nJust(m, 0, func(j *pbv1.QBFTMsg) { j.PreparedValueHash = nil })
		}},
		{"justification[1].value_hash", false, func(m *pbv1.QBFTConsensusMsg) { c14nJust(m, 1, func(j *pbv1.QBFTMsg) { j.ValueHash = nil }) }},
		{"justification[0].signature", true, func(m *pbv1.QBFTConsensusMsg) { c14nJust(m, 0, func(j *pbv1.QBFTMsg) { j.Signature = nil }) }},
		{"values", false, func(m *pbv1.QBFTConsensusMsg) { m.Values = nil }},
		{"values[0]", false, func(m *pbv1.QBFTConsensusMsg) {
			if len(m.Values) > 0 {
				m.Values[0] = nil
			}
		}},
		{"values[1]", false, func(m *pbv1.QBFTConsensusMsg) {
			if len(m.Values) > 1 {
				m.Values[1] = nil
			}
		}},
		{"values[0].type_url", false, val(0, func(a *anypb.Any) { a.TypeUrl = "" })},
		{"values[0].value", false, val(0, func(a *anypb.Any) { a.Value = nil })},
		{"values[1].value", false, val(1, func(a *anypb.Any) { a.Value = nil })},
	}
}

type c14nEnv struct {
	r      *enumx.Run
	c      *Consensus
	def    qbft.Definition[core.Duty, [32]byte, proto.Message]
	keys   map[int64]*k1.PrivateKey
	base   *pbv1.QBFTConsensusMsg // unsigned
	signed *pbv1.QBFTConsensusMsg
	duty   core.Duty
	local  *pbv1.UnsignedDataSet
	db     *dutydb.MemDB
	stage  string
	stored int
}

func c14nNewEnv(t *testing.T, r *enumx.Run) *c14nEnv {
	e := &c14nEnv{r: r, keys: map[int64]*k1.PrivateKey{}, duty: core.Duty{Slot: 100, Type: core.DutyAttester}}
	pubs := map[int64]*k1.PublicKey{}
	for i := 0; i < 4; i++ {
		k := testutil.GenerateInsecureK1Key(t, i)
		e.keys[int64(i)] = k
		pubs[int64(i)] = k.PubKey()
	}
	c := &Consensus{pubkeys: pubs, deadliner: c14qDeadliner{ch: make(chan core.Duty)}, gaterFunc: func(core.Duty) bool { return true },
		dropFilter: log.Filter(), compareAttestations: true}
	c.mutable.instances = make(map[core.Duty]*instance.IO[Msg])
	c.Subscribe(func(ctx context.Context, duty core.Duty, set core.UnsignedDataSet) error {
		e.stage = "store"
		err := e.db.Store(ctx, duty, set)
		if err == nil {
			e.stored++
		}
		return err
	})
	e.c = c
	e.def = newDefinition(4, c.subscribers, timer.NewIncreasingRoundTimer(), func(int64) {}, true)

	pk := testutil.RandomCorePubKey(t)
	mk := func() (*pbv1.UnsignedDataSet, *anypb.Any, [32]byte) {
		set, err := core.UnsignedDataSetToProto(core.UnsignedDataSet{pk: testutil.RandomCoreAttestationData(t)})
		if err != nil {
			t.Fatal(err)
		}
		a, err := anypb.New(set)
		if err != nil {
			t.Fatal(err)
		}
		h, err := hashProto(set)
		if err != nil {
			t.Fatal(err)
		}
		return set, a, h
	}
	set1, any1, h1 := mk()
	_, any2, h2 := mk()
	e.local = set1
	d := core.DutyToProto(e.duty)
	e.base = &pbv1.QBFTConsensusMsg{
		Msg: &pbv1.QBFTMsg{Type: int64(qbft.MsgPrePrepare), Duty: d, PeerIdx: 1, Round: 2, ValueHash: h1[:], PreparedRound: 1, PreparedValueHash: h2[:]},
		Justification: []*pbv1.QBFTMsg{
			{Type: int64(qbft.MsgRoundChange), Duty: core.DutyToProto(e.duty), PeerIdx: 2, Round: 2, PreparedRound: 1, PreparedValueHash: h2[:]},
			{Type: int64(qbft.MsgPrepare), Duty: core.DutyToProto(e.duty), PeerIdx: 3, Round: 1, ValueHash: h2[:]},
		},
		Values: []*anypb.Any{any1, any2},
	}
	e.signed = proto.Clone(e.base).(*pbv1.QBFTConsensusMsg)
	e.sign(e.signed)
	return e
}

// sign signs the message and every justification with the key of the peer it names.
func (e *c14nEnv) sign(m *pbv1.QBFTConsensusMsg) {
	one := func(q *pbv1.QBFTMsg) *pbv1.QBFTMsg {
		k, ok := e.keys[q.GetPeerIdx()]
		if q == nil || !ok {
			return q
		}
		s, err := signMsg(q, k)
		if err != nil {
			return q
		}
		return s
	}
	m.Msg = one(m.Msg)
	for i := range m.Justification {
		m.Justification[i] = one(m.Justification[i])
	}
}

func (e *c14nEnv) build(c c14nCase, fields map[string]c14nField) *pbv1.QBFTConsensusMsg {
	m := proto.Clone(e.base).(*pbv1.QBFTConsensusMsg)
	if c.Sign == "stale" {
		m = proto.Clone(e.signed).(*pbv1.QBFTConsensusMsg)
	}
	for _, n := range c.Fields {
		if f := fields[n]; !f.postSig {
			f.apply(m)
		}
	}
	if c.Sign == "fresh" {
		e.sign(m)
	}
	for _, n := range c.Fields {
		if f := fields[n]; f.postSig {
			f.apply(m)
		}
	}
	return m
}

// run returns the panic (if any), the stage and the verdict.
func (e *c14nEnv) run(c c14nCase, fields map[string]c14nField) (p *c14qPanic, stage, verdict string) {
	m := e.build(c, fields)
	e.db = dutydb.NewMemDB(c14qDeadliner{ch: make(chan core.Duty)})
	e.stage, e.stored = "wire", 0
	verdict = "rejected"
	p = c14qGuard(func() {
		if c.Wire {
			b, err := proto.Marshal(m)
			if err != nil {
				verdict = "not-expressible-on-wire"
				return
			}
			m = new(pbv1.QBFTConsensusMsg)
			if err := proto.Unmarshal(b, m); err != nil {
				return
			}
		}
		e.r.Steps(2)
		e.stage = "protonil"
		if err := protonil.Check(m); err != nil {
			verdict = "rejected-by-protonil"
			return
		}
		e.stage = "handle"
		if _, _, err := e.c.handle(context.Background(), "", m); err != nil {
			verdict = "rejected-by-handle"
			return
		}
		var got Msg
		select {
		case got = <-e.c.getRecvBuffer(core.DutyFromProto(m.GetMsg().GetDuty())):
		default:
			verdict = "accepted-not-buffered"
			return
		}
		verdict = "accepted"
		e.stage = "accessors"
		var all []qbft.Msg[core.Duty, [32]byte, proto.Message]
		all = append(append(all, got), got.Justification()...)
		for _, x := range all {
			_, _, _, _, _, _, _ = x.Type(), x.Instance(), x.Source(), x.Round(), x.Value(), x.PreparedRound(), x.PreparedValue()
			_, _ = x.ValueSource()
			_ = x.Justification()
		}
		_, _ = got.Values(), got.Msg()
		e.stage = "reencode"
		_, _ = proto.Marshal(got.ToConsensusMsg())
		e.stage = "compare"
		errCh, protoCh := make(chan error, 2), make(chan proto.Message, 2)
		e.def.Compare(context.Background(), got, nil, e.local, errCh, protoCh)
		e.stage = "decide"
		e.def.Decide(context.Background(), got.Instance(), got.Value(), got.Round(), []qbft.Msg[core.Duty, [32]byte, proto.Message]{got})
		e.r.Steps(6)
	})
	return p, e.stage, verdict
}

func c14qNilCombos(t *testing.T, r *enumx.Run) {
	e := c14nNewEnv(t, r)
	list := c14nFields()
	fields := map[string]c14nField{}
	for _, f := range list {
		fields[f.name] = f
	}
	check := func(c c14nCase) {
		p, stage, verdict := e.run(c, fields)
		r.Eval(fmt.Sprintf("qbft-nil:%d-fields:%s", len(c.Fields), verdict))
		r.Count("qbft_nil_combo:"+verdict, 1)
		if e.stored > 0 {
			r.Count("qbft_nil_combo:decided_and_stored", 1)
		}
		if p == nil {
			return
		}
		sig := fmt.Sprintf("kind=panic path=qbft-handle stage=%s op=%s at=%s absent=%v", stage, p.topCharon, p.top, c.Fields)
		for i := 0; i < 3; i++ {
			if p2, st2, _ := e.run(c, fields); p2 == nil || st2 != stage || p2.topCharon != p.topCharon {
				r.Unconfirmed(sig)
				return
			}
		}
		r.Violation(sig, fmt.Sprintf("a consensus message without %v (signatures %s, over the wire %v) panics at stage %s: %q in %s; charon frames (innermost first) %v",
			c.Fields, c.Sign, c.Wire, stage, p.val, p.top, p.chain), c)
	}
	if r.ReplayPath != "" {
		var c c14nCase
		if err := r.ReplayCase(&c); err == nil && c.Part == "nil-combo" {
			check(c)
		}
		return
	}
	var combos [][]string
	combos = append(combos, nil)
	for i := range list {
		combos = append(combos, []string{list[i].name})
	}
	for i := range list {
		for j := i + 1; j < len(list); j++ {
			combos = append(combos, []string{list[i].name, list[j].name})
		}
	}
	for _, fs := range combos {
		if !r.Mine() {
			continue
		}
		for _, sign := range []string{"fresh", "stale"} {
			for _, wire := range []bool{false, true} {
				check(c14nCase{Part: "nil-combo", Fields: fs, Sign: sign, Wire: wire})
			}
		}
	}
}
