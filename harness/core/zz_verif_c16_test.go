package core

// C16 – duty deadlines are reported exactly once, never early, never for late adds.
// Explicit enumeration of all Add/advance sequences over a small alphabet against the real deadliner
// running on virtual time (testing/synctest), compared with a reference set model (DESIGN.md §5 C16).

import (
	"context"
	"fmt"
	"runtime"
	"sort"
	"strings"
	"testing"
	"testing/synctest"
	"time"

	"github.com/jonboulle/clockwork"

	"github.com/obolnetwork/charon/zzverif/enumx"
)

type c16duty struct {
	name     string
	duty     Duty
	deadline float64 // seconds after start; <0: already past; 0 with never=true: never expires
	never    bool
}

var c16duties = []c16duty{
	{"A", Duty{Slot: 1, Type: DutyAttester}, 1, false},
	{"B", Duty{Slot: 2, Type: DutyAttester}, 2, false},
	{"C", Duty{Slot: 2, Type: DutyProposer}, 2, false}, // shares B's deadline
	{"D", Duty{Slot: 3, Type: DutyAttester}, 3, false},
	{"E", Duty{Slot: 9, Type: DutyExit}, 0, true},       // never expires
	{"F", Duty{Slot: 0, Type: DutyAttester}, -1, false}, // deadline already past at start
	{"G", Duty{Slot: 2, Type: DutyRandao}, 2, false},    // third duty with deadline 2
	{"H", Duty{Slot: 2, Type: DutyAggregator}, 2, false},
}

// ops: 0..nd-1 = Add(duty i); nd = advance(0.5s); nd+1 = advance(1s); nd+2 = the clock jumps by 2.5s (past two
// deadlines at once: a stalled process / adjusted clock); nd+3+i (i<4) = the deadliner's goroutine is stalled (inside
// the deadline function, while registering the never-expiring duty E), meanwhile the clock jumps by 2s and Add(duty i)
// is called; then the goroutine resumes and finds both the fired timer and the pending Add (at most one such op per
// sequence; both select orders are explored).
type c16case struct {
	Ops     []int `json:"ops"`
	MapRot  int   `json:"maprot"`
	SelMode int   `json:"selmode"`
	NDuty   int   `json:"nduty"`
	Fine    bool  `json:"fine,omitempty"` // part F: ops 0..2 = Add(P|Q|R), 3 = the clock moves to the next instant of c16fineInstants
}

func c16opName(nd, op int) string {
	switch {
	case op < nd:
		return "add" + c16duties[op].name
	case op == nd:
		return "adv0.5"
	case op == nd+1:
		return "adv1"
	case op == nd+2:
		return "jump2.5"
	}
	return "stall+jump2+add" + c16duties[op-nd-3].name
}

type c16receipt struct {
	duty Duty
	at   time.Duration
}

type c16result struct {
	statuses []DeadlineStatus // per op (adds only; -1 for advances)
	receipts []c16receipt
	opTimes  []time.Duration
	viol     []string
	sig      []string
}

// c16run executes one sequence on a fresh real deadliner inside a bubble and checks it against the model.
func c16run(t *testing.T, cs c16case) (res c16result) {
	runtime.VerifSetMapRot(true, uint64(cs.MapRot))
	defer runtime.VerifSetMapRot(false, 0)
	nd := cs.NDuty
	runtime.VerifSetSelMode(uint32(cs.SelMode))
	defer runtime.VerifSetSelMode(0)
	synctest.Test(t, func(t *testing.T) {
		ctx, cancel := context.WithCancel(context.Background())
		// The deadliner runs on a fake clock that the harness moves (so that time can also jump past several deadlines
		// between two steps of the deadliner's goroutine); the bubble is only used to detect quiescence.
		fc := clockwork.NewFakeClock()
		t0 := fc.Now()
		start := t0.Add(250 * time.Millisecond) // harness acts at multiples of 0.5s, deadlines fall on k+0.25s: never simultaneously
		byDuty := map[Duty]c16duty{}
		for _, d := range c16duties[:nd] {
			byDuty[d.duty] = d
		}
		var stallAt chan struct{} // when set: the next deadline lookup for the never-expiring duty parks here
		var stalled, release chan struct{}
		dl := newDeadliner(ctx, "c16", func(duty Duty) (time.Time, bool) {
			d := byDuty[duty]
			if d.never {
				if stallAt != nil {
					stallAt = nil
					close(stalled)
					<-release
				}
				return time.Time{}, false
			}
			return start.Add(time.Duration(d.deadline * float64(time.Second))), true
		}, fc)
		done := make(chan struct{})
		go func() { // a consumer that keeps reading
			defer close(done)
			for {
				select {
				case <-ctx.Done():
					return
				case d := <-dl.C():
					res.receipts = append(res.receipts, c16receipt{d, fc.Since(t0)})
				}
			}
		}()
		synctest.Wait()
		for _, op := range cs.Ops {
			switch {
			case op < nd:
				res.opTimes = append(res.opTimes, fc.Since(t0))
				res.statuses = append(res.statuses, dl.Add(c16duties[op].duty))
			case op <= nd+2:
				res.opTimes = append(res.opTimes, fc.Since(t0))
				res.statuses = append(res.statuses, -1)
				fc.Advance([]time.Duration{500 * time.Millisecond, time.Second, 2500 * time.Millisecond}[op-nd])
			default:
				// stall the deadliner's goroutine inside Add(E), move the clock, issue the Add, resume
				stallAt, stalled, release = make(chan struct{}), make(chan struct{}), make(chan struct{})
				eDone := make(chan struct{})
				go func() { dl.Add(c16duties[4].duty); close(eDone) }()
				<-stalled
				fc.Advance(2 * time.Second)
				res.opTimes = append(res.opTimes, fc.Since(t0))
				var st DeadlineStatus
				aDone := make(chan struct{})
				go func() { st = dl.Add(c16duties[op-nd-3].duty); close(aDone) }()
				synctest.Wait()
				close(release)
				<-eDone
				<-aDone
				res.statuses = append(res.statuses, st)
			}
			synctest.Wait()
		}
		// let everything that is pending expire
		for i := 0; i < 12; i++ {
			fc.Advance(5 * time.Second)
			synctest.Wait()
		}
		cancel()
		<-done
		synctest.Wait()
	})
	// ---- reference model ----
	bad := func(sig, f string, a ...any) {
		res.sig = append(res.sig, sig)
		res.viol = append(res.viol, fmt.Sprintf(f, a...))
	}
	dlOf := func(d c16duty) time.Duration {
		return 250*time.Millisecond + time.Duration(d.deadline*float64(time.Second))
	}
	scheduled := map[string]bool{} // accepted before their deadline (each is owed exactly one report)
	for i, op := range cs.Ops {
		if op >= nd && op <= nd+2 {
			continue
		}
		d := c16duties[op%(nd+3)]
		if op > nd+2 {
			d = c16duties[op-nd-3]
		}
		now := res.opTimes[i]
		st := res.statuses[i]
		switch {
		case d.never:
			if st != DeadlineExempt {
				bad("kind=add-status want=exempt", "Add(%s) for a never-expiring duty returned %v", d.name, st)
			}
		case now > dlOf(d):
			if st != DeadlineExpired {
				bad("kind=add-status want=expired", "Add(%s) at %s, after its deadline %s, returned %v", d.name, now, dlOf(d), st)
			}
		default:
			if st != DeadlineScheduled {
				bad("kind=add-status want=scheduled", "Add(%s) at %s, before its deadline %s, returned %v", d.name, now, dlOf(d), st)
			}
			scheduled[d.name] = true
		}
	}
	count := map[string]int{}
	var lastDl time.Duration
	for _, r := range res.receipts {
		d, ok := func() (c16duty, bool) {
			for _, x := range c16duties[:nd] {
				if x.duty == r.duty {
					return x, true
				}
			}
			return c16duty{}, false
		}()
		if !ok {
			bad("kind=unknown-duty-reported", "duty %v reported but never added", r.duty)
			continue
		}
		count[d.name]++
		if !scheduled[d.name] {
			if d.never {
				bad("kind=never-expiring-duty-reported", "%s never expires but was reported", d.name)
			} else {
				bad("kind=late-add-reported", "%s was only added after its deadline (refused) but was reported", d.name)
			}
			continue
		}
		if r.at < dlOf(d) {
			bad("kind=reported-early", "%s reported at %s, before its deadline %s", d.name, r.at, dlOf(d))
		}
		if dlOf(d) < lastDl {
			bad("kind=reported-out-of-deadline-order", "%s (deadline %s) reported after a duty with deadline %s", d.name, dlOf(d), lastDl)
		}
		if dlOf(d) > lastDl {
			lastDl = dlOf(d)
		}
	}
	for name := range scheduled {
		switch {
		case count[name] == 0:
			bad("kind=never-reported", "%s was registered before its deadline but never reported (20s after the last operation)", name)
		case count[name] > 1:
			bad("kind=reported-twice", "%s reported %d times", name, count[name])
		}
	}
	return res
}

// ---- part F: instants off the grid ------------------------------------------------------------------------
// The main part keeps deadlines and harness actions on a half-second grid. Here deadlines have sub-millisecond parts (as
// slotDuration/12 has for slot durations that are not multiples of 12 ms), two of them fall into the same millisecond, two
// are one nanosecond apart, and the clock visits exactly the instants at which a coarser representation of a deadline
// (truncated or rounded to micro- or milliseconds) would differ from the deadline itself.
var c16fineDuties = []struct {
	name string
	duty Duty
	dl   time.Duration
}{
	{"P", Duty{Slot: 11, Type: DutyAttester}, 1_000_416_667},
	{"Q", Duty{Slot: 12, Type: DutyAttester}, 1_000_716_667}, // same millisecond as P
	{"R", Duty{Slot: 13, Type: DutyAttester}, 1_000_416_668}, // one nanosecond after P
}

func c16fineInstants() []time.Duration {
	set := map[time.Duration]bool{}
	for _, d := range c16fineDuties {
		for _, x := range []time.Duration{d.dl.Truncate(time.Millisecond), d.dl.Truncate(time.Microsecond), d.dl - 1, d.dl, d.dl + 1,
			d.dl.Truncate(time.Millisecond) + time.Millisecond, d.dl.Round(time.Microsecond)} {
			set[x] = true
		}
	}
	var out []time.Duration
	for x := range set {
		out = append(out, x)
	}
	sort.Slice(out, func(i, j int) bool { return out[i] < out[j] })
	return out
}

func c16fineRun(t *testing.T, cs c16case) (res c16result) {
	runtime.VerifSetMapRot(true, uint64(cs.MapRot))
	defer runtime.VerifSetMapRot(false, 0)
	runtime.VerifSetSelMode(uint32(cs.SelMode))
	defer runtime.VerifSetSelMode(0)
	instants := c16fineInstants()
	synctest.Test(t, func(t *testing.T) {
		ctx, cancel := context.WithCancel(context.Background())
		fc := clockwork.NewFakeClock()
		t0 := fc.Now()
		dls := map[Duty]time.Duration{}
		for _, d := range c16fineDuties {
			dls[d.duty] = d.dl
		}
		dl := newDeadliner(ctx, "c16f", func(duty Duty) (time.Time, bool) { return t0.Add(dls[duty]), true }, fc)
		done := make(chan struct{})
		go func() {
			defer close(done)
			for {
				select {
				case <-ctx.Done():
					return
				case d := <-dl.C():
					res.receipts = append(res.receipts, c16receipt{d, fc.Since(t0)})
				}
			}
		}()
		synctest.Wait()
		next := 0
		for _, op := range cs.Ops {
			res.opTimes = append(res.opTimes, fc.Since(t0))
			if op < 3 {
				res.statuses = append(res.statuses, dl.Add(c16fineDuties[op].duty))
			} else {
				res.statuses = append(res.statuses, -1)
				if next < len(instants) {
					fc.Advance(instants[next] - fc.Since(t0))
					next++
				}
			}
			synctest.Wait()
		}
		for ; next < len(instants); next++ { // the remaining instants one by one, then far beyond
			fc.Advance(instants[next] - fc.Since(t0))
			synctest.Wait()
		}
		for i := 0; i < 3; i++ {
			fc.Advance(5 * time.Second)
			synctest.Wait()
		}
		cancel()
		<-done
		synctest.Wait()
	})
	bad := func(sig, f string, a ...any) {
		res.sig = append(res.sig, sig)
		res.viol = append(res.viol, fmt.Sprintf(f, a...))
	}
	owed := map[string]bool{}
	for i, op := range cs.Ops {
		if op >= 3 {
			continue
		}
		d, now, st := c16fineDuties[op], res.opTimes[i], res.statuses[i]
		switch {
		case now > d.dl && st != DeadlineExpired:
			bad("kind=add-status want=expired part=F", "Add(%s) at %s, after its deadline %s, returned %v", d.name, now, d.dl, st)
		case now < d.dl && st != DeadlineScheduled:
			bad("kind=add-status want=scheduled part=F", "Add(%s) at %s, before its deadline %s, returned %v", d.name, now, d.dl, st)
		}
		if st == DeadlineScheduled && now <= d.dl { // registered exactly at the deadline: either answer, and it binds
			owed[d.name] = true
		}
	}
	count := map[string]int{}
	var lastDl time.Duration
	for _, r := range res.receipts {
		var name string
		var ddl time.Duration
		for _, x := range c16fineDuties {
			if x.duty == r.duty {
				name, ddl = x.name, x.dl
			}
		}
		if name == "" {
			bad("kind=unknown-duty-reported part=F", "duty %v reported but never added", r.duty)
			continue
		}
		count[name]++
		if !owed[name] {
			bad("kind=late-add-reported part=F", "%s was not registered before its deadline but was reported", name)
			continue
		}
		if r.at < ddl {
			bad("kind=reported-early part=F", "%s reported at %s, %s before its deadline %s", name, r.at, ddl-r.at, ddl)
		}
		if ddl < lastDl {
			bad("kind=reported-out-of-deadline-order part=F", "%s (deadline %s) reported after a duty with the later deadline %s", name, ddl, lastDl)
		}
		lastDl = max(lastDl, ddl)
	}
	for name := range owed {
		switch {
		case count[name] == 0:
			bad("kind=never-reported part=F", "%s was registered before its deadline but never reported (15s after it)", name)
		case count[name] > 1:
			bad("kind=reported-twice part=F", "%s reported %d times", name, count[name])
		}
	}
	return res
}

func c16str(cs c16case) string {
	if cs.Fine {
		var p []string
		for _, op := range cs.Ops {
			if op < 3 {
				p = append(p, "add"+c16fineDuties[op].name)
			} else {
				p = append(p, "next")
			}
		}
		return fmt.Sprintf("fine/rot%d/sel%d:%s", cs.MapRot, cs.SelMode, strings.Join(p, ","))
	}
	var p []string
	for _, op := range cs.Ops {
		p = append(p, c16opName(cs.NDuty, op))
	}
	return fmt.Sprintf("rot%d/sel%d:%s", cs.MapRot, cs.SelMode, strings.Join(p, ","))
}

func c16any(t *testing.T, cs c16case) c16result {
	if cs.Fine {
		return c16fineRun(t, cs)
	}
	return c16run(t, cs)
}

func TestVerifC16(t *testing.T) {
	r := enumx.New(t, "C16")
	defer r.Finish()
	report := func(cs c16case, res c16result) {
		for i, sig := range res.sig {
			// confirm 3x
			ok := true
			for k := 0; k < 3; k++ {
				r2 := c16any(t, cs)
				f := false
				for _, s := range r2.sig {
					if s == sig {
						f = true
					}
				}
				ok = ok && f
			}
			if !ok {
				r.Unconfirmed(sig)
				continue
			}
			r.Violation(sig, fmt.Sprintf("%s [sequence %s]", res.viol[i], c16str(cs)), cs)
		}
	}
	if r.ReplayPath != "" {
		var cs c16case
		if err := r.ReplayCase(&cs); err != nil {
			t.Fatal(err)
		}
		res := c16any(t, cs)
		fmt.Printf("replay %s: statuses=%v receipts=%v violations=%v\n", c16str(cs), res.statuses, res.receipts, res.viol)
		r.Eval("replay")
		report(cs, res)
		return
	}
	// alphabets: (number of duties, max length)
	mstates := map[string]struct{}{}
	defer func() { r.States(len(mstates)) }()
	// part F: every interleaving of Add(P), Add(Q), Add(R) (each at most once, every subset, every order) with the walk of the
	// clock over the off-grid instants, under three map rotations and both select orders
	{
		nInst := len(c16fineInstants())
		var recF func(ops []int, used int, steps int)
		recF = func(ops []int, used int, steps int) {
			if len(ops) == 2 && !r.Mine() {
				return
			}
			if r.Expired() {
				return
			}
			if used != 0 && (steps == nInst || len(ops) >= 2) {
				for rot := 0; rot < 3; rot++ {
					for _, sel := range []int{1, 2} {
						cs := c16case{Ops: append([]int(nil), ops...), MapRot: rot, SelMode: sel, Fine: true}
						res := c16fineRun(t, cs)
						r.Eval(fmt.Sprintf("fine:adds=%03b/reports:%d", used, len(res.receipts)))
						r.Steps(len(ops) + nInst)
						r.Count("fine_reports_observed", len(res.receipts))
						if len(res.sig) > 0 {
							report(cs, res)
						}
					}
				}
			}
			for op := 0; op < 4; op++ {
				if op < 3 {
					if used&(1<<op) != 0 {
						continue
					}
					recF(append(ops[:len(ops):len(ops)], op), used|1<<op, steps)
				} else if steps < nInst {
					recF(append(ops[:len(ops):len(ops)], op), used, steps+1)
				}
			}
		}
		recF(nil, 0, 0)
	}
	type cfg struct{ nd, maxLen int }
	cfgs := []cfg{{6, 5}, {8, 4}}
	if enumx.Thorough() {
		cfgs = []cfg{{6, 6}, {8, 5}}
	}
	for _, c := range cfgs {
		nops := c.nd + 3 + 4
		// shard on the first two operations
		var rec func(ops []int)
		rec = func(ops []int) {
			if len(ops) == 2 || (len(ops) < 2 && len(ops) == c.maxLen) {
				if !r.Mine() {
					return
				}
			}
			if r.Expired() {
				return
			}
			if len(ops) > 0 {
				rots := 1
				tie, jumps, nadds := 0, 0, 0
				for _, op := range ops {
					if op < c.nd && c16duties[op].deadline == 2 {
						tie++
					}
					if op < c.nd || op > c.nd+2 {
						nadds++
					}
					if op >= c.nd+2 {
						jumps++
					}
				}
				if tie >= 2 || (jumps > 0 && nadds >= 2) {
					rots = 3
				}
				sels := []int{1}
				if jumps > 0 {
					sels = []int{1, 2} // both orders in which the deadliner can see "timer fired" and "Add pending"
				}
				for ri := 0; ri < rots*len(sels); ri++ {
					rot := ri % rots
					cs := c16case{Ops: append([]int(nil), ops...), MapRot: rot, SelMode: sels[ri/rots], NDuty: c.nd}
					res := c16run(t, cs)
					key := ""
					var sts []string
					for _, s := range res.statuses {
						sts = append(sts, fmt.Sprint(int(s)))
					}
					sort.Strings(sts)
					key = fmt.Sprintf("adds:%s/reports:%d", strings.Join(sts, ""), len(res.receipts))
					r.Eval(key)
					r.Steps(len(ops))
					// distinct reference-model states reached: (duties owed a report, duties reported, clock)
					var rep []string
					for _, x := range res.receipts {
						rep = append(rep, fmt.Sprint(x.duty))
					}
					sort.Strings(rep)
					var clock time.Duration
					if n := len(res.opTimes); n > 0 {
						clock = res.opTimes[n-1]
					}
					mstates[fmt.Sprintf("%d|%s|%s|%s", c.nd, strings.Join(sts, ""), strings.Join(rep, ","), clock)] = struct{}{}
					r.Count("reports_observed", len(res.receipts))
					if len(ops) == c.maxLen {
						r.Sample(map[string]any{"sequence": c16str(cs), "receipts": fmt.Sprint(res.receipts)})
					}
					if len(res.sig) > 0 {
						report(cs, res)
					}
				}
			}
			if len(ops) == c.maxLen {
				return
			}
			for op := 0; op < nops; op++ {
				if op > c.nd+2 {
					dup := false
					for _, o := range ops {
						dup = dup || o > c.nd+2
					}
					if dup {
						continue
					}
				}
				rec(append(ops, op))
			}
		}
		rec(nil)
	}
}
