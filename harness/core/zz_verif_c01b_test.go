package core_test

// C01, duty-type dimension. The explorer, the deviation alphabet and the oracle are those of zz_verif_c01_test.go; this
// file adds what differs per duty type:
//
//   proposer      through consensus. The nodes' fetchers hand different candidate blocks (graffiti and fee recipient differ),
//                 as full block contents (deneb, fulu) or as blinded blocks (electra, capella). The validator-client stub
//                 signs the proposal its own node serves through DutyDB.AwaitProposal. The beacon stub records SubmitProposal
//                 and SubmitBlindedProposal. Byzantine deviations: a partial signature of its own share over ITS OWN
//                 candidate / over a third block, the common block carrying a signature of another block, the relabel
//                 flood, and (full blocks) the common block with other blobs and KZG proofs (outside the signing root).
//   sync          sync committee messages of two validators in one set, no consensus: every validator client signs the block
//                 root its own node reports; the nodes see the roots Camps[node]. Beacon stub: SubmitSyncCommitteeMessages.
//   registration  builder registrations (fee recipient and timestamp differ per camp); never expires, the real broadcaster
//                 does not submit it (judged at Broadcast and AggSigDB.Store).
//   exit          voluntary exits of two validators (honest clients agree: the message is fixed by duty and validator);
//                 never expires; beacon stub: SubmitVoluntaryExit.
//   randao        the signed epoch (honest clients agree); not submitted to the beacon node.
//
// For the duty types without consensus the Byzantine node (n=4 only, f=1) does not deviate at one step, it is an input of
// the scenario: its validator client is the adversary and sends each peer one partial signature made with its own key share,
// chosen per peer (c01bPlanSet) - e.g. over root A to some peers and over root B to the others - before or after the honest
// partial signatures are sent. All set partitions of the honest nodes into camps are enumerated.

import (
	"context"
	"fmt"
	"time"

	bitfield "github.com/OffchainLabs/go-bitfield"
	eth2api "github.com/attestantio/go-eth2-client/api"
	eth2v1 "github.com/attestantio/go-eth2-client/api/v1"
	eth2capella "github.com/attestantio/go-eth2-client/api/v1/capella"
	eth2deneb "github.com/attestantio/go-eth2-client/api/v1/deneb"
	eth2electra "github.com/attestantio/go-eth2-client/api/v1/electra"
	eth2fulu "github.com/attestantio/go-eth2-client/api/v1/fulu"
	eth2spec "github.com/attestantio/go-eth2-client/spec"
	"github.com/attestantio/go-eth2-client/spec/altair"
	"github.com/attestantio/go-eth2-client/spec/bellatrix"
	"github.com/attestantio/go-eth2-client/spec/deneb"
	"github.com/attestantio/go-eth2-client/spec/electra"
	eth2p0 "github.com/attestantio/go-eth2-client/spec/phase0"
	"google.golang.org/protobuf/proto"

	"github.com/obolnetwork/charon/core"
	pbv1 "github.com/obolnetwork/charon/core/corepb/v1"
	"github.com/obolnetwork/charon/eth2util"
	"github.com/obolnetwork/charon/eth2util/signing"
	"github.com/obolnetwork/charon/tbls"
	"github.com/obolnetwork/charon/testutil"
)

const (
	c01kProposer   = "proposer"
	c01kAggregator = "aggregator"
	c01kSync     = "sync"
	c01kExit     = "exit"
	c01kReg      = "registration"
	c01kRandao   = "randao"
)

// viaConsensus: the duty's unsigned data is fetched, agreed on by consensus and served to the validator client by dutydb.
func (w *c01world) viaConsensus() bool { return w.kind == c01kProposer || w.kind == c01kAggregator }

func (w *c01world) bDuty() core.Duty {
	switch w.kind {
	case c01kProposer:
		return core.NewProposerDuty(c01slot)
	case c01kAggregator:
		return core.NewAggregatorDuty(c01slot)
	case c01kSync:
		return core.NewSyncMessageDuty(c01slot)
	case c01kExit:
		return core.NewVoluntaryExit(c01slot)
	case c01kReg:
		return core.NewBuilderRegistrationDuty(c01slot)
	default:
		return core.NewRandaoDuty(c01slot)
	}
}

// bNVals: validators of the cluster that have the duty in the slot (one proposer per slot; two sync committee members and two
// exiting validators so that one parsigex set / one Aggregate / one Broadcast call carries both).
func (w *c01world) bNVals() int {
	switch w.kind {
	case c01kSync, c01kExit:
		return 2
	default:
		return 1
	}
}

func (w *c01world) bDefSet() core.DutyDefinitionSet {
	out := core.DutyDefinitionSet{}
	if w.kind == c01kProposer {
		v := w.cl.vals[0]
		out[v.corePK] = core.NewProposerDefinition(&eth2v1.ProposerDuty{PubKey: eth2p0.BLSPubKey(v.group), Slot: c01slot, ValidatorIndex: v.valIdx})
	}
	if w.kind == c01kAggregator {
		v := w.cl.vals[0]
		out[v.corePK] = core.NewAttesterDefinition(w.attDuty(v))
	}
	return out
}

func (n *c01node) stopRetryer(ctx context.Context) {
	if n.retryer != nil {
		go n.retryer.Shutdown(ctx)
		n.retryer = nil
	}
}

func (w *c01world) epochOf(slot eth2p0.Slot) eth2p0.Epoch {
	e, _ := eth2util.EpochFromSlot(context.Background(), w.eth2, slot)
	return e
}

func (w *c01world) slotsPerEpoch() uint64 {
	spe, _ := w.eth2.spec.Data["SLOTS_PER_EPOCH"].(uint64)
	return spe
}

// ---- proposals -------------------------------------------------------------------------------------------------------------

var c01bPropBase = map[string]*eth2api.VersionedProposal{}

// c01bProposal returns a fresh copy of the candidate block `variant` of the given version/form for the duty's slot and
// proposer: the candidates of one version differ in graffiti and fee recipient only (one random base block per process).
func c01bProposal(ver string, variant byte, proposer eth2p0.ValidatorIndex) (*eth2api.VersionedProposal, error) {
	base, ok := c01bPropBase[ver]
	if !ok {
		switch ver {
		case "deneb":
			base = testutil.RandomDenebVersionedProposal()
		case "fulu":
			base = testutil.RandomFuluVersionedProposal()
		case "electra-blinded":
			base = &eth2api.VersionedProposal{Version: eth2spec.DataVersionElectra, Blinded: true,
				ElectraBlinded: testutil.RandomElectraVersionedSignedBlindedProposal().ElectraBlinded.Message}
		case "capella-blinded":
			p := testutil.RandomCapellaVersionedBlindedProposal()
			base = &p.VersionedProposal
		default:
			return nil, fmt.Errorf("harness: unknown proposal version %q", ver)
		}
		c01bPropBase[ver] = base
	}
	cl, err := core.VersionedProposal{VersionedProposal: *base}.Clone()
	if err != nil {
		return nil, err
	}
	p := cl.(core.VersionedProposal).VersionedProposal
	var graffiti *[32]byte
	var fee *bellatrix.ExecutionAddress
	switch ver {
	case "deneb":
		b := p.Deneb.Block
		b.Slot, b.ProposerIndex = c01slot, proposer
		graffiti, fee = &b.Body.Graffiti, &b.Body.ExecutionPayload.FeeRecipient
	case "fulu":
		b := p.Fulu.Block
		b.Slot, b.ProposerIndex = c01slot, proposer
		graffiti, fee = &b.Body.Graffiti, &b.Body.ExecutionPayload.FeeRecipient
	case "electra-blinded":
		b := p.ElectraBlinded
		b.Slot, b.ProposerIndex = c01slot, proposer
		graffiti, fee = &b.Body.Graffiti, &b.Body.ExecutionPayloadHeader.FeeRecipient
	case "capella-blinded":
		b := p.CapellaBlinded
		b.Slot, b.ProposerIndex = c01slot, proposer
		graffiti, fee = &b.Body.Graffiti, &b.Body.ExecutionPayloadHeader.FeeRecipient
	}
	*graffiti = [32]byte{'c', '0', '1', variant}
	*fee = bellatrix.ExecutionAddress{0xfe, variant}
	return &p, nil
}

// bFetch is the stub fetcher of the duty types that go through consensus (other than attester).
func (n *c01node) bFetch(defs core.DutyDefinitionSet) (core.UnsignedDataSet, error) {
	set := core.UnsignedDataSet{}
	for pk := range defs {
		if n.world.kind == c01kAggregator {
			agg, err := core.NewVersionedAggregatedAttestation(n.aggCand)
			if err != nil {
				return nil, err
			}
			cl, err := agg.Clone()
			if err != nil {
				return nil, err
			}
			set[pk] = cl
			continue
		}
		cl, err := core.VersionedProposal{VersionedProposal: *n.propCand}.Clone()
		if err != nil {
			return nil, err
		}
		set[pk] = cl
	}
	return set, nil
}

// bSignProposal: what a validator client does with a block it is served: the signing root is the block root under the
// proposer domain of the block's epoch; the signed object has the form (full contents / blinded) of the served one.
func (w *c01world) bSignProposal(v c01val, share int, p *eth2api.VersionedProposal, signOver *eth2api.VersionedProposal) (core.ParSignedData, error) {
	if signOver == nil {
		signOver = p
	}
	root, err := signOver.Root()
	if err != nil {
		return core.ParSignedData{}, err
	}
	slot, err := signOver.Slot()
	if err != nil {
		return core.ParSignedData{}, err
	}
	sroot, err := signing.GetDataRoot(context.Background(), w.eth2, signing.DomainBeaconProposer, w.epochOf(slot), root)
	if err != nil {
		return core.ParSignedData{}, err
	}
	s, err := c01sign(v.shares[share], sroot)
	if err != nil {
		return core.ParSignedData{}, err
	}
	sig := eth2p0.BLSSignature(s)
	switch {
	case p.Version == eth2spec.DataVersionDeneb && !p.Blinded:
		return core.NewPartialVersionedSignedProposal(&eth2api.VersionedSignedProposal{Version: p.Version, Deneb: &eth2deneb.SignedBlockContents{
			SignedBlock: &deneb.SignedBeaconBlock{Message: p.Deneb.Block, Signature: sig}, KZGProofs: p.Deneb.KZGProofs, Blobs: p.Deneb.Blobs}}, share)
	case p.Version == eth2spec.DataVersionFulu && !p.Blinded:
		return core.NewPartialVersionedSignedProposal(&eth2api.VersionedSignedProposal{Version: p.Version, Fulu: &eth2fulu.SignedBlockContents{
			SignedBlock: &electra.SignedBeaconBlock{Message: p.Fulu.Block, Signature: sig}, KZGProofs: p.Fulu.KZGProofs, Blobs: p.Fulu.Blobs}}, share)
	case p.Version == eth2spec.DataVersionElectra && p.Blinded:
		return core.NewPartialVersionedSignedBlindedProposal(&eth2api.VersionedSignedBlindedProposal{Version: p.Version,
			Electra: &eth2electra.SignedBlindedBeaconBlock{Message: p.ElectraBlinded, Signature: sig}}, share)
	case p.Version == eth2spec.DataVersionCapella && p.Blinded:
		return core.NewPartialVersionedSignedBlindedProposal(&eth2api.VersionedSignedBlindedProposal{Version: p.Version,
			Capella: &eth2capella.SignedBlindedBeaconBlock{Message: p.CapellaBlinded, Signature: sig}}, share)
	}
	return core.ParSignedData{}, fmt.Errorf("harness: unsupported proposal form")
}

// ---- objects of the duty types without consensus ---------------------------------------------------------------------------

// Modifications of fields OUTSIDE the message root (only sync committee messages have any): the validator index and the slot
// are not part of SignedSyncMessage.MessageRoot (the beacon block root), the slot selects the signing domain.
const (
	c01bModNone      = 0
	c01bModOtherVal  = 1 // validator index of the other validator of the cluster
	c01bModNoVal     = 2 // validator index of no validator
	c01bModNextSlot  = 3 // the next slot (same fork)
	c01bModForkSlot  = 4 // the same slot number one fork later (another signing domain)
	c01bPlanModBase  = 10
	c01bPlanBadSig   = 20 // the object the honest clients sign (variant 0), carrying the node's signature over variant 1
	c01bPlanNothing  = -1
	c01bMaxVariant   = 3
	c01bRegGasLimit  = 30000000
)

func c01bRoot(b byte) (r eth2p0.Root) {
	for i := range r {
		r[i] = b
	}
	return r
}

// bSignObject is a validator client (honest or not) signing variant `variant` of the duty's object for validator v with
// key share `share`. The signing root is computed from the consensus spec's rules for the object, not through charon's
// Eth2SignedData accessors.
func (w *c01world) bSignObject(v c01val, vi int, share int, variant int, mod int) (core.ParSignedData, error) {
	ctx := context.Background()
	sign := func(domain signing.DomainName, epoch eth2p0.Epoch, root eth2p0.Root) (eth2p0.BLSSignature, error) {
		sroot, err := signing.GetDataRoot(ctx, w.eth2, domain, epoch, root)
		if err != nil {
			return eth2p0.BLSSignature{}, err
		}
		s, err := c01sign(v.shares[share], sroot)
		return eth2p0.BLSSignature(s), err
	}
	switch w.kind {
	case c01kSync:
		msg := &altair.SyncCommitteeMessage{Slot: c01slot, BeaconBlockRoot: c01bRoot(0x30 + byte(variant)), ValidatorIndex: v.valIdx}
		switch mod {
		case c01bModOtherVal:
			msg.ValidatorIndex = w.cl.vals[(vi+1)%2].valIdx
		case c01bModNoVal:
			msg.ValidatorIndex = 999
		case c01bModNextSlot:
			msg.Slot = c01slot + 1
		case c01bModForkSlot:
			msg.Slot = c01slot + eth2p0.Slot(c01forkEpoch*w.slotsPerEpoch())
		}
		sig, err := sign(signing.DomainSyncCommittee, w.epochOf(msg.Slot), msg.BeaconBlockRoot)
		if err != nil {
			return core.ParSignedData{}, err
		}
		msg.Signature = sig
		return core.NewPartialSignedSyncMessage(msg, share), nil
	case c01kExit:
		exit := &eth2p0.SignedVoluntaryExit{Message: &eth2p0.VoluntaryExit{Epoch: eth2p0.Epoch(variant), ValidatorIndex: v.valIdx}}
		root, err := exit.Message.HashTreeRoot()
		if err != nil {
			return core.ParSignedData{}, err
		}
		if exit.Signature, err = sign(signing.DomainExit, exit.Message.Epoch, root); err != nil {
			return core.ParSignedData{}, err
		}
		return core.NewPartialSignedVoluntaryExit(exit, share), nil
	case c01kReg:
		reg := &eth2v1.SignedValidatorRegistration{Message: &eth2v1.ValidatorRegistration{FeeRecipient: bellatrix.ExecutionAddress{0xfe, byte(variant)},
			GasLimit: c01bRegGasLimit, Timestamp: w.eth2.genesis.Add(c01slot*12*time.Second + time.Duration(variant)*time.Second), Pubkey: eth2p0.BLSPubKey(v.group)}}
		root, err := reg.Message.HashTreeRoot()
		if err != nil {
			return core.ParSignedData{}, err
		}
		if reg.Signature, err = sign(signing.DomainApplicationBuilder, 0, root); err != nil {
			return core.ParSignedData{}, err
		}
		return core.NewPartialVersionedSignedValidatorRegistration(&eth2api.VersionedSignedValidatorRegistration{Version: eth2spec.BuilderVersionV1, V1: reg}, share)
	default: // randao
		epoch := w.epochOf(c01slot) + eth2p0.Epoch(variant)
		root, err := eth2util.SignedEpoch{Epoch: epoch}.HashTreeRoot()
		if err != nil {
			return core.ParSignedData{}, err
		}
		sig, err := sign(signing.DomainRandao, epoch, root)
		if err != nil {
			return core.ParSignedData{}, err
		}
		return core.NewPartialSignedRandao(epoch, sig, share), nil
	}
}

// bVC is the validator client of one node for the duty types of this file.
func (n *c01node) bVC(duty core.Duty) {
	w := n.world
	set := core.ParSignedDataSet{}
	if w.kind == c01kAggregator {
		v := w.cl.vals[0]
		data := w.bAggData()
		root, err := data.HashTreeRoot()
		if err != nil {
			return
		}
		att, err := n.awaitAgg(n.ctx, c01slot, root, v.commIdx)
		if err != nil {
			return
		}
		par, err := w.bSignAggregate(v, n.idx+1, att, nil)
		if err != nil {
			return
		}
		set[v.corePK] = par
	} else if w.kind == c01kProposer {
		prop, err := n.awaitProp(n.ctx, c01slot)
		if err != nil {
			return
		}
		v := w.cl.vals[0]
		par, err := w.bSignProposal(v, n.idx+1, prop, nil)
		if err != nil {
			return
		}
		set[v.corePK] = par
	} else {
		variant := 0
		if n.idx < len(w.sc.Camps) {
			variant = w.sc.Camps[n.idx]
		}
		for vi, v := range w.cl.vals[:w.nvals] {
			par, err := w.bSignObject(v, vi, n.idx+1, variant, c01bModNone)
			if err != nil {
				return
			}
			set[v.corePK] = par
		}
	}
	n.signedN++
	for _, s := range n.vapiSub {
		_ = s(n.ctx, duty, set)
	}
}

// bInject puts one parsigex message of the Byzantine node (all validators of the set in ONE message, as honest nodes send
// them) into the network for each of the given peers.
func (w *c01world) bInject(duty core.Duty, set core.ParSignedDataSet, to ...int) {
	pbset, err := core.ParSignedDataSetToProto(set)
	if err != nil {
		return
	}
	b, _ := proto.Marshal(&pbv1.ParSigExMsg{Duty: core.DutyToProto(duty), DataSet: pbset})
	frame := append(c01uvarint(uint64(len(b))), b...)
	for _, x := range to {
		if x != w.sc.Byz {
			w.net.Inject(w.cl.peerIDs[w.sc.Byz], w.cl.peerIDs[x], "/charon/parsigex/2.0.0", frame)
		}
	}
}

// c01bPlanSet: what the adversary sends one peer. p = -1 nothing; 0..3 the object variant p; 10+m (m = c01bMod...) variant 0
// with the modification m of the fields outside the message root; 20 variant 0 carrying its signature over variant 1.
func (w *c01world) c01bPlanSet(p int) core.ParSignedDataSet {
	if p == c01bPlanNothing {
		return nil
	}
	variant, mod := p, c01bModNone
	if p == c01bPlanBadSig {
		variant = 0
	} else if p >= c01bPlanModBase {
		variant, mod = 0, p-c01bPlanModBase
	}
	set := core.ParSignedDataSet{}
	for vi, v := range w.cl.vals[:w.nvals] {
		par, err := w.bSignObject(v, vi, w.sc.Byz+1, variant, mod)
		if err != nil {
			return nil
		}
		if p == c01bPlanBadSig {
			other, err := w.bSignObject(v, vi, w.sc.Byz+1, 1, c01bModNone)
			if err != nil {
				return nil
			}
			sd, err := par.SignedData.SetSignature(other.Signature())
			if err != nil {
				return nil
			}
			par = core.ParSignedData{SignedData: sd, ShareIdx: par.ShareIdx}
		}
		set[v.corePK] = par
	}
	return set
}

func (w *c01world) bInjectPlan(duty core.Duty) (trace []string) {
	j := 0
	for x := 0; x < w.sc.N; x++ {
		if x == w.sc.Byz {
			continue
		}
		if j < len(w.sc.Plan) {
			if set := w.c01bPlanSet(w.sc.Plan[j]); set != nil {
				w.bInject(duty, set, x)
				if p := w.sc.Plan[j]; p == c01bPlanBadSig {
					trace = append(trace, fmt.Sprintf("BYZ variant 0 carrying own-share signature over variant 1 ->%d", x))
				} else if p >= c01bPlanModBase {
					// a GENUINE partial signature of the node's own share over the object the honest clients sign, in an object whose
					// fields outside the message root are of the sender's choosing
					trace = append(trace, fmt.Sprintf("BYZ genuine-signature-other-unsigned-fields(sync-message mod %d) ->%d", p-c01bPlanModBase, x))
				} else {
					trace = append(trace, fmt.Sprintf("BYZ own-share partial over variant %d ->%d", p, x))
				}
			}
		}
		j++
	}
	return trace
}

// ---- Byzantine deviations of the proposer duty -------------------------------------------------------------------------------

type c01bact struct {
	kind string
	arg  int
}

func (w *c01world) bByzMenu() []c01bact {
	if w.kind == c01kAggregator {
		// every field of an aggregate-and-proof is part of the signed message: no "other unsigned fields" strategy
		return []c01bact{{"b-own", 0}, {"b-own", 1}, {"b-other", 0}, {"b-badsig", 0}, {"b-relabel", 0}, {"b-relabel", 1}}
	}
	m := []c01bact{{"b-own", 0}, {"b-own", 1}, {"b-other", 0}, {"b-badsig", 0}, {"b-relabel", 0}, {"b-relabel", 1}}
	if w.sc.Ver == "deneb" || w.sc.Ver == "fulu" {
		m = append(m, c01bact{"b-unsigned", 0}, c01bact{"b-unsigned", 1})
	}
	return m
}

func (w *c01world) bByzAct(duty core.Duty, a c01bact) string {
	if w.kind == c01kAggregator {
		return w.bByzActAggregator(duty, a)
	}
	byz, v := w.sc.Byz, w.cl.vals[0]
	all := []int{}
	for x := 0; x < w.sc.N; x++ {
		all = append(all, x)
	}
	next := w.nodes[(byz+1)%w.sc.N].propCand // what another node proposes (the decided block when the inputs are equal)
	third, err := c01bProposal(w.sc.Ver, 0x66, v.valIdx)
	if err != nil {
		return "BYZ proposer (harness: no block)"
	}
	switch a.kind {
	case "b-own":
		// a partial signature of its own share over ITS OWN candidate instead of the decided block, to all peers / to one
		if par, err := w.bSignProposal(v, byz+1, w.nodes[byz].propCand, nil); err == nil {
			if a.arg == 0 {
				w.bInject(duty, core.ParSignedDataSet{v.corePK: par}, all...)
			} else {
				w.bInject(duty, core.ParSignedDataSet{v.corePK: par}, (byz+1)%w.sc.N)
			}
		}
	case "b-other":
		// ... over a block nobody proposes
		if par, err := w.bSignProposal(v, byz+1, third, nil); err == nil {
			w.bInject(duty, core.ParSignedDataSet{v.corePK: par}, all...)
		}
	case "b-badsig":
		// the block another node proposes, carrying a signature (made with its own share) over another block
		if par, err := w.bSignProposal(v, byz+1, next, third); err == nil {
			w.bInject(duty, core.ParSignedDataSet{v.corePK: par}, all...)
		}
	case "b-relabel":
		// a genuine partial signature of its own share - over a block of its choice (0) or over what another node proposes (1) -
		// and then the very same signature again under every other share index
		p := next
		if a.arg == 0 {
			p = third
		}
		if par, err := w.bSignProposal(v, byz+1, p, nil); err == nil {
			idxs := []int{byz + 1}
			for x := 1; x <= w.sc.N; x++ {
				if x != byz+1 {
					idxs = append(idxs, x)
				}
			}
			for _, shareIdx := range idxs {
				w.bInject(duty, core.ParSignedDataSet{v.corePK: core.ParSignedData{SignedData: par.SignedData, ShareIdx: shareIdx}}, all...)
			}
		}
	case "b-unsigned":
		// a GENUINE partial signature over what another node proposes (0) / over its own candidate (1), in an object whose parts
		// outside the block root (blobs, KZG proofs) are of the sender's choosing
		src := next
		if a.arg == 1 {
			src = w.nodes[byz].propCand
		}
		cl, err := core.VersionedProposal{VersionedProposal: *src}.Clone()
		if err != nil {
			break
		}
		p := cl.(core.VersionedProposal).VersionedProposal
		blobs, proofs := []deneb.Blob{{0xb1, 0x0b}}, []deneb.KZGProof{{0x4b, 0x2a}}
		if p.Deneb != nil {
			p.Deneb.Blobs, p.Deneb.KZGProofs = blobs, proofs
		} else if p.Fulu != nil {
			p.Fulu.Blobs, p.Fulu.KZGProofs = blobs, proofs
		}
		if par, err := w.bSignProposal(v, byz+1, &p, nil); err == nil {
			w.bInject(duty, core.ParSignedDataSet{v.corePK: par}, all...)
		}
	}
	return fmt.Sprintf("BYZ proposer %s(%d)", a.kind, a.arg)
}

// ---- the beacon node behind the real core/bcast --------------------------------------------------------------------------------

func (w *c01world) bnCall(endpoint string) {
	if w.bnCalls == nil {
		w.bnCalls = map[string]int{}
	}
	w.bnCalls[endpoint]++
}

// recordBNObj judges one object the real broadcaster handed to a beacon node: it is attributed to the validator the OBJECT
// names (validator index / public key, as the beacon node does) and the signature is checked under THAT validator's group key
// for the signing root the beacon node computes (domain of the object's own epoch).
func (w *c01world) recordBNObj(node int, named func(v c01val) bool, domain signing.DomainName, epoch eth2p0.Epoch, root eth2p0.Root, sig eth2p0.BLSSignature) {
	e := c01emit{node: node, where: "beacon-node", at: 0, dutyStr: w.bDuty().String(), pubkey: "unattributable"}
	sroot, err := signing.GetDataRoot(context.Background(), w.eth2, domain, epoch, root)
	if err == nil {
		e.root = sroot
		for _, v := range w.cl.vals {
			if named(v) {
				e.pubkey = v.corePK
				e.valid = c01verify(v.group, sroot, tbls.Signature(sig))
			}
		}
	}
	w.emits = append(w.emits, e)
}

func (w *c01world) recordBNProposal(node int, sp core.VersionedSignedProposal) {
	root, err1 := sp.MessageRoot() // the block root (hash tree root of the message), computed by the eth2 client library types
	slot, err2 := sp.Slot()
	pidx, err3 := sp.ProposerIndex()
	if err1 != nil || err2 != nil || err3 != nil {
		w.emits = append(w.emits, c01emit{node: node, where: "beacon-node", dutyStr: w.bDuty().String(), pubkey: "unattributable"})
		return
	}
	w.recordBNObj(node, func(v c01val) bool { return v.valIdx == pidx }, signing.DomainBeaconProposer, w.epochOf(slot), root, sp.Signature().ToETH2())
}

func (b c01bn) SubmitProposal(_ context.Context, o *eth2api.SubmitProposalOpts) error {
	b.w.bnCall("SubmitProposal")
	sp, err := core.NewVersionedSignedProposal(o.Proposal)
	if err != nil {
		return err
	}
	b.w.recordBNProposal(b.node, sp)
	return nil
}

func (b c01bn) SubmitBlindedProposal(_ context.Context, o *eth2api.SubmitBlindedProposalOpts) error {
	b.w.bnCall("SubmitBlindedProposal")
	sp, err := core.NewVersionedSignedProposalFromBlindedProposal(o.Proposal)
	if err != nil {
		return err
	}
	b.w.recordBNProposal(b.node, sp)
	return nil
}

func (b c01bn) SubmitSyncCommitteeMessages(_ context.Context, msgs []*altair.SyncCommitteeMessage) error {
	b.w.bnCall("SubmitSyncCommitteeMessages")
	for _, m := range msgs {
		m := m
		b.w.recordBNObj(b.node, func(v c01val) bool { return v.valIdx == m.ValidatorIndex }, signing.DomainSyncCommittee, b.w.epochOf(m.Slot), m.BeaconBlockRoot, m.Signature)
	}
	return nil
}

func (b c01bn) SubmitVoluntaryExit(_ context.Context, exit *eth2p0.SignedVoluntaryExit) error {
	b.w.bnCall("SubmitVoluntaryExit")
	root, err := exit.Message.HashTreeRoot()
	if err != nil {
		return err
	}
	b.w.recordBNObj(b.node, func(v c01val) bool { return v.valIdx == exit.Message.ValidatorIndex }, signing.DomainExit, exit.Message.Epoch, root, exit.Signature)
	return nil
}

// SubmitValidatorRegistrations is never reached from the pipeline in this version of charon (core/bcast leaves builder
// registrations to the scheduler, which submits the pre-generated ones of the cluster lock); recorded and judged if it ever is.
func (b c01bn) SubmitValidatorRegistrations(_ context.Context, regs []*eth2api.VersionedSignedValidatorRegistration) error {
	b.w.bnCall("SubmitValidatorRegistrations")
	for _, r := range regs {
		if r == nil || r.V1 == nil || r.V1.Message == nil {
			continue
		}
		root, err := r.V1.Message.HashTreeRoot()
		if err != nil {
			continue
		}
		pk := r.V1.Message.Pubkey
		b.w.recordBNObj(b.node, func(v c01val) bool { return eth2p0.BLSPubKey(v.group) == pk }, signing.DomainApplicationBuilder, 0, root, r.V1.Signature)
	}
	return nil
}

// ---- scenario enumeration --------------------------------------------------------------------------------------------------

// c01bPartitions returns all set partitions of k nodes as restricted growth strings (camp of node i), e.g. k=3:
// 000 001 010 011 012.
func c01bPartitions(k int) [][]int {
	var out [][]int
	var rec func(cur []int, mx int)
	rec = func(cur []int, mx int) {
		if len(cur) == k {
			out = append(out, append([]int{}, cur...))
			return
		}
		for c := 0; c <= mx+1 && c <= c01bMaxVariant; c++ {
			rec(append(cur, c), max(mx, c))
		}
	}
	rec(nil, -1)
	return out
}

// c01bPlans: what the adversary sends its three peers. Every assignment of "root A" (variant 0) / "root B" (variant 1) to the
// peers, the uniform plan "object A carrying its signature over B", and - for sync committee messages - the uniform plans
// with modified fields outside the message root.
func c01bPlans(kind string, peers int) [][]int {
	var out [][]int
	for m := 0; m < 1<<peers; m++ {
		p := make([]int, peers)
		for j := range p {
			p[j] = (m >> j) & 1
		}
		out = append(out, p)
	}
	bad := make([]int, peers)
	for j := range bad {
		bad[j] = c01bPlanBadSig
	}
	out = append(out, bad)
	if kind == c01kSync {
		for _, mod := range []int{c01bModOtherVal, c01bModNoVal, c01bModNextSlot, c01bModForkSlot} {
			p := make([]int, peers)
			for j := range p {
				p[j] = c01bPlanModBase + mod
			}
			out = append(out, p)
		}
	}
	return out
}

// honestCanDiffer: the duty types whose honest validator clients can sign different objects for the same duty and validator
// (sync committee message: the head their node reports; builder registration: timestamp and fee recipient of their own
// configuration). An exit and a randao reveal are fixed by duty and validator.
func c01bHonestCanDiffer(kind string) bool { return kind == c01kSync || kind == c01kReg }

// c01bScenarios is the complete product for one duty type without consensus and one wiring variant:
//   n=3 (t=2, f=0: no Byzantine node, no crash): every partition of the 3 nodes into camps;
//   n=4 (t=3) all honest: every partition of the 4 nodes;
//   n=4 with node 3's validator client replaced by the adversary: every partition of the 3 honest nodes x every plan x
//   {adversary's messages sent first, sent last};
// each with no late node and with node 0 signing late.
func c01bScenarios(kind, aggdb, wire string, maxDev int) []c01script {
	var out []c01script
	add := func(sc c01script) {
		sc.Duty, sc.AggDB, sc.Wire, sc.MaxDev, sc.Inputs = kind, aggdb, wire, maxDev, "camps"
		for _, late := range []int{0, 1} {
			sc.Late = late
			out = append(out, sc)
		}
	}
	parts := func(k int) [][]int {
		if c01bHonestCanDiffer(kind) {
			return c01bPartitions(k)
		}
		return [][]int{make([]int, k)}
	}
	for _, c := range parts(3) {
		add(c01script{N: 3, Byz: -1, Camps: c})
	}
	for _, c := range parts(4) {
		add(c01script{N: 4, Byz: -1, Camps: c})
	}
	for _, c := range parts(3) {
		for _, plan := range c01bPlans(kind, 3) {
			for _, place := range []string{"first", "last"} {
				add(c01script{N: 4, Byz: 3, Camps: append(append([]int{}, c...), 0), Plan: plan, Place: place})
			}
		}
	}
	return out
}

// c01bScripts is the duty-type part of the enumeration (appended to the attester configurations).
func c01bScripts(thorough bool) (products, out, last []c01script) {
	dev, devSel := 0, 1
	if thorough {
		dev, devSel = 1, 2
	}
	// proposer, through consensus: every execution with <= 1 deviation at any step (thorough: <= 2 for n=3 and, as the last
	// configuration of the run, for n=4 with the Byzantine node; two more block forms with <= 1)
	out = append(out,
		c01script{Duty: c01kProposer, Ver: "electra-blinded", N: 3, Inputs: "distinct", Byz: -1, MaxDev: devSel},
		c01script{Duty: c01kProposer, Ver: "deneb", N: 4, Inputs: "equal", Byz: 0, MaxDev: 1},
		c01script{Duty: c01kProposer, Ver: "deneb", N: 4, Inputs: "distinct", Byz: -1, MaxDev: 1},
		c01script{Duty: c01kProposer, Ver: "electra-blinded", N: 4, Inputs: "leader-differs", Byz: 1, MaxDev: 1},
		c01script{Duty: c01kProposer, Ver: "deneb", N: 4, Inputs: "distinct", Byz: 2, MaxDev: 1, AggDB: "v1", Wire: "retry"})
	// aggregator, through consensus on the aggregate attestation (the nodes' beacon nodes return aggregates of different participants)
	out = append(out,
		c01script{Duty: c01kAggregator, Ver: "deneb", N: 4, Inputs: "distinct", Byz: 1, MaxDev: 1},
		c01script{Duty: c01kAggregator, Ver: "electra", N: 4, Inputs: "leader-differs", Byz: 0, MaxDev: 1, AggDB: "v1", Wire: "retry"})
	if thorough {
		last = append(last, c01script{Duty: c01kProposer, Ver: "deneb", N: 4, Inputs: "equal", Byz: 0, MaxDev: 2})
		out = append(out,
			c01script{Duty: c01kProposer, Ver: "deneb", N: 3, Inputs: "leader-differs", Byz: -1, MaxDev: 2},
			c01script{Duty: c01kAggregator, Ver: "electra", N: 3, Inputs: "distinct", Byz: -1, MaxDev: 2},
			c01script{Duty: c01kProposer, Ver: "fulu", N: 4, Inputs: "leader-differs", Byz: 3, MaxDev: 1},
			c01script{Duty: c01kProposer, Ver: "capella-blinded", N: 4, Inputs: "distinct", Byz: 1, MaxDev: 1, AggDB: "v1", Wire: "retry"})
	}
	// duty types without consensus: the complete product of camps x adversary plans, both wirings
	for _, kind := range []string{c01kSync, c01kReg, c01kExit, c01kRandao} {
		products = append(products, c01bScenarios(kind, "", "", dev)...)
		products = append(products, c01bScenarios(kind, "v1", "retry", dev)...)
	}
	// ... and selected scenarios with one more deviation at any step
	sel := func(kind string, n, byz int, camps, plan []int, place string, late int, aggdb, wire string) {
		out = append(out, c01script{Duty: kind, N: n, Inputs: "camps", Byz: byz, Camps: camps, Plan: plan, Place: place, Late: late, AggDB: aggdb, Wire: wire, MaxDev: devSel})
	}
	m := c01bPlanModBase
	sel(c01kSync, 4, 3, []int{0, 0, 1, 0}, []int{0, 0, 0}, "last", 0, "", "")
	sel(c01kSync, 4, 3, []int{0, 0, 1, 0}, []int{1, 1, 0}, "first", 0, "", "")
	sel(c01kSync, 4, 3, []int{0, 1, 2, 0}, []int{0, 1, 0}, "first", 0, "", "")
	sel(c01kSync, 4, 3, []int{0, 0, 0, 0}, []int{m + c01bModForkSlot, m + c01bModForkSlot, m + c01bModForkSlot}, "first", 0, "", "")
	sel(c01kSync, 4, 3, []int{0, 0, 0, 0}, []int{m + c01bModOtherVal, m + c01bModOtherVal, m + c01bModOtherVal}, "first", 1, "", "")
	sel(c01kSync, 4, -1, []int{0, 0, 1, 1}, nil, "", 0, "", "")
	sel(c01kSync, 3, -1, []int{0, 0, 1}, nil, "", 0, "", "")
	sel(c01kSync, 4, 3, []int{0, 0, 1, 0}, []int{1, 0, 1}, "last", 0, "v1", "retry")
	sel(c01kReg, 4, 3, []int{0, 0, 1, 0}, []int{1, 1, 0}, "first", 0, "", "")
	sel(c01kReg, 3, -1, []int{0, 1, 0}, nil, "", 0, "v1", "retry")
	sel(c01kExit, 4, 3, []int{0, 0, 0, 0}, []int{0, 1, 0}, "first", 0, "", "")
	sel(c01kExit, 4, 3, []int{0, 0, 0, 0}, []int{1, 1, 0}, "last", 1, "v1", "retry")
	sel(c01kRandao, 4, 3, []int{0, 0, 0, 0}, []int{1, 0, 0}, "last", 0, "", "")
	return products, out, last
}

// ---- aggregator duty (through consensus on the aggregate attestation) ---------------------------------------------------------

// bAggData is the attestation data all candidate aggregates are about (the validator client asks dutydb for the aggregate by
// the root of this data); from electra on the committee index is carried by the committee bits.
func (w *c01world) bAggData() eth2p0.AttestationData {
	d := c01attData(0x10)
	d.Index = w.cl.vals[0].commIdx
	if w.sc.Ver == "electra" {
		d.Index = 0
	}
	return d
}

// bAggregate is the candidate aggregate `variant` a node's beacon node returns: the same attestation data, other
// participants (aggregation bits) and hence another aggregate signature.
func (w *c01world) bAggregate(variant byte) *eth2spec.VersionedAttestation {
	v := w.cl.vals[0]
	data := w.bAggData()
	bits := bitfield.NewBitlist(8)
	bits.SetBitAt(v.vci, true)
	bits.SetBitAt(uint64(variant)%8, true)
	bits.SetBitAt(uint64(variant>>4)%8, true)
	sig := eth2p0.BLSSignature{0xa9, variant}
	if w.sc.Ver == "electra" {
		cb := bitfield.NewBitvector64()
		cb.SetBitAt(uint64(v.commIdx), true)
		return &eth2spec.VersionedAttestation{Version: eth2spec.DataVersionElectra, Electra: &electra.Attestation{AggregationBits: bits, Data: &data, Signature: sig, CommitteeBits: cb}}
	}
	return &eth2spec.VersionedAttestation{Version: eth2spec.DataVersionDeneb, Deneb: &eth2p0.Attestation{AggregationBits: bits, Data: &data, Signature: sig}}
}

// bSignAggregate: the validator client wraps the aggregate it is served into an aggregate-and-proof (its validator index, the
// selection proof) and signs its hash tree root under the aggregate-and-proof domain of the slot's epoch.
func (w *c01world) bSignAggregate(v c01val, share int, att *eth2spec.VersionedAttestation, signOver *eth2spec.VersionedAttestation) (core.ParSignedData, error) {
	if signOver == nil {
		signOver = att
	}
	proof := eth2p0.BLSSignature{0x5e, 0x1e, 0xc7}
	build := func(a *eth2spec.VersionedAttestation, sig eth2p0.BLSSignature) (*eth2spec.VersionedSignedAggregateAndProof, [32]byte, error) {
		if a.Version == eth2spec.DataVersionElectra {
			msg := &electra.AggregateAndProof{AggregatorIndex: v.valIdx, Aggregate: a.Electra, SelectionProof: proof}
			root, err := msg.HashTreeRoot()
			return &eth2spec.VersionedSignedAggregateAndProof{Version: a.Version, Electra: &electra.SignedAggregateAndProof{Message: msg, Signature: sig}}, root, err
		}
		msg := &eth2p0.AggregateAndProof{AggregatorIndex: v.valIdx, Aggregate: a.Deneb, SelectionProof: proof}
		root, err := msg.HashTreeRoot()
		return &eth2spec.VersionedSignedAggregateAndProof{Version: a.Version, Deneb: &eth2p0.SignedAggregateAndProof{Message: msg, Signature: sig}}, root, err
	}
	_, root, err := build(signOver, eth2p0.BLSSignature{})
	if err != nil {
		return core.ParSignedData{}, err
	}
	sroot, err := signing.GetDataRoot(context.Background(), w.eth2, signing.DomainAggregateAndProof, w.epochOf(c01slot), root)
	if err != nil {
		return core.ParSignedData{}, err
	}
	s, err := c01sign(v.shares[share], sroot)
	if err != nil {
		return core.ParSignedData{}, err
	}
	obj, _, err := build(att, eth2p0.BLSSignature(s))
	if err != nil {
		return core.ParSignedData{}, err
	}
	return core.NewPartialVersionedSignedAggregateAndProof(obj, share), nil
}

func (w *c01world) bByzActAggregator(duty core.Duty, a c01bact) string {
	byz, v := w.sc.Byz, w.cl.vals[0]
	all := []int{}
	for x := 0; x < w.sc.N; x++ {
		all = append(all, x)
	}
	next, third := w.nodes[(byz+1)%w.sc.N].aggCand, w.bAggregate(0x66)
	send := func(par core.ParSignedData, err error, to ...int) {
		if err == nil {
			w.bInject(duty, core.ParSignedDataSet{v.corePK: par}, to...)
		}
	}
	switch a.kind {
	case "b-own": // its own share over ITS OWN candidate aggregate instead of the decided one, to all peers / to one
		par, err := w.bSignAggregate(v, byz+1, w.nodes[byz].aggCand, nil)
		if a.arg == 0 {
			send(par, err, all...)
		} else {
			send(par, err, (byz+1)%w.sc.N)
		}
	case "b-other": // ... over an aggregate nobody proposes
		par, err := w.bSignAggregate(v, byz+1, third, nil)
		send(par, err, all...)
	case "b-badsig": // what another node proposes, carrying a signature over another aggregate
		par, err := w.bSignAggregate(v, byz+1, next, third)
		send(par, err, all...)
	case "b-relabel": // a genuine partial signature, then the very same signature under every other share index
		p := next
		if a.arg == 0 {
			p = third
		}
		if par, err := w.bSignAggregate(v, byz+1, p, nil); err == nil {
			send(par, nil, all...)
			for x := 1; x <= w.sc.N; x++ {
				if x != byz+1 {
					send(core.ParSignedData{SignedData: par.SignedData, ShareIdx: x}, nil, all...)
				}
			}
		}
	}
	return fmt.Sprintf("BYZ aggregator %s(%d)", a.kind, a.arg)
}

func (b c01bn) SubmitAggregateAttestations(_ context.Context, o *eth2api.SubmitAggregateAttestationsOpts) error {
	b.w.bnCall("SubmitAggregateAttestations")
	for _, ap := range o.SignedAggregateAndProofs {
		var root [32]byte
		var err error
		switch {
		case ap.Electra != nil && ap.Electra.Message != nil:
			root, err = ap.Electra.Message.HashTreeRoot()
		case ap.Deneb != nil && ap.Deneb.Message != nil:
			root, err = ap.Deneb.Message.HashTreeRoot()
		default:
			err = fmt.Errorf("no message")
		}
		slot, err2 := ap.Slot()
		idx, err3 := ap.AggregatorIndex()
		sig, err4 := ap.Signature()
		if err != nil || err2 != nil || err3 != nil || err4 != nil {
			b.w.emits = append(b.w.emits, c01emit{node: b.node, where: "beacon-node", dutyStr: b.w.bDuty().String(), pubkey: "unattributable"})
			continue
		}
		b.w.recordBNObj(b.node, func(v c01val) bool { return v.valIdx == idx }, signing.DomainAggregateAndProof, b.w.epochOf(slot), root, sig)
	}
	return nil
}
