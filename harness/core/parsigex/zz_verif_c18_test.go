package parsigex

// C18 (partial signature exchange): the receive handler with two subscribers (signature verification and duty
// gating accept everything: C18 is not about them). Parties: the received protobuf message, each subscriber's set.

import (
	"context"
	"testing"

	"github.com/libp2p/go-libp2p/core/peer"

	"github.com/obolnetwork/charon/core"
	pbv1 "github.com/obolnetwork/charon/core/corepb/v1"
	"github.com/obolnetwork/charon/zzverif/alias"
	"github.com/obolnetwork/charon/zzverif/enumx"
)

const c18pk = core.PubKey("0x8a1d7b8dd64e0aafe7ea7b6c95065c9364cf99d38470db679bdf5c9bd8b0e6cd5c7a3b0a6d4c2e3c7a5e1e9e2b1a7c3d")

func c18spec(u alias.Unit, master core.SignedData) alias.Spec {
	return alias.Spec{Path: "parsigex/handle", Type: u.Name, Modes: []string{alias.SubArg}, Run: func(w *alias.World) {
		ex := &ParSigEx{
			verifyFunc: func(context.Context, peer.ID, core.Duty, core.PubKey, core.ParSignedData) error { return nil },
			gaterFunc:  func(core.Duty) bool { return true },
		}
		called := 0
		for _, n := range []string{"sub1", "sub2"} {
			n := n
			ex.Subscribe(func(_ context.Context, _ core.Duty, set core.ParSignedDataSet) error {
				called++
				w.Sub(n, set)
				return nil
			})
		}
		duty := core.Duty{Slot: 123, Type: u.Duty}
		pb, err := core.ParSignedDataSetToProto(core.ParSignedDataSet{c18pk: core.ParSignedData{SignedData: alias.DeepCopy(master), ShareIdx: 2}})
		if err != nil {
			w.Fail("to proto: %v", err)
			return
		}
		msg := &pbv1.ParSigExMsg{Duty: core.DutyToProto(duty), DataSet: pb}
		w.Input("received-message", msg)
		_, _, err = ex.handle(context.Background(), "peer", msg)
		w.Outcome("handle", err)
		if w.Mode == alias.Clean && (err != nil || called != 2) {
			w.Fail("message refused (subscribers called %d times): %v", called, err)
			return
		}
		w.ObserveUnlessInputMode("received-message(after)", msg)
	}}
}

func TestVerifC18ParSigEx(t *testing.T) {
	r := enumx.New(t, "C18")
	defer r.Finish()
	for _, u := range alias.SignedUnits(t) {
		if u.Duty == core.DutyUnknown {
			continue
		}
		if !r.Mine() {
			continue
		}
		if r.Expired() {
			return
		}
		s := c18spec(u, u.Gen().(core.SignedData))
		if !alias.Wanted(r, s.Path, s.Type) {
			continue
		}
		alias.Run(r, s)
	}
}
