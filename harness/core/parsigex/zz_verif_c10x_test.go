package parsigex

// C10, peer path – dimensions on top of the single-call enumeration of zz_verif_c10_test.go:
//
//  1. HISTORY: operation sequences on ONE long-lived ParSigEx instance (own verifier closure, own gater): every ordered
//     pair (thorough: also triples over a reduced alphabet) of messages from an explicit alphabet, plus, after every valid
//     message A, the replays that share bytes with A (A's signature - and wherever the types allow A's message root - under
//     another duty type/domain, A's raw bytes under another duty type, A's entry under the other validator's key, under
//     every other share index, at another epoch/fork). Per call: the single-call oracle. Differential: the verdict after
//     a prefix equals the verdict of the same bytes on a fresh instance.
//  2. ENVIRONMENT FAULTS: the verifier's beacon client is the fault-scripting wrapper c10fc; invocation counts are
//     discovered by a counting run, then every single fault point (thorough: every pair) x kind is enumerated.
//  3. BOUNDARY VALUES of the peer-controlled integers: duty slot (powers of two +-1, +current slot, int64/uint64 and
//     slot*slotDuration overflow boundaries) against the gater func directly and through handle with correctly signed
//     sets; share index over the int32 boundaries. The window oracle uses big-integer arithmetic.

import (
	"context"
	"fmt"
	"math"
	"math/big"
	"runtime"
	"sort"
	"strconv"
	"strings"
	"time"

	eth2api "github.com/attestantio/go-eth2-client/api"
	eth2v1 "github.com/attestantio/go-eth2-client/api/v1"
	"github.com/attestantio/go-eth2-client/spec/altair"
	eth2p0 "github.com/attestantio/go-eth2-client/spec/phase0"
	"google.golang.org/protobuf/proto"

	"github.com/obolnetwork/charon/core"
	pbv1 "github.com/obolnetwork/charon/core/corepb/v1"
	"github.com/obolnetwork/charon/zzverif/enumx"
)

const c10slotNs = 12_000_000_000 // slot duration of the beacon mock's chain in nanoseconds (checked against the spec)

// ---- operations ---------------------------------------------------------------------------------------------

// c10pop is one message of a sequence. Base operations ("<unit>|<alt>|<field>|<rot>") are built once per process and
// re-sent as clones; replay operations ("replay|<unit>|<mode>") are derived from the most recent valid single-entry
// message earlier in the same sequence.
type c10pop struct {
	Desc  string
	U     c10punit
	M     *pbv1.ParSigExMsg
	Mode  string // baseline | auto | observe
	Rot   int
	Valid bool
	Set   core.ParSignedDataSet // decoded content (nil if it does not decode)
	fresh *string               // verdict of these bytes on a fresh instance
}

func (o *c10pop) alt() string {
	p := strings.Split(o.Desc, "|")
	if p[0] == "replay" {
		return "replay-" + p[2]
	}
	return p[1]
}

type c10pseq struct {
	ctx   context.Context
	b     *c10peerH // builder: never receives a message
	units map[string]c10punit
	ops   map[string]*c10pop
}

func c10newPseq(ctx context.Context, b *c10peerH) *c10pseq {
	s := &c10pseq{ctx: ctx, b: b, units: map[string]c10punit{}, ops: map[string]*c10pop{}}
	for _, u := range c10punits(true) {
		s.units[u.unit()] = u
	}
	return s
}

func c10pdesc(u c10punit, c c10case) string {
	return fmt.Sprintf("%s|%s|%s|%d", u.unit(), c.Alt, c.Field, c.Rot)
}

// finish wires a built message, applies the independent oracle to it and fills the bookkeeping fields.
func (s *c10pseq) finish(op *c10pop, wire bool) (*c10pop, error) {
	if wire {
		m, err := c10wire(op.M)
		if err != nil {
			return nil, err
		}
		op.M = m
	}
	op.Valid, op.Set = s.b.expect(op.M)
	if op.Mode == "baseline" && (c10optional(op.U.Kind, op.U.Ver) || !op.Valid) {
		op.Mode = "auto"
	}
	return op, nil
}

func (s *c10pseq) base(desc string) (*c10pop, error) {
	if op, ok := s.ops[desc]; ok {
		if op == nil {
			return nil, fmt.Errorf("skip")
		}
		return op, nil
	}
	p := strings.Split(desc, "|")
	if len(p) != 4 {
		return nil, fmt.Errorf("bad operation %q", desc)
	}
	u, ok := s.units[p[0]]
	rot, err := strconv.Atoi(p[3])
	if !ok || err != nil {
		return nil, fmt.Errorf("bad operation %q", desc)
	}
	c := c10case{Alt: p[1], Field: p[2], Rot: rot}
	m, mode, err := s.b.buildCase(u, c)
	if err != nil {
		s.ops[desc] = nil
		return nil, err
	}
	op, err := s.finish(&c10pop{Desc: desc, U: u, M: m, Mode: mode, Rot: rot}, c.Alt != "nil-duty" && c.Alt != "nil-dataset")
	if err != nil {
		s.ops[desc] = nil
		return nil, err
	}
	s.ops[desc] = op
	return op, nil
}

// single returns the only entry of a valid message.
func (o *c10pop) single() (core.PubKey, core.ParSignedData, *pbv1.ParSignedData, bool) {
	if !o.Valid || len(o.Set) != 1 || len(o.M.GetDataSet().GetSet()) != 1 {
		return "", core.ParSignedData{}, nil, false
	}
	for pk, ps := range o.Set {
		return pk, ps, o.M.GetDataSet().GetSet()[string(pk)], true
	}
	return "", core.ParSignedData{}, nil, false
}

// c10pclone copies a message keeping the insertion order of its (small) maps, so that the same operation iterates its
// entries in the same order - given the same pinned map rotation - in every call of the process.
func c10pclone(m *pbv1.ParSigExMsg) *pbv1.ParSigExMsg {
	runtime.VerifSetMapRot(true, 0)
	defer runtime.VerifSetMapRot(false, 0)
	return proto.Clone(m).(*pbv1.ParSigExMsg)
}

// c10u64of reports whether root is the hash tree root of a uint64 and returns it.
func c10u64of(root [32]byte) (uint64, bool) {
	for _, b := range root[8:] {
		if b != 0 {
			return 0, false
		}
	}
	var x uint64
	for i := 7; i >= 0; i-- {
		x = x<<8 | uint64(root[i])
	}
	return x, true
}

// replay derives from the valid message a a message of unit y (descriptor "replay|<y>|<mode>") that shares bytes with a.
// It is judged like any other message: by re-verification under its OWN root, domain, epoch, validator and share.
func (s *c10pseq) replay(a *c10pop, desc string) (*c10pop, error) {
	p := strings.Split(desc, "|")
	if len(p) != 3 {
		return nil, fmt.Errorf("bad operation %q", desc)
	}
	y, ok := s.units[p[1]]
	pkA, psA, pbA, ok2 := a.single()
	if !ok || !ok2 {
		return nil, fmt.Errorf("skip")
	}
	sdA, err := c10info(psA.SignedData)
	if err != nil {
		return nil, fmt.Errorf("skip")
	}
	cl := s.b.cl
	v0, v1 := cl.vals[0], cl.vals[1]
	duty := &pbv1.Duty{Slot: s.b.slotOf(y, v0), Type: int32(y.Duty)}
	raw := func(key string, share int32) *pbv1.ParSigExMsg {
		e := proto.Clone(pbA).(*pbv1.ParSignedData)
		e.ShareIdx = share
		return &pbv1.ParSigExMsg{Duty: duty, DataSet: &pbv1.ParSignedDataSet{Set: map[string]*pbv1.ParSignedData{key: e}}}
	}
	op := &c10pop{Desc: desc, U: y, Mode: "auto"}
	mode := p[2]
	var k int
	switch {
	case mode == "xdom": // y's own object for the same validator; A's signature; A's message root wherever y's type allows
		var data core.SignedData
		if y.Duty == core.DutySignature {
			data = core.Signature(sdA.Sig[:])
		} else {
			it, err := cl.c10build(y.Kind, y.Ver, v0)
			if err != nil {
				return nil, err
			}
			n, isU64 := c10u64of(sdA.Root)
			switch o := it.(type) {
			case *altair.SyncCommitteeMessage: // signs nothing but the block root
				o.BeaconBlockRoot = sdA.Root
			case *eth2api.ProposalOpts: // randao: hash_tree_root(Epoch(n)) == hash_tree_root(Slot(n))
				if isU64 && n < 1<<59 {
					o.Slot = eth2p0.Slot(n * c10SPE)
				}
			case *eth2v1.BeaconCommitteeSelection:
				if isU64 {
					o.Slot = eth2p0.Slot(n)
				}
			}
			f, err := c10sigField(it)
			if err != nil {
				return nil, err
			}
			*f = sdA.Sig
			if data, err = c10wrap(it); err != nil {
				return nil, err
			}
		}
		m, err := c10message(duty, []c10pent{{string(v0.PK), data, c10Peer}})
		if err != nil {
			return nil, err
		}
		op.M = m
	case mode == "raw": // A's bytes under y's duty type
		op.M = raw(string(pkA), pbA.GetShareIdx())
	case mode == "exact":
		op.M = c10pclone(a.M)
		op.Mode, op.Rot = a.Mode, a.Rot
	case mode == "other-key": // A's entry filed under the other validator
		other := v1
		if pkA == v1.PK {
			other = v0
		}
		duty = proto.Clone(a.M.GetDuty()).(*pbv1.Duty)
		op.M = raw(string(other.PK), pbA.GetShareIdx())
	case strings.HasPrefix(mode, "share-"): // A's entry under another share index
		if n, _ := fmt.Sscanf(mode, "share-%d", &k); n != 1 {
			return nil, fmt.Errorf("bad operation %q", desc)
		}
		duty = proto.Clone(a.M.GetDuty()).(*pbv1.Duty)
		op.M = raw(string(pkA), int32(k))
	case strings.HasPrefix(mode, "epoch-"): // same root and signature at another epoch (types whose root does not bind the epoch)
		sm, ok := psA.SignedData.(core.SignedSyncMessage)
		if !ok {
			return nil, fmt.Errorf("skip")
		}
		c := sm.SyncCommitteeMessage
		switch strings.TrimPrefix(mode, "epoch-") {
		case "previous-fork":
			c.Slot = 2047*c10SPE + 3
		case "next-fork":
			c.Slot = 50688*c10SPE + 3
		case "same-fork":
			c.Slot = c10Slot + 1
		default:
			return nil, fmt.Errorf("bad operation %q", desc)
		}
		duty = proto.Clone(a.M.GetDuty()).(*pbv1.Duty)
		m, err := c10message(duty, []c10pent{{string(pkA), core.NewSignedSyncMessage(&c), int32(psA.ShareIdx)}})
		if err != nil {
			return nil, err
		}
		op.M = m
	default:
		return nil, fmt.Errorf("bad operation %q", desc)
	}
	return s.finish(op, true)
}

// replayDescs lists the replay operations that follow a valid message of unit x.
func (s *c10pseq) replayDescs(x c10punit, units []c10punit) []string {
	var out []string
	for _, y := range units {
		out = append(out, "replay|"+y.unit()+"|xdom")
		if y.Duty != x.Duty {
			out = append(out, "replay|"+y.unit()+"|raw")
		}
	}
	xu := x.unit()
	out = append(out, "replay|"+xu+"|exact", "replay|"+xu+"|other-key")
	for k := 2; k <= c10N; k++ {
		out = append(out, fmt.Sprintf("replay|%s|share-%d", xu, k))
	}
	if x.Duty == core.DutySyncMessage {
		out = append(out, "replay|"+xu+"|epoch-previous-fork", "replay|"+xu+"|epoch-next-fork", "replay|"+xu+"|epoch-same-fork")
	}
	return out
}

// c10pverdict is the canonical observable outcome of one call.
func c10pverdict(err error, calls []c10pcall) string {
	var parts []string
	for _, c := range calls {
		var ents []string
		for pk, ps := range c.set {
			sd, e := c10info(ps.SignedData)
			ents = append(ents, fmt.Sprintf("%s/%d/%s/%x/%d/%x/%v", pk, ps.ShareIdx, sd.Kind, sd.Root, sd.Epoch, sd.Sig, e == nil))
		}
		sort.Strings(ents)
		parts = append(parts, fmt.Sprintf("sub%d %v {%s}", c.sub, c.duty, strings.Join(ents, ",")))
	}
	return fmt.Sprintf("rejected=%v delivered=[%s]", err != nil, strings.Join(parts, "; "))
}

func (s *c10pseq) freshVerdict(op *c10pop) (string, error) {
	if op.fresh != nil {
		return *op.fresh, nil
	}
	inst, err := c10newPeer(s.ctx)
	if err != nil {
		return "", err
	}
	e, calls, _ := inst.deliver(c10pclone(op.M), op.Rot)
	v := c10pverdict(e, calls)
	op.fresh = &v
	return v, nil
}

// runSeq submits the sequence to one new instance and judges every call. It returns the first violation, the index
// and the operation it is about. skipped: the sequence cannot be built (a replay without a valid message before it).
func (s *c10pseq) runSeq(r *enumx.Run, descs []string) (v *c10viol, at int, bad *c10pop, skipped bool) {
	inst, err := c10newPeer(s.ctx)
	if err != nil {
		return nil, 0, nil, true
	}
	var ops []*c10pop
	var lastValid *c10pop
	for _, d := range descs {
		var op *c10pop
		if strings.HasPrefix(d, "replay|") {
			if lastValid == nil {
				return nil, 0, nil, true
			}
			op, err = s.replay(lastValid, d)
		} else {
			op, err = s.base(d)
		}
		if err != nil {
			if err.Error() != "skip" && r != nil {
				r.Note("harness could not build " + d + ": " + err.Error())
			}
			return nil, 0, nil, true
		}
		if _, _, _, ok := op.single(); ok && !strings.HasPrefix(d, "replay|") {
			lastValid = op
		}
		ops = append(ops, op)
	}
	for i, op := range ops {
		if v := inst.judge(r, op.U, c10pclone(op.M), op.Mode, op.Rot); v != nil {
			return v, i, op, false
		}
		if r != nil && i > 0 && strings.HasPrefix(op.Desc, "replay|") {
			r.Count("peer_seq_replays", 1)
			if _, psA, _, ok := lastValid.single(); ok && len(op.Set) == 1 {
				a, _ := c10info(psA.SignedData)
				for _, ps := range op.Set {
					if b, e := c10info(ps.SignedData); e == nil && b.Root == a.Root && b.Sig == a.Sig {
						r.Count("peer_seq_replays_same_root_and_signature", 1)
						if !op.Valid {
							r.Count("peer_seq_replays_same_root_and_signature_invalid", 1)
						}
					}
				}
			}
			if len(inst.calls) > 0 {
				r.Count("peer_seq_replays_admitted_valid", 1)
			}
		}
		if i == 0 {
			continue
		}
		got := c10pverdict(inst.lastErr, inst.calls)
		want, err := s.freshVerdict(op)
		if err != nil {
			return nil, 0, nil, true
		}
		if got != want {
			return &c10viol{"kind=history-dependent-verdict", fmt.Sprintf("after the prefix %v the message %s was answered %s, on a fresh instance the same bytes are answered %s", descs[:i], op.Desc, got, want)}, i, op, false
		}
	}
	return nil, 0, nil, false
}

func (s *c10pseq) evalSeq(r *enumx.Run, descs []string) {
	c := c10case{Path: "peer-seq", Seq: descs}
	run := func(r *enumx.Run) (*c10viol, bool) {
		v, at, op, skipped := s.runSeq(r, descs)
		if v != nil {
			cc := c
			cc.Unit, cc.Alt, cc.Seq = op.U.unit(), op.alt(), nil
			v.sig = c10sigX(cc, "seq", v.sig)
			v.desc = fmt.Sprintf("sequence %v, call %d (%s): %s", descs, at, op.Desc, v.desc)
		}
		return v, skipped
	}
	v, skipped := run(r)
	if skipped {
		return
	}
	r.Eval(c10seqClass("peer", descs))
	r.Count(fmt.Sprintf("peer_seq_len%d", len(descs)), 1)
	if v != nil {
		c10report(r, c, v, func() *c10viol { v, _ := run(nil); return v })
	}
}

// c10sigX is c10signature with the alteration family prefixed by the dimension.
func c10sigX(c c10case, dim, kind string) string {
	return strings.Replace(c10signature(c, kind), " alt=", " alt="+dim+"-", 1)
}

// c10seqClass names the distinct class of a sequence (descriptors without the map rotation).
func c10seqClass(path string, descs []string) string {
	return path + "-seq:" + strings.Join(descs, " > ")
}

// ---- alphabets ----------------------------------------------------------------------------------------------

// c10pseqUnits: quick = one version per duty type (attester additionally pre-electra, aggregator additionally
// unversioned, proposer full and blinded); thorough = every unit of the single-call enumeration.
func c10pseqUnits(thorough bool) []c10punit {
	if thorough {
		return c10punits(true)
	}
	var out []c10punit
	for _, u := range c10punits(true) {
		switch {
		case u.Ver == "" || u.Ver == "fulu", u.Kind == c10Att && u.Ver == "deneb":
			out = append(out, u)
		}
	}
	return out
}

// c10pseqAlts is the alphabet of one unit: the valid messages and representatives of the families of targeted invalid
// messages of the single-call enumeration. size -1: valid, other share, previous fork, zero signature; 0: the core families
// (one per stage at which a message can be refused); 1: one representative of every family; 2: every targeted message.
func c10pseqAlts(u c10punit, own string, size int) []c10case {
	var out []c10case
	otherDom := c10domNames[0]
	if otherDom == own {
		otherDom = c10domNames[1]
	}
	otherType := core.DutyAttester
	if u.Duty == core.DutyAttester {
		otherType = core.DutySyncMessage
	}
	keep := map[string]bool{"baseline": true, "baseline-v1": true, "claimed-2-signed-1": true, "claimed-2-signed-2": true,
		"other-validator-same-share": true, "under-other-validators-key": true, "wrong-domain-" + otherDom: true,
		"wrong-fork-previous": true, "wrong-fork-current": true, "other-message": true, "zero-signature": true,
		"slot-first-beyond-window": true}
	if size < 0 {
		keep = map[string]bool{"baseline": true, "claimed-2-signed-1": true, "wrong-fork-previous": true, "wrong-fork-current": true, "zero-signature": true}
	}
	if size >= 1 {
		for _, a := range []string{"claimed-1-signed-3", "shareidx-0", "group-key", "wrong-fork-genesis", "outsider", "pubkey-ghost",
			fmt.Sprintf("dutytype-%d", int(otherType)), "truncated-data"} {
			keep[a] = true
		}
	}
	for _, c := range c10peerTargeted(u) {
		if c.Alt == "wrong-domain-"+own || c.Alt == "wrong-fork-current" && own != "APPLICATION_BUILDER" || c.Alt == "wrong-fork-genesis" && own == "APPLICATION_BUILDER" {
			continue
		}
		if u.Duty == core.DutySignature && (strings.HasPrefix(c.Alt, "wrong-") || c.Alt == "other-message" || c.Alt == "infinity-signature" || c.Alt == "zero-signature") {
			continue
		}
		switch {
		case size >= 2, keep[c.Alt]:
		case size >= 1 && c.Alt == "baseline-both" && c.Rot == 0:
		case size >= 1 && c.Alt == "mixed-v0-wrong-share" && c.Field == "invalid-last" && c.Rot == 1:
		default:
			continue
		}
		out = append(out, c)
	}
	return out
}

func (s *c10pseq) ownDomain(u c10punit) string {
	op, err := s.base(c10pdesc(u, c10case{Alt: "baseline"}))
	if err != nil {
		return ""
	}
	for _, ps := range op.Set {
		sd, _ := c10info(ps.SignedData)
		return sd.Kind
	}
	return ""
}

// alphabet: quick = the core families of the main units; thorough = one representative of every family for the main
// units plus {valid, other share, previous fork, zero signature} for every other version.
func (s *c10pseq) alphabet(thorough bool) []string {
	var out []string
	main := map[string]bool{}
	for _, u := range c10pseqUnits(false) {
		main[u.unit()] = true
	}
	for _, u := range c10pseqUnits(thorough) {
		size := 0
		if thorough {
			size = 1
			if !main[u.unit()] {
				size = -1
			}
		}
		for _, c := range c10pseqAlts(u, s.ownDomain(u), size) {
			out = append(out, c10pdesc(u, c))
		}
	}
	return out
}

// c10ptripleUnits / alts: the reduced alphabet of the triples.
func (s *c10pseq) tripleAlphabet() (units []c10punit, ops []string) {
	for _, name := range []string{"attester/fulu", "randao", "prepare_aggregator", "sync_message", "exit", "aggregator/unversioned"} {
		u := s.units[name]
		units = append(units, u)
		for _, alt := range []string{"baseline", "claimed-2-signed-1", "zero-signature"} {
			ops = append(ops, c10pdesc(u, c10case{Alt: alt}))
		}
	}
	return units, ops
}

// ---- dimension 1: sequences ---------------------------------------------------------------------------------

func c10peerSequences(r *enumx.Run, s *c10pseq) {
	thorough := enumx.Thorough()
	units := c10pseqUnits(thorough)
	ops := s.alphabet(thorough)
	nrep := 0
	for _, u := range units {
		nrep += len(s.replayDescs(u, units))
	}
	r.Note(fmt.Sprintf("peer sequences: alphabet of %d operations over %d units: %d ordered pairs, plus %d replay operations after the valid message of each unit", len(ops), len(units), len(ops)*len(ops), nrep))
	for i, a := range ops {
		if !r.Mine() {
			continue
		}
		if r.Expired() {
			return
		}
		for _, b := range ops {
			s.evalSeq(r, []string{a, b})
		}
		if opA, err := s.base(a); err == nil {
			if _, _, _, ok := opA.single(); ok {
				for _, rp := range s.replayDescs(opA.U, units) {
					s.evalSeq(r, []string{a, rp})
				}
			}
		}
		if i == 0 {
			r.Sample(map[string]any{"path": "peer-seq", "alphabet": len(ops), "units": len(units), "example": []string{a, ops[len(ops)-1]}})
		}
	}
	if !thorough {
		return
	}
	tu, tops := s.tripleAlphabet()
	for _, a := range tops {
		if !r.Mine() {
			continue
		}
		if r.Expired() {
			return
		}
		opA, err := s.base(a)
		if err != nil {
			continue
		}
		_, _, _, validA := opA.single()
		for _, b := range tops {
			for _, c := range tops {
				s.evalSeq(r, []string{a, b, c})
			}
			opB, err := s.base(b)
			if err != nil {
				continue
			}
			// replays of the most recent valid message: of b if b is valid, else of a (with b in between)
			if _, _, _, validB := opB.single(); validB {
				for _, rp := range s.replayDescs(opB.U, tu) {
					s.evalSeq(r, []string{a, b, rp})
				}
			} else if validA {
				for _, rp := range s.replayDescs(opA.U, tu) {
					s.evalSeq(r, []string{a, b, rp})
				}
			}
		}
	}
}

// ---- dimension 2: beacon node faults ------------------------------------------------------------------------

func c10peerFaults(r *enumx.Run, s *c10pseq) {
	thorough := enumx.Thorough()
	fc := &c10fc{Client: s.b.cl.bmock}
	for _, u := range c10pseqUnits(thorough) {
		if !r.Mine() {
			continue
		}
		if r.Expired() {
			return
		}
		size := 1
		if thorough {
			size = 2
		}
		for _, c := range c10pseqAlts(u, s.ownDomain(u), size) {
			s.evalFaults(r, fc, u, c, thorough)
		}
	}
}

// runFault delivers op to a new instance whose verifier uses fc under script. Rule under a fault: whatever fails the
// independent verification must still be rejected with an error and without any subscriber call; a valid message may
// be delivered (re-verified) or refused.
func (s *c10pseq) runFault(r *enumx.Run, fc *c10fc, op *c10pop, script []c10fault) (*c10viol, *c10peerH) {
	fc.arm(script)
	inst, err := c10newPeerOn(s.ctx, fc)
	if err != nil {
		return nil, nil
	}
	fc.arm(script) // building the instance is not part of the call
	mode := op.Mode
	if mode == "baseline" && len(script) > 0 {
		mode = "auto"
	}
	return inst.judge(r, op.U, c10pclone(op.M), mode, op.Rot), inst
}

func (s *c10pseq) evalFaults(r *enumx.Run, fc *c10fc, u c10punit, c c10case, pairs bool) {
	op, err := s.base(c10pdesc(u, c))
	if err != nil {
		return
	}
	c.Path, c.Unit = "peer-fault", u.unit()
	s.runFault(nil, fc, op, nil) // counting run
	trace := append([]string(nil), fc.trace...)
	r.Count("peer_fault_invocations_counted", len(trace))
	for _, script := range c10faultScripts(trace, pairs) {
		cc := c
		cc.Faults = script
		s.evalFault(r, fc, op, cc)
	}
}

func (s *c10pseq) evalFault(r *enumx.Run, fc *c10fc, op *c10pop, c c10case) {
	sig := func(v *c10viol) *c10viol {
		if v != nil {
			v.sig = c10sigX(c, "fault", v.sig)
			v.desc = fmt.Sprintf("beacon node fault script %v (invocations %v): %s", c.Faults, fc.trace, v.desc)
		}
		return v
	}
	r.Eval(c.key())
	v, inst := s.runFault(r, fc, op, c.Faults)
	if inst == nil {
		return
	}
	r.Count("peer_fault_runs", 1)
	if fc.fired == 0 {
		r.Note(fmt.Sprintf("fault script %v of %s did not fire: invocations of the run %v", c.Faults, c.key(), fc.trace))
	}
	if fc.fired > 0 {
		r.Count("peer_fault_runs_fault_fired", 1)
		r.Count("peer_fault_points_fired", fc.fired)
		switch {
		case len(inst.calls) > 0:
			r.Count("peer_fault_fired_still_delivered", 1)
		case op.Valid:
			r.Count("peer_fault_fired_valid_refused", 1)
		default:
			r.Count("peer_fault_fired_invalid_refused", 1)
		}
	}
	if v := sig(v); v != nil {
		c10report(r, c, v, func() *c10viol { v, _ := s.runFault(nil, fc, op, c.Faults); return sig(v) })
	}
}

// ---- dimension 3: boundary values ---------------------------------------------------------------------------

// c10boundarySlots: for every k in 0..63: 2^k-1, 2^k, 2^k+1, 2^k+cur; the overflow boundaries of slot*slotDuration in
// int64 and uint64 nanoseconds and of int64(slot); the last slots of the uint64 range; the edges of the window.
func c10boundarySlots(cur, lastAllowed uint64) []uint64 {
	seen := map[uint64]bool{}
	var out []uint64
	add := func(xs ...uint64) {
		for _, x := range xs {
			if !seen[x] {
				seen[x] = true
				out = append(out, x)
			}
		}
	}
	for k := 0; k < 64; k++ {
		p := uint64(1) << k
		add(p-1, p, p+1, p+cur) // 2^63+cur does not wrap: cur < 2^63
	}
	qi := uint64(math.MaxInt64) / c10slotNs
	qu := uint64(math.MaxUint64) / c10slotNs
	add(qi-1, qi, qi+1, qi+cur, qu-1, qu, qu+1, qu+cur)
	add(1<<63-2, 1<<63-1, 1<<63, 1<<63+1, 1<<63+2)
	for d := uint64(0); d <= 2*c10SPE+1; d++ {
		add(math.MaxUint64 - d)
	}
	add(cur-1, cur, cur+1, lastAllowed-1, lastAllowed, lastAllowed+1, lastAllowed+c10SPE)
	sort.Slice(out, func(i, j int) bool { return out[i] < out[j] })
	return out
}

// windowOK is the documented window of gater.go recomputed with big integers: a duty is allowed iff
// epoch(slot) <= epoch(floor((now-genesis)/slotDuration)) + 2.
func (h *c10peerH) windowOK(slot uint64) bool {
	since := new(big.Int).Sub(big.NewInt(h.now.UnixNano()), big.NewInt(h.cl.genesis.UnixNano()))
	curSlot := new(big.Int).Div(since, big.NewInt(c10slotNs)) // now >= genesis in this harness: Div == floor
	curEpoch := new(big.Int).Div(curSlot, big.NewInt(c10SPE))
	dutyEpoch := new(big.Int).Div(new(big.Int).SetUint64(slot), big.NewInt(c10SPE))
	return dutyEpoch.Cmp(new(big.Int).Add(curEpoch, big.NewInt(2))) <= 0
}

func (h *c10peerH) curSlot() uint64 {
	return uint64(h.now.Sub(h.cl.genesis) / (12 * time.Second))
}

// c10int32Boundaries: 0, +-(2^k-1), +-2^k, +-(2^k+1), 2^k+peer share for k in 0..31, clipped to int32.
func c10int32Boundaries() []int32 {
	seen := map[int64]bool{}
	var out []int32
	add := func(xs ...int64) {
		for _, x := range xs {
			if x >= math.MinInt32 && x <= math.MaxInt32 && !seen[x] {
				seen[x] = true
				out = append(out, int32(x))
			}
		}
	}
	add(0, math.MinInt32, math.MaxInt32)
	for k := 0; k < 32; k++ {
		p := int64(1) << k
		add(p-1, p, p+1, p+c10Peer, p+c10N, -p+1, -p, -p-1, -p+c10Peer)
	}
	sort.Slice(out, func(i, j int) bool { return out[i] < out[j] })
	return out
}

func c10peerBoundaries(r *enumx.Run, s *c10pseq) {
	h := s.b
	cl := h.cl
	if spec, err := cl.bmock.Spec(s.ctx, &eth2api.SpecOpts{}); err != nil || spec.Data["SECONDS_PER_SLOT"] != time.Duration(c10slotNs) {
		r.NotExhaustive("harness: the beacon mock's slot duration is not the 12s the boundary values assume")
		return
	}
	lastAllowed := (h.curEpoch+3)*c10SPE - 1
	slots := c10boundarySlots(h.curSlot(), lastAllowed)
	r.Note(fmt.Sprintf("peer boundaries: %d duty slots, %d share indexes", len(slots), len(c10int32Boundaries())))
	for _, x := range slots {
		if h.windowOK(x) != (x/c10SPE <= h.curEpoch+2) {
			r.NotExhaustive("harness: the two window computations of the harness disagree")
			return
		}
	}

	// (a) the gater func itself, every duty type -1..15
	for t := -1; t <= 15; t++ {
		if !r.Mine() {
			continue
		}
		if r.Expired() {
			return
		}
		gater, err := core.NewDutyGater(s.ctx, cl.bmock, core.WithDutyGaterForT(nil, func() time.Time { return h.now }, 2))
		if err != nil {
			r.Note("harness: cannot build the gater: " + err.Error())
			return
		}
		for _, x := range slots {
			c := c10case{Path: "peer-gater", Unit: "gater", Alt: fmt.Sprintf("dutytype-%d", t), Num: strconv.FormatUint(x, 10)}
			r.Eval(c.key())
			r.Steps(1)
			run := func() *c10viol {
				got := gater(core.Duty{Slot: x, Type: core.DutyType(t)})
				want := t > 0 && t < 14 && h.windowOK(x)
				if got && !want {
					return &c10viol{c10signature(c10case{Path: c.Path, Unit: c.Unit, Alt: "boundary-slot"}, "kind=gater-allows-outside-window"),
						fmt.Sprintf("the gater func allows duty type %d slot %d although epoch(slot) > current epoch %d + 2 or the type is invalid", t, x, h.curEpoch)}
				}
				if got {
					r.Count("peer_gater_boundary_allowed", 1)
				} else {
					r.Count("peer_gater_boundary_refused", 1)
					if want {
						r.Count("peer_gater_boundary_refused_inside_window", 1)
					}
				}
				return nil
			}
			if v := run(); v != nil {
				c10report(r, c, v, run)
			}
		}
	}

	// (b) through handle, correctly signed sets whose duty (and, where the type has one, own slot) is the boundary slot
	for _, name := range []string{"prepare_aggregator", "sync_message", "prepare_sync_contribution", "attester/fulu"} {
		u := s.units[name]
		if !r.Mine() {
			continue
		}
		for _, x := range slots {
			if r.Expired() {
				return
			}
			s.evalSlot(r, u, x)
		}
	}

	// (c) share index over the int32 boundaries, the otherwise valid entry of every unit
	for _, u := range c10pseqUnits(enumx.Thorough()) {
		if !r.Mine() {
			continue
		}
		if r.Expired() {
			return
		}
		for _, x := range c10int32Boundaries() {
			s.evalShareIdx(r, u, x)
		}
	}
}

// slotMsg builds validator v0's object of unit u for slot x, signed by the sending peer's share for the object's own
// epoch (fork), under a duty of slot x.
func (s *c10pseq) slotMsg(u c10punit, x uint64) (*pbv1.ParSigExMsg, error) {
	cl := s.b.cl
	v0 := cl.vals[0]
	it, err := cl.c10build(u.Kind, u.Ver, v0)
	if err != nil {
		return nil, err
	}
	switch o := it.(type) {
	case *eth2v1.BeaconCommitteeSelection:
		o.Slot = eth2p0.Slot(x)
	case *altair.SyncCommitteeMessage:
		o.Slot = eth2p0.Slot(x)
	case *eth2v1.SyncCommitteeSelection:
		o.Slot = eth2p0.Slot(x)
	}
	if err := cl.c10sign(it, v0.Shares[c10Peer], c10signOpts{}); err != nil {
		return nil, err
	}
	d, err := c10wrap(it)
	if err != nil {
		return nil, err
	}
	m, err := c10message(&pbv1.Duty{Slot: x, Type: int32(u.Duty)}, []c10pent{{string(v0.PK), d, c10Peer}})
	if err != nil {
		return nil, err
	}
	return c10wire(m)
}

func (s *c10pseq) evalSlot(r *enumx.Run, u c10punit, x uint64) {
	c := c10case{Path: "peer-slot", Unit: u.unit(), Alt: "boundary-slot", Num: strconv.FormatUint(x, 10)}
	run := func(r *enumx.Run) *c10viol {
		m, err := s.slotMsg(u, x)
		if err != nil {
			if r != nil {
				r.Note("harness could not build " + c.key() + ": " + err.Error())
			}
			return nil
		}
		inst, err := c10newPeer(s.ctx)
		if err != nil {
			return nil
		}
		inside := inst.windowOK(x)
		valid, _ := inst.expect(m)
		v := inst.judge(r, u, m, "auto", 0)
		if v == nil && !inside && (len(inst.calls) > 0 || inst.lastErr == nil) {
			v = &c10viol{"kind=delivered-outside-window", fmt.Sprintf("duty slot %d is outside the window (big-integer arithmetic) but handle answered err=%v with %d subscriber calls", x, inst.lastErr, len(inst.calls))}
		}
		if r != nil {
			switch {
			case len(inst.calls) > 0:
				r.Count("peer_slot_boundary_accepted", 1)
			case inside && valid:
				r.Count("peer_slot_boundary_refused_inside_window", 1)
			default:
				r.Count("peer_slot_boundary_refused", 1)
			}
		}
		if v != nil {
			v.sig = c10signature(c, v.sig)
		}
		return v
	}
	r.Eval(c.key())
	if v := run(r); v != nil {
		c10report(r, c, v, func() *c10viol { return run(nil) })
	}
}

func (s *c10pseq) evalShareIdx(r *enumx.Run, u c10punit, x int32) {
	c := c10case{Path: "peer-shareidx", Unit: u.unit(), Alt: "boundary-shareidx", Num: strconv.FormatInt(int64(x), 10)}
	base, err := s.base(c10pdesc(u, c10case{Alt: "baseline"}))
	if err != nil {
		return
	}
	run := func(r *enumx.Run) *c10viol {
		m := c10pclone(base.M)
		for _, e := range m.GetDataSet().GetSet() {
			e.ShareIdx = x
		}
		inst, err := c10newPeer(s.ctx)
		if err != nil {
			return nil
		}
		mode := "auto"
		if x == c10Peer {
			mode = base.Mode
		}
		v := inst.judge(r, u, m, mode, 0)
		if r != nil {
			if len(inst.calls) > 0 {
				r.Count("peer_shareidx_boundary_accepted", 1)
			} else {
				r.Count("peer_shareidx_boundary_refused", 1)
			}
		}
		if v != nil {
			v.sig = c10signature(c, v.sig)
		}
		return v
	}
	r.Eval(c.key())
	if v := run(r); v != nil {
		c10report(r, c, v, func() *c10viol { return run(nil) })
	}
}

// ---- entry points -------------------------------------------------------------------------------------------

func c10peerExtra(ctx context.Context, r *enumx.Run, h *c10peerH) {
	s := c10newPseq(ctx, h)
	c10peerPairs(r, h) // two entries of one set that are invalid together (zz_verif_c10p_test.go)
	c10peerSequences(r, s)
	c10peerFaults(r, s)
	c10peerBoundaries(r, s)
}

// c10peerReplayExtra re-runs a replay file of one of the added dimensions; it reports whether the file was one.
func c10peerReplayExtra(ctx context.Context, r *enumx.Run, h *c10peerH, c c10case) bool {
	s := c10newPseq(ctx, h)
	switch c.Path {
	case "peer-seq":
		s.evalSeq(r, c.Seq)
	case "peer-fault":
		if u, ok := s.units[c.Unit]; ok {
			if op, err := s.base(c10pdesc(u, c10case{Alt: c.Alt, Field: c.Field, Rot: c.Rot})); err == nil {
				s.evalFault(r, &c10fc{Client: h.cl.bmock}, op, c)
			}
		}
	case "peer-pair":
		c10peerPairReplay(r, h, c)
	case "peer-gater":
		var t int
		fmt.Sscanf(c.Alt, "dutytype-%d", &t)
		x, _ := strconv.ParseUint(c.Num, 10, 64)
		if gater, err := core.NewDutyGater(ctx, h.cl.bmock, core.WithDutyGaterForT(nil, func() time.Time { return h.now }, 2)); err == nil {
			r.Eval(c.key())
			if gater(core.Duty{Slot: x, Type: core.DutyType(t)}) && !(t > 0 && t < 14 && h.windowOK(x)) {
				r.Violation(c10signature(c10case{Path: c.Path, Unit: c.Unit, Alt: "boundary-slot"}, "kind=gater-allows-outside-window"),
					fmt.Sprintf("the gater func allows duty type %d slot %d outside the window", t, x), c)
			}
		}
	case "peer-slot":
		if u, ok := s.units[c.Unit]; ok {
			x, _ := strconv.ParseUint(c.Num, 10, 64)
			s.evalSlot(r, u, x)
		}
	case "peer-shareidx":
		if u, ok := s.units[c.Unit]; ok {
			x, _ := strconv.ParseInt(c.Num, 10, 32)
			s.evalShareIdx(r, u, int32(x))
		}
	default:
		return false
	}
	return true
}
