package parsigex

// C10 – only partial signatures valid for the claimed key share enter a node (peer path).
//
// The real ParSigEx with the real NewEth2Verifier and the real core.NewDutyGater (clock pinned) receives, through its
// unexported handle method, the messages a peer with share index 1 would send for every duty type that carries partial
// signatures: one valid set (must be handed to the subscribers unchanged), then every single-leaf alteration of the
// decoded value (reflection walker, re-encoded) and targeted alterations (other share, out-of-range share index, other
// validator, wrong domain/fork, unknown validator, zero signature, mismatching/invalid duty type, duty outside the
// gater's window, mixed sets under both map iteration orders). The oracle decides validity independently of
// parsigex.go, gater.go, eth2signeddata.go and signing.go; everything that reaches a subscriber is re-verified.
//
// The section between "C10 COMMON BEGIN/END" is duplicated verbatim from core/validatorapi/zz_verif_c10_test.go.

import (
	"context"
	"encoding/binary"
	"errors"
	"fmt"
	"math"
	"reflect"
	"regexp"
	"runtime"
	"strings"
	"testing"
	"time"

	"github.com/OffchainLabs/go-bitfield"
	eth2api "github.com/attestantio/go-eth2-client/api"
	eth2v1 "github.com/attestantio/go-eth2-client/api/v1"
	eth2bellatrix "github.com/attestantio/go-eth2-client/api/v1/bellatrix"
	eth2capella "github.com/attestantio/go-eth2-client/api/v1/capella"
	eth2deneb "github.com/attestantio/go-eth2-client/api/v1/deneb"
	eth2electra "github.com/attestantio/go-eth2-client/api/v1/electra"
	eth2fulu "github.com/attestantio/go-eth2-client/api/v1/fulu"
	eth2spec "github.com/attestantio/go-eth2-client/spec"
	"github.com/attestantio/go-eth2-client/spec/altair"
	"github.com/attestantio/go-eth2-client/spec/bellatrix"
	"github.com/attestantio/go-eth2-client/spec/capella"
	"github.com/attestantio/go-eth2-client/spec/deneb"
	"github.com/attestantio/go-eth2-client/spec/electra"
	eth2p0 "github.com/attestantio/go-eth2-client/spec/phase0"
	"github.com/libp2p/go-libp2p/core/host"
	"github.com/libp2p/go-libp2p/core/network"
	"github.com/libp2p/go-libp2p/core/peer"
	"github.com/libp2p/go-libp2p/core/protocol"
	"google.golang.org/protobuf/proto"

	"github.com/obolnetwork/charon/app/eth2wrap"
	"github.com/obolnetwork/charon/core"
	pbv1 "github.com/obolnetwork/charon/core/corepb/v1"
	"github.com/obolnetwork/charon/tbls"
	"github.com/obolnetwork/charon/testutil"
	"github.com/obolnetwork/charon/testutil/beaconmock"
	"github.com/obolnetwork/charon/zzverif/enumx"
)

// ===================================== C10 COMMON BEGIN =====================================

const (
	c10N       = 4    // shares
	c10T       = 3    // threshold
	c10Self    = 2    // share index of the node under test (VC path)
	c10Peer    = 1    // share index of the sending peer (peer path)
	c10SPE     = 16   // slots per epoch (beaconmock default, set explicitly)
	c10Epoch   = 2050 // base epoch: fork 0x60000910 (from epoch 2048); previous 0x50000910, next 0x70000910 (50688)
	c10Slot    = c10Epoch*c10SPE + 3
	c10CommIdx = 5
	c10CommLen = 8
	c10Subcomm = 1
)

// Domain types of the consensus specs (hard-coded, independent of charon's signing package).
var c10domNames = []string{"BEACON_PROPOSER", "BEACON_ATTESTER", "RANDAO", "DEPOSIT", "VOLUNTARY_EXIT", "SELECTION_PROOF",
	"AGGREGATE_AND_PROOF", "SYNC_COMMITTEE", "SYNC_COMMITTEE_SELECTION_PROOF", "CONTRIBUTION_AND_PROOF", "APPLICATION_BUILDER"}

var c10domTypes = map[string][4]byte{
	"BEACON_PROPOSER": {0, 0, 0, 0}, "BEACON_ATTESTER": {1, 0, 0, 0}, "RANDAO": {2, 0, 0, 0}, "DEPOSIT": {3, 0, 0, 0},
	"VOLUNTARY_EXIT": {4, 0, 0, 0}, "SELECTION_PROOF": {5, 0, 0, 0}, "AGGREGATE_AND_PROOF": {6, 0, 0, 0},
	"SYNC_COMMITTEE": {7, 0, 0, 0}, "SYNC_COMMITTEE_SELECTION_PROOF": {8, 0, 0, 0}, "CONTRIBUTION_AND_PROOF": {9, 0, 0, 0},
	"APPLICATION_BUILDER": {0, 0, 0, 1},
}

// c10val is one validator: 0 and 1 are in the cluster lock, 2 ("outsider") is active on chain with duties but not part
// of the lock, 3 ("ghost") is unknown to the beacon node and has no duties.
type c10val struct {
	Name       string
	Idx        eth2p0.ValidatorIndex
	Secret     tbls.PrivateKey
	Pub        tbls.PublicKey
	PK         core.PubKey
	Shares     map[int]tbls.PrivateKey
	PubShares  map[int]tbls.PublicKey
	ValCommIdx uint64      // position in the attestation committee
	PropSlot   eth2p0.Slot // slot in which this validator proposes
	InLock     bool
	OnChain    bool
}

type c10cluster struct {
	vals    []*c10val
	lock    map[core.PubKey]map[int]tbls.PublicKey
	bmock   beaconmock.Mock
	forks   []*eth2p0.Fork
	gvr     eth2p0.Root
	genesis time.Time
}

var c10cl *c10cluster

// c10setup builds the cluster once per process. Any failure is a harness problem (returned, never an alarm).
func c10setup(ctx context.Context) (*c10cluster, error) {
	if c10cl != nil {
		return c10cl, nil
	}
	cl := &c10cluster{lock: map[core.PubKey]map[int]tbls.PublicKey{}}
	names := []string{"v0", "v1", "outsider", "ghost"}
	set := beaconmock.ValidatorSet{}
	for i, name := range names {
		secret, err := tbls.GenerateSecretKey()
		if err != nil {
			return nil, err
		}
		pub, err := tbls.SecretToPublicKey(secret)
		if err != nil {
			return nil, err
		}
		shares, err := tbls.ThresholdSplit(secret, c10N, c10T)
		if err != nil {
			return nil, err
		}
		v := &c10val{Name: name, Idx: eth2p0.ValidatorIndex(i + 1), Secret: secret, Pub: pub, Shares: shares,
			PubShares: map[int]tbls.PublicKey{}, ValCommIdx: uint64(i + 1), PropSlot: eth2p0.Slot(c10Slot + i),
			InLock: i < 2, OnChain: i < 3}
		if name == "ghost" {
			v.Idx = 77
		}
		v.PK, err = core.PubKeyFromBytes(pub[:])
		if err != nil {
			return nil, err
		}
		for k, s := range shares {
			v.PubShares[k], err = tbls.SecretToPublicKey(s)
			if err != nil {
				return nil, err
			}
		}
		if v.InLock {
			cl.lock[v.PK] = v.PubShares
		}
		if v.OnChain {
			set[v.Idx] = &eth2v1.Validator{Index: v.Idx, Balance: 32e9, Status: eth2v1.ValidatorStateActiveOngoing,
				Validator: &eth2p0.Validator{PublicKey: eth2p0.BLSPubKey(pub), WithdrawalCredentials: make([]byte, 32),
					EffectiveBalance: 32e9, ActivationEligibilityEpoch: 1, ActivationEpoch: 2, ExitEpoch: 1 << 60, WithdrawableEpoch: 1 << 60}}
		}
		cl.vals = append(cl.vals, v)
	}
	bm, err := beaconmock.New(ctx, beaconmock.WithValidatorSet(set), beaconmock.WithSlotsPerEpoch(c10SPE),
		beaconmock.WithNoAttesterDuties(), beaconmock.WithNoProposerDuties(), beaconmock.WithNoSyncCommitteeDuties())
	if err != nil {
		return nil, err
	}
	cl.bmock = bm
	fs, err := bm.ForkSchedule(ctx, &eth2api.ForkScheduleOpts{})
	if err != nil {
		return nil, err
	}
	cl.forks = fs.Data
	gen, err := bm.Genesis(ctx, &eth2api.GenesisOpts{})
	if err != nil {
		return nil, err
	}
	cl.gvr = gen.Data.GenesisValidatorsRoot
	cl.genesis = gen.Data.GenesisTime
	spe, err := bm.SlotsPerEpoch(ctx)
	if err != nil || spe != c10SPE {
		return nil, fmt.Errorf("unexpected slots per epoch %d: %v", spe, err)
	}
	// The chain configuration the harness assumes (three distinct fork versions around the base epoch).
	if cl.forkAt(c10Epoch) == cl.forkAt(0) || cl.forkAt(c10Epoch) == cl.forkAt(1<<40) || cl.forkAt(0) == cl.forks[0].CurrentVersion {
		return nil, fmt.Errorf("unexpected fork schedule %v", cl.forks)
	}
	spec, err := bm.Spec(ctx, &eth2api.SpecOpts{})
	if err != nil {
		return nil, err
	}
	for name, dt := range c10domTypes {
		if got, ok := spec.Data["DOMAIN_"+name].(eth2p0.DomainType); !ok || [4]byte(got) != dt {
			return nil, fmt.Errorf("beacon spec domain type %s differs from the consensus-spec constant", name)
		}
	}
	c10cl = cl
	return cl, nil
}

// forkAt returns the fork version in force at epoch (last scheduled fork with Epoch <= epoch).
func (cl *c10cluster) forkAt(epoch uint64) eth2p0.Version {
	cur := cl.forks[0]
	for _, f := range cl.forks {
		if uint64(f.Epoch) > epoch {
			break
		}
		cur = f
	}
	return cur.CurrentVersion
}

// c10signOpts overrides what a signature is computed over (to build deliberately wrong signatures).
type c10signOpts struct {
	Dom  *[4]byte        // other domain type
	Fork *eth2p0.Version // other fork version
	GVR  *eth2p0.Root    // other genesis validators root
	Root *[32]byte       // other object root
}

// c10sd is what the harness derives, on its own, from a signed object.
type c10sd struct {
	Kind  string   // domain name of the object's type
	Root  [32]byte // object root (hash tree root of the signed message)
	Epoch uint64   // epoch that selects the fork version
	Sig   eth2p0.BLSSignature
}

// signingRoot is compute_signing_root(object, compute_domain(type, fork_version(epoch), genesis_validators_root)).
func (cl *c10cluster) signingRoot(sd c10sd, o c10signOpts) ([32]byte, error) {
	dt := c10domTypes[sd.Kind]
	fork := cl.forkAt(sd.Epoch)
	gvr := cl.gvr
	if sd.Kind == "APPLICATION_BUILDER" { // builder domain: genesis fork version, zero genesis validators root
		fork = cl.forks[0].CurrentVersion
		gvr = eth2p0.Root{}
	}
	root := sd.Root
	if o.Dom != nil {
		dt = *o.Dom
	}
	if o.Fork != nil {
		fork = *o.Fork
	}
	if o.GVR != nil {
		gvr = *o.GVR
	}
	if o.Root != nil {
		root = *o.Root
	}
	fdr, err := (&eth2p0.ForkData{CurrentVersion: fork, GenesisValidatorsRoot: gvr}).HashTreeRoot()
	if err != nil {
		return [32]byte{}, err
	}
	var dom eth2p0.Domain
	copy(dom[:4], dt[:])
	copy(dom[4:], fdr[:28])
	return (&eth2p0.SigningData{ObjectRoot: root, Domain: dom}).HashTreeRoot()
}

// verifies reports whether sd's signature is a valid BLS signature of sd's own signing root under pub.
func (cl *c10cluster) verifies(sd c10sd, pub tbls.PublicKey) bool {
	if sd.Sig == (eth2p0.BLSSignature{}) {
		return false
	}
	sr, err := cl.signingRoot(sd, c10signOpts{})
	if err != nil {
		return false
	}
	return tbls.Verify(pub, sr[:], tbls.Signature(sd.Sig)) == nil
}

func c10u64root(x uint64) (r [32]byte) {
	binary.LittleEndian.PutUint64(r[:8], x)
	return r
}

var c10verNames = map[eth2spec.DataVersion]string{eth2spec.DataVersionPhase0: "Phase0", eth2spec.DataVersionAltair: "Altair",
	eth2spec.DataVersionBellatrix: "Bellatrix", eth2spec.DataVersionCapella: "Capella", eth2spec.DataVersionDeneb: "Deneb",
	eth2spec.DataVersionElectra: "Electra", eth2spec.DataVersionFulu: "Fulu"}

var c10versions = []eth2spec.DataVersion{eth2spec.DataVersionPhase0, eth2spec.DataVersionAltair, eth2spec.DataVersionBellatrix,
	eth2spec.DataVersionCapella, eth2spec.DataVersionDeneb, eth2spec.DataVersionElectra, eth2spec.DataVersionFulu}

func c10verByName(s string) eth2spec.DataVersion {
	for v, n := range c10verNames {
		if strings.EqualFold(n, s) {
			return v
		}
	}
	return eth2spec.DataVersionUnknown
}

// c10versioned returns the struct selected by the Version field of a go-eth2-client "Versioned..." object.
func c10versioned(p any, suffix string) (reflect.Value, error) {
	rv := reflect.ValueOf(p)
	if rv.Kind() != reflect.Ptr || rv.IsNil() {
		return reflect.Value{}, fmt.Errorf("nil versioned object")
	}
	rv = rv.Elem()
	name, ok := c10verNames[eth2spec.DataVersion(rv.FieldByName("Version").Uint())]
	if !ok {
		return reflect.Value{}, fmt.Errorf("unknown version")
	}
	f := rv.FieldByName(name + suffix)
	if !f.IsValid() || f.Kind() != reflect.Ptr || f.IsNil() {
		return reflect.Value{}, fmt.Errorf("version %s%s not populated", name, suffix)
	}
	return f.Elem(), nil
}

// c10signedBlock returns the {Message, Signature} struct of a versioned signed proposal.
func c10signedBlock(p *eth2api.VersionedSignedProposal) (reflect.Value, error) {
	suffix := ""
	if p.Blinded {
		suffix = "Blinded"
	}
	s, err := c10versioned(p, suffix)
	if err != nil {
		return s, err
	}
	if sb := s.FieldByName("SignedBlock"); sb.IsValid() { // deneb+ block contents
		if sb.IsNil() {
			return s, fmt.Errorf("no signed block")
		}
		s = sb.Elem()
	}
	if m := s.FieldByName("Message"); !m.IsValid() || m.IsNil() {
		return s, fmt.Errorf("no message")
	}
	return s, nil
}

type c10hasher interface{ HashTreeRoot() ([32]byte, error) }

func c10htr(v reflect.Value) ([32]byte, error) {
	h, ok := v.Interface().(c10hasher)
	if !ok {
		return [32]byte{}, fmt.Errorf("%s has no hash tree root", v.Type())
	}
	return h.HashTreeRoot()
}

func c10blinded2signed(b *eth2api.VersionedSignedBlindedProposal) *eth2api.VersionedSignedProposal {
	return &eth2api.VersionedSignedProposal{Version: b.Version, Blinded: true, BellatrixBlinded: b.Bellatrix,
		CapellaBlinded: b.Capella, DenebBlinded: b.Deneb, ElectraBlinded: b.Electra, FuluBlinded: b.Fulu}
}

// c10sigField returns the settable signature field of a signed eth2 object (pointer types only).
func c10sigField(obj any) (sig *eth2p0.BLSSignature, err error) {
	defer func() {
		if r := recover(); r != nil {
			err = fmt.Errorf("malformed object: %v", r)
		}
	}()
	switch o := obj.(type) {
	case *eth2spec.VersionedAttestation:
		s, err := c10versioned(o, "")
		if err != nil {
			return nil, err
		}
		return s.FieldByName("Signature").Addr().Interface().(*eth2p0.BLSSignature), nil
	case *eth2api.VersionedSignedProposal:
		s, err := c10signedBlock(o)
		if err != nil {
			return nil, err
		}
		return s.FieldByName("Signature").Addr().Interface().(*eth2p0.BLSSignature), nil
	case *eth2api.VersionedSignedBlindedProposal:
		return c10sigField(c10blinded2signed(o))
	case *eth2api.ProposalOpts:
		return &o.RandaoReveal, nil
	case *eth2p0.SignedVoluntaryExit:
		return &o.Signature, nil
	case *eth2api.VersionedSignedValidatorRegistration:
		return &o.V1.Signature, nil
	case *eth2v1.BeaconCommitteeSelection:
		return &o.SelectionProof, nil
	case *eth2spec.VersionedSignedAggregateAndProof:
		s, err := c10versioned(o, "")
		if err != nil {
			return nil, err
		}
		return s.FieldByName("Signature").Addr().Interface().(*eth2p0.BLSSignature), nil
	case *eth2p0.SignedAggregateAndProof:
		return &o.Signature, nil
	case *altair.SyncCommitteeMessage:
		return &o.Signature, nil
	case *altair.SignedContributionAndProof:
		return &o.Signature, nil
	case *eth2v1.SyncCommitteeSelection:
		return &o.SelectionProof, nil
	}
	return nil, fmt.Errorf("unsupported object %T", obj)
}

// c10info derives domain kind, object root, epoch and signature of a signed object: the pointer types the validator
// API receives and the core.SignedData wrappers that travel between nodes. It never uses charon's
// MessageRoot/DomainName/Epoch implementations.
func c10info(obj any) (sd c10sd, err error) {
	defer func() {
		if r := recover(); r != nil {
			err = fmt.Errorf("malformed object: %v", r)
		}
	}()
	switch o := obj.(type) {
	// core wrappers (peer path and subscriber deliveries)
	case core.ParSignedData:
		return c10info(o.SignedData)
	case core.VersionedAttestation:
		return c10info(&o.VersionedAttestation)
	case core.VersionedSignedProposal:
		return c10info(&o.VersionedSignedProposal)
	case core.SignedVoluntaryExit:
		return c10info(&o.SignedVoluntaryExit)
	case core.VersionedSignedValidatorRegistration:
		return c10info(&o.VersionedSignedValidatorRegistration)
	case core.BeaconCommitteeSelection:
		return c10info(&o.BeaconCommitteeSelection)
	case core.VersionedSignedAggregateAndProof:
		return c10info(&o.VersionedSignedAggregateAndProof)
	case core.SignedAggregateAndProof:
		return c10info(&o.SignedAggregateAndProof)
	case core.SignedSyncMessage:
		return c10info(&o.SyncCommitteeMessage)
	case core.SignedSyncContributionAndProof:
		return c10info(&o.SignedContributionAndProof)
	case core.SyncCommitteeSelection:
		return c10info(&o.SyncCommitteeSelection)
	case core.SignedRandao:
		return c10sd{Kind: "RANDAO", Root: c10u64root(uint64(o.SignedEpoch.Epoch)), Epoch: uint64(o.SignedEpoch.Epoch), Sig: o.SignedEpoch.Signature}, nil

	// eth2 objects
	case *eth2spec.VersionedAttestation:
		s, err := c10versioned(o, "")
		if err != nil {
			return sd, err
		}
		data := s.FieldByName("Data")
		if data.IsNil() {
			return sd, fmt.Errorf("no attestation data")
		}
		ad := data.Interface().(*eth2p0.AttestationData)
		if ad.Target == nil || ad.Source == nil {
			return sd, fmt.Errorf("no checkpoints")
		}
		root, err := ad.HashTreeRoot()
		if err != nil {
			return sd, err
		}
		return c10sd{Kind: "BEACON_ATTESTER", Root: root, Epoch: uint64(ad.Target.Epoch), Sig: s.FieldByName("Signature").Interface().(eth2p0.BLSSignature)}, nil
	case *eth2api.VersionedSignedProposal:
		s, err := c10signedBlock(o)
		if err != nil {
			return sd, err
		}
		msg := s.FieldByName("Message")
		root, err := c10htr(msg)
		if err != nil {
			return sd, err
		}
		slot := msg.Elem().FieldByName("Slot").Uint()
		return c10sd{Kind: "BEACON_PROPOSER", Root: root, Epoch: slot / c10SPE, Sig: s.FieldByName("Signature").Interface().(eth2p0.BLSSignature)}, nil
	case *eth2api.VersionedSignedBlindedProposal:
		return c10info(c10blinded2signed(o))
	case *eth2api.ProposalOpts: // the randao reveal of a proposal request signs the epoch of the requested slot
		ep := uint64(o.Slot) / c10SPE
		return c10sd{Kind: "RANDAO", Root: c10u64root(ep), Epoch: ep, Sig: o.RandaoReveal}, nil
	case *eth2p0.SignedVoluntaryExit:
		root, err := o.Message.HashTreeRoot()
		if err != nil {
			return sd, err
		}
		return c10sd{Kind: "VOLUNTARY_EXIT", Root: root, Epoch: uint64(o.Message.Epoch), Sig: o.Signature}, nil
	case *eth2api.VersionedSignedValidatorRegistration:
		if o.Version != eth2spec.BuilderVersionV1 {
			return sd, fmt.Errorf("unknown builder version")
		}
		root, err := o.V1.Message.HashTreeRoot()
		if err != nil {
			return sd, err
		}
		return c10sd{Kind: "APPLICATION_BUILDER", Root: root, Epoch: 0, Sig: o.V1.Signature}, nil
	case *eth2v1.BeaconCommitteeSelection:
		return c10sd{Kind: "SELECTION_PROOF", Root: c10u64root(uint64(o.Slot)), Epoch: uint64(o.Slot) / c10SPE, Sig: o.SelectionProof}, nil
	case *eth2spec.VersionedSignedAggregateAndProof:
		s, err := c10versioned(o, "")
		if err != nil {
			return sd, err
		}
		msg := s.FieldByName("Message")
		root, err := c10htr(msg)
		if err != nil {
			return sd, err
		}
		slot := msg.Elem().FieldByName("Aggregate").Elem().FieldByName("Data").Elem().FieldByName("Slot").Uint()
		return c10sd{Kind: "AGGREGATE_AND_PROOF", Root: root, Epoch: slot / c10SPE, Sig: s.FieldByName("Signature").Interface().(eth2p0.BLSSignature)}, nil
	case *eth2p0.SignedAggregateAndProof:
		root, err := o.Message.HashTreeRoot()
		if err != nil {
			return sd, err
		}
		return c10sd{Kind: "AGGREGATE_AND_PROOF", Root: root, Epoch: uint64(o.Message.Aggregate.Data.Slot) / c10SPE, Sig: o.Signature}, nil
	case *altair.SyncCommitteeMessage:
		return c10sd{Kind: "SYNC_COMMITTEE", Root: o.BeaconBlockRoot, Epoch: uint64(o.Slot) / c10SPE, Sig: o.Signature}, nil
	case *altair.SignedContributionAndProof:
		root, err := o.Message.HashTreeRoot()
		if err != nil {
			return sd, err
		}
		return c10sd{Kind: "CONTRIBUTION_AND_PROOF", Root: root, Epoch: uint64(o.Message.Contribution.Slot) / c10SPE, Sig: o.Signature}, nil
	case *eth2v1.SyncCommitteeSelection:
		root, err := (&altair.SyncAggregatorSelectionData{Slot: o.Slot, SubcommitteeIndex: o.SubcommitteeIndex}).HashTreeRoot()
		if err != nil {
			return sd, err
		}
		return c10sd{Kind: "SYNC_COMMITTEE_SELECTION_PROOF", Root: root, Epoch: uint64(o.Slot) / c10SPE, Sig: o.SelectionProof}, nil
	}
	return sd, fmt.Errorf("not an eth2 signed object: %T", obj)
}

// c10sign signs obj (a pointer type of c10sigField) in place with secret.
func (cl *c10cluster) c10sign(obj any, secret tbls.PrivateKey, o c10signOpts) error {
	sd, err := c10info(obj)
	if err != nil {
		return err
	}
	sr, err := cl.signingRoot(sd, o)
	if err != nil {
		return err
	}
	sig, err := tbls.Sign(secret, sr[:])
	if err != nil {
		return err
	}
	f, err := c10sigField(obj)
	if err != nil {
		return err
	}
	*f = eth2p0.BLSSignature(sig)
	return nil
}

// ---- object builders ----------------------------------------------------------------------------------

// c10kind names the signed object types; Versions lists the data versions each comes in ("" = unversioned).
type c10kind string

const (
	c10Att     c10kind = "attestation"
	c10Prop    c10kind = "proposal"
	c10Blind   c10kind = "blinded_proposal"
	c10Randao  c10kind = "randao"
	c10Exit    c10kind = "exit"
	c10Reg     c10kind = "registration"
	c10BCSel   c10kind = "beacon_committee_selection"
	c10Agg     c10kind = "aggregate_and_proof"
	c10AggOld  c10kind = "aggregate_and_proof_unversioned"
	c10SyncMsg c10kind = "sync_message"
	c10Contrib c10kind = "sync_contribution"
	c10SyncSel c10kind = "sync_committee_selection"
)

func c10setMsgIDs(signed reflect.Value, slot eth2p0.Slot, idx eth2p0.ValidatorIndex) {
	m := signed.FieldByName("Message").Elem()
	m.FieldByName("Slot").SetUint(uint64(slot))
	m.FieldByName("ProposerIndex").SetUint(uint64(idx))
}

func c10blob() deneb.Blob {
	var b deneb.Blob
	copy(b[:], testutil.RandomBytes32())
	copy(b[len(b)-32:], testutil.RandomBytes32())
	return b
}

// c10build returns an unsigned (zero outer signature) eth2 object of the kind/version that identifies validator v;
// inner selection proofs are valid signatures of the validator's group key.
func (cl *c10cluster) c10build(kind c10kind, ver string, v *c10val) (any, error) {
	dv := c10verByName(ver)
	switch kind {
	case c10Att:
		data := testutil.RandomAttestationDataPhase0()
		data.Slot = c10Slot
		data.Target.Epoch = c10Epoch
		data.Source.Epoch = c10Epoch - 1
		att := &eth2spec.VersionedAttestation{Version: dv}
		if dv >= eth2spec.DataVersionElectra {
			data.Index = 0
			cb := bitfield.NewBitvector64()
			cb.SetBitAt(c10CommIdx, true)
			ab := bitfield.NewBitlist(c10CommLen)
			ab.SetBitAt(v.ValCommIdx, true)
			idx := v.Idx
			att.ValidatorIndex = &idx
			reflect.ValueOf(att).Elem().FieldByName(c10verNames[dv]).Set(reflect.ValueOf(&electra.Attestation{AggregationBits: ab, Data: data, CommitteeBits: cb}))
		} else {
			data.Index = c10CommIdx
			ab := bitfield.NewBitlist(c10CommLen)
			ab.SetBitAt(v.ValCommIdx, true)
			reflect.ValueOf(att).Elem().FieldByName(c10verNames[dv]).Set(reflect.ValueOf(&eth2p0.Attestation{AggregationBits: ab, Data: data}))
		}
		return att, nil
	case c10Prop:
		p := &eth2api.VersionedSignedProposal{Version: dv}
		kzg := []deneb.KZGProof{deneb.KZGProof(testutil.RandomBytes48())}
		blobs := []deneb.Blob{c10blob()}
		switch dv {
		case eth2spec.DataVersionPhase0:
			p.Phase0 = &eth2p0.SignedBeaconBlock{Message: testutil.RandomPhase0BeaconBlock()}
		case eth2spec.DataVersionAltair:
			p.Altair = &altair.SignedBeaconBlock{Message: testutil.RandomAltairBeaconBlock()}
		case eth2spec.DataVersionBellatrix:
			p.Bellatrix = &bellatrix.SignedBeaconBlock{Message: testutil.RandomBellatrixBeaconBlock()}
		case eth2spec.DataVersionCapella:
			p.Capella = &capella.SignedBeaconBlock{Message: testutil.RandomCapellaBeaconBlock()}
		case eth2spec.DataVersionDeneb:
			p.Deneb = &eth2deneb.SignedBlockContents{SignedBlock: &deneb.SignedBeaconBlock{Message: testutil.RandomDenebBeaconBlock()}, KZGProofs: kzg, Blobs: blobs}
		case eth2spec.DataVersionElectra:
			p.Electra = &eth2electra.SignedBlockContents{SignedBlock: &electra.SignedBeaconBlock{Message: testutil.RandomElectraBeaconBlock()}, KZGProofs: kzg, Blobs: blobs}
		case eth2spec.DataVersionFulu:
			p.Fulu = &eth2fulu.SignedBlockContents{SignedBlock: &electra.SignedBeaconBlock{Message: testutil.RandomElectraBeaconBlock()}, KZGProofs: kzg, Blobs: blobs}
		default:
			return nil, fmt.Errorf("no proposal generator for %q", ver)
		}
		s, err := c10signedBlock(p)
		if err != nil {
			return nil, err
		}
		c10setMsgIDs(s, v.PropSlot, v.Idx)
		return p, nil
	case c10Blind:
		b := &eth2api.VersionedSignedBlindedProposal{Version: dv}
		switch dv {
		case eth2spec.DataVersionBellatrix:
			b.Bellatrix = &eth2bellatrix.SignedBlindedBeaconBlock{Message: testutil.RandomBellatrixBlindedBeaconBlock()}
		case eth2spec.DataVersionCapella:
			b.Capella = &eth2capella.SignedBlindedBeaconBlock{Message: testutil.RandomCapellaBlindedBeaconBlock()}
		case eth2spec.DataVersionDeneb:
			b.Deneb = &eth2deneb.SignedBlindedBeaconBlock{Message: testutil.RandomDenebBlindedBeaconBlock()}
		case eth2spec.DataVersionElectra:
			b.Electra = &eth2electra.SignedBlindedBeaconBlock{Message: testutil.RandomElectraBlindedBeaconBlock()}
		case eth2spec.DataVersionFulu:
			b.Fulu = &eth2electra.SignedBlindedBeaconBlock{Message: testutil.RandomElectraBlindedBeaconBlock()}
		default:
			return nil, fmt.Errorf("no blinded proposal generator for %q", ver)
		}
		s, err := c10signedBlock(c10blinded2signed(b))
		if err != nil {
			return nil, err
		}
		c10setMsgIDs(s, v.PropSlot, v.Idx)
		return b, nil
	case c10Randao:
		return &eth2api.ProposalOpts{Slot: v.PropSlot, Graffiti: testutil.RandomArray32()}, nil
	case c10Exit:
		return &eth2p0.SignedVoluntaryExit{Message: &eth2p0.VoluntaryExit{Epoch: c10Epoch, ValidatorIndex: v.Idx}}, nil
	case c10Reg:
		return &eth2api.VersionedSignedValidatorRegistration{Version: eth2spec.BuilderVersionV1, V1: &eth2v1.SignedValidatorRegistration{
			Message: &eth2v1.ValidatorRegistration{FeeRecipient: bellatrix.ExecutionAddress(testutil.RandomExecutionAddress()), GasLimit: 30000000,
				Timestamp: time.Unix(1700000000, 0).UTC(), Pubkey: eth2p0.BLSPubKey(v.Pub)}}}, nil
	case c10BCSel:
		return &eth2v1.BeaconCommitteeSelection{ValidatorIndex: v.Idx, Slot: c10Slot}, nil
	case c10Agg, c10AggOld:
		data := testutil.RandomAttestationDataPhase0()
		data.Slot = c10Slot
		data.Index = c10CommIdx
		inner := &eth2v1.BeaconCommitteeSelection{ValidatorIndex: v.Idx, Slot: c10Slot}
		if err := cl.c10sign(inner, v.Secret, c10signOpts{}); err != nil {
			return nil, err
		}
		if kind == c10AggOld {
			return &eth2p0.SignedAggregateAndProof{Message: &eth2p0.AggregateAndProof{AggregatorIndex: v.Idx,
				Aggregate: &eth2p0.Attestation{AggregationBits: testutil.RandomBitList(c10CommLen), Data: data, Signature: testutil.RandomEth2Signature()}, SelectionProof: inner.SelectionProof}}, nil
		}
		a := &eth2spec.VersionedSignedAggregateAndProof{Version: dv}
		var in any
		if dv >= eth2spec.DataVersionElectra {
			data.Index = 0
			cb := bitfield.NewBitvector64()
			cb.SetBitAt(c10CommIdx, true)
			in = &electra.SignedAggregateAndProof{Message: &electra.AggregateAndProof{AggregatorIndex: v.Idx,
				Aggregate: &electra.Attestation{AggregationBits: testutil.RandomBitList(c10CommLen), Data: data, Signature: testutil.RandomEth2Signature(), CommitteeBits: cb}, SelectionProof: inner.SelectionProof}}
		} else {
			in = &eth2p0.SignedAggregateAndProof{Message: &eth2p0.AggregateAndProof{AggregatorIndex: v.Idx,
				Aggregate: &eth2p0.Attestation{AggregationBits: testutil.RandomBitList(c10CommLen), Data: data, Signature: testutil.RandomEth2Signature()}, SelectionProof: inner.SelectionProof}}
		}
		f := reflect.ValueOf(a).Elem().FieldByName(c10verNames[dv])
		if !f.IsValid() {
			return nil, fmt.Errorf("no aggregate generator for %q", ver)
		}
		f.Set(reflect.ValueOf(in))
		return a, nil
	case c10SyncMsg:
		return &altair.SyncCommitteeMessage{Slot: c10Slot, BeaconBlockRoot: testutil.RandomRoot(), ValidatorIndex: v.Idx}, nil
	case c10Contrib:
		inner := &eth2v1.SyncCommitteeSelection{ValidatorIndex: v.Idx, Slot: c10Slot, SubcommitteeIndex: c10Subcomm}
		if err := cl.c10sign(inner, v.Secret, c10signOpts{}); err != nil {
			return nil, err
		}
		contrib := testutil.RandomSyncCommitteeContribution()
		contrib.Slot = c10Slot
		contrib.SubcommitteeIndex = c10Subcomm
		return &altair.SignedContributionAndProof{Message: &altair.ContributionAndProof{AggregatorIndex: v.Idx, Contribution: contrib, SelectionProof: inner.SelectionProof}}, nil
	case c10SyncSel:
		return &eth2v1.SyncCommitteeSelection{ValidatorIndex: v.Idx, Slot: c10Slot, SubcommitteeIndex: c10Subcomm}, nil
	}
	return nil, fmt.Errorf("unknown kind %q", kind)
}

// ---- reflection leaf walker -----------------------------------------------------------------------------

type c10leaf struct {
	Path string `json:"path"`
	Alt  string `json:"alt"` // inc | flip | first | last | bit0 | append | plus1s | zero | b<i>
}

var c10timeType = reflect.TypeOf(time.Time{})

// c10walk visits every settable leaf (integers, bools, byte arrays, byte slices/bitlists, time.Time) at every depth.
func c10walk(v reflect.Value, path string, fn func(path string, v reflect.Value)) {
	switch v.Kind() {
	case reflect.Ptr, reflect.Interface:
		if !v.IsNil() {
			c10walk(v.Elem(), path, fn)
		}
	case reflect.Struct:
		if v.Type() == c10timeType {
			if v.CanSet() {
				fn(path, v)
			}
			return
		}
		for i := 0; i < v.NumField(); i++ {
			f := v.Type().Field(i)
			if f.PkgPath != "" { // unexported
				continue
			}
			p := f.Name
			if path != "" {
				p = path + "." + f.Name
			}
			c10walk(v.Field(i), p, fn)
		}
	case reflect.Slice, reflect.Array:
		if v.Type().Elem().Kind() == reflect.Uint8 {
			if v.CanSet() {
				fn(path, v)
			}
			return
		}
		for i := 0; i < v.Len(); i++ {
			c10walk(v.Index(i), fmt.Sprintf("%s[%d]", path, i), fn)
		}
	case reflect.Bool, reflect.Int, reflect.Int8, reflect.Int16, reflect.Int32, reflect.Int64,
		reflect.Uint, reflect.Uint8, reflect.Uint16, reflect.Uint32, reflect.Uint64:
		if v.CanSet() {
			fn(path, v)
		}
	}
}

func c10alts(v reflect.Value) []string {
	var out []string
	switch v.Kind() {
	case reflect.Struct:
		return []string{"plus1s"}
	case reflect.Bool:
		return []string{"flip"}
	case reflect.Array:
		if v.Len() == 0 {
			return nil
		}
		out = []string{"first"}
		if v.Len() > 1 {
			out = append(out, "last")
		}
	case reflect.Slice:
		if v.Len() == 0 {
			return []string{"append"}
		}
		out = []string{"bit0"}
		if v.Len() > 1 {
			out = append(out, "last")
		}
	default:
		out = []string{"inc"}
	}
	if enumx.Thorough() {
		if !v.IsZero() && !(v.Kind() == reflect.Slice && c10allZero(v)) {
			out = append(out, "zero") // thorough tier: additionally the all-zero value ...
		}
		if k := v.Kind(); (k == reflect.Array || k == reflect.Slice) && v.Len() <= 256 {
			for i := 1; i < v.Len()-1; i++ { // ... and every inner byte of byte strings up to 256 bytes
				out = append(out, fmt.Sprintf("b%d", i))
			}
		}
	}
	return out
}

func c10allZero(v reflect.Value) bool {
	for i := 0; i < v.Len(); i++ {
		if v.Index(i).Uint() != 0 {
			return false
		}
	}
	return true
}

// c10leaves lists every single-leaf alteration of obj (a pointer or a slice of pointers).
func c10leaves(obj any) []c10leaf {
	var out []c10leaf
	c10walk(reflect.ValueOf(obj), "", func(path string, v reflect.Value) {
		for _, a := range c10alts(v) {
			out = append(out, c10leaf{path, a})
		}
	})
	return out
}

// c10alter applies one alteration in place; it reports whether the leaf exists.
func c10alter(obj any, l c10leaf) bool {
	found := false
	c10walk(reflect.ValueOf(obj), "", func(path string, v reflect.Value) {
		if path != l.Path || found {
			return
		}
		ok := false
		for _, a := range c10alts(v) {
			ok = ok || a == l.Alt
		}
		if !ok {
			return
		}
		found = true
		switch l.Alt {
		case "plus1s":
			v.Set(reflect.ValueOf(v.Interface().(time.Time).Add(time.Second)))
		case "flip":
			v.SetBool(!v.Bool())
		case "inc":
			if v.CanInt() {
				v.SetInt(v.Int() + 1)
			} else {
				v.SetUint(v.Uint() + 1)
			}
		case "first", "bit0":
			e := v.Index(0)
			e.SetUint(e.Uint() ^ 0x01)
		case "last":
			e := v.Index(v.Len() - 1)
			e.SetUint(e.Uint() ^ 0x80)
		case "append":
			v.Set(reflect.Append(v, reflect.Zero(v.Type().Elem())))
		default: // b<i>
			var i int
			fmt.Sscanf(l.Alt, "b%d", &i)
			e := v.Index(i)
			e.SetUint(e.Uint() ^ 0x04)
		case "zero":
			if v.Kind() == reflect.Slice {
				v.Set(reflect.MakeSlice(v.Type(), v.Len(), v.Len()))
			} else {
				v.Set(reflect.Zero(v.Type()))
			}
		}
	})
	return found
}

// c10deep is a reflection deep copy (unexported fields are copied shallowly; nothing mutates them).
func c10deep(v reflect.Value) reflect.Value {
	switch v.Kind() {
	case reflect.Ptr:
		if v.IsNil() {
			return v
		}
		n := reflect.New(v.Type().Elem())
		n.Elem().Set(c10deep(v.Elem()))
		return n
	case reflect.Interface:
		if v.IsNil() {
			return v
		}
		n := reflect.New(v.Type()).Elem()
		n.Set(c10deep(v.Elem()))
		return n
	case reflect.Struct:
		n := reflect.New(v.Type()).Elem()
		n.Set(v)
		for i := 0; i < v.NumField(); i++ {
			if v.Type().Field(i).PkgPath == "" {
				n.Field(i).Set(c10deep(v.Field(i)))
			}
		}
		return n
	case reflect.Slice:
		if v.IsNil() {
			return v
		}
		n := reflect.MakeSlice(v.Type(), v.Len(), v.Len())
		if v.Type().Elem().Kind() == reflect.Uint8 {
			reflect.Copy(n, v)
			return n
		}
		for i := 0; i < v.Len(); i++ {
			n.Index(i).Set(c10deep(v.Index(i)))
		}
		return n
	case reflect.Array:
		n := reflect.New(v.Type()).Elem()
		n.Set(v)
		if k := v.Type().Elem().Kind(); k == reflect.Ptr || k == reflect.Slice || k == reflect.Struct || k == reflect.Interface {
			for i := 0; i < v.Len(); i++ {
				n.Index(i).Set(c10deep(v.Index(i)))
			}
		}
		return n
	}
	return v
}

func c10clone[T any](x T) T { return c10deep(reflect.ValueOf(x)).Interface().(T) }

// c10case is the replayable description of one evaluated case.
type c10case struct {
	Path  string `json:"path"`  // vapi | peer (single call), <path>-seq, <path>-fault, peer-gater, peer-slot, peer-shareidx
	Unit  string `json:"unit"`  // endpoint/version or duty type/version
	Alt   string `json:"alt"`   // alteration kind
	Field string `json:"field"` // leaf path for field alterations
	FAlt  string `json:"falt"`
	Rot   int    `json:"maprot"`
	// dimensions added on top of the single-call enumeration
	Seq    []string   `json:"seq,omitempty"`    // operation descriptors submitted, in order, to ONE long-lived instance
	Faults []c10fault `json:"faults,omitempty"` // beacon node fault script in force during the (last) call
	Num    string     `json:"num,omitempty"`    // boundary value (decimal) of the peer-controlled integer
}

// c10fault: the K-th (1-based) invocation of a beacon node method made by the component fails in the way Kind says.
type c10fault struct {
	K    int    `json:"k"`
	Kind string `json:"kind"` // error | deadline | empty (Spec answers without any key)
}

func (c c10case) key() string {
	k := c.Path + ":" + c.Unit + ":" + c.Alt
	if c.Field != "" {
		k += "=" + c.Field
		if c.FAlt != "inc" && c.FAlt != "first" && c.FAlt != "bit0" {
			k += "#" + c.FAlt
		}
	}
	if len(c.Seq) > 0 {
		k = c.Path + ":" + strings.Join(c.Seq, " > ")
	}
	for _, f := range c.Faults {
		k += fmt.Sprintf(" !%d:%s", f.K, f.Kind)
	}
	if c.Num != "" {
		k += " #" + c.Num
	}
	return k
}

// ---- scripted beacon node faults ---------------------------------------------------------------------------

// c10fc wraps the (healthy) beacon mock: every invocation of a method the verification paths use is numbered, and the
// invocations named by the script fail. With an empty script it is transparent and only counts.
type c10fc struct {
	eth2wrap.Client
	n      int            // invocations so far
	trace  []string       // method name per invocation
	script map[int]string // invocation number (1-based) -> fault kind
	fired  int            // faults really injected
}

var (
	errC10bn    = errors.New("c10: scripted beacon node failure")
	errC10empty = errors.New("c10: empty answer")
)

func (f *c10fc) arm(script []c10fault) {
	f.n, f.fired, f.trace, f.script = 0, 0, nil, map[int]string{}
	for _, s := range script {
		f.script[s.K] = s.Kind
	}
}

func (f *c10fc) hit(method string) error {
	f.n++
	f.trace = append(f.trace, method)
	switch f.script[f.n] {
	case "":
		return nil
	case "deadline":
		f.fired++
		return context.DeadlineExceeded
	case "empty":
		if method != "Spec" {
			return nil
		}
		f.fired++
		return errC10empty
	}
	f.fired++
	return errC10bn
}

func (f *c10fc) Spec(ctx context.Context, o *eth2api.SpecOpts) (*eth2api.Response[map[string]any], error) {
	if err := f.hit("Spec"); err == errC10empty {
		return &eth2api.Response[map[string]any]{Data: map[string]any{}, Metadata: map[string]any{}}, nil
	} else if err != nil {
		return nil, err
	}
	return f.Client.Spec(ctx, o)
}

func (f *c10fc) Domain(ctx context.Context, dt eth2p0.DomainType, epoch eth2p0.Epoch) (eth2p0.Domain, error) {
	if err := f.hit("Domain"); err != nil {
		return eth2p0.Domain{}, err
	}
	return f.Client.Domain(ctx, dt, epoch)
}

func (f *c10fc) GenesisDomain(ctx context.Context, dt eth2p0.DomainType) (eth2p0.Domain, error) {
	if err := f.hit("GenesisDomain"); err != nil {
		return eth2p0.Domain{}, err
	}
	return f.Client.GenesisDomain(ctx, dt)
}

func (f *c10fc) ActiveValidators(ctx context.Context) (eth2wrap.ActiveValidators, error) {
	if err := f.hit("ActiveValidators"); err != nil {
		return nil, err
	}
	return f.Client.ActiveValidators(ctx)
}

func (f *c10fc) CompleteValidators(ctx context.Context) (eth2wrap.CompleteValidators, error) {
	if err := f.hit("CompleteValidators"); err != nil {
		return nil, err
	}
	return f.Client.CompleteValidators(ctx)
}

func (f *c10fc) Genesis(ctx context.Context, o *eth2api.GenesisOpts) (*eth2api.Response[*eth2v1.Genesis], error) {
	if err := f.hit("Genesis"); err != nil {
		return nil, err
	}
	return f.Client.Genesis(ctx, o)
}

func (f *c10fc) ForkSchedule(ctx context.Context, o *eth2api.ForkScheduleOpts) (*eth2api.Response[[]*eth2p0.Fork], error) {
	if err := f.hit("ForkSchedule"); err != nil {
		return nil, err
	}
	return f.Client.ForkSchedule(ctx, o)
}

func (f *c10fc) SlotsPerEpoch(ctx context.Context) (uint64, error) {
	if err := f.hit("SlotsPerEpoch"); err != nil {
		return 0, err
	}
	return f.Client.SlotsPerEpoch(ctx)
}

func (f *c10fc) SlotDuration(ctx context.Context) (time.Duration, error) {
	if err := f.hit("SlotDuration"); err != nil {
		return 0, err
	}
	return f.Client.SlotDuration(ctx)
}

func (f *c10fc) Validators(ctx context.Context, o *eth2api.ValidatorsOpts) (*eth2api.Response[map[eth2p0.ValidatorIndex]*eth2v1.Validator], error) {
	if err := f.hit("Validators"); err != nil {
		return nil, err
	}
	return f.Client.Validators(ctx, o)
}

// c10faultKinds are the ways one invocation can fail.
var c10faultKinds = []string{"error", "deadline", "empty"}

// c10faultScripts lists every single fault point of a call that makes n invocations (trace names them) and, if pairs
// is set, every pair of fault points (error/deadline only).
func c10faultScripts(trace []string, pairs bool) [][]c10fault {
	var out [][]c10fault
	for k := 1; k <= len(trace); k++ {
		for _, kind := range c10faultKinds {
			if kind == "empty" && trace[k-1] != "Spec" {
				continue
			}
			out = append(out, []c10fault{{k, kind}})
		}
	}
	if pairs {
		for k1 := 1; k1 <= len(trace); k1++ {
			for k2 := k1 + 1; k2 <= len(trace); k2++ {
				for _, a := range c10faultKinds[:2] {
					for _, b := range c10faultKinds[:2] {
						out = append(out, []c10fault{{k1, a}, {k2, b}})
					}
				}
			}
		}
	}
	return out
}

type c10viol struct{ sig, desc string }

var c10digits = regexp.MustCompile(`-?-[0-9]+`)

// c10signature is deliberately coarse (path, endpoint or duty type without version, kind of failure, alteration
// family); version, field path and all other details are in the description and in the replay file.
func c10signature(c c10case, kind string) string {
	unit := strings.SplitN(c.Unit, "/", 2)[0]
	alt := c10digits.ReplaceAllString(c.Alt, "")
	for _, p := range []string{"wrong-domain", "wrong-fork", "mixed"} {
		if strings.HasPrefix(alt, p+"-") {
			alt = p
		}
	}
	return fmt.Sprintf("path=%s unit=%s %s alt=%s", c.Path, unit, kind, alt)
}

// c10optional: phase0/altair proposals can be generated and signed, but the eth2 client library used by charon answers
// "unsupported version" for them (VersionedSignedProposal.Slot); accepting the valid one is therefore not demanded.
func c10optional(kind c10kind, ver string) bool {
	return kind == c10Prop && (ver == "phase0" || ver == "altair")
}

var c10infinity = func() (s eth2p0.BLSSignature) { s[0] = 0xc0; return s }()

// c10report confirms a candidate by re-running the case three more times and reports it.
func c10report(r *enumx.Run, c c10case, v *c10viol, rerun func() *c10viol) {
	for i := 0; i < 3; i++ {
		if v2 := rerun(); v2 == nil || v2.sig != v.sig {
			r.Unconfirmed(c.key() + " " + v.sig)
			return
		}
	}
	r.Violation(v.sig, v.desc+fmt.Sprintf(" [case %+v]", c), c)
}

// ===================================== C10 COMMON END =====================================

// ---- peer path harness -----------------------------------------------------------------------------------

// c10host satisfies host.Host for NewParSigEx, which only registers a stream handler; messages are handed to the
// unexported handle method directly.
type c10host struct{ host.Host }

func (c10host) SetStreamHandlerMatch(protocol.ID, func(protocol.ID) bool, network.StreamHandler) {}

type c10pcall struct {
	sub  int
	duty core.Duty
	set  core.ParSignedDataSet
}

type c10peerH struct {
	cl       *c10cluster
	ex       *ParSigEx
	calls    []c10pcall
	curEpoch uint64
	now      time.Time
	lastErr  error // handle's answer to the most recent deliver (a recovered panic counts as an error)
}

type c10punit struct {
	Duty core.DutyType
	Kind c10kind
	Ver  string
}

func (u c10punit) unit() string {
	s := u.Duty.String()
	if u.Kind == c10Blind {
		return s + "/" + u.Ver + "-blinded"
	}
	if u.Kind == c10AggOld {
		return s + "/unversioned"
	}
	if u.Ver != "" {
		s += "/" + u.Ver
	}
	return s
}

func c10punits(thorough bool) []c10punit {
	var out []c10punit
	all := []string{"phase0", "altair", "bellatrix", "capella", "deneb", "electra", "fulu"}
	for _, v := range all {
		out = append(out, c10punit{core.DutyAttester, c10Att, v})
	}
	for _, v := range all {
		if thorough || v == "fulu" || v == "capella" {
			out = append(out, c10punit{core.DutyProposer, c10Prop, v})
		}
	}
	for _, v := range all[2:] {
		if thorough || v == "fulu" {
			out = append(out, c10punit{core.DutyProposer, c10Blind, v})
		}
	}
	out = append(out,
		c10punit{core.DutyBuilderRegistration, c10Reg, ""},
		c10punit{core.DutyExit, c10Exit, ""},
		c10punit{core.DutyRandao, c10Randao, ""},
		c10punit{core.DutyPrepareAggregator, c10BCSel, ""},
	)
	for _, v := range all {
		out = append(out, c10punit{core.DutyAggregator, c10Agg, v})
	}
	out = append(out,
		c10punit{core.DutyAggregator, c10AggOld, ""},
		c10punit{core.DutySyncMessage, c10SyncMsg, ""},
		c10punit{core.DutyPrepareSyncContribution, c10SyncSel, ""},
		c10punit{core.DutySyncContribution, c10Contrib, ""},
		c10punit{core.DutySignature, "signature", ""},
	)
	return out
}

func c10newPeer(ctx context.Context) (*c10peerH, error) {
	cl, err := c10setup(ctx)
	if err != nil {
		return nil, err
	}
	return c10newPeerOn(ctx, cl.bmock)
}

// c10newPeerOn builds a new ParSigEx instance (own verifier, own gater, two subscribers); the verifier talks to bn
// (the beacon mock itself or the fault-scripting wrapper around it), the gater is always built on the healthy mock.
func c10newPeerOn(ctx context.Context, bn eth2wrap.Client) (*c10peerH, error) {
	cl, err := c10setup(ctx)
	if err != nil {
		return nil, err
	}
	h := &c10peerH{cl: cl, curEpoch: c10Epoch}
	verify, err := NewEth2Verifier(bn, cl.lock)
	if err != nil {
		return nil, err
	}
	// "now" is pinned to the middle of the base epoch, so the gater's window is slots of epochs <= c10Epoch+2.
	now := cl.genesis.Add(time.Duration(c10Epoch*c10SPE+8) * 12 * time.Second)
	h.now = now
	gater, err := core.NewDutyGater(ctx, cl.bmock, core.WithDutyGaterForT(nil, func() time.Time { return now }, 2))
	if err != nil {
		return nil, err
	}
	peers := []peer.ID{"peer-share-1", "peer-share-2", "peer-share-3", "peer-share-4"}
	h.ex = NewParSigEx(c10host{}, nil, c10Self-1, peers, verify, gater)
	for s := 0; s < 2; s++ {
		s := s
		h.ex.Subscribe(func(_ context.Context, d core.Duty, set core.ParSignedDataSet) error {
			h.calls = append(h.calls, c10pcall{s, d, set})
			return nil
		})
	}
	return h, nil
}

// c10wrap converts a signed eth2 object into the core.SignedData a peer sends.
func c10wrap(item any) (core.SignedData, error) {
	switch o := item.(type) {
	case *eth2spec.VersionedAttestation:
		return core.NewVersionedAttestation(o)
	case *eth2api.VersionedSignedProposal:
		return core.NewVersionedSignedProposal(o)
	case *eth2api.VersionedSignedBlindedProposal:
		return core.NewVersionedSignedProposalFromBlindedProposal(o)
	case *eth2api.ProposalOpts:
		return core.NewSignedRandao(eth2p0.Epoch(uint64(o.Slot)/c10SPE), o.RandaoReveal), nil
	case *eth2p0.SignedVoluntaryExit:
		return core.NewSignedVoluntaryExit(o), nil
	case *eth2api.VersionedSignedValidatorRegistration:
		return core.NewVersionedSignedValidatorRegistration(o)
	case *eth2v1.BeaconCommitteeSelection:
		return core.NewBeaconCommitteeSelection(o), nil
	case *eth2spec.VersionedSignedAggregateAndProof:
		return core.NewVersionedSignedAggregateAndProof(o), nil
	case *eth2p0.SignedAggregateAndProof:
		return core.NewSignedAggregateAndProof(o), nil
	case *altair.SyncCommitteeMessage:
		return core.NewSignedSyncMessage(o), nil
	case *altair.SignedContributionAndProof:
		return core.NewSignedSyncContributionAndProof(o), nil
	case *eth2v1.SyncCommitteeSelection:
		return core.NewSyncCommitteeSelection(o), nil
	}
	return nil, fmt.Errorf("cannot wrap %T", item)
}

// c10pent is one entry of a peer's set.
type c10pent struct {
	Key   string
	Data  core.SignedData
	Share int32
}

// entry builds validator v's object of the unit, signed by signer, claimed to come from share index claim.
func (h *c10peerH) entry(u c10punit, v *c10val, signer tbls.PrivateKey, claim int32, o c10signOpts) (c10pent, error) {
	if u.Duty == core.DutySignature {
		rt := testutil.RandomRoot()
		sig, err := tbls.Sign(signer, rt[:])
		if err != nil {
			return c10pent{}, err
		}
		return c10pent{string(v.PK), core.Signature(sig[:]), claim}, nil
	}
	it, err := h.cl.c10build(u.Kind, u.Ver, v)
	if err != nil {
		return c10pent{}, err
	}
	if signer != (tbls.PrivateKey{}) {
		if err := h.cl.c10sign(it, signer, o); err != nil {
			return c10pent{}, err
		}
	}
	d, err := c10wrap(it)
	if err != nil {
		return c10pent{}, err
	}
	return c10pent{string(v.PK), d, claim}, nil
}

func (h *c10peerH) slotOf(u c10punit, v *c10val) uint64 {
	switch u.Duty {
	case core.DutyProposer:
		return uint64(v.PropSlot)
	case core.DutyExit:
		return c10Epoch * c10SPE
	}
	return c10Slot
}

// message encodes entries the way Broadcast does, including a protobuf wire round trip.
func c10message(duty *pbv1.Duty, ents []c10pent) (*pbv1.ParSigExMsg, error) {
	set := &pbv1.ParSignedDataSet{Set: map[string]*pbv1.ParSignedData{}}
	for _, e := range ents {
		pb, err := core.ParSignedDataToProto(core.ParSignedData{SignedData: e.Data, ShareIdx: int(e.Share)})
		if err != nil {
			return nil, err
		}
		pb.ShareIdx = e.Share
		set.Set[e.Key] = pb
	}
	return &pbv1.ParSigExMsg{Duty: duty, DataSet: set}, nil
}

func c10wire(m *pbv1.ParSigExMsg) (*pbv1.ParSigExMsg, error) {
	// map iteration pinned: the entries go on the wire, and into the decoded map, in the order they were put into m
	runtime.VerifSetMapRot(true, 0)
	defer runtime.VerifSetMapRot(false, 0)
	b, err := proto.Marshal(m)
	if err != nil {
		return nil, err
	}
	out := new(pbv1.ParSigExMsg)
	if err := proto.Unmarshal(b, out); err != nil {
		return nil, err
	}
	return out, nil
}

func (h *c10peerH) gateOK(d *pbv1.Duty) bool {
	return d != nil && d.GetType() > 0 && d.GetType() < 14 && d.GetSlot()/c10SPE <= h.curEpoch+2
}

// expect decides, independently of parsigex/gater/eth2signeddata, whether every entry of the message is a partial
// signature that verifies for its own signing root, domain and epoch under the lock's public share for the claimed
// validator and share index, for a duty inside the allowed window. Decoding uses core's wire codec (trusted).
func (h *c10peerH) expect(m *pbv1.ParSigExMsg) (valid bool, set core.ParSignedDataSet) {
	defer func() {
		if recover() != nil {
			valid = false
		}
	}()
	if m == nil || m.GetDuty() == nil || m.GetDataSet() == nil || !h.gateOK(m.GetDuty()) {
		return false, nil
	}
	set, err := core.ParSignedDataSetFromProto(core.DutyType(m.GetDuty().GetType()), m.GetDataSet())
	if err != nil || len(set) == 0 {
		return false, nil
	}
	for pk, ps := range set {
		if !h.entryValid(pk, ps) {
			return false, set
		}
	}
	return true, set
}

func (h *c10peerH) entryValid(pk core.PubKey, ps core.ParSignedData) bool {
	shares, ok := h.cl.lock[pk]
	if !ok {
		return false
	}
	pub, ok := shares[ps.ShareIdx]
	if !ok {
		return false
	}
	sd, err := c10info(ps.SignedData)
	return err == nil && h.cl.verifies(sd, pub)
}

func (h *c10peerH) deliver(m *pbv1.ParSigExMsg, rot int) (err error, calls []c10pcall, panicked bool) {
	h.calls = nil
	runtime.VerifSetMapRot(true, uint64(rot))
	defer func() {
		runtime.VerifSetMapRot(false, 0)
		if r := recover(); r != nil {
			err, panicked = fmt.Errorf("handler panic: %v", r), true
		}
		calls = h.calls
	}()
	_, _, err = h.ex.handle(context.Background(), "peer-share-1", m)
	return err, nil, false
}

func (h *c10peerH) judge(r *enumx.Run, u c10punit, m *pbv1.ParSigExMsg, mode string, rot int) *c10viol {
	valid, want := h.expect(m)
	err, calls, panicked := h.deliver(m, rot)
	h.lastErr = err
	if r != nil {
		r.Steps(1)
		if panicked {
			r.Count("peer_handler_panics", 1)
			r.Note("handle panicked on a malformed message (counted as rejection): " + u.unit() + ": " + err.Error())
		}
		switch {
		case len(calls) > 0:
			r.Count("peer_admitted", 1)
		default:
			r.Count("peer_rejected", 1)
		}
	}
	const pre = ""
	for _, c := range calls {
		if !h.gateOK(core.DutyToProto(c.duty)) {
			return &c10viol{pre + "kind=delivered-outside-window", fmt.Sprintf("subscriber %d received duty %v which is outside the allowed window/types", c.sub, c.duty)}
		}
		for pk, ps := range c.set {
			if !h.entryValid(pk, ps) {
				return &c10viol{pre + "kind=invalid-delivered", fmt.Sprintf("subscriber %d received for duty %v validator %s a partial signature (claimed share %d, %T) that does not verify for its own signing root/domain/epoch under the lock's public share", c.sub, c.duty, pk, ps.ShareIdx, ps.SignedData)}
			}
		}
	}
	switch {
	case mode == "auto" && !valid:
		if len(calls) > 0 {
			return &c10viol{pre + "kind=invalid-admitted", fmt.Sprintf("a message that must be rejected reached %d subscriber call(s) (handle error: %v)", len(calls), err)}
		}
		if err == nil {
			return &c10viol{pre + "kind=invalid-no-error", "a message that must be rejected was handled without an error"}
		}
	case mode == "baseline":
		if !valid {
			return nil // harness problem: the harness's own valid message does not verify (noted by the caller)
		}
		if err != nil {
			return &c10viol{pre + "kind=valid-rejected", fmt.Sprintf("the valid peer message was rejected: %v", err)}
		}
		if len(calls) != 2 {
			return &c10viol{pre + "kind=valid-not-delivered", fmt.Sprintf("the valid peer message produced %d subscriber calls, want one per subscriber", len(calls))}
		}
		for _, c := range calls {
			same := len(c.set) == len(want) && c.duty == core.DutyFromProto(m.GetDuty())
			for pk, w := range want {
				g, ok := c.set[pk]
				ws, _ := c10info(w.SignedData)
				gs, gerr := c10info(g.SignedData)
				same = same && ok && gerr == nil && g.ShareIdx == w.ShareIdx && gs == ws
			}
			if !same {
				return &c10viol{pre + "kind=valid-delivered-differently", fmt.Sprintf("subscriber %d got duty %v set %v, not what the peer sent", c.sub, c.duty, c.set)}
			}
		}
	}
	return nil
}

var c10badKinds = []string{"wrong-share", "zero-signature", "shareidx-0", "other-message", "outsider"}

// buildCase constructs the peer message of a case from scratch.
func (h *c10peerH) buildCase(u c10punit, c c10case) (m *pbv1.ParSigExMsg, mode string, err error) {
	cl := h.cl
	v0, v1 := cl.vals[0], cl.vals[1]
	duty := &pbv1.Duty{Slot: h.slotOf(u, v0), Type: int32(u.Duty)}
	mode = "auto"
	one := func(e c10pent, err error) (*pbv1.ParSigExMsg, string, error) {
		if err != nil {
			return nil, "", err
		}
		m, err := c10message(duty, []c10pent{e})
		return m, mode, err
	}
	good := func(v *c10val) (c10pent, error) { return h.entry(u, v, v.Shares[c10Peer], c10Peer, c10signOpts{}) }
	bad := func(v *c10val, kind string) (c10pent, error) {
		switch kind {
		case "wrong-share":
			return h.entry(u, v, v.Shares[3], c10Peer, c10signOpts{})
		case "zero-signature":
			return h.entry(u, v, tbls.PrivateKey{}, c10Peer, c10signOpts{})
		case "shareidx-0":
			return h.entry(u, v, v.Shares[c10Peer], 0, c10signOpts{})
		case "other-message":
			rt := [32]byte(testutil.RandomRoot())
			return h.entry(u, v, v.Shares[c10Peer], c10Peer, c10signOpts{Root: &rt})
		case "outsider":
			o := cl.vals[2]
			return h.entry(u, o, o.Shares[c10Peer], c10Peer, c10signOpts{})
		}
		return c10pent{}, fmt.Errorf("unknown invalid kind %q", kind)
	}
	if u.Duty == core.DutySignature {
		defer func() {
			if mode == "baseline" { // a bare signature is not an eth2 signed object: nothing of this duty type is admissible
				mode = "auto"
			}
		}()
	}
	var k, j int
	switch {
	case c.Alt == "baseline":
		mode = "baseline"
		return one(good(v0))
	case c.Alt == "baseline-v1":
		mode = "baseline"
		duty.Slot = h.slotOf(u, v1)
		return one(good(v1))
	case c.Alt == "baseline-both":
		mode = "baseline"
		a, err := good(v0)
		if err != nil {
			return nil, "", err
		}
		b, err := good(v1)
		if err != nil {
			return nil, "", err
		}
		m, err := c10message(duty, []c10pent{a, b})
		return m, mode, err
	case strings.HasPrefix(c.Alt, "claimed-"):
		if n, _ := fmt.Sscanf(c.Alt, "claimed-%d-signed-%d", &k, &j); n != 2 {
			return nil, "", fmt.Errorf("bad alteration")
		}
		return one(h.entry(u, v0, v0.Shares[j], int32(k), c10signOpts{}))
	case strings.HasPrefix(c.Alt, "shareidx-"):
		if n, _ := fmt.Sscanf(c.Alt, "shareidx-%d", &k); n != 1 {
			return nil, "", fmt.Errorf("bad alteration")
		}
		return one(h.entry(u, v0, v0.Shares[c10Peer], int32(k), c10signOpts{}))
	case c.Alt == "other-validator-same-share":
		return one(h.entry(u, v0, v1.Shares[c10Peer], c10Peer, c10signOpts{}))
	case c.Alt == "under-other-validators-key":
		e, err := good(v0)
		e.Key = string(v1.PK)
		return one(e, err)
	case c.Alt == "group-key":
		return one(h.entry(u, v0, v0.Secret, c10Peer, c10signOpts{}))
	case strings.HasPrefix(c.Alt, "wrong-domain-"):
		dt, ok := c10domTypes[strings.TrimPrefix(c.Alt, "wrong-domain-")]
		if !ok {
			return nil, "", fmt.Errorf("unknown domain")
		}
		return one(h.entry(u, v0, v0.Shares[c10Peer], c10Peer, c10signOpts{Dom: &dt}))
	case strings.HasPrefix(c.Alt, "wrong-fork-"):
		var f eth2p0.Version
		switch strings.TrimPrefix(c.Alt, "wrong-fork-") {
		case "previous":
			f = cl.forkAt(0)
		case "next":
			f = cl.forkAt(1 << 40)
		case "genesis":
			f = cl.forks[0].CurrentVersion
		case "current": // only an alteration for the builder domain (which is bound to the genesis fork version)
			f = cl.forkAt(c10Epoch)
		default:
			f = eth2p0.Version{0xde, 0xad, 0xbe, 0xef}
		}
		return one(h.entry(u, v0, v0.Shares[c10Peer], c10Peer, c10signOpts{Fork: &f}))
	case c.Alt == "wrong-genesis-validators-root":
		g := eth2p0.Root{0x01}
		return one(h.entry(u, v0, v0.Shares[c10Peer], c10Peer, c10signOpts{GVR: &g}))
	case c.Alt == "other-message", c.Alt == "zero-signature", c.Alt == "outsider":
		return one(bad(v0, c.Alt))
	case c.Alt == "infinity-signature":
		e, err := h.entry(u, v0, tbls.PrivateKey{}, c10Peer, c10signOpts{})
		if err == nil {
			e.Data, err = e.Data.SetSignature(core.SigFromETH2(c10infinity))
		}
		return one(e, err)
	case strings.HasPrefix(c.Alt, "pubkey-"):
		e, err := good(v0)
		switch strings.TrimPrefix(c.Alt, "pubkey-") {
		case "empty":
			e.Key = ""
		case "short":
			e.Key = "0x1234"
		case "uppercase":
			e.Key = "0x" + strings.ToUpper(e.Key[2:])
		case "noprefix":
			e.Key = e.Key[2:]
		case "ghost":
			e.Key = string(cl.vals[3].PK)
		}
		return one(e, err)
	case c.Alt == "field":
		e, err := good(v0)
		if err != nil {
			return nil, "", err
		}
		p := reflect.New(reflect.TypeOf(e.Data))
		p.Elem().Set(c10deep(reflect.ValueOf(e.Data)))
		if !c10alter(p.Interface(), c10leaf{c.Field, c.FAlt}) {
			return nil, "", fmt.Errorf("leaf %s/%s not present", c.Field, c.FAlt)
		}
		e.Data = p.Elem().Interface().(core.SignedData)
		m, err := c10message(duty, []c10pent{e})
		if err != nil {
			return nil, "", fmt.Errorf("skip") // the altered value cannot be encoded, a peer cannot send it
		}
		return m, mode, nil
	case strings.HasPrefix(c.Alt, "dutytype-"):
		if n, _ := fmt.Sscanf(c.Alt, "dutytype-%d", &k); n != 1 {
			return nil, "", fmt.Errorf("bad alteration")
		}
		duty.Type = int32(k)
		return one(good(v0))
	case strings.HasPrefix(c.Alt, "slot-"):
		switch strings.TrimPrefix(c.Alt, "slot-") {
		case "zero":
			duty.Slot = 0
		case "last-allowed":
			duty.Slot = (h.curEpoch+3)*c10SPE - 1
		case "first-beyond-window":
			duty.Slot = (h.curEpoch + 3) * c10SPE
		case "far-future":
			duty.Slot = 1 << 40
		case "max":
			duty.Slot = math.MaxUint64
		default:
			return nil, "", fmt.Errorf("bad alteration")
		}
		return one(good(v0))
	case c.Alt == "nil-duty":
		m, mode, err := one(good(v0))
		if m != nil {
			m.Duty = nil
		}
		return m, mode, err
	case c.Alt == "nil-dataset":
		return &pbv1.ParSigExMsg{Duty: duty}, mode, nil
	case c.Alt == "empty-dataset":
		return &pbv1.ParSigExMsg{Duty: duty, DataSet: &pbv1.ParSignedDataSet{Set: map[string]*pbv1.ParSignedData{}}}, mode, nil
	case c.Alt == "empty-data":
		m, mode, err := one(good(v0))
		if m != nil {
			m.DataSet.Set[string(v0.PK)].Data = nil
		}
		return m, mode, err
	case c.Alt == "truncated-data":
		m, mode, err := one(good(v0))
		if m != nil {
			d := m.DataSet.Set[string(v0.PK)]
			d.Data = d.Data[:len(d.Data)/2]
		}
		return m, mode, err
	case c.Alt == "pb-signature-field-zeroed": // the separate signature field of the wire format (ignored by the decoder)
		m, mode, err := one(good(v0))
		if m != nil {
			m.DataSet.Set[string(v0.PK)].Signature = make([]byte, 96)
		}
		return m, mode, err
	case strings.HasPrefix(c.Alt, "mixed-"): // mixed-<v0|v1>-<kind>: one valid and one invalid entry
		parts := strings.SplitN(strings.TrimPrefix(c.Alt, "mixed-"), "-", 2)
		if len(parts) != 2 {
			return nil, "", fmt.Errorf("bad alteration")
		}
		gv, bv := v0, v1
		if parts[0] == "v0" {
			gv, bv = v1, v0
		}
		a, err := good(gv)
		if err != nil {
			return nil, "", err
		}
		b, err := bad(bv, parts[1])
		if err != nil {
			return nil, "", err
		}
		// whether the valid entry of a mixed set may be delivered is not specified: deliveries are re-verified only.
		ents := []c10pent{a, b}
		if c.Field == "invalid-first" {
			ents = []c10pent{b, a}
		}
		m, err := c10message(duty, ents)
		return m, "observe", err
	}
	return nil, "", fmt.Errorf("unknown alteration %q", c.Alt)
}

func (h *c10peerH) runCase(r *enumx.Run, u c10punit, c c10case) *c10viol {
	m, mode, err := h.buildCase(u, c)
	if err == nil && c.Alt != "nil-duty" && c.Alt != "nil-dataset" {
		m, err = c10wire(m)
	}
	if err != nil {
		if err.Error() != "skip" && r != nil {
			r.Note("harness could not build " + c.key() + ": " + err.Error())
		}
		return nil
	}
	if mode == "baseline" {
		if ok, _ := h.expect(m); !ok && r != nil {
			r.Note("harness: the harness's own valid message does not verify: " + c.key())
		}
	}
	if r != nil {
		r.Eval(c.key())
	}
	if mode == "baseline" && c10optional(u.Kind, u.Ver) {
		mode = "auto"
	}
	v := h.judge(r, u, m, mode, c.Rot)
	if r != nil && mode == "auto" && strings.HasPrefix(c.Alt, "baseline") && len(h.calls) == 0 && u.Duty != core.DutySignature {
		r.Count("peer_valid_rejected_unsupported_version", 1)
	}
	if r != nil && len(h.calls) > 0 && !strings.HasPrefix(c.Alt, "baseline") {
		r.Outcome("admitted-altered: " + c.key())
	}
	return v
}

func (h *c10peerH) eval(r *enumx.Run, u c10punit, c c10case) {
	c.Path, c.Unit = "peer", u.unit()
	sig := func(v *c10viol) *c10viol {
		if v != nil {
			v.sig = c10signature(c, v.sig)
		}
		return v
	}
	if v := sig(h.runCase(r, u, c)); v != nil {
		c10report(r, c, v, func() *c10viol { return sig(h.runCase(nil, u, c)) })
	}
}

func c10peerTargeted(u c10punit) []c10case {
	var out []c10case
	add := func(alts ...string) {
		for _, a := range alts {
			out = append(out, c10case{Alt: a})
		}
	}
	add("baseline", "baseline-v1")
	if u.Duty != core.DutyProposer { // two validators never propose in the same slot
		for rot := 0; rot < 2; rot++ {
			out = append(out, c10case{Alt: "baseline-both", Rot: rot})
		}
	}
	for k := 1; k <= c10N; k++ {
		for j := 1; j <= c10N; j++ {
			if k != c10Peer || j != c10Peer {
				add(fmt.Sprintf("claimed-%d-signed-%d", k, j)) // k == j: valid signature of another share (no demand)
			}
		}
	}
	add("shareidx-0", fmt.Sprintf("shareidx-%d", c10N+1), "shareidx--1", "shareidx-2147483647", "shareidx--2147483648",
		"other-validator-same-share", "under-other-validators-key", "group-key")
	for _, d := range c10domNames {
		add("wrong-domain-" + d)
	}
	add("wrong-fork-previous", "wrong-fork-next", "wrong-fork-genesis", "wrong-fork-current", "wrong-fork-unscheduled", "wrong-genesis-validators-root",
		"other-message", "zero-signature", "infinity-signature", "outsider", "pubkey-empty", "pubkey-short", "pubkey-uppercase", "pubkey-noprefix", "pubkey-ghost")
	for t := -1; t <= 15; t++ {
		if t != int(u.Duty) {
			add(fmt.Sprintf("dutytype-%d", t))
		}
	}
	add("dutytype-99", "dutytype-2147483647", "slot-zero", "slot-last-allowed", "slot-first-beyond-window", "slot-far-future", "slot-max",
		"nil-duty", "nil-dataset", "empty-dataset", "empty-data", "truncated-data", "pb-signature-field-zeroed")
	if u.Duty != core.DutyProposer {
		for _, who := range []string{"v0", "v1"} {
			for _, kind := range c10badKinds {
				for _, order := range []string{"invalid-first", "invalid-last"} {
					for rot := 0; rot < 2; rot++ {
						out = append(out, c10case{Alt: "mixed-" + who + "-" + kind, Field: order, Rot: rot})
					}
				}
			}
		}
	}
	return out
}

func TestVerifC10peer(t *testing.T) {
	r := enumx.New(t, "C10")
	defer r.Finish()
	ctx, cancel := context.WithCancel(context.Background())
	defer cancel()
	h, err := c10newPeer(ctx)
	if err != nil {
		r.NotExhaustive("harness: cannot set up cluster/beaconmock: " + err.Error())
		return
	}
	if r.ReplayPath != "" {
		var c c10case
		if err := r.ReplayCase(&c); err != nil || c10peerReplayExtra(ctx, r, h, c) || c.Path != "peer" {
			return // not a peer-path replay, or a replay of one of the added dimensions
		}
		for _, u := range c10punits(true) {
			if u.unit() == c.Unit {
				h.eval(r, u, c)
			}
		}
		return
	}
	for _, u := range c10punits(enumx.Thorough()) {
		if !r.Mine() {
			continue
		}
		if r.Expired() {
			return
		}
		own := ""
		var leaves []c10leaf
		if e, err := h.entry(u, h.cl.vals[0], h.cl.vals[0].Shares[c10Peer], c10Peer, c10signOpts{}); err != nil {
			r.Note("harness: cannot build " + u.unit() + ": " + err.Error())
			continue
		} else {
			sd, _ := c10info(e.Data)
			own = sd.Kind
			p := reflect.New(reflect.TypeOf(e.Data))
			p.Elem().Set(reflect.ValueOf(e.Data))
			leaves = c10leaves(p.Interface())
		}
		for _, c := range c10peerTargeted(u) {
			if c.Alt == "wrong-domain-"+own { // signing under the object's own domain type is not an alteration
				continue
			}
			if c.Alt == "wrong-fork-current" && own != "APPLICATION_BUILDER" || c.Alt == "wrong-fork-genesis" && own == "APPLICATION_BUILDER" {
				continue
			}
			if u.Duty == core.DutySignature && (strings.HasPrefix(c.Alt, "wrong-") || c.Alt == "other-message" || c.Alt == "infinity-signature" || c.Alt == "zero-signature") {
				continue // a bare signature has no content of its own to alter
			}
			h.eval(r, u, c)
		}
		r.Count("peer_leaves", len(leaves))
		for _, l := range leaves {
			if r.Expired() {
				return
			}
			h.eval(r, u, c10case{Alt: "field", Field: l.Path, FAlt: l.Alt})
		}
		r.Sample(map[string]any{"path": "peer", "unit": u.unit(), "leaves": len(leaves), "targeted": len(c10peerTargeted(u))})
	}
	c10peerExtra(ctx, r, h) // operation sequences, beacon node faults, boundary values (zz_verif_c10x_test.go)
}
