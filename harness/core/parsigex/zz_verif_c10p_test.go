package parsigex

// C10, peer path – PAIR dimension: several entries of ONE set that are invalid TOGETHER.
//
// For every duty type a peer message with exactly two entries, one for each validator of the cluster, for the same
// slot (and, where the type allows it, with the same signing root: identical attestation data, identical beacon block
// root, same slot / epoch / subcommittee). Each of the two entries independently carries one signature of the alphabet
//
//	valid         the sending peer's share of that validator over the entry's own signing root
//	swap          the VALID signature of the other entry (entry A carries sig_B, entry B carries sig_A)
//	otherval      the same share index of the OTHER validator over this entry's own signing root
//	plusD/minusD  sig + D / sig - D, D = a signature over a third message (group addition of signatures)
//	othercontent  the own share over other content
//	zero          the zero signature
//
// in both wire orders of the protobuf map and under both pinned iteration orders of the decoded Go map. Pairs such as
// (swap, swap) and (plusD, minusD) are invalid entry by entry but the SUM of the two signatures equals the sum of the
// two valid ones: code that verifies "the set" with one aggregate check admits them, code that verifies each entry does
// not. The oracle is per entry: an entry whose own signature does not verify for its own root, domain, epoch, validator
// and share must not reach a subscriber; a set whose two entries both fail must be answered with an error and no
// subscriber call; a set whose two entries both verify must be delivered (proposer sets: two proposals under one slot
// never occur in an honest cluster, their delivery is not demanded); whether the valid entry of a mixed set is delivered
// is not judged.
//
// The section between "C10 PAIR COMMON BEGIN/END" is duplicated verbatim from core/validatorapi/zz_verif_c10p_test.go.

import (
	"fmt"
	"math/big"
	"strings"

	eth2api "github.com/attestantio/go-eth2-client/api"
	eth2spec "github.com/attestantio/go-eth2-client/spec"
	"github.com/attestantio/go-eth2-client/spec/altair"
	eth2p0 "github.com/attestantio/go-eth2-client/spec/phase0"

	"github.com/obolnetwork/charon/core"
	pbv1 "github.com/obolnetwork/charon/core/corepb/v1"
	"github.com/obolnetwork/charon/tbls"
	"github.com/obolnetwork/charon/testutil"
	"github.com/obolnetwork/charon/zzverif/enumx"
)

// ===================================== C10 PAIR COMMON BEGIN =====================================

// c10pairAlts is the alphabet of one position of a pair.
var c10pairAlts = []string{"valid", "swap", "otherval", "plusD", "minusD", "othercontent", "zero"}

// c10blsOrder is the order r of the BLS12-381 groups.
var c10blsOrder, _ = new(big.Int).SetString("73eda753299d7d483339d80809a1d80553bda402fffe5bfeffffffff00000001", 16)

// c10negKey returns r - d: signing a message with it yields the inverse (in the signature group) of d's signature.
func c10negKey(d tbls.PrivateKey) tbls.PrivateKey {
	var out tbls.PrivateKey
	new(big.Int).Sub(c10blsOrder, new(big.Int).SetBytes(d[:])).FillBytes(out[:])
	return out
}

// c10pairSig is the signature material of one pair.
type c10pairSig struct {
	Sigs     [2]eth2p0.BLSSignature // what the two entries carry
	Valid    [2]eth2p0.BLSSignature // what they would have to carry
	SameRoot bool                   // both entries have the same signing root
	SumEqual bool                   // Sigs[0]+Sigs[1] == Valid[0]+Valid[1] in the signature group
}

// c10pairSigs computes the signatures of a pair: entry i belongs to validator vs[i], has the derived content sds[i] and
// carries the signature alts[i] names; share is the share index whose key signs.
func (cl *c10cluster) c10pairSigs(share int, vs [2]*c10val, sds [2]c10sd, alts [2]string) (out c10pairSig, err error) {
	var srs [2][32]byte
	for i := 0; i < 2; i++ {
		if srs[i], err = cl.signingRoot(sds[i], c10signOpts{}); err != nil {
			return out, err
		}
		sig, err := tbls.Sign(vs[i].Shares[share], srs[i][:])
		if err != nil {
			return out, err
		}
		out.Valid[i] = eth2p0.BLSSignature(sig)
	}
	out.SameRoot = srs[0] == srs[1]
	sign := func(key tbls.PrivateKey, sd c10sd, o c10signOpts) (tbls.Signature, error) {
		sr, err := cl.signingRoot(sd, o)
		if err != nil {
			return tbls.Signature{}, err
		}
		return tbls.Sign(key, sr[:])
	}
	third := [32]byte(testutil.RandomRoot())
	dkey := vs[0].Shares[share]
	d, err := sign(dkey, sds[0], c10signOpts{Root: &third})
	if err != nil {
		return out, err
	}
	negD, err := sign(c10negKey(dkey), sds[0], c10signOpts{Root: &third})
	if err != nil {
		return out, err
	}
	for i := 0; i < 2; i++ {
		var sig tbls.Signature
		switch alts[i] {
		case "valid":
			sig = tbls.Signature(out.Valid[i])
		case "swap":
			sig = tbls.Signature(out.Valid[1-i])
		case "otherval":
			sig, err = tbls.Sign(vs[1-i].Shares[share], srs[i][:])
		case "plusD":
			sig, err = tbls.Aggregate([]tbls.Signature{tbls.Signature(out.Valid[i]), d})
		case "minusD":
			sig, err = tbls.Aggregate([]tbls.Signature{tbls.Signature(out.Valid[i]), negD})
		case "othercontent":
			other := [32]byte(testutil.RandomRoot())
			sig, err = sign(vs[i].Shares[share], sds[i], c10signOpts{Root: &other})
		case "zero":
		default:
			err = fmt.Errorf("unknown pair alteration %q", alts[i])
		}
		if err != nil {
			return out, err
		}
		out.Sigs[i] = eth2p0.BLSSignature(sig)
	}
	got, e1 := tbls.Aggregate([]tbls.Signature{tbls.Signature(out.Sigs[0]), tbls.Signature(out.Sigs[1])})
	want, e2 := tbls.Aggregate([]tbls.Signature{tbls.Signature(out.Valid[0]), tbls.Signature(out.Valid[1])})
	out.SumEqual = e1 == nil && e2 == nil && got == want
	return out, nil
}

// c10pairSelfTest checks the harness's own group arithmetic: (sig_A + D) + (sig_B - D) == sig_A + sig_B, neither
// altered signature equals the valid one, and the exchanged pair sums to the same value as well.
func (cl *c10cluster) c10pairSelfTest(share int) error {
	vs := [2]*c10val{cl.vals[0], cl.vals[1]}
	sds := [2]c10sd{{Kind: "SYNC_COMMITTEE", Root: testutil.RandomRoot(), Epoch: c10Epoch}, {Kind: "SYNC_COMMITTEE", Root: testutil.RandomRoot(), Epoch: c10Epoch}}
	for _, alts := range [][2]string{{"plusD", "minusD"}, {"minusD", "plusD"}, {"swap", "swap"}} {
		p, err := cl.c10pairSigs(share, vs, sds, alts)
		if err != nil {
			return err
		}
		if !p.SumEqual || p.Sigs[0] == p.Valid[0] || p.Sigs[1] == p.Valid[1] {
			return fmt.Errorf("pair %v does not cancel", alts)
		}
		for i := 0; i < 2; i++ {
			sd := sds[i]
			sd.Sig = p.Sigs[i]
			if cl.verifies(sd, vs[i].PubShares[share]) {
				return fmt.Errorf("pair %v: the altered signature of entry %d verifies", alts, i)
			}
			sd.Sig = p.Valid[i]
			if !cl.verifies(sd, vs[i].PubShares[share]) {
				return fmt.Errorf("pair %v: the valid signature of entry %d does not verify", alts, i)
			}
		}
	}
	if p, err := cl.c10pairSigs(share, vs, sds, [2]string{"plusD", "plusD"}); err != nil || p.SumEqual {
		return fmt.Errorf("pair plusD/plusD sums to the valid sum (%v)", err)
	}
	return nil
}

// c10pairVariants: "same-root" = the two entries have the same signing root, "own-roots" = each entry has its own.
func c10pairVariants(kind c10kind) []string {
	switch kind {
	case c10Att, c10SyncMsg:
		return []string{"same-root", "own-roots"} // identical / different attestation data; same / different block root
	case c10BCSel, c10SyncSel, c10Randao:
		return []string{"same-root"} // the root is the slot / (slot, subcommittee) / epoch
	}
	return []string{"own-roots"} // the signed message names the validator
}

// c10pairParse splits "pair-<alt of v0's entry>-<alt of v1's entry>".
func c10pairParse(alt string) (out [2]string, ok bool) {
	p := strings.Split(alt, "-")
	if len(p) != 3 || p[0] != "pair" {
		return out, false
	}
	return [2]string{p[1], p[2]}, true
}

// c10pairCount records the non-vacuity counters of one evaluated pair.
func c10pairCount(r *enumx.Run, path string, valid [2]bool, p c10pairSig, delivered bool) {
	n := func(name string) { r.Count(path+"_pair_"+name, 1) }
	if p.SameRoot {
		n("same_signing_root")
	}
	switch {
	case valid[0] && valid[1]:
		if delivered {
			n("both_valid_delivered")
		} else {
			n("both_valid_refused")
		}
	case valid[0] || valid[1]:
		if delivered {
			n("mixed_valid_entry_delivered")
		} else {
			n("mixed_refused")
		}
		if p.Sigs[0] == p.Sigs[1] {
			n("mixed_both_entries_carry_the_same_signature")
		}
	default:
		kind := "both_invalid"
		if p.SumEqual {
			kind = "cancelling" // invalid entry by entry, the sum of the two signatures is the sum of the two valid ones
		}
		if delivered {
			n(kind + "_accepted")
		} else {
			n(kind + "_rejected")
		}
	}
}

// ===================================== C10 PAIR COMMON END =====================================

// pairEntries builds the two entries (validator 0, validator 1) of a pair set, signed as alts says.
func (h *c10peerH) pairEntries(u c10punit, variant string, alts [2]string) (ents [2]c10pent, p c10pairSig, sds [2]c10sd, err error) {
	cl := h.cl
	vs := [2]*c10val{cl.vals[0], cl.vals[1]}
	if u.Duty == core.DutySignature { // bare signatures: no content of their own, nothing of this duty type is admissible
		for i := range sds {
			sds[i] = c10sd{Kind: "RANDAO", Root: testutil.RandomRoot(), Epoch: c10Epoch}
		}
		if p, err = cl.c10pairSigs(c10Peer, vs, sds, alts); err != nil {
			return ents, p, sds, err
		}
		for i, v := range vs {
			ents[i] = c10pent{string(v.PK), core.Signature(append([]byte(nil), p.Sigs[i][:]...)), c10Peer}
		}
		return ents, p, sds, nil
	}
	var items [2]any
	for i, v := range vs {
		if items[i], err = cl.c10build(u.Kind, u.Ver, v); err != nil {
			return ents, p, sds, err
		}
	}
	switch b := items[1].(type) { // one duty, one slot: validator 1's proposal is for the slot of the duty as well
	case *eth2api.VersionedSignedProposal:
		s, err := c10signedBlock(b)
		if err != nil {
			return ents, p, sds, err
		}
		c10setMsgIDs(s, vs[0].PropSlot, vs[1].Idx)
	case *eth2api.VersionedSignedBlindedProposal:
		s, err := c10signedBlock(c10blinded2signed(b))
		if err != nil {
			return ents, p, sds, err
		}
		c10setMsgIDs(s, vs[0].PropSlot, vs[1].Idx)
	}
	if variant == "same-root" {
		switch a := items[0].(type) {
		case *eth2spec.VersionedAttestation: // both validators attest to the same data (same slot, same committee)
			sa, err := c10versioned(a, "")
			if err != nil {
				return ents, p, sds, err
			}
			sb, err := c10versioned(items[1], "")
			if err != nil {
				return ents, p, sds, err
			}
			sb.FieldByName("Data").Set(c10deep(sa.FieldByName("Data")))
		case *altair.SyncCommitteeMessage:
			items[1].(*altair.SyncCommitteeMessage).BeaconBlockRoot = a.BeaconBlockRoot
		}
	}
	for i := range items {
		if sds[i], err = c10info(items[i]); err != nil {
			return ents, p, sds, err
		}
	}
	if p, err = cl.c10pairSigs(c10Peer, vs, sds, alts); err != nil {
		return ents, p, sds, err
	}
	for i, v := range vs {
		f, err := c10sigField(items[i])
		if err != nil {
			return ents, p, sds, err
		}
		*f = p.Sigs[i]
		d, err := c10wrap(items[i])
		if err != nil {
			return ents, p, sds, err
		}
		ents[i] = c10pent{string(v.PK), d, c10Peer}
	}
	return ents, p, sds, nil
}

// runPair builds one pair set from scratch, hands it to handle and judges it entry by entry.
// Case: Alt "pair-<v0's entry>-<v1's entry>", Field = variant, FAlt = "<wire order>/rot<n>", Rot = n.
func (h *c10peerH) runPair(r *enumx.Run, u c10punit, c c10case) *c10viol {
	cl := h.cl
	note := func(s string) {
		if r != nil {
			r.Note("harness could not build " + c.key() + ": " + s)
		}
	}
	alts, ok := c10pairParse(c.Alt)
	if !ok {
		note("bad alteration")
		return nil
	}
	ents, p, _, err := h.pairEntries(u, c.Field, alts)
	if err != nil {
		note(err.Error())
		return nil
	}
	if p.SameRoot != (c.Field == "same-root") && u.Duty != core.DutySignature {
		note("the signing roots of the two entries are not as the variant says")
		return nil
	}
	order := []c10pent{ents[0], ents[1]}
	if strings.HasPrefix(c.FAlt, "v1-first") {
		order = []c10pent{ents[1], ents[0]}
	}
	m, err := c10message(&pbv1.Duty{Slot: h.slotOf(u, cl.vals[0]), Type: int32(u.Duty)}, order)
	if err == nil {
		m, err = c10wire(m)
	}
	if err != nil {
		note(err.Error())
		return nil
	}
	// the independent oracle, entry by entry, on what is on the wire
	vs := [2]*c10val{cl.vals[0], cl.vals[1]}
	var valid [2]bool
	_, set := h.expect(m)
	for i, v := range vs {
		if ps, ok := set[v.PK]; ok {
			valid[i] = h.entryValid(v.PK, ps)
		}
		if valid[i] != (alts[i] == "valid" && u.Duty != core.DutySignature) { // every other letter is meant to be invalid on its own
			note(fmt.Sprintf("entry %d (%s) is judged valid=%v by the independent oracle", i, alts[i], valid[i]))
			return nil
		}
	}
	mode := "auto" // both invalid: error and no subscriber call
	switch {
	case valid[0] && valid[1]:
		mode = "baseline"
		if u.Duty == core.DutyProposer || c10optional(u.Kind, u.Ver) {
			mode = "observe" // two proposals under one slot: delivery is not demanded
		}
	case valid[0] || valid[1]:
		mode = "observe"
	}
	if r != nil {
		r.Eval(c.key())
	}
	v := h.judge(r, u, m, mode, c.Rot)
	if r != nil {
		c10pairCount(r, "peer", valid, p, len(h.calls) > 0)
	}
	if v != nil {
		return v
	}
	for _, call := range h.calls { // per entry: the entry of validator i reached a subscriber although it does not verify
		for i, val := range vs {
			if _, ok := call.set[val.PK]; ok && !valid[i] {
				return &c10viol{"kind=invalid-admitted", fmt.Sprintf("subscriber %d received an entry for validator %s whose signature (%s) does not verify for its own root, domain, epoch, validator and share", call.sub, val.Name, alts[i])}
			}
		}
	}
	return nil
}

func (h *c10peerH) evalPair(r *enumx.Run, u c10punit, c c10case) {
	c.Path, c.Unit = "peer-pair", u.unit()
	sig := func(v *c10viol) *c10viol {
		if v != nil {
			v.sig = c10signature(c10case{Path: c.Path, Unit: c.Unit, Alt: "pair"}, v.sig)
			v.desc = fmt.Sprintf("pair set %s (%s, %s): %s", c.Alt, c.Field, c.FAlt, v.desc)
		}
		return v
	}
	if v := sig(h.runPair(r, u, c)); v != nil {
		c10report(r, c, v, func() *c10viol { return sig(h.runPair(nil, u, c)) })
	}
}

// c10peerPairs: every unit x variant x wire order x map rotation x alphabet^2.
func c10peerPairs(r *enumx.Run, h *c10peerH) {
	if err := h.cl.c10pairSelfTest(c10Peer); err != nil {
		r.NotExhaustive("harness: pair dimension skipped, the signature arithmetic of the harness is off: " + err.Error())
		return
	}
	n := 0
	for _, u := range c10punits(enumx.Thorough()) {
		for _, variant := range c10pairVariants(u.Kind) {
			for _, order := range []string{"v0-first", "v1-first"} {
				for rot := 0; rot < 2; rot++ {
					n++
					if !r.Mine() {
						continue
					}
					if r.Expired() {
						return
					}
					for _, a := range c10pairAlts {
						for _, b := range c10pairAlts {
							h.evalPair(r, u, c10case{Alt: "pair-" + a + "-" + b, Field: variant, FAlt: fmt.Sprintf("%s/rot%d", order, rot), Rot: rot})
						}
					}
					if n == 1 {
						r.Sample(map[string]any{"path": "peer-pair", "unit": u.unit(), "variant": variant, "order": order, "maprot": rot, "alphabet": c10pairAlts})
					}
				}
			}
		}
	}
	r.Note(fmt.Sprintf("peer pairs: %d (unit, variant, wire order, map rotation) combinations x %d x %d signatures", n, len(c10pairAlts), len(c10pairAlts)))
}

func c10peerPairReplay(r *enumx.Run, h *c10peerH, c c10case) {
	for _, u := range c10punits(true) {
		if u.unit() == c.Unit {
			h.evalPair(r, u, c)
		}
	}
}
