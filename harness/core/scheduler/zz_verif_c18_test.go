package scheduler

// C18 (scheduler): the duty subscriber fan-out of scheduleSlot and GetDutyDefinition. The resolved definitions are
// placed into the scheduler's private duties map by hand (resolving them needs a beacon node, triggering does not);
// scheduleSlot is the real function. Parties: the private duties map, each subscriber's set, each query result.

import (
	"context"
	"testing"
	"time"

	eth2api "github.com/attestantio/go-eth2-client/api"
	eth2v1 "github.com/attestantio/go-eth2-client/api/v1"

	"github.com/obolnetwork/charon/app/eth2wrap"
	"github.com/obolnetwork/charon/core"
	"github.com/obolnetwork/charon/testutil"
	"github.com/obolnetwork/charon/zzverif/alias"
	"github.com/obolnetwork/charon/zzverif/enumx"
)

const c18pk = core.PubKey("0x8a1d7b8dd64e0aafe7ea7b6c95065c9364cf99d38470db679bdf5c9bd8b0e6cd5c7a3b0a6d4c2e3c7a5e1e9e2b1a7c3d")

type c18eth2 struct{ eth2wrap.Client }

func (c18eth2) Spec(context.Context, *eth2api.SpecOpts) (*eth2api.Response[map[string]any], error) {
	return &eth2api.Response[map[string]any]{Data: map[string]any{"SECONDS_PER_SLOT": 12 * time.Second, "SLOTS_PER_EPOCH": uint64(32)}}, nil
}

type c18unit struct {
	name string
	duty core.DutyType
	gen  func(t *testing.T) core.DutyDefinition
}

func c18units() []c18unit {
	att := func(t *testing.T) core.DutyDefinition {
		return core.NewAttesterDefinition(testutil.RandomAttestationDuty(t))
	}
	pro := func(t *testing.T) core.DutyDefinition {
		return core.NewProposerDefinition(testutil.RandomProposerDuty(t))
	}
	syn := func(t *testing.T) core.DutyDefinition {
		d := testutil.RandomSyncCommitteeDuty(t)
		if len(d.ValidatorSyncCommitteeIndices) == 0 {
			d.ValidatorSyncCommitteeIndices = append(d.ValidatorSyncCommitteeIndices, 5, 133)
		}
		return core.NewSyncCommitteeDefinition(&eth2v1.SyncCommitteeDuty{PubKey: d.PubKey, ValidatorIndex: d.ValidatorIndex,
			ValidatorSyncCommitteeIndices: d.ValidatorSyncCommitteeIndices})
	}
	us := []c18unit{
		{"AttesterDefinition", core.DutyAttester, att}, {"ProposerDefinition", core.DutyProposer, pro},
		{"SyncCommitteeDefinition", core.DutySyncContribution, syn},
	}
	if enumx.Thorough() { // the other duty types that are triggered with the same definition types
		us = append(us, c18unit{"AttesterDefinition@aggregator", core.DutyAggregator, att},
			c18unit{"AttesterDefinition@prepare_aggregator", core.DutyPrepareAggregator, att},
			c18unit{"ProposerDefinition@randao", core.DutyRandao, pro},
			c18unit{"SyncCommitteeDefinition@sync_message", core.DutySyncMessage, syn},
			c18unit{"SyncCommitteeDefinition@prepare_sync_contribution", core.DutyPrepareSyncContribution, syn})
	}
	return us
}

func c18new(w *alias.World, u c18unit, master core.DutyDefinition) (*Scheduler, core.Slot, core.Duty) {
	s, err := New(nil, c18eth2{}, false)
	if err != nil {
		w.Fail("new: %v", err)
		return nil, core.Slot{}, core.Duty{}
	}
	s.delayFunc = func(core.Duty, time.Time) <-chan time.Time {
		ch := make(chan time.Time, 1)
		ch <- time.Now()
		return ch
	}
	slot := core.Slot{Slot: 33, Time: time.Now().Add(-time.Hour), SlotDuration: 12 * time.Second, SlotsPerEpoch: 32}
	duty := core.Duty{Slot: slot.Slot, Type: u.duty}
	s.resolvedEpoch = slot.Epoch()
	s.duties[duty] = core.DutyDefinitionSet{c18pk: alias.DeepCopy(master)}
	s.dutiesByEpoch[slot.Epoch()] = []core.Duty{duty}
	return s, slot, duty
}

func c18specs(u c18unit, master core.DutyDefinition) []alias.Spec {
	return []alias.Spec{
		{Path: "scheduler/SubscribeDuties", Type: u.name, Modes: []string{alias.SubArg}, Run: func(w *alias.World) {
			s, slot, duty := c18new(w, u, master)
			if s == nil {
				return
			}
			done := make(chan struct{}, 6)
			for _, n := range []string{"sub1", "sub2", "sub3"} {
				n := n
				s.SubscribeDuties(func(_ context.Context, d core.Duty, set core.DutyDefinitionSet) error {
					if d == duty {
						w.Sub(n, set)
						done <- struct{}{}
					}
					return nil
				})
			}
			w.Held("scheduler.duties", s.duties[duty])
			s.scheduleSlot(context.Background(), slot)
			for i := 0; i < 3; i++ {
				select {
				case <-done:
				case <-time.After(10 * time.Second):
					w.Fail("subscriber %d not called", i+1)
					return
				}
			}
			w.Observe("scheduler.duties(after)", s.duties[duty])
		}},
		{Path: "scheduler/GetDutyDefinition", Type: u.name, Modes: []string{alias.Result}, Run: func(w *alias.World) {
			s, _, duty := c18new(w, u, master)
			if s == nil {
				return
			}
			w.Held("scheduler.duties", s.duties[duty])
			for _, n := range []string{"reader1", "reader2"} {
				set, err := s.GetDutyDefinition(context.Background(), duty)
				w.Outcome("GetDutyDefinition", err)
				if err != nil {
					if w.Mode == alias.Clean {
						w.Fail("GetDutyDefinition: %v", err)
					}
					return
				}
				w.Result(n, set)
			}
			w.Observe("scheduler.duties(after)", s.duties[duty])
		}},
	}
}

func TestVerifC18Scheduler(t *testing.T) {
	r := enumx.New(t, "C18")
	defer r.Finish()
	for _, u := range c18units() {
		master := u.gen(t)
		for _, s := range c18specs(u, master) {
			if !r.Mine() {
				continue
			}
			if r.Expired() {
				return
			}
			if !alias.Wanted(r, s.Path, s.Type) {
				continue
			}
			alias.Run(r, s)
		}
	}
}
