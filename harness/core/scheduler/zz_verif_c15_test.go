package scheduler

// C15 – the scheduler triggers every resolved duty exactly once, not before its time.
// Engine timex: complete product of assignment table x start slot x failing-call placement x slow-call placement
// (x chain-reorg event), each script executed on the real scheduler.New + Run (real clock, default delay function)
// over the real eth2wrap.ValidatorCache / eth2wrap.DutiesCache and a scripted beacon-node stub, inside a
// testing/synctest bubble in virtual time, judged by exact-instant oracles (DESIGN.md §5 C15).
//
// WALL-CLOCK STEP dimension: in scripts with a clock step the scheduler reads its wall clock through c15clock (Now / Since /
// Until = bubble time + offset; After / Sleep / NewTimer / NewTicker / AfterFunc stay on the bubble's monotonic clock), the
// production delay function stays in the loop and is handed deadline-offset (so that its time.Until reads the stepped clock),
// the script steps the offset once at an enumerated instant, and every trigger / tick is logged with both clocks.

import (
	"context"
	"fmt"
	"io"
	"math"
	"os"
	"runtime"
	"sort"
	"strconv"
	"strings"
	"sync"
	"sync/atomic"
	"testing"
	"testing/synctest"
	"time"

	eth2api "github.com/attestantio/go-eth2-client/api"
	eth2v1 "github.com/attestantio/go-eth2-client/api/v1"
	eth2p0 "github.com/attestantio/go-eth2-client/spec/phase0"
	"github.com/jonboulle/clockwork"
	"go.uber.org/zap/zapcore"

	"github.com/obolnetwork/charon/app/errors"
	"github.com/obolnetwork/charon/app/eth2wrap"
	"github.com/obolnetwork/charon/app/featureset"
	"github.com/obolnetwork/charon/app/log"
	"github.com/obolnetwork/charon/core"
	"github.com/obolnetwork/charon/zzverif/enumx"
)

const (
	c15Dur       = 12 * time.Second // slot duration
	c15SPE       = 4                // slots per epoch
	c15Base      = 10               // first epoch of the run ("relative epoch 0")
	c15RunSlots  = 12               // the run is stopped one second before slot start+12 begins
	c15IntoSlot  = 2 * time.Second  // the scheduler is started this far into the start slot
	c15MaxCalls  = 16               // failing / slow calls are placed among the first 16 beacon calls
	c15TickGuard = 80               // more ticks than this = runaway ticker: the run is stopped (never an alarm by itself)
)

// ---- validators ---------------------------------------------------------------------------------------------------
//
//	1, 2  cluster, active from the start
//	3     cluster, pending until relative epoch 2 (activation epoch = base+2), active from then on
//	4     cluster, exited long ago
//	9     foreign: known to the beacon node, has duties, is NOT one of the cluster's pubkeys

var c15cluster = []int{1, 2, 3, 4}

func c15pub(i int) (p eth2p0.BLSPubKey) {
	p[0], p[1], p[47] = 0xc1, byte(i), 0x5a
	return p
}

func c15idxOf(pk core.PubKey) int {
	for _, i := range []int{1, 2, 3, 4, 9} {
		if core.PubKeyFrom48Bytes(c15pub(i)) == pk {
			return i
		}
	}
	return 0
}

// c15active is the set of cluster validators that are active in relative epoch r (the beacon chain's definition:
// activation_epoch <= epoch < exit_epoch).
func c15active(r int) []int {
	if r >= 2 {
		return []int{1, 2, 3}
	}
	return []int{1, 2}
}

func c15validator(idx, epoch int) *eth2v1.Validator {
	far := eth2p0.Epoch(math.MaxUint64)
	v := &eth2v1.Validator{Index: eth2p0.ValidatorIndex(idx), Balance: 32_000_000_000, Status: eth2v1.ValidatorStateActiveOngoing,
		Validator: &eth2p0.Validator{PublicKey: c15pub(idx), EffectiveBalance: 32_000_000_000, ExitEpoch: far, WithdrawableEpoch: far}}
	switch idx {
	case 3:
		v.Validator.ActivationEligibilityEpoch = c15Base - 2
		v.Validator.ActivationEpoch = c15Base + 2
		if epoch < c15Base+2 {
			v.Status = eth2v1.ValidatorStatePendingQueued
		}
	case 4:
		v.Validator.ActivationEpoch, v.Validator.ExitEpoch, v.Validator.WithdrawableEpoch = 1, 5, 6
		v.Status = eth2v1.ValidatorStateExitedUnslashed
	}
	return v
}

// ---- assignment tables (total functions of the relative epoch r = epoch - base, slot-in-epoch q) ---------------------------

type c15tab struct {
	Name string
	Att  func(r, idx, start int) int   // slot-in-epoch of the validator's attester duty, -1 = none
	Pro  func(r, idx, start int) []int // slots-in-epoch of the validator's proposer duties
	Syn  func(r, idx int) bool         // validator is in the sync committee in this epoch
	Bad  bool                          // the node additionally misbehaves (see c15bn.pro / att / syn)
}

func c15tables() []c15tab {
	byIdx := func(m map[int]int) func(int, int, int) int {
		return func(_, idx, _ int) int {
			if q, ok := m[idx]; ok {
				return q
			}
			return -1
		}
	}
	noSync := func(int, int) bool { return false }
	t0pro := func(_, idx, _ int) []int {
		switch idx {
		case 2:
			return []int{2}
		case 4:
			return []int{1}
		case 9:
			return []int{3}
		}
		return nil
	}
	return []c15tab{
		{ // attester duty of validator 1 in the first slot of each epoch, of validator 2 in the last slot
			Name: "att-first-last", Att: byIdx(map[int]int{1: 0, 2: 3, 3: 1, 4: 2, 9: 0}), Pro: t0pro, Syn: noSync,
		},
		{ // a validator with two proposer duties in one epoch; several validators attesting in one slot
			Name: "two-proposals", Att: byIdx(map[int]int{1: 1, 2: 1, 3: 1, 4: 1, 9: 1}),
			Pro: func(_, idx, _ int) []int {
				switch idx {
				case 1:
					return []int{0, 2}
				case 3:
					return []int{3}
				case 4, 9:
					return []int{1}
				}
				return nil
			}, Syn: noSync,
		},
		{ // proposer duty in the very first slot of the run; proposer duty in the first slot of later epochs
			Name: "proposer-at-run-start", Att: byIdx(map[int]int{1: 2, 2: 0, 3: 3, 4: 0, 9: 2}),
			Pro: func(r, idx, start int) []int {
				switch {
				case idx == 1 && r == 0:
					return []int{start}
				case idx == 2 && r >= 1:
					return []int{0}
				case idx == 3:
					return []int{1}
				case idx == 4:
					return []int{2}
				case idx == 9:
					return []int{3}
				}
				return nil
			}, Syn: noSync,
		},
		{ // sync committee duties across epoch boundaries
			Name: "sync-across-boundary", Att: byIdx(map[int]int{1: 3, 2: 2, 3: 0, 4: 3, 9: 1}),
			Pro: func(r, idx, _ int) []int {
				if idx == 1 && r%2 == 0 {
					return []int{3}
				}
				return nil
			},
			Syn: func(r, idx int) bool {
				switch idx {
				case 1:
					return r == 0
				case 2:
					return r == 1 || r == 2
				case 3:
					return r == 2 || r == 3
				}
				return true // 4 and 9: whenever somebody asks
			},
		},
		{ // misbehaving node: duties of validators nobody asked for; a proposer duty with a wrong pubkey for a known index
			Name: "misbehaving-node", Att: byIdx(map[int]int{1: 0, 2: 3, 3: 1, 4: 2, 9: 0}), Pro: t0pro,
			Syn: func(_, idx int) bool { return idx == 1 || idx == 4 || idx == 9 }, Bad: true,
		},
	}
}

func c15slot(r, q int) eth2p0.Slot { return eth2p0.Slot((c15Base+r)*c15SPE + q) }

func c15attDuty(r, idx, q int) *eth2v1.AttesterDuty {
	return &eth2v1.AttesterDuty{PubKey: c15pub(idx), Slot: c15slot(r, q), ValidatorIndex: eth2p0.ValidatorIndex(idx),
		CommitteeIndex: eth2p0.CommitteeIndex(idx), CommitteeLength: 16, CommitteesAtSlot: 4, ValidatorCommitteeIndex: uint64(r + 1)}
}

func c15proDuty(r, idx, q int) *eth2v1.ProposerDuty {
	return &eth2v1.ProposerDuty{PubKey: c15pub(idx), Slot: c15slot(r, q), ValidatorIndex: eth2p0.ValidatorIndex(idx)}
}

func c15synDuty(r, idx int) *eth2v1.SyncCommitteeDuty {
	return &eth2v1.SyncCommitteeDuty{PubKey: c15pub(idx), ValidatorIndex: eth2p0.ValidatorIndex(idx),
		ValidatorSyncCommitteeIndices: []eth2p0.CommitteeIndex{eth2p0.CommitteeIndex(idx), eth2p0.CommitteeIndex(100 + r)}}
}

// ---- the script ---------------------------------------------------------------------------------------------------------------

type c15case struct {
	Table    int      `json:"table"`
	Start    int      `json:"start_slot_in_epoch"`  // the run starts in slot base*4+Start
	Fail     []int    `json:"failing_calls"`        // indices (order of arrival at the node) of the calls that fail once
	SlowAt   int      `json:"slow_call"`            // index of the slow call, -1 = none
	SlowHalf int      `json:"slow_half_slots"`      // it takes SlowHalf/2 slot durations
	Reorg    int      `json:"reorg_in_run_slot"`    // chain-reorg event 5 s into run slot k, -1 = none
	Step     *c15step `json:"clock_step,omitempty"` // one step of the node's wall clock, nil = none (no clock seam installed)
	Head     *c15head `json:"head_event,omitempty"` // one SSE head event with an early-fetch feature enabled, nil = none
}

// c15head: the beacon node's SSE "head" event for run slot K is handed to the scheduler AtMs milliseconds after the start of
// that slot (negative: before the slot's tick - an early block or a lagging clock), with the feature FetchAttOnBlock
// ("onblock") or FetchAttOnBlockWithDelay ("withdelay") enabled and a fetch-only function registered.
type c15head struct {
	Feature string `json:"feature"`
	K       int    `json:"k"`
	AtMs    int64  `json:"at_ms"`
}

// c15step is one step of the node's wall clock by DeltaMs milliseconds at the instant (At, K):
//
//	"before": 250 ms before the start of run slot K      "after": 250 ms after the start of run slot K
//	"mid":    5.5 s into run slot K (between the attester and the aggregator offset)
//	"call":   while beacon call #K is in flight: that call takes 1 s and the step happens 0.5 s into it
type c15step struct {
	DeltaMs int64  `json:"delta_ms"`
	At      string `json:"at"`
	K       int    `json:"k"`
}

func (s *c15step) delta() time.Duration { return time.Duration(s.DeltaMs) * time.Millisecond }

func (s *c15step) String() string {
	if s == nil {
		return "none"
	}
	return fmt.Sprintf("%s@%s%d", s.delta(), s.At, s.K)
}

func (c c15case) String() string {
	b := fmt.Sprintf("table=%d start=%d fail=%v slow=%d@%d reorg=%d", c.Table, c.Start, c.Fail, c.SlowHalf, c.SlowAt, c.Reorg)
	if c.Head != nil {
		b += fmt.Sprintf(" head=%s/slot%d%+dms", c.Head.Feature, c.Head.K, c.Head.AtMs)
	}
	if c.Step != nil {
		b += " step=" + c.Step.String()
	}
	return b
}

// c15clock is the clock seam of the step scripts: the node's wall clock reading is the bubble's time plus an offset which
// the script steps once; everything that measures a duration (timers, sleeps) stays on the bubble's monotonic clock, as in
// the Go runtime, where a timer armed for d fires after d whatever happens to the wall clock.
type c15clock struct {
	clockwork.Clock // the real clock of scheduler.New: After, Sleep, NewTimer, NewTicker, AfterFunc
	off             *atomic.Int64
}

func (c c15clock) Now() time.Time                  { return time.Now().Add(time.Duration(c.off.Load())) }
func (c c15clock) Since(t time.Time) time.Duration { return c.Now().Sub(t) }
func (c c15clock) Until(t time.Time) time.Duration { return t.Sub(c.Now()) }

type c15call struct {
	Kind  string // val / att / pro / syn
	Epoch int    // absolute epoch (val: epoch of the requested state)
	State string
	Idxs  []int
	TCall time.Duration
	TRet  time.Duration
	OK    bool
	Done  bool
}

type c15trig struct {
	At    time.Duration // monotonic instant (bubble time since the start of the run)
	Clock time.Duration // the node's wall clock reading at that moment (= At + the offset in force), same origin
	Duty  core.Duty
	Defs  map[core.PubKey]string
}

type c15tick struct {
	At    time.Duration
	Clock time.Duration
	Slot  uint64
}

type c15obs struct {
	mu        sync.Mutex
	Trigs     []c15trig
	Ticks     []c15tick // slot subscriber
	Hooks     []c15tick // start of scheduleSlot
	Calls     []c15call
	StopAt    time.Duration
	EndAt     time.Duration
	Guard     bool
	ReorgAt   time.Duration
	ReorgDone bool
	Bogus     int           // wrong-pubkey duties offered by the node
	Unasked   int           // duties of validators nobody asked for offered by the node
	StepAt    time.Duration // monotonic instant of the clock step
	StepDone  bool          // false: no step in the script, or its instant (beacon call #K) was never reached
	Notes     []string
}

// ---- beacon node stub (embeds the interface: any other method panics = harness error) -----------------------------------------------------

type c15bn struct {
	eth2wrap.Client
	cs          c15case
	tab         c15tab
	t0          time.Time
	genesis     time.Time
	obs         *c15obs
	valCache    *eth2wrap.ValidatorCache
	dutiesCache *eth2wrap.DutiesCache
	step        func() // steps the node's wall clock (step scripts)
}

func (b *c15bn) Address() string { return "c15-stub" }

func (b *c15bn) Genesis(context.Context, *eth2api.GenesisOpts) (*eth2api.Response[*eth2v1.Genesis], error) {
	return &eth2api.Response[*eth2v1.Genesis]{Data: &eth2v1.Genesis{GenesisTime: b.genesis}}, nil
}

func (b *c15bn) NodeSyncing(context.Context, *eth2api.NodeSyncingOpts) (*eth2api.Response[*eth2v1.SyncState], error) {
	return &eth2api.Response[*eth2v1.SyncState]{Data: &eth2v1.SyncState{}}, nil
}

func (b *c15bn) Spec(context.Context, *eth2api.SpecOpts) (*eth2api.Response[map[string]any], error) {
	return &eth2api.Response[map[string]any]{Data: map[string]any{"SECONDS_PER_SLOT": c15Dur, "SLOTS_PER_EPOCH": uint64(c15SPE)}}, nil
}

// the scheduler and the caches reach validators and duties through the REAL caches of app/eth2wrap/cache.go
func (b *c15bn) CompleteValidators(ctx context.Context) (eth2wrap.CompleteValidators, error) {
	_, c, err := b.valCache.GetByHead(ctx)
	return c, err
}

func (b *c15bn) ActiveValidators(ctx context.Context) (eth2wrap.ActiveValidators, error) {
	a, _, err := b.valCache.GetByHead(ctx)
	return a, err
}

func (b *c15bn) AttesterDutiesCache(ctx context.Context, e eth2p0.Epoch, i []eth2p0.ValidatorIndex) (eth2wrap.AttesterDutyWithMeta, error) {
	return b.dutiesCache.AttesterDutiesCache(ctx, e, i)
}

func (b *c15bn) ProposerDutiesCache(ctx context.Context, e eth2p0.Epoch, i []eth2p0.ValidatorIndex) (eth2wrap.ProposerDutyWithMeta, error) {
	return b.dutiesCache.ProposerDutiesCache(ctx, e, i)
}

func (b *c15bn) SyncCommDutiesCache(ctx context.Context, e eth2p0.Epoch, i []eth2p0.ValidatorIndex) (eth2wrap.SyncDutyWithMeta, error) {
	return b.dutiesCache.SyncCommDutiesCache(ctx, e, i)
}

// enter logs one call to a duty-resolution endpoint, applies the script's slowness and failure to it.
func (b *c15bn) enter(ctx context.Context, kind string, epoch int, state string, idxs []int) error {
	o := b.obs
	o.mu.Lock()
	n := len(o.Calls)
	o.Calls = append(o.Calls, c15call{Kind: kind, Epoch: epoch, State: state, Idxs: idxs, TCall: time.Since(b.t0)})
	o.mu.Unlock()
	var err error
	if st := b.cs.Step; st != nil && st.At == "call" && st.K == n {
		// the clock is stepped while this call is in flight: the call takes 1 s, the step happens 0.5 s into it
		for i := 0; i < 2 && err == nil; i++ {
			select {
			case <-time.After(500 * time.Millisecond):
				if i == 0 {
					b.step()
				}
			case <-ctx.Done():
				err = ctx.Err()
			}
		}
	}
	if n == b.cs.SlowAt && b.cs.SlowHalf > 0 && err == nil {
		select {
		case <-time.After(time.Duration(b.cs.SlowHalf) * c15Dur / 2):
		case <-ctx.Done():
			err = ctx.Err()
		}
	}
	for _, f := range b.cs.Fail {
		if f == n && err == nil {
			err = errors.New("c15: injected transient beacon node error")
		}
	}
	o.mu.Lock()
	o.Calls[n].TRet, o.Calls[n].OK, o.Calls[n].Done = time.Since(b.t0), err == nil, true
	o.mu.Unlock()
	return err
}

func c15ints(l []eth2p0.ValidatorIndex) []int {
	var o []int
	for _, i := range l {
		o = append(o, int(i))
	}
	return o
}

func (b *c15bn) Validators(ctx context.Context, o *eth2api.ValidatorsOpts) (*eth2api.Response[map[eth2p0.ValidatorIndex]*eth2v1.Validator], error) {
	epoch := int(time.Since(b.genesis)/c15Dur) / c15SPE // "head"
	if n, err := strconv.ParseUint(o.State, 10, 64); err == nil {
		epoch = int(n) / c15SPE
	}
	var asked []int
	for _, i := range []int{1, 2, 3, 4, 9} {
		hit := len(o.PubKeys) == 0 && len(o.Indices) == 0
		for _, pk := range o.PubKeys {
			hit = hit || pk == c15pub(i)
		}
		for _, ix := range o.Indices {
			hit = hit || int(ix) == i
		}
		if hit {
			asked = append(asked, i)
		}
	}
	if err := b.enter(ctx, "val", epoch, o.State, asked); err != nil {
		return nil, err
	}
	m := map[eth2p0.ValidatorIndex]*eth2v1.Validator{}
	for _, i := range asked {
		m[eth2p0.ValidatorIndex(i)] = c15validator(i, epoch)
	}
	return &eth2api.Response[map[eth2p0.ValidatorIndex]*eth2v1.Validator]{Data: m}, nil
}

func c15has(l []int, x int) bool {
	for _, y := range l {
		if x == y {
			return true
		}
	}
	return false
}

func (b *c15bn) count(bogus, unasked int) {
	b.obs.mu.Lock()
	b.obs.Bogus += bogus
	b.obs.Unasked += unasked
	b.obs.mu.Unlock()
}

func (b *c15bn) AttesterDuties(ctx context.Context, o *eth2api.AttesterDutiesOpts) (*eth2api.Response[[]*eth2v1.AttesterDuty], error) {
	idxs, r := c15ints(o.Indices), int(o.Epoch)-c15Base
	if err := b.enter(ctx, "att", int(o.Epoch), "", idxs); err != nil {
		return nil, err
	}
	var out []*eth2v1.AttesterDuty
	for _, i := range idxs {
		if q := b.tab.Att(r, i, b.cs.Start); q >= 0 && r >= 0 {
			out = append(out, c15attDuty(r, i, q))
		}
	}
	if b.tab.Bad && !c15has(idxs, 9) && r >= 0 {
		out = append(out, c15attDuty(r, 9, b.tab.Att(r, 9, b.cs.Start))) // nobody asked for validator 9
		b.count(0, 1)
	}
	return &eth2api.Response[[]*eth2v1.AttesterDuty]{Data: out, Metadata: map[string]any{"dependent_root": fmt.Sprintf("att-%d", o.Epoch)}}, nil
}

func (b *c15bn) ProposerDuties(ctx context.Context, o *eth2api.ProposerDutiesOpts) (*eth2api.Response[[]*eth2v1.ProposerDuty], error) {
	idxs, r := c15ints(o.Indices), int(o.Epoch)-c15Base
	if err := b.enter(ctx, "pro", int(o.Epoch), "", idxs); err != nil {
		return nil, err
	}
	var out []*eth2v1.ProposerDuty
	for _, i := range idxs {
		for _, q := range b.tab.Pro(r, i, b.cs.Start) {
			if r >= 0 {
				out = append(out, c15proDuty(r, i, q))
			}
		}
	}
	if b.tab.Bad && r >= 0 {
		if !c15has(idxs, 9) {
			out = append(out, c15proDuty(r, 9, 3)) // nobody asked for validator 9
			b.count(0, 1)
		}
		if r == 1 && c15has(idxs, 2) {
			d := c15proDuty(r, 2, 1) // known index 2, but the pubkey is validator 9's: must never be triggered
			d.PubKey = c15pub(9)
			out = append(out, d)
			b.count(1, 0)
		}
	}
	return &eth2api.Response[[]*eth2v1.ProposerDuty]{Data: out, Metadata: map[string]any{"dependent_root": fmt.Sprintf("pro-%d", o.Epoch)}}, nil
}

func (b *c15bn) SyncCommitteeDuties(ctx context.Context, o *eth2api.SyncCommitteeDutiesOpts) (*eth2api.Response[[]*eth2v1.SyncCommitteeDuty], error) {
	idxs, r := c15ints(o.Indices), int(o.Epoch)-c15Base
	if err := b.enter(ctx, "syn", int(o.Epoch), "", idxs); err != nil {
		return nil, err
	}
	var out []*eth2v1.SyncCommitteeDuty
	for _, i := range idxs {
		if r >= 0 && b.tab.Syn(r, i) {
			out = append(out, c15synDuty(r, i))
		}
	}
	if b.tab.Bad && !c15has(idxs, 9) && r >= 0 {
		out = append(out, c15synDuty(r, 9)) // nobody asked for validator 9
		b.count(0, 1)
	}
	return &eth2api.Response[[]*eth2v1.SyncCommitteeDuty]{Data: out, Metadata: map[string]any{"dependent_root": fmt.Sprintf("syn-%d", o.Epoch)}}, nil
}

// ---- one execution ----------------------------------------------------------------------------------------------------------------------

var c15headFetches atomic.Int64 // early fetches the scheduler started on head events (non-vacuity)

func c15startSlot(cs c15case) uint64 { return uint64(c15Base*c15SPE + cs.Start) }

// c15slotStart is the start instant of a slot relative to the bubble's start (computed here, not taken from the scheduler).
func c15slotStart(cs c15case, slot uint64) time.Duration {
	return time.Duration(int64(slot)-int64(c15startSlot(cs)))*c15Dur - c15IntoSlot
}

func c15run(t *testing.T, cs c15case) *c15obs {
	obs := &c15obs{}
	tab := c15tables()[cs.Table]
	synctest.Test(t, func(t *testing.T) {
		runtime.VerifSetMapRot(true, 0)
		// mode 2 = receive cases of a select are polled in source order (the compiler lays receives out backwards): the
		// scheduler's Run loop sees its quit channel before a pending tick, duty goroutines see a cancelled context first
		runtime.VerifSetSelMode(2)
		defer runtime.VerifSetMapRot(false, 0)
		defer runtime.VerifSetSelMode(0)
		t0 := time.Now()
		bn := &c15bn{cs: cs, tab: tab, t0: t0, obs: obs, genesis: t0.Add(-time.Duration(c15startSlot(cs))*c15Dur - c15IntoSlot)}
		var pks []eth2p0.BLSPubKey
		for _, i := range c15cluster {
			pks = append(pks, c15pub(i))
		}
		bn.valCache = eth2wrap.NewValidatorCache(bn, pks)
		bn.dutiesCache = eth2wrap.NewDutiesCache(bn, []eth2p0.ValidatorIndex{})
		s, err := New(nil, bn, false)
		if err != nil {
			obs.Notes = append(obs.Notes, "scheduler.New: "+err.Error())
			return
		}
		var off atomic.Int64 // the node's wall clock = bubble time + off
		bn.step = func() {
			obs.mu.Lock()
			if !obs.StepDone {
				off.Store(int64(cs.Step.delta()))
				obs.StepAt, obs.StepDone = time.Since(t0), true
			}
			obs.mu.Unlock()
		}
		if cs.Step != nil {
			// clock seam: Scheduler.clock reads the stepped clock; the PRODUCTION delay function (time.After(time.Until(deadline)))
			// stays in the loop and is handed deadline-offset, i.e. its time.Until measures against the stepped clock
			s.clock = c15clock{Clock: s.clock, off: &off}
			prod := s.delayFunc
			s.delayFunc = func(d core.Duty, deadline time.Time) <-chan time.Time {
				return prod(d, deadline.Add(-time.Duration(off.Load())))
			}
		}
		guard := make(chan struct{})
		// Epoch refresh of the caches as wired in app/app.go (validator cache trimmed and refetched for the slot, duties cache
		// trimmed), run at the first delivered tick of every epoch (and again while the refresh has not succeeded by slot),
		// synchronously before the slot is scheduled.
		first, byslot, lastEpoch := true, true, uint64(0)
		s.schedSlotFunc = func(ctx context.Context, slot core.Slot) {
			obs.mu.Lock()
			obs.Hooks = append(obs.Hooks, c15tick{time.Since(t0), time.Since(t0) + time.Duration(off.Load()), slot.Slot})
			n := len(obs.Hooks)
			obs.mu.Unlock()
			if n == c15TickGuard {
				close(guard)
			}
			if !first && byslot && slot.Epoch() == lastEpoch {
				return
			}
			fetch := slot.Slot
			if !byslot {
				fetch = slot.Epoch() * slot.SlotsPerEpoch
			}
			bn.valCache.Trim()
			bn.dutiesCache.Trim(eth2p0.Epoch(slot.Epoch()))
			active, _, refreshed, err := bn.valCache.GetBySlot(ctx, fetch)
			if err != nil {
				return
			}
			bn.dutiesCache.UpdateActiveValIndices(active.Indices())
			first, byslot, lastEpoch = false, refreshed, slot.Epoch()
		}
		s.SubscribeDuties(func(_ context.Context, duty core.Duty, set core.DutyDefinitionSet) error {
			at := time.Since(t0)
			clk := at + time.Duration(off.Load())
			defs := map[core.PubKey]string{}
			for pk, d := range set {
				b, err := d.MarshalJSON()
				if err != nil {
					b = []byte("marshal error: " + err.Error())
				}
				defs[pk] = string(b)
			}
			obs.mu.Lock()
			obs.Trigs = append(obs.Trigs, c15trig{at, clk, duty, defs})
			obs.mu.Unlock()
			return nil
		})
		s.SubscribeSlots(func(_ context.Context, slot core.Slot) error {
			obs.mu.Lock()
			obs.Ticks = append(obs.Ticks, c15tick{time.Since(t0), time.Since(t0) + time.Duration(off.Load()), slot.Slot})
			obs.mu.Unlock()
			return nil
		})
		if cs.Head != nil {
			s.RegisterFetcherFetchOnly(func(context.Context, core.Duty, core.DutyDefinitionSet, string, eth2p0.Root) error {
				c15headFetches.Add(1)
				return nil
			})
		}
		done := make(chan struct{})
		go func() {
			defer close(done)
			if err := s.Run(); err != nil {
				obs.mu.Lock()
				obs.Notes = append(obs.Notes, "Run: "+err.Error())
				obs.mu.Unlock()
			}
		}()
		stop := make(chan struct{})
		if st := cs.Step; st != nil && st.At != "call" {
			// 250 ms before / after a slot start and 5.5 s into a slot: never the instant of a tick, a trigger (0, 4, 8 s into a
			// slot, shifted by the step itself only afterwards), a call return, the reorg event (5 s) or the stop (11 s)
			at := c15slotStart(cs, c15startSlot(cs)+uint64(st.K))
			switch st.At {
			case "before":
				at -= 250 * time.Millisecond
			case "after":
				at += 250 * time.Millisecond
			case "mid":
				at += 5500 * time.Millisecond
			default:
				obs.Notes = append(obs.Notes, "unknown clock step instant "+st.At)
			}
			go func() {
				select {
				case <-time.After(at):
					bn.step()
				case <-stop:
				}
			}()
		}
		if h := cs.Head; h != nil {
			hs := c15startSlot(cs) + uint64(h.K)
			go func() {
				select {
				// 50/250 ms around a slot start or shortly before the attester offset: never the instant of a tick or a trigger
				case <-time.After(c15slotStart(cs, hs) + time.Duration(h.AtMs)*time.Millisecond):
				case <-stop:
					return
				}
				s.HandleHeadEvent(context.Background(), eth2p0.Slot(hs), eth2p0.Root{0x42}, "bn0")
				obs.mu.Lock()
				obs.Notes = append(obs.Notes, fmt.Sprintf("head event for slot %d handed over at %s", hs, time.Since(t0)))
				obs.mu.Unlock()
			}()
		}
		if cs.Reorg >= 0 {
			go func() {
				select {
				// 5 s into the slot: never the instant of a tick, of a call return (those are 0 or 2 s modulo 6 s) or of the stop
				case <-time.After(c15slotStart(cs, c15startSlot(cs)+uint64(cs.Reorg)) + 5*time.Second):
				case <-stop:
					return
				}
				// the chain reorged back to the previous epoch: delivered to the scheduler and to the duties cache (app/app.go)
				ep := eth2p0.Epoch((c15startSlot(cs)+uint64(cs.Reorg))/c15SPE - 1)
				s.HandleChainReorgEvent(context.Background(), ep)
				bn.dutiesCache.InvalidateCache(context.Background(), ep)
				obs.mu.Lock()
				obs.ReorgAt, obs.ReorgDone = time.Since(t0), true
				obs.mu.Unlock()
			}()
		}
		select {
		case <-time.After(c15slotStart(cs, c15startSlot(cs)+c15RunSlots) - time.Second):
		case <-guard:
			obs.Guard = true
		}
		obs.StopAt = time.Since(t0)
		s.Stop()
		<-done
		close(stop)
		synctest.Wait()
		obs.EndAt = time.Since(t0)
	})
	return obs
}

// ---- oracle: the statement of C15 in exact virtual time ------------------------------------------------------------------------------------------

type c15viol struct{ sig, desc string }

// c15expected is the node's assignment for (type, slot) restricted to the cluster validators active in the slot's epoch.
func c15expected(cs c15case, typ core.DutyType, slot uint64) map[core.PubKey]string {
	tab := c15tables()[cs.Table]
	r, q := int(slot)/c15SPE-c15Base, int(slot)%c15SPE
	out := map[core.PubKey]string{}
	if r < 0 {
		return out
	}
	for _, i := range c15active(r) {
		var b []byte
		switch typ {
		case core.DutyAttester, core.DutyAggregator:
			if tab.Att(r, i, cs.Start) == q {
				b, _ = core.NewAttesterDefinition(c15attDuty(r, i, q)).MarshalJSON()
			}
		case core.DutyProposer:
			if c15has(tab.Pro(r, i, cs.Start), q) {
				b, _ = core.NewProposerDefinition(c15proDuty(r, i, q)).MarshalJSON()
			}
		case core.DutySyncContribution:
			if tab.Syn(r, i) {
				b, _ = core.NewSyncCommitteeDefinition(c15synDuty(r, i)).MarshalJSON()
			}
		}
		if b != nil {
			out[core.PubKeyFrom48Bytes(c15pub(i))] = string(b)
		}
	}
	return out
}

func c15offset(typ core.DutyType) time.Duration {
	if fn, ok := slotOffsets[typ]; ok {
		return fn(c15Dur)
	}
	return 0
}

// c15resolvedAt: the instant from which the epoch counts as resolved = all three duty kinds have been answered successfully
// by the node for (at least) all active cluster validators of that epoch. ok=false: never.
func c15resolvedAt(o *c15obs, epoch int) (time.Duration, bool) {
	var at time.Duration
	for _, kind := range []string{"att", "pro", "syn"} {
		found := false
		var first time.Duration
		for _, c := range o.Calls {
			if c.Kind != kind || c.Epoch != epoch || !c.Done || !c.OK {
				continue
			}
			covers := true
			for _, i := range c15active(epoch - c15Base) {
				covers = covers && c15has(c.Idxs, i)
			}
			if covers && (!found || c.TRet < first) {
				found, first = true, c.TRet
			}
		}
		if !found {
			return 0, false
		}
		if first > at {
			at = first
		}
	}
	return at, true
}

var c15types = []core.DutyType{core.DutyProposer, core.DutyAttester, core.DutyAggregator, core.DutySyncContribution}

// c15stats: how often the guarded mechanisms fired in one script (non-vacuity)
type c15stats struct {
	required      int // completeness requirements checked
	excused       int // duty of validator 3 before its activation, after the node itself had reported it active
	earlyStepOnly int // trigger early by the stepped clock, on time by the clock without the (backward) step: counted, not alarmed
	onTimeByNode  int // trigger on time by the node's (forward-stepped) clock although before the offset in monotonic time
}

func c15check(cs c15case, o *c15obs) (viol []c15viol, st c15stats) {
	dim := ""
	if cs.Step != nil {
		dim = " dim=clock-step"
	}
	bad := func(sig, f string, a ...any) { viol = append(viol, c15viol{sig + dim, fmt.Sprintf(f, a...)}) }
	strict := os.Getenv("C15_STRICT_STEP_CLOCK") != "" // information only: alarm on the stepped clock alone
	// toldActive: the node itself had already reported validator 3 as active (a validators answer for a state in its
	// activation epoch or later, e.g. the "head" fallback answered while a late tick of an earlier epoch is processed).
	// From then on the scheduler cannot tell that 3 was not yet active in the earlier epoch it is still working on; only the
	// stub (unlike a real node) assigns duties before activation, so this is not held against the scheduler.
	toldActive := func(at time.Duration) bool {
		for _, c := range o.Calls {
			if c.Kind == "val" && c.Done && c.OK && c.Epoch >= c15Base+2 && c.TRet <= at && c15has(c.Idxs, 3) {
				return true
			}
		}
		return false
	}
	// staleStatus names the cause of one specific way of losing validator 3 (label of the signature only, the verdict does not
	// depend on it): the duty's epoch is LATER than 3's activation epoch, the node was asked for that epoch's duties without 3,
	// and the latest validators answer the scheduler had at that moment was for a state BEFORE the activation epoch (3 still
	// pending, activation epoch in the answer) - resolveActiveValidators keeps a pending validator only if its activation epoch
	// EQUALS the requested epoch. Needs the node's clock at least an epoch ahead of the beacon node's head.
	staleStatus := func(tr c15trig) bool {
		epoch := int(tr.Duty.Slot) / c15SPE
		if epoch <= c15Base+2 {
			return false
		}
		kind := map[core.DutyType]string{core.DutyAttester: "att", core.DutyAggregator: "att", core.DutyProposer: "pro", core.DutySyncContribution: "syn"}[tr.Duty.Type]
		for _, c := range o.Calls {
			if c.Kind != kind || c.Epoch != epoch || !c.Done || !c.OK || c.TRet > tr.At {
				continue
			}
			if c15has(c.Idxs, 3) {
				return false
			}
			last := -1
			for i, v := range o.Calls {
				if v.Kind == "val" && v.Done && v.OK && v.TRet <= c.TCall {
					last = i
				}
			}
			return last >= 0 && o.Calls[last].Epoch < c15Base+2
		}
		return false
	}
	// ---- safety (always) ----
	seen := map[core.Duty]int{}
	for _, tr := range o.Trigs {
		seen[tr.Duty]++
		typ := tr.Duty.Type.String()
		r := int(tr.Duty.Slot)/c15SPE - c15Base
		if seen[tr.Duty] == 2 {
			bad("kind=duty-triggered-twice type="+typ, "duty %s was triggered more than once (second time at %s)", tr.Duty, tr.At)
		}
		exp := c15expected(cs, tr.Duty.Type, tr.Duty.Slot)
		var pks []string
		for pk := range tr.Defs {
			pks = append(pks, string(pk))
		}
		sort.Strings(pks)
		for _, p := range pks {
			pk := core.PubKey(p)
			idx := c15idxOf(pk)
			want, assigned := exp[pk]
			switch {
			case idx == 9 || idx == 0:
				bad("kind=triggered-for-foreign-validator type="+typ, "duty %s at %s carries a definition for validator %d (pubkey %s) which is not in the cluster: %s", tr.Duty, tr.At, idx, pk, tr.Defs[pk])
			case idx == 3 && r < 2 && toldActive(tr.At):
				st.excused++
			case idx == 4 || (idx == 3 && r < 2):
				bad(fmt.Sprintf("kind=triggered-for-inactive-validator type=%s validator=%d", typ, idx), "duty %s at %s carries a definition for validator %d which is not active in epoch %d: %s", tr.Duty, tr.At, idx, int(tr.Duty.Slot)/c15SPE, tr.Defs[pk])
			case !assigned:
				bad("kind=triggered-for-unassigned-slot type="+typ, "duty %s at %s carries a definition for validator %d, but the beacon node assigns it no such duty in slot %d: %s", tr.Duty, tr.At, idx, tr.Duty.Slot, tr.Defs[pk])
			case want != tr.Defs[pk]:
				bad("kind=definition-altered type="+typ, "duty %s at %s: definition of validator %d is %s, the beacon node's assignment is %s", tr.Duty, tr.At, idx, tr.Defs[pk], want)
			}
		}
		for pk := range exp {
			if _, ok := tr.Defs[pk]; !ok {
				cause := ""
				if c15idxOf(pk) == 3 && staleStatus(tr) {
					cause = " cause=validator-status-answer-older-than-the-activation-epoch-which-is-before-the-requested-epoch"
				}
				bad("kind=definition-set-incomplete type="+typ+cause, "duty %s at %s was triggered without the definition of active cluster validator %d which the beacon node assigns to that slot (got %d of %d definitions)", tr.Duty, tr.At, c15idxOf(pk), len(tr.Defs), len(exp))
				break
			}
		}
		// "not before its time" is judged on the node's own clock at the moment of the trigger (without a step: Clock == At).
		// Across a BACKWARD step the statement does not say which clock is the reference: a trigger that is early by the stepped
		// clock but on time by the clock without the step (the time line on which its timer was armed) is counted, not alarmed;
		// only a trigger that is early on both time lines is a violation.
		earliest := c15slotStart(cs, tr.Duty.Slot) + c15offset(tr.Duty.Type)
		switch {
		case tr.Clock >= earliest:
			if tr.At < earliest {
				st.onTimeByNode++
			}
		case tr.At >= earliest && !strict:
			st.earlyStepOnly++
		default:
			bad("kind=triggered-before-offset type="+typ, "duty %s was triggered at %s (the node's clock read %s), its slot starts at %s and the %s offset is %s", tr.Duty, tr.At, tr.Clock, c15slotStart(cs, tr.Duty.Slot), typ, c15offset(tr.Duty.Type))
		}
	}
	// ---- completeness (scripts without a reorg event) ----
	if cs.Reorg >= 0 {
		return viol, st
	}
	ticked := map[uint64]time.Duration{} // slot -> monotonic instant of the (first) delivery of its tick
	for _, tk := range o.Ticks {
		if at, ok := ticked[tk.Slot]; !ok || tk.At < at {
			ticked[tk.Slot] = tk.At
		}
	}
	for slot, tickAt := range ticked {
		epoch := int(slot) / c15SPE
		at, ok := c15resolvedAt(o, epoch)
		start := c15slotStart(cs, slot)
		if !ok {
			continue // never resolved
		}
		end := start + c15Dur
		if cs.Step == nil {
			if !(start > at) {
				continue // resolved in/after this very slot: triggering allowed, not required
			}
		} else {
			// A step makes ticks early, late or swallows them (a swallowed slot has no tick, like a missed tick), so "the slot
			// begins after the epoch was resolved" is read off the delivery of its tick: strictly after T in monotonic time ...
			if !(tickAt > at) {
				continue
			}
			// ... and the slot is later than every slot the scheduler had begun scheduling up to T (resolution drops the
			// duties of slots before the resolving one)
			begun := false
			for _, h := range o.Hooks {
				begun = begun || (h.At <= at && h.Slot >= slot)
			}
			if begun {
				continue
			}
			// ended for good: on the time line without the step and on the stepped one (a backward step moves the slot's
			// end, on the node's clock, |delta| later in monotonic time)
			if d := cs.Step.delta(); o.StepDone && d < 0 {
				end += -d
			}
		}
		// the run was stopped at StopAt: only slots that had ended by then and whose scheduling had demonstrably finished
		// (a later slot was already being scheduled before the stop) are required
		if end > o.StopAt {
			continue
		}
		later := false
		for _, h := range o.Hooks {
			later = later || (h.Slot > slot && h.At < o.StopAt)
		}
		if !later {
			continue
		}
		for _, typ := range c15types {
			exp := c15expected(cs, typ, slot)
			if len(exp) == 0 {
				continue
			}
			st.required++
			if seen[core.Duty{Slot: slot, Type: typ}] == 0 {
				var vals []int
				for pk := range exp {
					vals = append(vals, c15idxOf(pk))
				}
				sort.Ints(vals)
				bad("kind=resolved-duty-not-triggered type="+typ.String(), "duty %d/%s (validators %v) was never triggered although the slot tick was delivered (at %s) and the slot starts at %s, after epoch %d was resolved at %s", slot, typ, vals, tickAt, start, epoch, at)
			}
		}
	}
	return viol, st
}

// ---- driver -------------------------------------------------------------------------------------------------------------------------------------------

func c15startName(s int) string {
	switch s {
	case 0:
		return "first"
	case c15SPE - 1:
		return "last"
	}
	return "mid"
}

func c15key(cs c15case, o *c15obs) string {
	kindAt := func(i int) string {
		if i < len(o.Calls) {
			return fmt.Sprintf("%s@%d", o.Calls[i].Kind, i)
		}
		return fmt.Sprintf("unhit@%d", i)
	}
	fail := "none"
	if len(cs.Fail) > 0 {
		var l []string
		for _, f := range cs.Fail {
			l = append(l, kindAt(f))
		}
		fail = strings.Join(l, "+")
	}
	slow := "none"
	if cs.SlowAt >= 0 {
		slow = fmt.Sprintf("%.1f:%s", float64(cs.SlowHalf)/2, kindAt(cs.SlowAt))
	}
	k := fmt.Sprintf("table%d/start=%s/fail=%s/slow=%s", cs.Table, c15startName(cs.Start), fail, slow)
	if cs.Reorg >= 0 {
		k += fmt.Sprintf("/reorg=%d", cs.Reorg)
	}
	if cs.Step != nil {
		k += "/step=" + cs.Step.String()
	}
	return k
}

func c15describe(cs c15case, o *c15obs) string {
	var sb strings.Builder
	fmt.Fprintf(&sb, "script{%s} start-slot=%d stop=%s end=%s\n", cs, c15startSlot(cs), o.StopAt, o.EndAt)
	for i, c := range o.Calls {
		fmt.Fprintf(&sb, "  call#%d %s epoch=%d state=%q idxs=%v at=%s ret=%s ok=%v\n", i, c.Kind, c.Epoch, c.State, c.Idxs, c.TCall, c.TRet, c.OK)
	}
	tks := append([]c15tick(nil), o.Ticks...)
	sort.SliceStable(tks, func(i, j int) bool {
		return tks[i].At < tks[j].At || (tks[i].At == tks[j].At && tks[i].Slot < tks[j].Slot)
	})
	for _, tk := range tks {
		fmt.Fprintf(&sb, "  tick slot=%d at=%s node-clock=%s (slot start %s)\n", tk.Slot, tk.At, tk.Clock, c15slotStart(cs, tk.Slot))
	}
	if cs.Step != nil {
		fmt.Fprintf(&sb, "  clock step %s: done=%v at=%s\n", cs.Step, o.StepDone, o.StepAt)
	}
	if o.ReorgDone {
		fmt.Fprintf(&sb, "  reorg event at=%s\n", o.ReorgAt)
	}
	tr := append([]c15trig(nil), o.Trigs...)
	sort.SliceStable(tr, func(i, j int) bool {
		if tr[i].At != tr[j].At {
			return tr[i].At < tr[j].At
		}
		if tr[i].Duty.Slot != tr[j].Duty.Slot {
			return tr[i].Duty.Slot < tr[j].Duty.Slot
		}
		return tr[i].Duty.Type < tr[j].Duty.Type
	})
	for _, x := range tr {
		var l []string
		for pk, d := range x.Defs {
			l = append(l, fmt.Sprintf("v%d=%s", c15idxOf(pk), d))
		}
		sort.Strings(l)
		fmt.Fprintf(&sb, "  trigger %s at=%s node-clock=%s {%s}\n", x.Duty, x.At, x.Clock, strings.Join(l, " "))
	}
	return sb.String()
}

func TestVerifC15(t *testing.T) {
	r := enumx.New(t, "C15")
	defer r.Finish()
	log.InitConsoleForT(t, zapcore.AddSync(io.Discard))
	featureset.EnableForT(t, featureset.SSEReorgDuties) // only consulted by HandleChainReorgEvent

	confirmed := map[string]bool{}
	judge := func(cs c15case, verbose bool) {
		o := c15run(t, cs)
		for _, n := range o.Notes {
			r.Note("harness: " + n)
		}
		if os.Getenv("C15_DETCHECK") != "" { // debugging aid: execute every script twice and print those whose canonical log differs
			if a, b := c15describe(cs, o), c15describe(cs, c15run(t, cs)); a != b {
				fmt.Printf("NONDETERMINISTIC\n%s\n---\n%s\n", a, b)
			}
		}
		viol, st := c15check(cs, o)
		required, excused := st.required, st.excused
		r.Eval(c15key(cs, o))
		r.Steps(len(o.Hooks) + len(o.Calls))
		// non-vacuity
		r.Count("duty_triggers_observed", len(o.Trigs))
		r.Count("slot_ticks_delivered", len(o.Ticks))
		r.Count("completeness_requirements_checked", required)
		r.Count("beacon_calls", len(o.Calls))
		r.Count("pending_validator_duty_excused_node_had_reported_it_active", excused)
		delivered := map[uint64]bool{}
		var maxSlot uint64
		for _, tk := range o.Ticks {
			delivered[tk.Slot] = true
			if tk.Slot > maxSlot {
				maxSlot = tk.Slot
			}
			if tk.Clock > c15slotStart(cs, tk.Slot) && tk.Slot != c15startSlot(cs) { // by the node's clock (== At without a step)
				r.Count("slot_ticks_delivered_late", 1)
			}
		}
		skipped := 0
		for s := c15startSlot(cs); s < maxSlot; s++ {
			if !delivered[s] {
				skipped++
			}
		}
		r.Count("slot_ticks_skipped", skipped)
		if cs.Step != nil { // non-vacuity of the wall-clock step dimension
			r.Count("clock_step_scripts", 1)
			switch d := cs.Step.delta(); {
			case !o.StepDone:
				r.Count("clock_step_instant_not_reached_call_never_made", 1)
			case d > 0:
				r.Count("clock_steps_applied_forward", 1)
			default:
				r.Count("clock_steps_applied_backward", 1)
			}
			if o.StepDone && cs.Step.At == "call" {
				r.Count("clock_steps_applied_while_beacon_call_in_flight", 1)
			}
			r.Count("clock_step_slot_ticks_skipped", skipped)
			r.Count("clock_step_completeness_requirements_checked", required)
			r.Count("clock_step_triggers_early_by_stepped_clock_only", st.earlyStepOnly)
			r.Count("clock_step_triggers_on_time_by_node_clock_before_offset_in_monotonic_time", st.onTimeByNode)
			for _, tk := range o.Ticks {
				if o.StepDone && tk.At >= o.StepAt {
					r.Count("clock_step_ticks_after_step", 1)
					switch start := c15slotStart(cs, tk.Slot); {
					case tk.Clock < start:
						r.Count("clock_step_ticks_early_by_node_clock", 1)
					case tk.Clock > start:
						r.Count("clock_step_ticks_late_by_node_clock", 1)
					}
				}
			}
			for _, tr := range o.Trigs {
				if o.StepDone && tr.At >= o.StepAt {
					r.Count("clock_step_triggers_after_step", 1)
				}
			}
		}
		for _, f := range cs.Fail {
			if f < len(o.Calls) && !o.Calls[f].OK {
				r.Count("injected_failures_hit", 1)
			}
		}
		if cs.SlowAt >= 0 && cs.SlowAt < len(o.Calls) {
			r.Count("slow_calls_hit", 1)
		}
		if o.ReorgDone {
			r.Count("reorg_events_delivered", 1)
		}
		r.Count("wrong_pubkey_duties_offered_by_node", o.Bogus)
		r.Count("unasked_validator_duties_offered_by_node", o.Unasked)
		if o.Guard {
			r.Count("runaway_ticker_stopped", 1)
		}
		for _, tr := range o.Trigs {
			if at, ok := c15resolvedAt(o, int(tr.Duty.Slot)/c15SPE); !ok || at >= c15slotStart(cs, tr.Duty.Slot) {
				r.Count("triggers_in_or_before_resolving_slot", 1)
			}
			if tr.Clock > c15slotStart(cs, tr.Duty.Slot)+c15offset(tr.Duty.Type) {
				r.Count("triggers_delayed_past_offset", 1)
			}
		}
		if verbose {
			fmt.Print(c15describe(cs, o))
			for _, v := range viol {
				fmt.Printf("  -> %s: %s\n", v.sig, v.desc)
			}
		}
		done := map[string]bool{}
		for _, v := range viol {
			if done[v.sig] {
				continue
			}
			done[v.sig] = true
			if confirmed[v.sig] { // already reported with a replayable script: only count the further case
				r.Violation(v.sig, "", nil)
				continue
			}
			ok := true
			for k := 0; k < 3; k++ {
				v2, _ := c15check(cs, c15run(t, cs))
				hit := false
				for _, y := range v2 {
					hit = hit || y.sig == v.sig
				}
				ok = ok && hit
			}
			if !ok {
				r.Unconfirmed(v.sig)
				continue
			}
			confirmed[v.sig] = true
			r.Violation(v.sig, v.desc+"\n"+c15describe(cs, o), cs)
		}
	}

	if r.ReplayPath != "" {
		var cs c15case
		if err := r.ReplayCase(&cs); err != nil {
			t.Fatal(err)
		}
		judge(cs, true)
		return
	}

	th := enumx.Thorough()
	maxFail := 1
	if th {
		maxFail = 2
	}
	var fails [][]int
	fails = append(fails, nil)
	for a := 0; a < c15MaxCalls; a++ {
		fails = append(fails, []int{a})
	}
	if maxFail >= 2 {
		for a := 0; a < c15MaxCalls; a++ {
			for b := a + 1; b < c15MaxCalls; b++ {
				fails = append(fails, []int{a, b})
			}
		}
	}
	type slowT struct{ at, half int }
	slows := []slowT{{-1, 0}}
	for a := 0; a < c15MaxCalls; a++ {
		for _, h := range []int{3, 5, 7} { // 1.5, 2.5, 3.5 slot durations (3.5 makes the ticker skip a slot, the others deliver late)
			slows = append(slows, slowT{a, h})
		}
	}
	reorgs := []int{-1, 2, 3, 7}
	sampled := 0
	only := os.Getenv("C15_ONLY") // debugging aid: "base" = without the clock-step scripts, "step" = only those
	if only != "" {
		r.NotExhaustive("C15_ONLY=" + only + ": part of the product was left out on request")
	}
	for ti := range c15tables() {
		if only == "step" {
			break
		}
		for _, start := range []int{0, 1, c15SPE - 1} {
			for _, reorg := range reorgs {
				for _, f := range fails {
					for _, sl := range slows {
						if !r.Mine() {
							continue
						}
						if r.Expired() {
							return
						}
						cs := c15case{Table: ti, Start: start, Fail: f, SlowAt: sl.at, SlowHalf: sl.half, Reorg: reorg}
						judge(cs, false)
						if sampled < 3 && len(f) > 0 && sl.at >= 0 {
							sampled++
							r.Sample(cs.String())
						}
					}
				}
			}
		}
	}
	if only == "base" {
		return
	}

	// ---- wall-clock steps: one step of delta at an enumerated instant, combined with the other dimensions ----
	var steps []c15step
	for _, d := range []time.Duration{-c15SPE * c15Dur, -c15Dur * 3 / 2, -c15Dur / 2, -time.Millisecond, time.Millisecond, c15Dur / 2, c15Dur * 3 / 2, c15SPE * c15Dur} {
		ms := d.Milliseconds()
		for k := 1; k < c15RunSlots; k++ {
			steps = append(steps, c15step{ms, "before", k})
		}
		for k := 1; k < c15RunSlots; k++ {
			steps = append(steps, c15step{ms, "after", k})
		}
		for k := 0; k < c15RunSlots; k++ {
			steps = append(steps, c15step{ms, "mid", k}) // 5.5 s into the slot
		}
		for c := 0; c < c15MaxCalls; c++ {
			steps = append(steps, c15step{ms, "call", c})
		}
	}
	type comboT struct {
		fail  []int
		slow  slowT
		reorg int
	}
	stepSampled := false
	for ti := range c15tables() {
		combos := []comboT{{nil, slowT{-1, 0}, -1}} // the step alone
		if th || ti == 0 {
			for a := 0; a < c15MaxCalls; a++ { // x one failing call
				combos = append(combos, comboT{[]int{a}, slowT{-1, 0}, -1})
			}
		}
		if th {
			for _, sl := range slows[1:] { // x one slow call
				combos = append(combos, comboT{nil, sl, -1})
			}
			for _, ro := range reorgs[1:] { // x reorg event (safety clauses only)
				combos = append(combos, comboT{nil, slowT{-1, 0}, ro})
			}
		}
		for _, start := range []int{0, 1, c15SPE - 1} {
			for _, cb := range combos {
				for i := range steps {
					if !r.Mine() {
						continue
					}
					if r.Expired() {
						return
					}
					st := steps[i]
					cs := c15case{Table: ti, Start: start, Fail: cb.fail, SlowAt: cb.slow.at, SlowHalf: cb.slow.half, Reorg: cb.reorg, Step: &st}
					judge(cs, false)
					if !stepSampled && len(cb.fail) > 0 {
						stepSampled = true
						r.Sample(cs.String())
					}
				}
			}
		}
	}

	// ---- SSE head events with the early-fetch features (FetchAttOnBlock, FetchAttOnBlockWithDelay) ---------------------------
	// the attester duty is still triggered not before its offset (with the delay feature: 300 ms later), whenever the head event
	// of its slot arrives: before the slot's tick, right after it, or just before the offset
	if only == "" || only == "head" {
		for _, feat := range []string{"onblock", "withdelay"} {
			var f featureset.Feature = featureset.FetchAttOnBlock
			if feat == "withdelay" {
				f = featureset.FetchAttOnBlockWithDelay
			}
			featureset.EnableForT(t, f)
			for ti := range c15tables() {
				for _, start := range []int{0, 1, c15SPE - 1} {
					for k := 1; k <= 9; k++ {
						for _, at := range []int64{-250, -50, 100, 3900} {
							if !r.Mine() {
								continue
							}
							if r.Expired() {
								featureset.DisableForT(t, f)
								return
							}
							cs := c15case{Table: ti, Start: start, SlowAt: -1, Reorg: -1, Head: &c15head{Feature: feat, K: k, AtMs: at}}
							judge(cs, false)
							r.Count("head_event_scripts", 1)
						}
					}
				}
			}
			featureset.DisableForT(t, f)
		}
		r.Count("head_event_early_fetches_started", int(c15headFetches.Load()))
	}
}
