package fetcher

// C18 (fetcher): Fetch with a stub beacon node and stub aggsigdb / dutydb query functions, three subscribers; also
// the early-fetch cache (FetchOnly then Fetch). Parties: the definition set handed in, the cache entry if the
// fetcher still holds one after Fetch, each subscriber's set. (The beacon node's response object is owned by the fetcher and not a party.)

import (
	"context"
	"testing"
	"time"

	eth2api "github.com/attestantio/go-eth2-client/api"
	eth2v1 "github.com/attestantio/go-eth2-client/api/v1"
	eth2spec "github.com/attestantio/go-eth2-client/spec"
	"github.com/attestantio/go-eth2-client/spec/altair"
	eth2p0 "github.com/attestantio/go-eth2-client/spec/phase0"

	"github.com/obolnetwork/charon/app/eth2wrap"
	"github.com/obolnetwork/charon/core"
	"github.com/obolnetwork/charon/testutil"
	"github.com/obolnetwork/charon/zzverif/alias"
	"github.com/obolnetwork/charon/zzverif/enumx"
)

const c18pk = core.PubKey("0x8a1d7b8dd64e0aafe7ea7b6c95065c9364cf99d38470db679bdf5c9bd8b0e6cd5c7a3b0a6d4c2e3c7a5e1e9e2b1a7c3d")

type c18eth2 struct {
	eth2wrap.Client
	att      *eth2p0.AttestationData
	proposal *eth2api.VersionedProposal
	aggAtt   *eth2spec.VersionedAttestation
	contrib  *altair.SyncCommitteeContribution
}

func (c *c18eth2) ClientForAddress(string) eth2wrap.Client { return c }

func (*c18eth2) Spec(context.Context, *eth2api.SpecOpts) (*eth2api.Response[map[string]any], error) {
	return &eth2api.Response[map[string]any]{Data: map[string]any{
		"SECONDS_PER_SLOT": 12 * time.Second, "SLOTS_PER_EPOCH": uint64(32), "TARGET_AGGREGATORS_PER_COMMITTEE": uint64(16),
		"SYNC_COMMITTEE_SIZE": uint64(512), "SYNC_COMMITTEE_SUBNET_COUNT": uint64(4), "TARGET_AGGREGATORS_PER_SYNC_SUBCOMMITTEE": uint64(128),
	}}, nil
}

func (c *c18eth2) AttestationData(context.Context, *eth2api.AttestationDataOpts) (*eth2api.Response[*eth2p0.AttestationData], error) {
	return &eth2api.Response[*eth2p0.AttestationData]{Data: alias.DeepCopy(c.att)}, nil
}

func (c *c18eth2) Proposal(context.Context, *eth2api.ProposalOpts) (*eth2api.Response[*eth2api.VersionedProposal], error) {
	return &eth2api.Response[*eth2api.VersionedProposal]{Data: alias.DeepCopy(c.proposal)}, nil
}

func (c *c18eth2) AggregateAttestation(context.Context, *eth2api.AggregateAttestationOpts) (*eth2api.Response[*eth2spec.VersionedAttestation], error) {
	return &eth2api.Response[*eth2spec.VersionedAttestation]{Data: alias.DeepCopy(c.aggAtt)}, nil
}

func (c *c18eth2) SyncCommitteeContribution(_ context.Context, o *eth2api.SyncCommitteeContributionOpts) (*eth2api.Response[*altair.SyncCommitteeContribution], error) {
	x := alias.DeepCopy(c.contrib)
	x.Slot, x.SubcommitteeIndex, x.BeaconBlockRoot = o.Slot, o.SubcommitteeIndex, o.BeaconBlockRoot
	return &eth2api.Response[*altair.SyncCommitteeContribution]{Data: x}, nil
}

type c18fix struct {
	attDuty *eth2v1.AttesterDuty
	attData *eth2p0.AttestationData
	syncMsg core.SignedSyncMessage
}

func c18spec(t *testing.T, fx *c18fix, u alias.Unit, master any, cached bool) (alias.Spec, bool) {
	const slot = 123
	var (
		duty   core.Duty
		defSet func() core.DutyDefinitionSet
		cl     = &c18eth2{}
		path   string
		v2     bool
	)
	attDef := func() core.DutyDefinitionSet {
		d := *fx.attDuty
		d.CommitteeLength = 8 // below TARGET_AGGREGATORS_PER_COMMITTEE: every validator aggregates
		return core.DutyDefinitionSet{c18pk: core.NewAttesterDefinition(&d)}
	}
	switch u.Base() {
	case "AttestationData":
		duty, defSet, path = core.NewAttesterDuty(slot), attDef, "fetcher/Fetch:attester"
		d := master.(core.AttestationData).Data
		cl.att = &d
		if cached {
			path = "fetcher/FetchOnly+Fetch:attester"
		}
	case "VersionedProposal":
		duty, path = core.NewProposerDuty(slot), "fetcher/Fetch:proposer"
		proDuty := testutil.RandomProposerDuty(t)
		defSet = func() core.DutyDefinitionSet {
			return core.DutyDefinitionSet{c18pk: core.NewProposerDefinition(alias.DeepCopy(proDuty))}
		}
		p := master.(core.VersionedProposal).VersionedProposal
		cl.proposal = &p
	case "VersionedAggregatedAttestation":
		duty, defSet, path = core.NewAggregatorDuty(slot), attDef, "fetcher/Fetch:aggregator"
		a := master.(core.VersionedAggregatedAttestation).VersionedAttestation
		cl.aggAtt = &a
	case "SyncContribution", "SyncContributions":
		duty, path = core.NewSyncContributionDuty(slot), "fetcher/Fetch:sync_contribution"
		defSet = func() core.DutyDefinitionSet {
			return core.DutyDefinitionSet{c18pk: core.NewSyncCommitteeDefinition(&eth2v1.SyncCommitteeDuty{ValidatorIndex: 7,
				ValidatorSyncCommitteeIndices: []eth2p0.CommitteeIndex{5, 133}})} // subcommittees 0 and 1
		}
		switch x := master.(type) {
		case core.SyncContribution:
			c := x.SyncCommitteeContribution
			cl.contrib = &c
		case core.SyncContributions:
			c := x[0].SyncCommitteeContribution
			cl.contrib, v2 = &c, true
		}
	default:
		return alias.Spec{}, false
	}
	if cached && u.Base() != "AttestationData" {
		return alias.Spec{}, false
	}
	modes := []string{alias.SubArg}
	if cached {
		modes = append(modes, alias.Input)
	}
	return alias.Spec{Path: path, Type: u.Name, Modes: modes, Run: func(w *alias.World) {
		ctx := context.Background()
		f, err := New(cl, func(core.PubKey) string { return "0x0000000000000000000000000000000000000000" }, false, &GraffitiBuilder{}, 0, false)
		if err != nil {
			w.Fail("new: %v", err)
			return
		}
		f.RegisterAggSigDB(func(_ context.Context, d core.Duty, _ core.PubKey, sub core.SubcommitteeIndex) (core.SignedData, error) {
			switch d.Type {
			case core.DutyRandao:
				return testutil.RandomCoreSignedRandao(), nil
			case core.DutyPrepareAggregator:
				return testutil.RandomCoreBeaconCommitteeSelection(), nil
			case core.DutyPrepareSyncContribution:
				s := testutil.RandomCoreSyncCommitteeSelection()
				s.SubcommitteeIndex = uint64(sub)
				return s, nil
			case core.DutySyncMessage:
				return alias.DeepCopy(fx.syncMsg), nil
			}
			return nil, context.Canceled
		})
		f.RegisterAwaitAttData(func(context.Context, uint64, uint64) (*eth2p0.AttestationData, error) {
			return alias.DeepCopy(fx.attData), nil
		})
		f.RegisterSyncContributionV2(func(uint64) bool { return v2 })
		called := 0
		for _, n := range []string{"sub1", "sub2", "sub3"} {
			n := n
			f.Subscribe(func(_ context.Context, _ core.Duty, set core.UnsignedDataSet) error {
				called++
				w.Sub(n, set)
				return nil
			})
		}
		defs := defSet()
		w.Input("definition-set", defs)
		if cached {
			err := f.FetchOnly(ctx, duty, defs, "bn", cl.att.BeaconBlockRoot)
			w.Outcome("FetchOnly", err)
			w.MutateInputs()
			c, ok := f.attDataCache.Load(duty.Slot)
			if !ok {
				w.Fail("nothing cached: %v", err)
				return
			}
			w.Observe("fetcher.attDataCache(before Fetch)", c)
			defs = defSet()
			w.Input("definition-set(Fetch)", defs)
		}
		err = f.Fetch(ctx, duty, defs)
		w.Outcome("Fetch", err)
		if w.Mode == alias.Clean && (err != nil || called != 3) {
			w.Fail("subscribers called %d times: %v", called, err)
			return
		}
		if c, ok := f.attDataCache.Load(duty.Slot); ok { // still held by the fetcher
			w.Held("fetcher.attDataCache", c)
		}
		w.ObserveUnlessInputMode("definition-set(after)", defs)
		w.MutateInputs()
	}}, true
}

func TestVerifC18Fetcher(t *testing.T) {
	r := enumx.New(t, "C18")
	defer r.Finish()
	fx := &c18fix{attDuty: testutil.RandomAttestationDuty(t), attData: testutil.RandomAttestationDataPhase0(),
		syncMsg: core.NewSignedSyncMessage(testutil.RandomSyncCommitteeMessage())}
	for _, u := range alias.UnsignedUnits(t) {
		master := u.Gen()
		for _, cached := range []bool{false, true} {
			s, ok := c18spec(t, fx, u, master, cached)
			if !ok {
				continue
			}
			if !r.Mine() {
				continue
			}
			if r.Expired() {
				return
			}
			if !alias.Wanted(r, s.Path, s.Type) {
				continue
			}
			alias.Run(r, s)
		}
	}
}
