package sigagg_test

// C09, dimension "batch": the number of validators carried by ONE Aggregate call. Code that runs the validators of a
// call through a bounded pool, in chunks or through a size-dependent fast path changes behaviour only above some count.
// For N in {3,4,5,8,9,16,17,32,33,64} (quick: up to 33): the all-valid call, and the call in which exactly one
// validator's list is corrupt, with the corrupt validator at EVERY position of the map iteration order of the call (the
// harness ranges over the very map it hands to Aggregate, under the same pinned rotation, to learn that order; for
// N<=8 every rotation of the insertion order is pinned in turn), plus two corrupt validators for the smaller N.

import (
	"fmt"
	"runtime"
	"sort"
	"strings"

	eth2p0 "github.com/attestantio/go-eth2-client/spec/phase0"

	"github.com/obolnetwork/charon/core"
	"github.com/obolnetwork/charon/eth2util/signing"
	"github.com/obolnetwork/charon/tbls"
	"github.com/obolnetwork/charon/tbls/tblsconv"
	"github.com/obolnetwork/charon/zzverif/enumx"
)

const c09BatchMax = 64

var c09batchNs = []int{3, 4, 5, 8, 9, 16, 17, 32, 33, 64}

// batchVals: independent threshold keys of up to 64 validators, generated once per process.
func (f *c09fix) batchVals(n int) ([]c09val, error) {
	for len(f.bvals) < n {
		secret, err := tbls.GenerateSecretKey()
		if err != nil {
			return nil, err
		}
		pub, err := tbls.SecretToPublicKey(secret)
		if err != nil {
			return nil, err
		}
		shares, err := tbls.ThresholdSplit(secret, c09N, c09T)
		if err != nil {
			return nil, err
		}
		f.bvals = append(f.bvals, c09val{pub: pub, core: core.PubKeyFrom48Bytes(pub), shares: shares})
	}
	return f.bvals[:n], nil
}

// c09bmat is the material of one type for many validators: one payload per validator, built on demand.
type c09bmat struct {
	f     *c09fix
	ty    c09type
	cl    *c09cl // healthy client for the harness' own signing
	obj   map[int]core.Eth2SignedData
	root  map[int][32]byte
	lists map[string][]core.ParSignedData
}

func (f *c09fix) newBatchMat(ty c09type) *c09bmat {
	return &c09bmat{f: f, ty: ty, cl: &c09cl{f: f}, obj: map[int]core.Eth2SignedData{}, root: map[int][32]byte{}, lists: map[string][]core.ParSignedData{}}
}

func (m *c09bmat) object(v int) (core.Eth2SignedData, [32]byte, error) {
	if o, ok := m.obj[v]; ok {
		return o, m.root[v], nil
	}
	g, err := m.ty.Generate(m.f.t)
	if err != nil {
		return nil, [32]byte{}, err
	}
	sd, err := c09pin(g, m.f.spe, v, c09EpochMain)
	if err != nil {
		return nil, [32]byte{}, err
	}
	o, ok := sd.(core.Eth2SignedData)
	if !ok {
		return nil, [32]byte{}, fmt.Errorf("%T is not Eth2SignedData", sd)
	}
	r, err := sd.MessageRoot()
	if err != nil {
		return nil, [32]byte{}, err
	}
	m.obj[v], m.root[v] = o, r
	return o, r, nil
}

// c09batchKinds: the representative corruption classes of one validator's list (thorough adds the foreign list).
func c09batchKinds(thorough bool) []string {
	k := []string{"sig-over-altered", "other-validator-share", "too-few"}
	if thorough {
		k = append(k, "foreign-list")
	}
	return k
}

// list returns validator v's partial signature list [shares 1,2,3] of the given kind ("" = valid).
func (m *c09bmat) list(v int, kind string) ([]core.ParSignedData, error) {
	key := fmt.Sprintf("%d/%s", v, kind)
	if l, ok := m.lists[key]; ok {
		return l, nil
	}
	vals, err := m.f.batchVals(c09BatchMax)
	if err != nil {
		return nil, err
	}
	objOf := v
	if kind == "foreign-list" { // the neighbour's complete valid list under this validator's key
		objOf = (v + 1) % c09BatchMax
	}
	obj, root, err := m.object(objOf)
	if err != nil {
		return nil, err
	}
	ctx := m.f.ctx
	epoch, err := obj.Epoch(ctx, m.cl)
	if err != nil {
		return nil, err
	}
	sr, err := signing.GetDataRoot(ctx, m.cl, obj.DomainName(), epoch, root)
	if err != nil {
		return nil, err
	}
	shares := []int{1, 2, 3}
	if kind == "too-few" {
		shares = shares[:c09T-1]
	}
	var out []core.ParSignedData
	for i, s := range shares {
		signer, msg := vals[objOf].shares[s], sr
		if i == 1 {
			switch kind {
			case "other-validator-share":
				signer = vals[(v+1)%c09BatchMax].shares[s]
			case "sig-over-altered":
				alt, err := c09alter(obj)
				if err != nil {
					return nil, err
				}
				ar, err := alt.MessageRoot()
				if err != nil {
					return nil, err
				}
				if msg, err = signing.GetDataRoot(ctx, m.cl, obj.DomainName(), epoch, ar); err != nil {
					return nil, err
				}
			}
		}
		sig, err := tbls.Sign(signer, msg[:])
		if err != nil {
			return nil, err
		}
		p, err := obj.SetSignature(tblsconv.SigToCore(sig))
		if err != nil {
			return nil, err
		}
		if att, ok := p.(core.VersionedAttestation); ok {
			if (m.ty.Vidx == "first" && i == 0) || (m.ty.Vidx == "last" && i == len(shares)-1) {
				idx := eth2p0.ValidatorIndex(7)
				att.ValidatorIndex = &idx
			} else {
				att.ValidatorIndex = nil
			}
			p = att
		}
		out = append(out, core.ParSignedData{SignedData: p, ShareIdx: s})
	}
	m.lists[key] = out
	return out, nil
}

type c09bbad struct {
	Pos  int    `json:"iteration_position"` // 0-based position of the validator in the map iteration order of the call
	Kind string `json:"kind"`
}

type c09bcase struct {
	Mode   string    `json:"mode"` // "batch"
	Type   string    `json:"type"`
	N      int       `json:"validators_in_call"`
	MapRot int       `json:"maprot"`
	Bad    []c09bbad `json:"corrupt_validators"`
}

func (c c09bcase) String() string {
	var l []string
	for _, b := range c.Bad {
		l = append(l, fmt.Sprintf("%s@%d", b.Kind, b.Pos))
	}
	return fmt.Sprintf("batch: %s validators=%d maprot=%d corrupt=[%s]", c.Type, c.N, c.MapRot, strings.Join(l, ","))
}

func (c c09bcase) label() string {
	if len(c.Bad) == 0 {
		return "none"
	}
	var l []string
	for _, b := range c.Bad {
		l = append(l, b.Kind)
	}
	sort.Strings(l)
	return strings.Join(l, "+")
}

// c09mkset allocates the map on the heap through the runtime (whose hash seed the overlay pins); a map that does not escape
// is initialised inline by the compiler with a random seed.
//
//go:noinline
func c09mkset() map[core.PubKey][]core.ParSignedData {
	return make(map[core.PubKey][]core.ParSignedData)
}

type c09bres struct {
	out      c09out
	order    []int // validators in the iteration order of the call's map
	requests int   // Domain / GenesisDomain requests = validators whose aggregate reached verification
	stable   bool  // ranging twice over the map gave the same order
}

// run performs the one call on a fresh instance.
func (m *c09bmat) run(c c09bcase) (res c09bres, err error) {
	vals, err := m.f.batchVals(c09BatchMax)
	if err != nil {
		return res, err
	}
	in, err := m.f.newInst()
	if err != nil {
		return res, err
	}
	// The maps are created while the rotation (and with it the hash seed) is pinned: two maps that receive the same keys in
	// the same order then iterate in the same order. A probe map tells the order; the real map is built afresh with the
	// corrupt lists already in place (assigning to a key of a full 8-entry map would convert it to a table and reorder it).
	runtime.VerifSetMapRot(true, uint64(c.MapRot))
	defer runtime.VerifSetMapRot(false, 0)
	idx := map[core.PubKey]int{}
	for v := 0; v < c.N; v++ {
		idx[vals[v].core] = v
	}
	probe := c09mkset()
	for v := 0; v < c.N; v++ { // insertion order = validator order
		probe[vals[v].core] = nil
	}
	for pk := range probe {
		res.order = append(res.order, idx[pk])
	}
	kindOf := map[int]string{}
	for _, b := range c.Bad {
		if b.Pos < 0 || b.Pos >= c.N {
			return res, fmt.Errorf("position %d out of range", b.Pos)
		}
		kindOf[res.order[b.Pos]] = b.Kind
	}
	set := c09mkset()
	for v := 0; v < c.N; v++ {
		l, err := m.list(v, kindOf[v])
		if err != nil {
			return res, err
		}
		set[vals[v].core] = l
	}
	var real []int
	for pk := range set {
		real = append(real, idx[pk])
	}
	res.stable = fmt.Sprint(res.order) == fmt.Sprint(real)
	cctx := c09newCtx(m.f.ctx)
	in.cur = &res.out
	in.cl.begin(nil, cctx)
	func() {
		defer func() {
			if p := recover(); p != nil {
				err = fmt.Errorf("panic inside Aggregate: %v", p)
			}
		}()
		res.out.err = in.agg.Aggregate(cctx, core.Duty{Slot: 1, Type: m.ty.Duty}, set)
	}()
	for _, r := range in.cl.trace {
		if r == "Domain" || r == "GenesisDomain" {
			res.requests++
		}
	}
	return res, err
}

// verifyPublished: the safety half for one object handed to a subscriber under the key of validator v.
func (m *c09bmat) verifyPublished(v int, sd core.SignedData) (what, detail string) {
	f := m.f
	if _, ok := sd.(core.Eth2SignedData); !ok {
		return "type", fmt.Sprintf("published %T is not an eth2 signed object", sd)
	}
	dom, epoch, err := c09specOf(sd, f.spe)
	if err != nil {
		return "type", err.Error()
	}
	root, err := sd.MessageRoot()
	if err != nil {
		return "type", "message root: " + err.Error()
	}
	key := fmt.Sprintf("b%d/%s/%d/%x/%x", v, dom, epoch, root, []byte(sd.Signature()))
	ok, done := f.verified[key]
	if !done {
		domain, err := f.specDomain(dom, epoch)
		if err != nil {
			return "type", "domain: " + err.Error()
		}
		sr, err := (&eth2p0.SigningData{ObjectRoot: root, Domain: domain}).HashTreeRoot()
		if err != nil {
			return "type", "signing data: " + err.Error()
		}
		sig, err := tblsconv.SigFromCore(sd.Signature())
		ok = err == nil && tbls.Verify(f.bvals[v].pub, sr[:], sig) == nil
		if len(f.verified) > 1<<16 {
			f.verified = map[string]bool{}
		}
		f.verified[key] = ok
	}
	if !ok {
		return "signature", fmt.Sprintf("object published for validator %d (%T) does not verify under its group public key for its own message root, domain %s, epoch %d", v, sd, dom, epoch)
	}
	if root != m.root[v] {
		return "content", fmt.Sprintf("object published for validator %d has another message root than the one its honest partials were made over", v)
	}
	return "", ""
}

// judge applies the statement to the one call.
func (m *c09bmat) judge(c c09bcase, res c09bres) (viols []c09viol, class string) {
	pre := fmt.Sprintf("dim=batch n=%d ", c.N)
	label := c.label()
	idx := map[core.PubKey]int{}
	for v := 0; v < c.N; v++ {
		idx[m.f.bvals[v].core] = v
	}
	bad := map[int]string{}
	for _, b := range c.Bad {
		bad[res.order[b.Pos]] = b.Kind
	}
	perSub := map[int]map[int]bool{}
	badPublished := false
	for _, p := range res.out.pubs {
		v, ok := idx[p.pk]
		if !ok {
			viols = append(viols, c09viol{pre + "kind=published-invalid what=pubkey corr=" + label, "published under a public key that is not a validator of the call"})
			continue
		}
		if perSub[p.sub] == nil {
			perSub[p.sub] = map[int]bool{}
		}
		perSub[p.sub][v] = true
		if _, isBad := bad[v]; isBad {
			badPublished = true
		}
		if what, detail := m.verifyPublished(v, p.sd); what != "" {
			viols = append(viols, c09viol{fmt.Sprintf("%skind=published-invalid what=%s corr=%s", pre, what, label), detail})
		}
	}
	if len(c.Bad) > 0 {
		switch {
		case res.out.calls > 0:
			who := "bystanders-only"
			if badPublished {
				who = "corrupted-validator"
			}
			viols = append(viols, c09viol{fmt.Sprintf("%skind=bad-input-published corr=%s published=%s", pre, label, who),
				fmt.Sprintf("%d of the %d validators of the call were given fewer than %d valid distinct agreeing partial signatures, yet subscribers were called %d times with %d objects; Aggregate returned: %v",
					len(c.Bad), c.N, c09T, res.out.calls, len(res.out.pubs), res.out.err)})
		case res.out.err == nil:
			viols = append(viols, c09viol{fmt.Sprintf("%skind=bad-input-no-error corr=%s", pre, label),
				fmt.Sprintf("%d of the %d validators of the call were given fewer than %d valid distinct agreeing partial signatures and Aggregate returned nil", len(c.Bad), c.N, c09T)})
		}
	} else if res.out.calls > 0 {
		// a call publishes for all of its validators or for none: a subscriber that is called gets every validator of the call
		for s := 0; s < 2; s++ {
			if got := perSub[s]; len(got) != c.N {
				viols = append(viols, c09viol{pre + "kind=valid-batch-partially-published",
					fmt.Sprintf("all %d validators of the call supplied a valid threshold, but subscriber %d was handed objects for only %d of them", c.N, s, len(got))})
				break
			}
		}
	}
	outcome := "rejected"
	if res.out.calls > 0 {
		outcome = "published"
	}
	pos := "-"
	if len(c.Bad) == 1 {
		switch c.Bad[0].Pos {
		case 0:
			pos = "first"
		case c.N - 1:
			pos = "last"
		default:
			pos = "inner"
		}
	}
	class = fmt.Sprintf("batch|%s|n=%d|corr=%s|pos=%s|%s", c.Type, c.N, label, pos, outcome)
	return viols, class
}

func (m *c09bmat) eval(r *enumx.Run, c c09bcase) {
	res, err := m.run(c)
	if err != nil {
		r.NotExhaustive("harness: cannot run batch case " + c.Type + ": " + err.Error())
		r.Count("harness_case_failures", 1)
		return
	}
	viols, class := m.judge(c, res)
	r.Eval(class)
	r.Steps(1)
	r.Count("batch_cases", 1)
	r.Count(fmt.Sprintf("batch_cases_n=%02d", c.N), 1)
	r.Count("batch_validators_handed_to_aggregate", c.N)
	if !res.stable {
		r.Count("batch_map_iteration_order_not_stable", 1)
		r.NotExhaustive("harness: the call's map does not iterate in the order of the probe map under the pinned rotation and seed; positions of corrupt validators are not reliable")
	}
	pub := res.out.calls > 0
	switch {
	case len(c.Bad) == 0 && pub:
		r.Count("batch_all_valid_calls_published", 1)
		if len(res.out.pubs) == 2*c.N {
			r.Count("batch_all_valid_calls_with_all_n_validators_handed_to_both_subscribers", 1)
		}
		r.Count("batch_published_objects_independently_verified", len(res.out.pubs))
	case len(c.Bad) == 0:
		r.Count("batch_all_valid_calls_not_published", 1)
		r.Note(fmt.Sprintf("all-valid batch not accepted (no liveness claim): %s n=%d: %v", c.Type, c.N, res.out.err))
	case pub:
		r.Count("batch_corrupt_calls_published", 1)
	case res.out.err != nil:
		r.Count("batch_corrupt_calls_rejected_with_error", 1)
	}
	if len(c.Bad) == 1 && !pub {
		b := c.Bad[0]
		switch {
		case b.Pos == 0:
			r.Count("batch_corrupt_validator_first_in_iteration_order", 1)
		case b.Pos == c.N-1:
			r.Count("batch_corrupt_validator_last_in_iteration_order", 1)
		}
		if c.N > 16 && b.Pos >= 16 {
			r.Count("batch_corrupt_validator_beyond_position_16", 1)
		}
		// independent evidence of the position: validators verified before the call was abandoned
		want := b.Pos + 1
		if b.Kind == "too-few" {
			want = b.Pos // rejected before its own verification
		}
		if res.requests == want {
			r.Count("batch_position_confirmed_by_number_of_domain_requests", 1)
		} else {
			r.Count("batch_position_not_confirmed_by_number_of_domain_requests", 1)
		}
		r.Count("batch_validators_verified_before_the_corrupt_one", b.Pos)
	}
	if len(viols) == 0 {
		return
	}
	want := c09sigs(viols)
	for k := 0; k < 3; k++ {
		res2, err := m.run(c)
		if err != nil {
			r.Unconfirmed(c.String())
			return
		}
		if v2, _ := m.judge(c, res2); c09sigs(v2) != want {
			r.Unconfirmed(c.String())
			return
		}
	}
	for _, v := range viols {
		r.Violation(v.sig, v.desc+" ["+c.String()+fmt.Sprintf(" iteration order of validators=%v]", res.order), c)
	}
}

func c09runBatch(r *enumx.Run, f *c09fix, types []c09type, thorough bool) {
	maxN, maxPairN := 33, 5
	if thorough {
		maxN, maxPairN = 64, 9
	}
	kinds := c09batchKinds(thorough)
	sampled := false
	for _, ty := range types {
		if !thorough && !ty.Quick {
			continue
		}
		var m *c09bmat
		mat := func() *c09bmat {
			if m == nil {
				m = f.newBatchMat(ty)
			}
			return m
		}
		for _, n := range c09batchNs {
			if n > maxN {
				continue
			}
			rots := 1 // above 8 entries the order is hash based: one pinned start offset, every position enumerated
			if n <= 8 {
				rots = n
			}
			for ki, kind := range kinds {
				if !r.Mine() {
					continue
				}
				if r.Expired() {
					return
				}
				for rot := 0; rot < rots; rot++ {
					if ki == 0 {
						mat().eval(r, c09bcase{Mode: "batch", Type: ty.Name, N: n, MapRot: rot})
					}
					for p := 0; p < n; p++ {
						c := c09bcase{Mode: "batch", Type: ty.Name, N: n, MapRot: rot, Bad: []c09bbad{{p, kind}}}
						mat().eval(r, c)
						if !sampled && n > 8 && p > 8 {
							sampled = true
							r.Sample(c)
						}
					}
					if r.Expired() {
						return
					}
					if n > maxPairN {
						continue
					}
					// two corrupt validators: every pair of positions, this kind first x every representative kind second
					for p := 0; p < n; p++ {
						for q := p + 1; q < n; q++ {
							for _, k2 := range c09batchKinds(false) {
								mat().eval(r, c09bcase{Mode: "batch", Type: ty.Name, N: n, MapRot: rot, Bad: []c09bbad{{p, kind}, {q, k2}}})
							}
						}
					}
				}
			}
		}
	}
}

func c09replayBatch(r *enumx.Run, f *c09fix, types []c09type) {
	var c c09bcase
	if err := r.ReplayCase(&c); err != nil {
		r.Note("replay: " + err.Error())
		return
	}
	for _, ty := range types {
		if ty.Name == c.Type {
			f.newBatchMat(ty).eval(r, c)
			return
		}
	}
	r.Note("replay: unknown type " + c.Type)
}
