package sigagg

// C18 (signature aggregator): Aggregate with three subscribers. The partial signatures are real threshold BLS partial
// signatures (2 of 3, over a fixed message: C18 is not about signature validity, the injected verify function
// accepts). Parties: the map of partials handed in, each subscriber's aggregated set.

import (
	"context"
	"testing"

	"github.com/obolnetwork/charon/core"
	"github.com/obolnetwork/charon/tbls"
	"github.com/obolnetwork/charon/tbls/tblsconv"
	"github.com/obolnetwork/charon/zzverif/alias"
	"github.com/obolnetwork/charon/zzverif/enumx"
)

const c18pk = core.PubKey("0x8a1d7b8dd64e0aafe7ea7b6c95065c9364cf99d38470db679bdf5c9bd8b0e6cd5c7a3b0a6d4c2e3c7a5e1e9e2b1a7c3d")

func c18partials() (map[int]core.Signature, error) {
	secret, err := tbls.GenerateSecretKey()
	if err != nil {
		return nil, err
	}
	shares, err := tbls.ThresholdSplit(secret, 3, 2)
	if err != nil {
		return nil, err
	}
	out := map[int]core.Signature{}
	for idx, sh := range shares {
		sig, err := tbls.Sign(sh, []byte("c18 fixed message"))
		if err != nil {
			return nil, err
		}
		out[idx] = tblsconv.SigToCore(sig)
	}
	return out, nil
}

func c18spec(u alias.Unit, master core.SignedData, sigs map[int]core.Signature) alias.Spec {
	return alias.Spec{Path: "sigagg/Aggregate", Type: u.Name, Modes: []string{alias.SubArg}, Run: func(w *alias.World) {
		agg, err := New(2, func(context.Context, core.PubKey, core.SignedData) error { return nil })
		if err != nil {
			w.Fail("new: %v", err)
			return
		}
		for _, n := range []string{"sub1", "sub2", "sub3"} {
			n := n
			agg.Subscribe(func(_ context.Context, _ core.Duty, set core.SignedDataSet) error {
				w.Sub(n, set)
				return nil
			})
		}
		var pars []core.ParSignedData
		for _, idx := range []int{1, 2} {
			sd, err := alias.DeepCopy(master).SetSignature(append(core.Signature(nil), sigs[idx]...))
			if err != nil {
				w.Fail("set signature: %v", err)
				return
			}
			pars = append(pars, core.ParSignedData{SignedData: alias.DeepCopy(sd), ShareIdx: idx})
		}
		in := map[core.PubKey][]core.ParSignedData{c18pk: pars}
		w.Input("partials", in)
		err = agg.Aggregate(context.Background(), core.Duty{Slot: 123, Type: u.Duty}, in)
		w.Outcome("Aggregate", err)
		if err != nil && w.Mode == alias.Clean {
			w.Fail("aggregate: %v", err)
			return
		}
		w.ObserveUnlessInputMode("partials(after)", in)
		w.MutateInputs()
	}}
}

func TestVerifC18SigAgg(t *testing.T) {
	r := enumx.New(t, "C18")
	defer r.Finish()
	sigs, err := c18partials()
	if err != nil {
		r.Note("fixture: " + err.Error())
		return
	}
	for _, u := range alias.SignedUnits(t) {
		if u.Base() == "Signature" { // has no message root: Aggregate refuses it by design
			continue
		}
		if !r.Mine() {
			continue
		}
		if r.Expired() {
			return
		}
		s := c18spec(u, u.Gen().(core.SignedData), sigs)
		if !alias.Wanted(r, s.Path, s.Type) {
			continue
		}
		alias.Run(r, s)
	}
}
