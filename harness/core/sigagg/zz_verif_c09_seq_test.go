package sigagg_test

// C09, dimensions 2 and 3 (the single-call enumeration on a fresh Aggregator is in zz_verif_c09_test.go):
//
//   - operation sequences: ONE sigagg.Aggregator (and one verifier closure) receives every sequence of calls drawn
//     from a small call alphabet (valid / corrupted, same / other validator, same / other duty type, identical /
//     different payload, payload of another fork, replay of the signatures of another duty type with the identical
//     message root). Every call of the sequence is judged by the single-call oracle, plus a differential oracle:
//     published/rejected after a prefix == published/rejected on a fresh instance.
//   - environment faults: the eth2 client handed to sigagg.NewVerifier is a wrapper whose every method on the
//     verification path can be scripted to fail (error / context deadline / answer arrives after the deadline) at
//     its k-th invocation. A counting run discovers the invocations of a call, then every fault point is enumerated.
//   - both combined: one faulted call and one healthy call on the same instance, in either order.

import (
	"context"
	"errors"
	"fmt"
	"runtime"
	"sort"
	"strings"
	"sync"
	"time"

	eth2api "github.com/attestantio/go-eth2-client/api"
	eth2v1 "github.com/attestantio/go-eth2-client/api/v1"
	eth2p0 "github.com/attestantio/go-eth2-client/spec/phase0"

	"github.com/obolnetwork/charon/app/eth2wrap"
	"github.com/obolnetwork/charon/core"
	"github.com/obolnetwork/charon/core/sigagg"
	"github.com/obolnetwork/charon/eth2util/signing"
	"github.com/obolnetwork/charon/tbls"
	"github.com/obolnetwork/charon/zzverif/enumx"
)

// ---- scriptable context and eth2 client -----------------------------------------------------------------------

// c09ctx is a context with a deadline that the fault script lets pass at a chosen moment.
type c09ctx struct {
	context.Context
	mu       sync.Mutex
	done     chan struct{}
	err      error
	deadline time.Time
}

func c09newCtx(parent context.Context) *c09ctx {
	return &c09ctx{Context: parent, done: make(chan struct{}), deadline: time.Now().Add(time.Hour)}
}

func (c *c09ctx) Deadline() (time.Time, bool) { return c.deadline, true }
func (c *c09ctx) Done() <-chan struct{}       { return c.done }
func (c *c09ctx) Err() error {
	c.mu.Lock()
	defer c.mu.Unlock()
	return c.err
}
func (c *c09ctx) expire() {
	c.mu.Lock()
	defer c.mu.Unlock()
	if c.err == nil {
		c.err = context.DeadlineExceeded
		close(c.done)
	}
}

// c09fpt is one fault point: the K-th (1-based) invocation of Method during one Aggregate call.
//
//	error    - the request fails (beacon node answers 5xx)
//	deadline - the context deadline passes while the request is in flight: it fails with context.DeadlineExceeded
//	slow-ok  - the request is slow: it still returns the right answer, but the deadline has passed when it returns
//	           (every later request on that context fails, as in a real HTTP client)
type c09fpt struct {
	Method string `json:"method"`
	K      int    `json:"k"`
	Mode   string `json:"mode"`
}

var c09faultModes = []string{"error", "deadline", "slow-ok"}

func c09fptsLabel(fs []c09fpt) string {
	var l []string
	for _, f := range fs {
		l = append(l, f.Method+"/"+f.Mode)
	}
	return strings.Join(l, "+")
}

// c09cl is the eth2 client given to sigagg.NewVerifier in the sequence and fault dimensions. Healthy answers are the
// beaconmock's, served from memory. The embedded interface is nil on purpose: a method of the client that is not
// wrapped below cannot be faulted, so using one panics and is reported as a harness gap (never as a verdict).
type c09cl struct {
	eth2wrap.Client
	f        *c09fix
	script   []c09fpt
	cctx     *c09ctx
	trace    []string
	per      map[string]int
	fired    int
	ctxFails int
}

func (c *c09cl) begin(script []c09fpt, cctx *c09ctx) {
	c.script, c.cctx, c.trace, c.per, c.fired, c.ctxFails = script, cctx, nil, map[string]int{}, 0, 0
}

// gate counts the invocation and applies the script. after (may be nil) runs when the request returns.
func (c *c09cl) gate(ctx context.Context, method string) (after func(), err error) {
	if c.per == nil {
		c.per = map[string]int{}
	}
	c.per[method]++
	c.trace = append(c.trace, method)
	if err := ctx.Err(); err != nil { // a real client does not even send the request
		c.ctxFails++
		return nil, fmt.Errorf("eth2 %s: %w", method, err)
	}
	for _, p := range c.script {
		if p.Method != method || p.K != c.per[method] {
			continue
		}
		c.fired++
		switch p.Mode {
		case "error":
			return nil, errors.New("eth2 " + method + ": injected fault: 503 service unavailable")
		case "deadline":
			if c.cctx != nil {
				c.cctx.expire()
			}
			return nil, fmt.Errorf("eth2 %s: injected fault: %w", method, context.DeadlineExceeded)
		case "slow-ok":
			if c.cctx != nil {
				return c.cctx.expire, nil
			}
		}
	}
	return nil, nil
}

func (c *c09cl) Spec(ctx context.Context, _ *eth2api.SpecOpts) (*eth2api.Response[map[string]any], error) {
	after, err := c.gate(ctx, "Spec")
	if err != nil {
		return nil, err
	}
	if after != nil {
		defer after()
	}
	return &eth2api.Response[map[string]any]{Data: c.f.spec, Metadata: map[string]any{}}, nil
}

func (c *c09cl) Domain(ctx context.Context, dt eth2p0.DomainType, epoch eth2p0.Epoch) (eth2p0.Domain, error) {
	after, err := c.gate(ctx, "Domain")
	if err != nil {
		return eth2p0.Domain{}, err
	}
	if after != nil {
		defer after()
	}
	return c.f.clDomain(dt, epoch, false)
}

func (c *c09cl) GenesisDomain(ctx context.Context, dt eth2p0.DomainType) (eth2p0.Domain, error) {
	after, err := c.gate(ctx, "GenesisDomain")
	if err != nil {
		return eth2p0.Domain{}, err
	}
	if after != nil {
		defer after()
	}
	return c.f.clDomain(dt, 0, true)
}

func (c *c09cl) Genesis(ctx context.Context, opts *eth2api.GenesisOpts) (*eth2api.Response[*eth2v1.Genesis], error) {
	after, err := c.gate(ctx, "Genesis")
	if err != nil {
		return nil, err
	}
	if after != nil {
		defer after()
	}
	return c.f.bmock.Genesis(c.f.ctx, opts)
}

func (c *c09cl) ForkSchedule(ctx context.Context, opts *eth2api.ForkScheduleOpts) (*eth2api.Response[[]*eth2p0.Fork], error) {
	after, err := c.gate(ctx, "ForkSchedule")
	if err != nil {
		return nil, err
	}
	if after != nil {
		defer after()
	}
	return c.f.bmock.ForkSchedule(c.f.ctx, opts)
}

func (c *c09cl) Fork(ctx context.Context, opts *eth2api.ForkOpts) (*eth2api.Response[*eth2p0.Fork], error) {
	after, err := c.gate(ctx, "Fork")
	if err != nil {
		return nil, err
	}
	if after != nil {
		defer after()
	}
	return c.f.bmock.Fork(c.f.ctx, opts)
}

func (c *c09cl) SlotsPerEpoch(ctx context.Context) (uint64, error) {
	after, err := c.gate(ctx, "SlotsPerEpoch")
	if err != nil {
		return 0, err
	}
	if after != nil {
		defer after()
	}
	return c.f.spe, nil
}

func (c *c09cl) SlotDuration(ctx context.Context) (time.Duration, error) {
	after, err := c.gate(ctx, "SlotDuration")
	if err != nil {
		return 0, err
	}
	if after != nil {
		defer after()
	}
	return c.f.bmock.SlotDuration(c.f.ctx)
}

func (*c09cl) Address() string { return "c09-fault-client" }
func (*c09cl) IsActive() bool  { return true }
func (*c09cl) IsSynced() bool  { return true }

// clDomain: the beaconmock's answer, fetched once.
func (f *c09fix) clDomain(dt eth2p0.DomainType, epoch eth2p0.Epoch, genesis bool) (eth2p0.Domain, error) {
	key := fmt.Sprintf("%x/%d/%v", dt[:], epoch, genesis)
	if f.clDomains == nil {
		f.clDomains = map[string]eth2p0.Domain{}
	}
	if d, ok := f.clDomains[key]; ok {
		return d, nil
	}
	var d eth2p0.Domain
	var err error
	if genesis {
		d, err = f.bmock.GenesisDomain(f.ctx, dt)
	} else {
		d, err = f.bmock.Domain(f.ctx, dt, epoch)
	}
	if err != nil {
		return eth2p0.Domain{}, err
	}
	f.clDomains[key] = d
	return d, nil
}

// ---- one long-lived aggregator instance -------------------------------------------------------------------------

type c09inst struct {
	agg *sigagg.Aggregator
	cl  *c09cl
	cur *c09out
}

func (f *c09fix) newInst() (*c09inst, error) {
	in := &c09inst{cl: &c09cl{f: f}}
	agg, err := sigagg.New(c09T, sigagg.NewVerifier(in.cl))
	if err != nil {
		return nil, err
	}
	in.agg = agg
	for s := 0; s < 2; s++ {
		s := s
		agg.Subscribe(func(_ context.Context, _ core.Duty, set core.SignedDataSet) error {
			in.cur.calls++
			for pk, sd := range set {
				in.cur.pubs = append(in.cur.pubs, c09pub{s, pk, sd})
			}
			return nil
		})
	}
	return in, nil
}

// c09xcall is one call of the sequence / fault dimensions.
type c09xcall struct {
	c09case
	Payload int      `json:"payload,omitempty"` // 0 = the payload of the single-call dimension, 1 = its altered twin (honestly signed), 2 = payload in another fork
	Faults  []c09fpt `json:"faults,omitempty"`
}

func (c c09xcall) key() string {
	return fmt.Sprintf("%s payload=%d faults=%s", c.c09case.String(), c.Payload, c09fptsLabel(c.Faults))
}

type c09xcase struct {
	Mode  string     `json:"mode"` // seq | fault | seqfault
	Calls []c09xcall `json:"calls"`
}

func (x c09xcase) String() string {
	var l []string
	for _, c := range x.Calls {
		l = append(l, c.key())
	}
	return x.Mode + ": " + strings.Join(l, "  THEN  ")
}

type c09callres struct {
	out      c09out
	trace    []string
	fired    int
	ctxFails int
	roots    [2][][32]byte // message roots of the partials supplied per validator
}

// callOn performs one Aggregate call on the instance.
func (tf *c09tfix) callOn(in *c09inst, c c09xcall) (res c09callres, err error) {
	lists, err := tf.buildLists(c.c09case)
	if err != nil {
		return res, err
	}
	if res.roots, err = tf.rootsOf(c.c09case, lists); err != nil {
		return res, err
	}
	set := map[core.PubKey][]core.ParSignedData{}
	runtime.VerifSetMapRot(true, uint64(c.MapRot))
	for v := 0; v < 2; v++ {
		if c.Vals == 2 || v == c.Target {
			set[tf.f.vals[v].core] = lists[v]
		}
	}
	cctx := c09newCtx(tf.f.ctx)
	in.cur = &res.out
	in.cl.begin(c.Faults, cctx)
	func() {
		defer func() {
			if p := recover(); p != nil {
				err = fmt.Errorf("panic inside Aggregate (eth2 client method that the fault wrapper does not cover?): %v", p)
			}
			runtime.VerifSetMapRot(false, 0)
		}()
		// the same duty key for every call of the instance: the most aliasing any per-duty state could see
		res.out.err = in.agg.Aggregate(cctx, core.Duty{Slot: 1, Type: tf.ty.Duty}, set)
	}()
	res.trace, res.fired, res.ctxFails = in.cl.trace, in.cl.fired, in.cl.ctxFails
	in.cl.begin(nil, nil)
	return res, err
}

// rootsOf returns the message roots of all partials per validator (memoised per distinct list).
func (tf *c09tfix) rootsOf(c c09case, lists [2][]core.ParSignedData) (out [2][][32]byte, err error) {
	if tf.listRoots == nil {
		tf.listRoots = map[string][][32]byte{}
	}
	for v := range lists {
		if lists[v] == nil {
			continue
		}
		key := fmt.Sprintf("%d/%v/", v, c.List)
		if v == c.Target {
			key += fmt.Sprint(c.Corrs)
		}
		rs, ok := tf.listRoots[key]
		if !ok {
			for _, p := range lists[v] {
				r, err := p.MessageRoot()
				if err != nil {
					return out, err
				}
				rs = append(rs, r)
			}
			tf.listRoots[key] = rs
		}
		out[v] = rs
	}
	return out, nil
}

// ---- the environment of the sequence / fault dimensions ----------------------------------------------------------------

type c09env struct {
	r        *enumx.Run
	f        *c09fix
	thorough bool
	types    map[string]c09type
	fixes    map[string]*c09tfix
	fresh    map[string]bool     // verdict (published?) of a healthy call on a fresh instance
	traces   map[string][]string // eth2 invocations of a healthy call on a fresh instance
	methods  map[string]bool
}

func c09newEnv(r *enumx.Run, f *c09fix, types []c09type, thorough bool) *c09env {
	e := &c09env{r: r, f: f, thorough: thorough, types: map[string]c09type{}, fixes: map[string]*c09tfix{},
		fresh: map[string]bool{}, traces: map[string][]string{}, methods: map[string]bool{}}
	for _, ty := range types {
		e.types[ty.Name] = ty
	}
	return e
}

const (
	c09Randao = "randao"
	c09BCSel  = "beaconcommitteeselection"
)

// fix returns the material of a type. randao and beacon committee selection are built as partners: the selection's
// slot number equals the randao's epoch number, so both objects have the identical message root (hash tree root of one
// uint64) under different domains - what one duty's partial signatures sign can be replayed as the other duty.
func (e *c09env) fix(name string) (*c09tfix, error) {
	if tf, ok := e.fixes[name]; ok {
		if tf == nil {
			return nil, fmt.Errorf("type %s could not be built", name)
		}
		return tf, nil
	}
	ty, ok := e.types[name]
	if !ok {
		return nil, fmt.Errorf("unknown type %s", name)
	}
	var tf *c09tfix
	var err error
	spe := e.f.spe
	// the shared number must be an epoch (randao) and a slot whose epoch (selection) that both lie in another fork than
	// c09EpochWrong, else the wrong-epoch corruptions would not be corruptions
	const aliasBase = 40000
	randaoEpoch := func(v int) uint64 { return aliasBase + 2*uint64(v) } // as pinned by c09pin
	switch name {
	case c09Randao:
		if tf, err = e.f.newTypeFixAt(ty, aliasBase, nil); err == nil {
			tf.xdom = signing.DomainSelectionProof
			tf.xepoch = func(v int) eth2p0.Epoch { return eth2p0.Epoch(randaoEpoch(v) / spe) }
		}
	case c09BCSel:
		tf, err = e.f.newTypeFixAt(ty, c09EpochMain, func(sd core.SignedData, v int) core.SignedData {
			d := sd.(core.BeaconCommitteeSelection)
			d.Slot = eth2p0.Slot(randaoEpoch(v))
			return d
		})
		if err == nil {
			tf.xdom = signing.DomainRandao
			tf.xepoch = func(v int) eth2p0.Epoch { return eth2p0.Epoch(randaoEpoch(v)) }
		}
	default:
		tf, err = e.f.newTypeFix(ty)
	}
	if err != nil {
		e.fixes[name] = nil
		return nil, err
	}
	e.fixes[name] = tf
	if name == c09Randao || name == c09BCSel {
		for _, ep := range []eth2p0.Epoch{eth2p0.Epoch(randaoEpoch(0)), eth2p0.Epoch(randaoEpoch(0) / spe)} {
			d1, err1 := e.f.specDomain("DOMAIN_RANDAO", ep)
			d2, err2 := e.f.specDomain("DOMAIN_RANDAO", c09EpochWrong)
			if err1 != nil || err2 != nil || d1 == d2 {
				e.fixes[name] = nil
				return nil, fmt.Errorf("aliased epoch %d is not in another fork than the wrong-epoch decoy", ep)
			}
		}
	}
	if name == c09Randao || name == c09BCSel { // the aliasing must be real, else "all-cross-duty" is vacuous
		other := c09BCSel
		if name == c09BCSel {
			other = c09Randao
		}
		if o, ok := e.fixes[other]; ok && o != nil && (o.root[0] != tf.root[0] || o.root[1] != tf.root[1]) {
			return nil, fmt.Errorf("randao and beacon committee selection do not share their message roots")
		}
	}
	return tf, nil
}

// view returns the material for another payload of the same type.
func (e *c09env) view(name string, payload int) (*c09tfix, error) {
	tf, err := e.fix(name)
	if err != nil || payload == 0 {
		return tf, err
	}
	if v, ok := tf.views[payload]; ok {
		return v, nil
	}
	var v *c09tfix
	switch payload {
	case 1: // the altered twin, honestly signed: same type, validator and epoch, another message root
		v = &c09tfix{f: tf.f, ty: tf.ty, sr: map[string][32]byte{}, sigs: map[string]tbls.Signature{}, parts: map[string]core.SignedData{}}
		v.obj, v.alt, v.root, v.altRoot = tf.alt, tf.obj, tf.altRoot, tf.root
	case 2: // a payload whose signing epoch lies in another fork of the schedule
		if v, err = e.f.newTypeFixAt(tf.ty, c09EpochWrong, nil); err != nil {
			return nil, err
		}
	default:
		return nil, fmt.Errorf("unknown payload %d", payload)
	}
	if tf.views == nil {
		tf.views = map[int]*c09tfix{}
	}
	tf.views[payload] = v
	return v, nil
}

func (e *c09env) drop(name string) {
	if name != c09Randao && name != c09BCSel { // the partner types are needed by every alphabet
		delete(e.fixes, name)
	}
}

// ---- call alphabets --------------------------------------------------------------------------------------------------

var c09seqList = []int{1, 2, 3} // a size-t list: every corruption leaves fewer than t valid distinct agreeing shares

// representative single-partial corruption classes (position 1 = the middle partial)
func c09repSingles() [][]c09corr {
	return [][]c09corr{
		{{Kind: "other-validator-share", Pos: 1}},
		{{Kind: "sig-over-altered", Pos: 1}},
		{{Kind: "zero", Pos: 1}},
		{{Kind: "wrong-domain", Pos: 1}},
		{{Kind: "shareidx", Pos: 1, Arg: c09seqList[2]}}, // relabelled to the index of the next partial: a repeated share index
	}
}

func c09wholes(ty c09type, all bool) [][]c09corr {
	kinds := []string{"all-foreign-list", "all-sig-over-altered", "all-zero-domain"}
	if !ty.NoEpoch {
		kinds = append(kinds, "all-wrong-epoch")
	}
	if all {
		kinds = append(kinds, "all-other-validator", "all-wrong-domain")
	}
	var out [][]c09corr
	for _, k := range kinds {
		out = append(out, []c09corr{{Kind: k}})
	}
	return out
}

// c09allSingles: every single-partial corruption class of the single-call dimension (positions: all, or only pos 1).
func c09allSingles(ty c09type, allPos bool) [][]c09corr {
	var out [][]c09corr
	for _, cs := range c09corruptions(ty, c09seqList, false) {
		if len(cs) != 1 || c09isAll(cs[0].Kind) {
			continue
		}
		if allPos || cs[0].Pos == 1 {
			out = append(out, cs)
		}
	}
	return out
}

// c09partner is the "other duty type" of the alphabet.
func c09partner(x string) string {
	if x == c09Randao {
		return c09BCSel
	}
	return c09Randao
}

// c09alphabet returns the call alphabet for primary type x. full=false: the representative alphabet.
func c09alphabet(x, y c09type, full bool) []c09xcall {
	var out []c09xcall
	add := func(ty c09type, payload, vals, target int, corrs []c09corr) {
		out = append(out, c09xcall{c09case: c09case{Type: ty.Name, Vals: vals, Target: target, List: c09seqList, Corrs: corrs}, Payload: payload})
	}
	singles := func(ty c09type, allPos bool) [][]c09corr {
		if full {
			return c09allSingles(ty, allPos)
		}
		return c09repSingles()
	}
	// (a) primary type, validator 0, payload A
	add(x, 0, 1, 0, nil)
	for _, cs := range singles(x, true) {
		add(x, 0, 1, 0, cs)
	}
	for _, cs := range c09wholes(x, full) {
		add(x, 0, 1, 0, cs)
	}
	if x.Name == c09Randao || x.Name == c09BCSel {
		add(x, 0, 1, 0, []c09corr{{Kind: "all-cross-duty"}})
	}
	// (b) same validator, payload B (another message root). In this view "sig-over-altered" is a signature over payload A,
	// i.e. exactly a partial signature that is valid in the calls of (a).
	add(x, 1, 1, 0, nil)
	if full {
		for _, cs := range singles(x, false) {
			add(x, 1, 1, 0, cs)
		}
		for _, cs := range c09wholes(x, true) {
			add(x, 1, 1, 0, cs)
		}
	} else {
		add(x, 1, 1, 0, []c09corr{{Kind: "sig-over-altered", Pos: 1}})
		add(x, 1, 1, 0, []c09corr{{Kind: "all-sig-over-altered"}})
	}
	// (c) the other validator
	add(x, 0, 1, 1, nil)
	if full {
		for _, cs := range singles(x, false) {
			add(x, 0, 1, 1, cs)
		}
		for _, cs := range c09wholes(x, true) {
			add(x, 0, 1, 1, cs)
		}
	} else {
		add(x, 0, 1, 1, []c09corr{{Kind: "other-validator-share", Pos: 1}})
		add(x, 0, 1, 1, []c09corr{{Kind: "all-foreign-list"}}) // validator 0's valid list (same root as in (a)) under validator 1's key
	}
	// (d) both validators in one call
	add(x, 0, 2, 0, nil)
	if full {
		for target := 0; target < 2; target++ {
			for _, cs := range singles(x, false) {
				add(x, 0, 2, target, cs)
			}
			for _, cs := range c09wholes(x, true) {
				add(x, 0, 2, target, cs)
			}
		}
	} else {
		add(x, 0, 2, 0, []c09corr{{Kind: "other-validator-share", Pos: 1}})
		add(x, 0, 2, 1, []c09corr{{Kind: "sig-over-altered", Pos: 1}})
	}
	// (e) another duty type, same validator
	add(y, 0, 1, 0, nil)
	if full {
		for _, cs := range singles(y, false) {
			add(y, 0, 1, 0, cs)
		}
		for _, cs := range c09wholes(y, true) {
			add(y, 0, 1, 0, cs)
		}
	} else {
		add(y, 0, 1, 0, []c09corr{{Kind: "other-validator-share", Pos: 1}})
	}
	// (f) same type and validator, payload whose epoch lies in another fork
	if !x.NoEpoch {
		add(x, 2, 1, 0, nil)
		if full {
			add(x, 2, 1, 0, []c09corr{{Kind: "other-validator-share", Pos: 1}})
		}
	}
	return out
}

// ---- running and judging -------------------------------------------------------------------------------------------------

// runX runs the calls of a case on one fresh instance.
func (e *c09env) runX(x c09xcase) ([]c09callres, error) {
	in, err := e.f.newInst()
	if err != nil {
		return nil, err
	}
	out := make([]c09callres, 0, len(x.Calls))
	for _, c := range x.Calls {
		tf, err := e.view(c.Type, c.Payload)
		if err != nil {
			return nil, err
		}
		res, err := tf.callOn(in, c)
		if err != nil {
			return nil, err
		}
		out = append(out, res)
	}
	return out, nil
}

// baseline: verdict and eth2 invocation trace of the healthy call on a fresh instance.
func (e *c09env) baseline(c c09xcall) (published bool, trace []string, err error) {
	c.Faults = nil
	k := c.key()
	if p, ok := e.fresh[k]; ok {
		return p, e.traces[k], nil
	}
	res, err := e.runX(c09xcase{Mode: "fresh", Calls: []c09xcall{c}})
	if err != nil {
		return false, nil, err
	}
	e.fresh[k], e.traces[k] = res[0].out.calls > 0, res[0].trace
	e.r.Count("x_counting_runs_on_fresh_instance", 1)
	for _, m := range res[0].trace {
		if !e.methods[m] {
			e.methods[m] = true
		}
		e.r.Count("x_counting_run_invocations_"+m, 1)
	}
	return e.fresh[k], e.traces[k], nil
}

// relation of call i to the earlier calls of the sequence.
type c09rel struct{ sameValSameRoot, otherValSameRoot, otherDutySameRoot, sameValOtherRoot bool }

func (q c09rel) String() string {
	var l []string
	if q.sameValSameRoot {
		l = append(l, "same-validator-same-root")
	}
	if q.otherDutySameRoot {
		l = append(l, "other-duty-same-root")
	}
	if q.otherValSameRoot {
		l = append(l, "other-validator-same-root")
	}
	if q.sameValOtherRoot {
		l = append(l, "same-validator-other-root")
	}
	if len(l) == 0 {
		return "unrelated"
	}
	return strings.Join(l, "+")
}

func (e *c09env) relation(x c09xcase, res []c09callres, i int) c09rel {
	var q c09rel
	for j := 0; j < i; j++ {
		sameDuty := e.types[x.Calls[j].Type].Duty == e.types[x.Calls[i].Type].Duty
		for v := 0; v < 2; v++ {
			for w := 0; w < 2; w++ {
				for _, a := range res[i].roots[v] {
					for _, b := range res[j].roots[w] {
						switch {
						case a == b && v == w && sameDuty:
							q.sameValSameRoot = true
						case a == b && !sameDuty:
							q.otherDutySameRoot = true
						case a == b:
							q.otherValSameRoot = true
						case v == w:
							q.sameValOtherRoot = true
						}
					}
				}
			}
		}
	}
	return q
}

type c09xverdict struct {
	viols   []c09viol
	class   string
	rels    []c09rel
	differs int
}

// judgeX applies the statement to every call of the case and the differential oracle to every healthy call.
func (e *c09env) judgeX(x c09xcase, res []c09callres) (c09xverdict, error) {
	var vd c09xverdict
	var pattern []string
	for i, c := range x.Calls {
		tf, err := e.view(c.Type, c.Payload)
		if err != nil {
			return vd, err
		}
		rel := e.relation(x, res, i)
		vd.rels = append(vd.rels, rel)
		ctxt := "dim=" + x.Mode // the position of the call is in the description and the replay file, not in the signature
		if len(x.Calls) > 1 {
			ctxt += " history=" + rel.String()
			if i == 0 {
				ctxt = "dim=" + x.Mode + " history=first-call"
			}
		}
		if len(c.Faults) > 0 {
			ctxt += " fault=" + c09fptsLabel(c.Faults)
		} else if x.Mode == "seqfault" {
			ctxt += " fault=in-other-call"
		}
		vs, _ := tf.judge(c.c09case, res[i].out)
		for _, v := range vs {
			vd.viols = append(vd.viols, c09viol{ctxt + " " + v.sig, fmt.Sprintf("call %d of %d: %s", i+1, len(x.Calls), v.desc)})
		}
		pub := res[i].out.calls > 0
		if pub {
			pattern = append(pattern, "P")
		} else {
			pattern = append(pattern, "R")
		}
		if len(c.Faults) == 0 && i > 0 {
			fresh, _, err := e.baseline(c)
			if err != nil {
				return vd, err
			}
			if fresh != pub {
				vd.differs++
				w := map[bool]string{true: "published", false: "rejected"}
				vd.viols = append(vd.viols, c09viol{
					fmt.Sprintf("%s kind=history-dependent-verdict corr=%s fresh=%s here=%s", ctxt, c.corrLabel(), w[fresh], w[pub]),
					fmt.Sprintf("call %d of the sequence is %s on a fresh aggregator but %s after the earlier calls on the same instance (Aggregate returned: %v)",
						i+1, w[fresh], w[pub], res[i].out.err)})
			}
		}
	}
	last := x.Calls[len(x.Calls)-1]
	vd.class = fmt.Sprintf("%s|%s|len=%d|last=%s,validators=%d,payload=%d|history=%s|%s", x.Mode, x.Calls[0].Type, len(x.Calls),
		last.corrLabel(), last.Vals, last.Payload, vd.rels[len(vd.rels)-1], strings.Join(pattern, ""))
	if x.Mode != "seq" {
		var fl []string
		for _, c := range x.Calls {
			for _, f := range c.Faults {
				fl = append(fl, f.Method+"/"+f.Mode)
			}
		}
		sort.Strings(fl)
		vd.class += "|faults=" + strings.Join(fl, "+")
	}
	return vd, nil
}

// evalX runs, judges, confirms and reports one case of the sequence / fault dimensions.
func (e *c09env) evalX(x c09xcase) {
	r := e.r
	res, err := e.runX(x)
	var vd c09xverdict
	if err == nil {
		vd, err = e.judgeX(x, res)
	}
	if err != nil {
		r.NotExhaustive("harness: cannot run case of dimension " + x.Mode + " (" + x.Calls[0].Type + "): " + err.Error()) // skipped, never an alarm
		r.Count("harness_case_failures", 1)
		return
	}
	r.Eval(vd.class)
	r.Steps(len(x.Calls))
	p := x.Mode + "_"
	r.Count(p+"cases", 1)
	var anyRep, anyOtherVal, anyOtherDuty bool
	for i, c := range x.Calls {
		pub := res[i].out.calls > 0
		r.Count(p+"calls", 1)
		if pub {
			r.Count(p+"calls_published", 1)
			r.Count(p+"published_objects_independently_verified", len(res[i].out.pubs))
		} else if res[i].out.err != nil {
			r.Count(p+"calls_rejected_with_error", 1)
		} else {
			r.Count(p+"calls_nil_error_nothing_published", 1)
		}
		if i > 0 {
			anyRep = anyRep || vd.rels[i].sameValSameRoot
			anyOtherVal = anyOtherVal || vd.rels[i].otherValSameRoot
			anyOtherDuty = anyOtherDuty || vd.rels[i].otherDutySameRoot
			if len(c.Faults) == 0 {
				r.Count(p+"calls_after_a_prefix_compared_with_fresh_instance", 1)
				if vd.rels[i].sameValSameRoot && pub {
					r.Count(p+"repeated_root_calls_published", 1)
				}
				if vd.rels[i].sameValSameRoot && !pub {
					r.Count(p+"repeated_root_calls_rejected", 1)
				}
			}
		}
		if len(c.Faults) > 0 {
			r.Count(p+"faulted_calls", 1)
			r.Count(p+"points_scripted", len(c.Faults))
			r.Count(p+"points_fired", res[i].fired)
			if res[i].fired == 0 {
				r.Count(p+"faulted_calls_where_no_fault_fired", 1)
			}
			if res[i].ctxFails > 0 {
				r.Count(p+"faulted_calls_with_later_requests_failing_on_the_expired_context", 1)
			}
			switch {
			case pub:
				r.Count(p+"faulted_calls_published", 1)
			case res[i].out.err != nil:
				r.Count(p+"faulted_calls_returned_error", 1)
			default:
				r.Count(p+"faulted_calls_nil_error_nothing_published", 1)
			}
			for _, f := range c.Faults {
				r.Count(p+"scripted_"+f.Method+"_"+f.Mode, 1)
			}
		}
	}
	if len(x.Calls) > 1 {
		if anyRep {
			r.Count(p+"sequences_with_repeated_root_for_the_same_validator_and_duty", 1)
		}
		if anyOtherVal {
			r.Count(p+"sequences_with_same_root_under_another_validator", 1)
		}
		if anyOtherDuty {
			r.Count(p+"sequences_with_same_root_under_another_duty_type", 1)
		}
	}
	if len(vd.viols) == 0 {
		return
	}
	want := c09sigs(vd.viols)
	for k := 0; k < 3; k++ { // confirm: same verdict three more times
		res2, err := e.runX(x)
		if err != nil {
			r.Unconfirmed(x.String())
			return
		}
		if v2, err := e.judgeX(x, res2); err != nil || c09sigs(v2.viols) != want {
			r.Unconfirmed(x.String())
			return
		}
	}
	for _, v := range vd.viols {
		r.Violation(v.sig, v.desc+" ["+x.String()+"]", x)
	}
}

// faultScripts enumerates the fault scripts over the invocations of a healthy trace: every single fault point x mode,
// and (pairs) every two fault points x mode x mode.
func c09faultScripts(trace []string, pairs bool) [][]c09fpt {
	per := map[string]int{}
	var pts []c09fpt
	for _, m := range trace {
		per[m]++
		pts = append(pts, c09fpt{Method: m, K: per[m]})
	}
	var out [][]c09fpt
	for _, p := range pts {
		for _, mode := range c09faultModes {
			out = append(out, []c09fpt{{p.Method, p.K, mode}})
		}
	}
	if pairs {
		for i := range pts {
			for j := i + 1; j < len(pts); j++ {
				for _, m1 := range c09faultModes {
					for _, m2 := range c09faultModes {
						out = append(out, []c09fpt{{pts[i].Method, pts[i].K, m1}, {pts[j].Method, pts[j].K, m2}})
					}
				}
			}
		}
	}
	return out
}

// ---- enumeration ------------------------------------------------------------------------------------------------------------

// c09faultInputs: the inputs of the fault dimension for one type: call shapes x {valid, one corrupt partial per class, whole-list}.
func c09faultInputs(ty c09type, thorough bool) []c09xcall {
	type shape struct{ vals, target, rot int }
	shapes := []shape{{1, 0, 0}, {2, 0, 0}, {2, 1, 0}}
	if thorough {
		shapes = []shape{{1, 0, 0}, {1, 1, 0}, {2, 0, 0}, {2, 0, 1}, {2, 1, 0}, {2, 1, 1}}
	}
	corrs := [][]c09corr{nil}
	if thorough {
		corrs = append(corrs, c09allSingles(ty, true)...)
	} else {
		corrs = append(corrs, c09repSingles()...)
	}
	corrs = append(corrs, c09wholes(ty, true)...)
	var out []c09xcall
	for _, cs := range corrs {
		for _, s := range shapes {
			out = append(out, c09xcall{c09case: c09case{Type: ty.Name, Vals: s.vals, Target: s.target, List: c09seqList, Corrs: cs, MapRot: s.rot}})
		}
	}
	return out
}

func c09runX(r *enumx.Run, f *c09fix, types []c09type, thorough bool) {
	e := c09newEnv(r, f, types, thorough)
	defer func() {
		var ms []string
		for m := range e.methods {
			ms = append(ms, m)
		}
		sort.Strings(ms)
		if len(ms) > 0 {
			r.Note("eth2 client methods invoked on the verification path (discovered by counting runs): " + strings.Join(ms, ", "))
		}
	}()
	seqLen := 2
	if thorough {
		seqLen = 3
	}
	sampled := map[string]bool{}
	sample := func(x c09xcase) {
		if !sampled[x.Mode] {
			sampled[x.Mode] = true
			r.Sample(x)
		}
	}
	for _, x := range types {
		if !thorough && !x.Quick {
			continue
		}
		y := e.types[c09partner(x.Name)]
		rep := c09alphabet(x, y, false)

		// -- dimension "seq": every sequence of seqLen calls over the representative alphabet ----------------
		var rec func(prefix []c09xcall)
		rec = func(prefix []c09xcall) {
			if len(prefix) == seqLen {
				xc := c09xcase{Mode: "seq", Calls: append([]c09xcall(nil), prefix...)}
				e.evalX(xc)
				sample(xc)
				return
			}
			for _, c := range rep {
				if r.Expired() {
					return
				}
				rec(append(prefix, c))
			}
		}
		for _, first := range rep {
			if !r.Mine() {
				continue
			}
			if r.Expired() {
				return
			}
			rec([]c09xcall{first})
		}
		// thorough: every ordered pair over the full alphabet (all corruption classes)
		if thorough {
			full := c09alphabet(x, y, true)
			for _, first := range full {
				if !r.Mine() {
					continue
				}
				for _, second := range full {
					if r.Expired() {
						return
					}
					e.evalX(c09xcase{Mode: "seq", Calls: []c09xcall{first, second}})
				}
			}
		}

		// -- dimension "fault": every fault point (thorough: every pair) of every input ------------------------
		for _, in := range c09faultInputs(x, thorough) {
			if !r.Mine() {
				continue
			}
			if r.Expired() {
				return
			}
			_, trace, err := e.baseline(in)
			if err != nil {
				r.NotExhaustive("harness: counting run failed for " + x.Name + ": " + err.Error())
				r.Count("harness_case_failures", 1)
				continue
			}
			r.Count("fault_inputs", 1)
			r.Count("fault_points_discovered", len(trace))
			if len(trace) == 0 {
				r.Count("fault_inputs_rejected_before_any_eth2_request", 1)
				continue
			}
			for _, script := range c09faultScripts(trace, thorough) {
				c := in
				c.Faults = script
				xc := c09xcase{Mode: "fault", Calls: []c09xcall{c}}
				e.evalX(xc)
				sample(xc)
			}
		}

		// -- dimension "seqfault": one faulted and one healthy call on the same instance, either order --------
		// quick: the faulted call is the valid call; thorough: any call of the representative alphabet.
		for _, faulted := range rep {
			if !thorough && (len(faulted.Corrs) > 0 || faulted.Payload != 0 || faulted.Vals != 1 || faulted.Target != 0 || faulted.Type != x.Name) {
				continue
			}
			if !r.Mine() {
				continue
			}
			_, trace, err := e.baseline(faulted)
			if err != nil {
				r.NotExhaustive("harness: counting run failed for " + x.Name + ": " + err.Error())
				r.Count("harness_case_failures", 1)
				continue
			}
			for _, script := range c09faultScripts(trace, false) {
				fc := faulted
				fc.Faults = script
				for _, healthy := range rep {
					if r.Expired() {
						return
					}
					xc := c09xcase{Mode: "seqfault", Calls: []c09xcall{fc, healthy}}
					e.evalX(xc)
					sample(xc)
					e.evalX(c09xcase{Mode: "seqfault", Calls: []c09xcall{healthy, fc}})
				}
			}
		}
		e.drop(x.Name)
	}
}

// c09replayX replays a case of the sequence / fault dimensions.
func c09replayX(r *enumx.Run, f *c09fix, types []c09type) {
	var x c09xcase
	if err := r.ReplayCase(&x); err != nil || len(x.Calls) == 0 {
		r.Note(fmt.Sprintf("replay: cannot read the case: %v", err))
		return
	}
	c09newEnv(r, f, types, enumx.Thorough()).evalX(x)
}
