package sigagg_test

// C09 – the signature aggregator publishes only group-valid signatures over the signed payload, and
// publishes nothing at all for a call that does not supply a threshold of valid, distinct, agreeing
// partial signatures for every validator (DESIGN.md §5 C09).
//
// Subject: the real sigagg.New(t, sigagg.NewVerifier(eth2Cl)) with real BLS threshold keys. The oracle
// re-verifies everything handed to the subscribers independently of the code under test: domain name and
// epoch come from a harness-side table keyed by the published object's type, the signing root is composed
// here (SigningData{root, domain}.HashTreeRoot) and checked with tbls.Verify under the group public key.

import (
	"context"
	"fmt"
	"os"
	"reflect"
	"runtime"
	"sort"
	"strings"
	"testing"

	eth2api "github.com/attestantio/go-eth2-client/api"
	eth2spec "github.com/attestantio/go-eth2-client/spec"
	"github.com/attestantio/go-eth2-client/spec/electra"
	eth2p0 "github.com/attestantio/go-eth2-client/spec/phase0"

	"github.com/obolnetwork/charon/core"
	"github.com/obolnetwork/charon/core/sigagg"
	"github.com/obolnetwork/charon/eth2util/signing"
	"github.com/obolnetwork/charon/tbls"
	"github.com/obolnetwork/charon/tbls/tblsconv"
	"github.com/obolnetwork/charon/testutil"
	"github.com/obolnetwork/charon/testutil/beaconmock"
	"github.com/obolnetwork/charon/zzverif/enumx"
)

const (
	c09N = 4
	c09T = 3

	// Epochs pinned into the objects. The mock's fork schedule has forks at epochs 0 (deneb), 2048
	// (electra) and 50688 (fulu): the epoch the signing domain must be derived from lies in another fork
	// than every other epoch-like field of the object, so using the wrong field changes the domain.
	c09EpochMain  = 3000
	c09EpochLow   = 100
	c09EpochHigh  = 60000
	c09EpochWrong = 100 // "signed under an epoch of another fork" corruption
)

// ---- object types ---------------------------------------------------------------------------------

type c09type struct {
	Name     string
	Quick    bool
	Duty     core.DutyType
	Vidx     string // attestations: which partial of a list carries the ValidatorIndex: "none", "first", "last"
	NoEpoch  bool   // domain does not depend on the epoch (builder registration)
	Generate func(t *testing.T) (core.SignedData, error)
}

var c09versions = []eth2spec.DataVersion{
	eth2spec.DataVersionPhase0, eth2spec.DataVersionAltair, eth2spec.DataVersionBellatrix, eth2spec.DataVersionCapella,
	eth2spec.DataVersionDeneb, eth2spec.DataVersionElectra, eth2spec.DataVersionFulu,
}

func c09fieldName(v eth2spec.DataVersion) string {
	s := v.String()
	return strings.ToUpper(s[:1]) + s[1:]
}

// c09set sets the exported field `name` of the struct pointed to by ptr.
func c09set(ptr any, name string, val any) error {
	f := reflect.ValueOf(ptr).Elem().FieldByName(name)
	if !f.IsValid() || !f.CanSet() {
		return fmt.Errorf("no settable field %s in %T", name, ptr)
	}
	v := reflect.ValueOf(val)
	if !v.Type().AssignableTo(f.Type()) {
		return fmt.Errorf("field %s of %T is %s, not %s", name, ptr, f.Type(), v.Type())
	}
	f.Set(v)
	return nil
}

// c09inner returns the single non-nil versioned payload (pointer to struct) of a go-eth2-client
// versioned container.
func c09inner(container any) (reflect.Value, error) {
	v := reflect.ValueOf(container).Elem()
	for i := 0; i < v.NumField(); i++ {
		f := v.Field(i)
		if f.Kind() == reflect.Ptr && !f.IsNil() && f.Elem().Kind() == reflect.Struct {
			return f, nil
		}
	}
	return reflect.Value{}, fmt.Errorf("no payload in %T", container)
}

// c09proposalMsg returns the (addressable) beacon block message struct of any proposal version.
func c09proposalMsg(p *core.VersionedSignedProposal) (reflect.Value, error) {
	in, err := c09inner(&p.VersionedSignedProposal)
	if err != nil {
		return reflect.Value{}, err
	}
	if sb := in.Elem().FieldByName("SignedBlock"); sb.IsValid() { // deneb+ block contents
		if sb.IsNil() {
			return reflect.Value{}, fmt.Errorf("nil signed block")
		}
		in = sb
	}
	m := in.Elem().FieldByName("Message")
	if !m.IsValid() || m.IsNil() {
		return reflect.Value{}, fmt.Errorf("no message in %s", in.Type())
	}
	return m.Elem(), nil
}

func c09attData(a *core.VersionedAttestation) (*eth2p0.AttestationData, error) {
	in, err := c09inner(&a.VersionedAttestation)
	if err != nil {
		return nil, err
	}
	d, ok := in.Elem().FieldByName("Data").Interface().(*eth2p0.AttestationData)
	if !ok || d == nil {
		return nil, fmt.Errorf("no attestation data")
	}
	return d, nil
}

// c09aggMsg returns the aggregate-and-proof message struct (phase0 or electra flavour).
func c09aggMsg(a *core.VersionedSignedAggregateAndProof) (msg reflect.Value, data *eth2p0.AttestationData, err error) {
	in, err := c09inner(&a.VersionedSignedAggregateAndProof)
	if err != nil {
		return reflect.Value{}, nil, err
	}
	m := in.Elem().FieldByName("Message")
	if !m.IsValid() || m.IsNil() {
		return reflect.Value{}, nil, fmt.Errorf("no message")
	}
	agg := m.Elem().FieldByName("Aggregate")
	if !agg.IsValid() || agg.IsNil() {
		return reflect.Value{}, nil, fmt.Errorf("no aggregate")
	}
	d, ok := agg.Elem().FieldByName("Data").Interface().(*eth2p0.AttestationData)
	if !ok || d == nil {
		return reflect.Value{}, nil, fmt.Errorf("no attestation data")
	}
	return m.Elem(), d, nil
}

func c09types() []c09type {
	var out []c09type
	add := func(name string, quick bool, duty core.DutyType, gen func(t *testing.T) (core.SignedData, error)) *c09type {
		out = append(out, c09type{Name: name, Quick: quick, Duty: duty, Generate: gen})
		return &out[len(out)-1]
	}

	// attestations: every version; the validator index (set only by the local VC) on no/first/last partial
	for _, v := range c09versions {
		v := v
		for _, vidx := range []string{"last", "none", "first"} {
			if vidx != "last" && v != eth2spec.DataVersionDeneb && v != eth2spec.DataVersionElectra {
				continue
			}
			quick := (v == eth2spec.DataVersionElectra && vidx == "last") || (v == eth2spec.DataVersionDeneb && vidx == "none")
			ty := add("attestation/"+v.String()+"/vidx="+vidx, quick, core.DutyAttester, func(*testing.T) (core.SignedData, error) {
				va := eth2spec.VersionedAttestation{Version: v}
				var err error
				if v >= eth2spec.DataVersionElectra {
					err = c09set(&va, c09fieldName(v), testutil.RandomElectraAttestation())
				} else {
					err = c09set(&va, c09fieldName(v), testutil.RandomPhase0Attestation())
				}
				if err != nil {
					return nil, err
				}
				return core.NewVersionedAttestation(&va)
			})
			ty.Vidx = vidx
		}
	}

	// full proposals. phase0/altair blocks are not included: VersionedSignedProposal.Slot() of the eth2 client library
	// answers "unsupported version" for them, so the code under test cannot even compute their epoch (sigagg_test.go
	// says the same: "phase0 and altair cannot be tested"); testutil has no versioned generators for them either.
	full := map[eth2spec.DataVersion]func() core.VersionedSignedProposal{
		eth2spec.DataVersionBellatrix: testutil.RandomBellatrixCoreVersionedSignedProposal,
		eth2spec.DataVersionCapella:   testutil.RandomCapellaCoreVersionedSignedProposal,
		eth2spec.DataVersionDeneb:     testutil.RandomDenebCoreVersionedSignedProposal,
		eth2spec.DataVersionElectra:   testutil.RandomElectraCoreVersionedSignedProposal,
		eth2spec.DataVersionFulu:      testutil.RandomFuluCoreVersionedSignedProposal,
	}
	blinded := map[eth2spec.DataVersion]func() core.VersionedSignedProposal{
		eth2spec.DataVersionBellatrix: testutil.RandomBellatrixVersionedSignedBlindedProposal,
		eth2spec.DataVersionCapella:   testutil.RandomCapellaVersionedSignedBlindedProposal,
		eth2spec.DataVersionDeneb:     testutil.RandomDenebVersionedSignedBlindedProposal,
		eth2spec.DataVersionElectra:   testutil.RandomElectraVersionedSignedBlindedProposal,
		eth2spec.DataVersionFulu:      testutil.RandomFuluVersionedSignedBlindedProposal,
	}
	for _, v := range c09versions {
		if g, ok := full[v]; ok {
			add("proposal/"+v.String(), v == eth2spec.DataVersionElectra, core.DutyProposer, func(*testing.T) (core.SignedData, error) {
				p := g()
				return core.NewVersionedSignedProposal(&p.VersionedSignedProposal)
			})
		}
	}
	for _, v := range c09versions {
		if g, ok := blinded[v]; ok {
			add("blindedproposal/"+v.String(), v == eth2spec.DataVersionFulu, core.DutyProposer, func(*testing.T) (core.SignedData, error) {
				p := g()
				return core.NewVersionedSignedProposal(&p.VersionedSignedProposal)
			})
		}
	}

	add("randao", true, core.DutyRandao, func(*testing.T) (core.SignedData, error) {
		return core.NewSignedRandao(c09EpochMain, eth2p0.BLSSignature{}), nil
	})
	add("exit", true, core.DutyExit, func(*testing.T) (core.SignedData, error) {
		return core.NewSignedVoluntaryExit(testutil.RandomExit()), nil
	})
	add("registration/v1", true, core.DutyBuilderRegistration, func(t *testing.T) (core.SignedData, error) {
		return testutil.RandomCoreVersionedSignedValidatorRegistration(t), nil
	}).NoEpoch = true
	add("beaconcommitteeselection", true, core.DutyPrepareAggregator, func(*testing.T) (core.SignedData, error) {
		return testutil.RandomCoreBeaconCommitteeSelection(), nil
	})
	add("aggregateandproof/unversioned", true, core.DutyAggregator, func(*testing.T) (core.SignedData, error) {
		return core.NewSignedAggregateAndProof(testutil.RandomSignedAggregateAndProof()), nil
	})
	for _, v := range c09versions {
		v := v
		add("aggregateandproof/"+v.String(), v == eth2spec.DataVersionElectra, core.DutyAggregator, func(*testing.T) (core.SignedData, error) {
			va := eth2spec.VersionedSignedAggregateAndProof{Version: v}
			var err error
			if v >= eth2spec.DataVersionElectra {
				err = c09set(&va, c09fieldName(v), &electra.SignedAggregateAndProof{Message: &electra.AggregateAndProof{
					AggregatorIndex: testutil.RandomVIdx(), Aggregate: testutil.RandomElectraAttestation(), SelectionProof: testutil.RandomEth2Signature()}})
			} else {
				err = c09set(&va, c09fieldName(v), testutil.RandomSignedAggregateAndProof())
			}
			if err != nil {
				return nil, err
			}
			return core.NewVersionedSignedAggregateAndProof(&va), nil
		})
	}
	add("syncmessage", true, core.DutySyncMessage, func(*testing.T) (core.SignedData, error) {
		return core.NewSignedSyncMessage(testutil.RandomSyncCommitteeMessage()), nil
	})
	add("signedcontributionandproof", true, core.DutySyncContribution, func(*testing.T) (core.SignedData, error) {
		return core.NewSignedSyncContributionAndProof(testutil.RandomSignedSyncContributionAndProof()), nil
	})
	add("synccommitteeselection", true, core.DutyPrepareSyncContribution, func(*testing.T) (core.SignedData, error) {
		return testutil.RandomCoreSyncCommitteeSelection(), nil
	})
	add("contributionselectionproof", true, core.DutyPrepareSyncContribution, func(*testing.T) (core.SignedData, error) {
		return core.NewSyncContributionAndProof(testutil.RandomSyncContributionAndProof()), nil
	})
	return out
}

// c09pin sets every slot/epoch-like field: the one the domain must be derived from to an epoch in the
// electra fork, the others to epochs in the deneb resp. fulu fork.
func c09pin(sd core.SignedData, spe uint64, v int, c09EpochMain uint64) (core.SignedData, error) {
	// validator v's slots are shifted by 2v inside the same epoch: objects whose only signed content is
	// the slot/epoch still differ between the validators (and from their altered twins, which add 1)
	slot := func(epoch, off uint64) eth2p0.Slot { return eth2p0.Slot(epoch*spe + (off+2*uint64(v))%spe) }
	switch d := sd.(type) {
	case core.VersionedAttestation:
		data, err := c09attData(&d)
		if err != nil {
			return nil, err
		}
		data.Target.Epoch, data.Source.Epoch, data.Slot = eth2p0.Epoch(c09EpochMain), c09EpochLow, slot(c09EpochHigh, 3)
		return d, nil
	case core.VersionedSignedProposal:
		m, err := c09proposalMsg(&d)
		if err != nil {
			return nil, err
		}
		m.FieldByName("Slot").SetUint(uint64(slot(c09EpochMain, 5)))
		return d, nil
	case core.SignedRandao:
		d.SignedEpoch.Epoch = eth2p0.Epoch(c09EpochMain + 2*uint64(v))
		return d, nil
	case core.SignedVoluntaryExit:
		d.Message.Epoch = eth2p0.Epoch(c09EpochMain)
		return d, nil
	case core.VersionedSignedValidatorRegistration:
		return d, nil
	case core.BeaconCommitteeSelection:
		d.Slot = slot(c09EpochMain, 1)
		return d, nil
	case core.SignedAggregateAndProof:
		dt := d.Message.Aggregate.Data
		dt.Slot, dt.Target.Epoch, dt.Source.Epoch = slot(c09EpochMain, 2), c09EpochLow, c09EpochHigh
		return d, nil
	case core.VersionedSignedAggregateAndProof:
		_, dt, err := c09aggMsg(&d)
		if err != nil {
			return nil, err
		}
		dt.Slot, dt.Target.Epoch, dt.Source.Epoch = slot(c09EpochMain, 2), c09EpochLow, c09EpochHigh
		return d, nil
	case core.SignedSyncMessage:
		d.Slot = slot(c09EpochMain, 7)
		return d, nil
	case core.SignedSyncContributionAndProof:
		d.Message.Contribution.Slot = slot(c09EpochMain, 9)
		return d, nil
	case core.SyncCommitteeSelection:
		d.Slot = slot(c09EpochMain, 11)
		return d, nil
	case core.SyncContributionAndProof:
		d.Contribution.Slot = slot(c09EpochMain, 13)
		return d, nil
	}
	return nil, fmt.Errorf("c09pin: unknown type %T", sd)
}

// c09alter returns a deep copy with exactly one signed field changed (same type, same epoch).
func c09alter(sd core.SignedData) (core.SignedData, error) {
	cl, err := sd.Clone()
	if err != nil {
		return nil, err
	}
	switch d := cl.(type) {
	case core.VersionedAttestation:
		data, err := c09attData(&d)
		if err != nil {
			return nil, err
		}
		data.BeaconBlockRoot[0] ^= 1
		return d, nil
	case core.VersionedSignedProposal:
		m, err := c09proposalMsg(&d)
		if err != nil {
			return nil, err
		}
		b := m.FieldByName("StateRoot").Index(0)
		b.SetUint(b.Uint() ^ 1)
		return d, nil
	case core.SignedRandao:
		d.SignedEpoch.Epoch++ // the epoch is the only signed content; stays in the same fork
		return d, nil
	case core.SignedVoluntaryExit:
		d.Message.ValidatorIndex ^= 1
		return d, nil
	case core.VersionedSignedValidatorRegistration:
		d.V1.Message.GasLimit ^= 1
		return d, nil
	case core.BeaconCommitteeSelection:
		d.Slot++ // the slot is the only signed content; stays in the same epoch
		return d, nil
	case core.SignedAggregateAndProof:
		d.Message.AggregatorIndex ^= 1
		return d, nil
	case core.VersionedSignedAggregateAndProof:
		m, _, err := c09aggMsg(&d)
		if err != nil {
			return nil, err
		}
		f := m.FieldByName("AggregatorIndex")
		f.SetUint(f.Uint() ^ 1)
		return d, nil
	case core.SignedSyncMessage:
		d.BeaconBlockRoot[0] ^= 1
		return d, nil
	case core.SignedSyncContributionAndProof:
		d.Message.AggregatorIndex ^= 1
		return d, nil
	case core.SyncCommitteeSelection:
		d.SubcommitteeIndex ^= 1
		return d, nil
	case core.SyncContributionAndProof:
		d.Contribution.SubcommitteeIndex ^= 1
		return d, nil
	}
	return nil, fmt.Errorf("c09alter: unknown type %T", cl)
}

// c09specOf is the harness-side table: consensus-spec domain name and signing epoch of an object, read
// from the object's own fields (not through its DomainName/Epoch methods).
func c09specOf(sd core.SignedData, spe uint64) (signing.DomainName, eth2p0.Epoch, error) {
	ep := func(s eth2p0.Slot) eth2p0.Epoch { return eth2p0.Epoch(uint64(s) / spe) }
	switch d := sd.(type) {
	case core.VersionedAttestation:
		data, err := c09attData(&d)
		if err != nil {
			return "", 0, err
		}
		return "DOMAIN_BEACON_ATTESTER", data.Target.Epoch, nil
	case core.VersionedSignedProposal:
		m, err := c09proposalMsg(&d)
		if err != nil {
			return "", 0, err
		}
		return "DOMAIN_BEACON_PROPOSER", ep(eth2p0.Slot(m.FieldByName("Slot").Uint())), nil
	case core.SignedRandao:
		return "DOMAIN_RANDAO", d.SignedEpoch.Epoch, nil
	case core.SignedVoluntaryExit:
		return "DOMAIN_VOLUNTARY_EXIT", d.Message.Epoch, nil
	case core.VersionedSignedValidatorRegistration:
		return "DOMAIN_APPLICATION_BUILDER", 0, nil
	case core.BeaconCommitteeSelection:
		return "DOMAIN_SELECTION_PROOF", ep(d.Slot), nil
	case core.SignedAggregateAndProof:
		return "DOMAIN_AGGREGATE_AND_PROOF", ep(d.Message.Aggregate.Data.Slot), nil
	case core.VersionedSignedAggregateAndProof:
		_, dt, err := c09aggMsg(&d)
		if err != nil {
			return "", 0, err
		}
		return "DOMAIN_AGGREGATE_AND_PROOF", ep(dt.Slot), nil
	case core.SignedSyncMessage:
		return "DOMAIN_SYNC_COMMITTEE", ep(d.Slot), nil
	case core.SignedSyncContributionAndProof:
		return "DOMAIN_CONTRIBUTION_AND_PROOF", ep(d.Message.Contribution.Slot), nil
	case core.SyncCommitteeSelection:
		return "DOMAIN_SYNC_COMMITTEE_SELECTION_PROOF", ep(d.Slot), nil
	case core.SyncContributionAndProof:
		return "DOMAIN_SYNC_COMMITTEE_SELECTION_PROOF", ep(d.Contribution.Slot), nil
	}
	return "", 0, fmt.Errorf("not a known eth2 signed object: %T", sd)
}

// ---- fixture ------------------------------------------------------------------------------------------

type c09val struct {
	pub    tbls.PublicKey
	core   core.PubKey
	shares map[int]tbls.PrivateKey
}

type c09fix struct {
	t         *testing.T
	ctx       context.Context
	bmock     beaconmock.Mock
	spe       uint64
	spec      map[string]any
	vals      [2]c09val
	domains   map[string]eth2p0.Domain
	verified  map[string]bool          // memo of independent verifications
	clDomains map[string]eth2p0.Domain // healthy answers of the fault-scriptable client (zz_verif_c09_seq_test.go)
	bvals     []c09val                 // validators of the batch dimension (zz_verif_c09_batch_test.go)
	sched     *c09sched                // the mock's fork schedule (zz_verif_c09_fork_test.go)
	strict    bool
}

func c09newFix(t *testing.T) (*c09fix, error) {
	f := &c09fix{t: t, ctx: context.Background(), domains: map[string]eth2p0.Domain{}, verified: map[string]bool{},
		strict: os.Getenv("VERIF_C09_STRICT") != "0"} // the literal statement ("... repeat a share ... contain an invalid share: nothing at all is published") is the default
	bmock, err := beaconmock.New(t.Context())
	if err != nil {
		return nil, err
	}
	f.bmock = bmock
	resp, err := bmock.Spec(f.ctx, &eth2api.SpecOpts{})
	if err != nil {
		return nil, err
	}
	f.spec = resp.Data
	spe, ok := f.spec["SLOTS_PER_EPOCH"].(uint64)
	if !ok || spe == 0 {
		return nil, fmt.Errorf("no SLOTS_PER_EPOCH")
	}
	f.spe = spe
	for v := range f.vals {
		secret, err := tbls.GenerateSecretKey()
		if err != nil {
			return nil, err
		}
		pub, err := tbls.SecretToPublicKey(secret)
		if err != nil {
			return nil, err
		}
		shares, err := tbls.ThresholdSplit(secret, c09N, c09T)
		if err != nil {
			return nil, err
		}
		f.vals[v] = c09val{pub: pub, core: core.PubKeyFrom48Bytes(pub), shares: shares}
	}
	// the pinned epochs must really select three different forks, else the epoch dimension is vacuous
	var seen = map[eth2p0.Domain]bool{}
	for _, e := range []eth2p0.Epoch{c09EpochMain, c09EpochLow, c09EpochHigh} {
		d, err := f.specDomain("DOMAIN_BEACON_ATTESTER", e)
		if err != nil {
			return nil, err
		}
		seen[d] = true
	}
	if len(seen) != 3 {
		return nil, fmt.Errorf("pinned epochs do not select 3 different fork domains (%d)", len(seen))
	}
	return f, nil
}

// specDomain obtains the domain from the eth2 client directly (not through eth2util/signing).
func (f *c09fix) specDomain(name signing.DomainName, epoch eth2p0.Epoch) (eth2p0.Domain, error) {
	key := fmt.Sprintf("%s/%d", name, epoch)
	if d, ok := f.domains[key]; ok {
		return d, nil
	}
	dt, ok := f.spec[string(name)].(eth2p0.DomainType)
	if !ok {
		return eth2p0.Domain{}, fmt.Errorf("domain type %s not in spec", name)
	}
	var d eth2p0.Domain
	var err error
	if name == "DOMAIN_APPLICATION_BUILDER" { // builder spec: genesis fork version, independent of the epoch
		d, err = f.bmock.GenesisDomain(f.ctx, dt)
	} else {
		d, err = f.bmock.Domain(f.ctx, dt, epoch)
	}
	if err != nil {
		return eth2p0.Domain{}, err
	}
	f.domains[key] = d
	return d, nil
}

// c09tfix is the per-type material: one payload per validator, its altered twin, signatures on demand.
type c09tfix struct {
	f       *c09fix
	ty      c09type
	obj     [2]core.Eth2SignedData
	alt     [2]core.Eth2SignedData
	root    [2][32]byte
	altRoot [2][32]byte
	sr      map[string][32]byte
	sigs    map[string]tbls.Signature
	parts   map[string]core.SignedData

	// only used by the sequence / fault dimensions (zz_verif_c09_seq_test.go)
	views     map[int]*c09tfix         // payload views: 1 = altered twin honestly signed, 2 = payload pinned into another fork
	xdom      signing.DomainName       // "all-cross-duty": domain and epoch of the partner duty type whose message root is identical
	xepoch    func(v int) eth2p0.Epoch //
	listRoots map[string][][32]byte

	// only used by the fork-boundary dimension (zz_verif_c09_fork_test.go)
	baseSig string                                              // signing-root variant of an uncorrupted partial ("" = orig)
	xroot   func(v int, variant string) ([32]byte, bool, error) // harness-side signing roots (variants own, fork<idx>)
}

func (f *c09fix) newTypeFix(ty c09type) (*c09tfix, error) {
	return f.newTypeFixAt(ty, c09EpochMain, nil)
}

// newTypeFixAt: the signing epoch is pinned to `main`; post (optional) adjusts the pinned object of validator v.
func (f *c09fix) newTypeFixAt(ty c09type, main uint64, post func(sd core.SignedData, v int) core.SignedData) (*c09tfix, error) {
	tf := &c09tfix{f: f, ty: ty, sr: map[string][32]byte{}, sigs: map[string]tbls.Signature{}, parts: map[string]core.SignedData{}}
	for v := 0; v < 2; v++ {
		g, err := ty.Generate(f.t)
		if err != nil {
			return nil, err
		}
		sd, err := c09pin(g, f.spe, v, main)
		if err != nil {
			return nil, err
		}
		if post != nil {
			sd = post(sd, v)
		}
		al, err := c09alter(sd)
		if err != nil {
			return nil, err
		}
		var ok1, ok2 bool
		tf.obj[v], ok1 = sd.(core.Eth2SignedData)
		tf.alt[v], ok2 = al.(core.Eth2SignedData)
		if !ok1 || !ok2 {
			return nil, fmt.Errorf("%T is not Eth2SignedData", sd)
		}
		if tf.root[v], err = sd.MessageRoot(); err != nil {
			return nil, err
		}
		if tf.altRoot[v], err = al.MessageRoot(); err != nil {
			return nil, err
		}
		if tf.root[v] == tf.altRoot[v] {
			return nil, fmt.Errorf("altered object has the same message root")
		}
	}
	if tf.root[0] == tf.root[1] {
		return nil, fmt.Errorf("both validators got the same payload")
	}
	return tf, nil
}

// signingRoot computes what a VC would sign, through the code under test's own notion of domain and
// epoch (DomainName/Epoch/signing.GetDataRoot). variant: orig | alt | wdom | wepoch.
func (tf *c09tfix) signingRoot(v int, variant string) ([32]byte, error) {
	key := fmt.Sprintf("%d/%s", v, variant)
	if r, ok := tf.sr[key]; ok {
		return r, nil
	}
	f := tf.f
	if tf.xroot != nil { // signing roots composed by the harness alone (no DomainName/Epoch of the code under test)
		if r, ok, err := tf.xroot(v, variant); ok || err != nil {
			if err == nil {
				tf.sr[key] = r
			}
			return r, err
		}
	}
	obj, root := tf.obj[v], tf.root[v]
	if variant == "alt" {
		obj, root = tf.alt[v], tf.altRoot[v]
	}
	epoch, err := obj.Epoch(f.ctx, f.bmock)
	if err != nil {
		return [32]byte{}, err
	}
	dom := obj.DomainName()
	switch variant {
	case "wdom":
		if dom == signing.DomainRandao {
			dom = signing.DomainBeaconAttester
		} else {
			dom = signing.DomainRandao
		}
	case "wepoch":
		epoch = c09EpochWrong
	case "xduty": // what a VC signs for the partner duty type with the identical message root
		if tf.xepoch == nil {
			return [32]byte{}, fmt.Errorf("type %s has no partner duty type", tf.ty.Name)
		}
		dom, epoch = tf.xdom, tf.xepoch(v)
	}
	var r [32]byte
	if variant == "zdom" { // signed under the all-zero domain
		r, err = (&eth2p0.SigningData{ObjectRoot: root, Domain: eth2p0.Domain{}}).HashTreeRoot()
	} else {
		r, err = signing.GetDataRoot(f.ctx, f.bmock, dom, epoch, root)
	}
	if err != nil {
		return [32]byte{}, err
	}
	tf.sr[key] = r
	return r, nil
}

// sig returns the signature of share `share` of validator `keyOf` over validator v's signing root.
func (tf *c09tfix) sig(v, keyOf, share int, variant string) (tbls.Signature, error) {
	key := fmt.Sprintf("%d/%d/%d/%s", v, keyOf, share, variant)
	if s, ok := tf.sigs[key]; ok {
		return s, nil
	}
	r, err := tf.signingRoot(v, variant)
	if err != nil {
		return tbls.Signature{}, err
	}
	s, err := tbls.Sign(tf.f.vals[keyOf].shares[share], r[:])
	if err != nil {
		return tbls.Signature{}, err
	}
	tf.sigs[key] = s
	return s, nil
}

// ---- cases ------------------------------------------------------------------------------------------------

type c09corr struct {
	Kind string `json:"kind"`
	Pos  int    `json:"pos"`
	Arg  int    `json:"arg,omitempty"`
}

type c09case struct {
	Type   string    `json:"type"`
	Vals   int       `json:"validators_in_call"`
	Target int       `json:"target_validator"` // the validator whose list is List+Corrs; in 2-validator calls the other one has the uncorrupted List
	List   []int     `json:"share_list"`
	Corrs  []c09corr `json:"corruptions"`
	MapRot int       `json:"maprot"`
}

func (c c09case) String() string {
	var cs []string
	for _, k := range c.Corrs {
		cs = append(cs, fmt.Sprintf("%s@%d/%d", k.Kind, k.Pos, k.Arg))
	}
	return fmt.Sprintf("%s shares=%v corr=[%s] validators=%d target=%d maprot=%d", c.Type, c.List, strings.Join(cs, ","), c.Vals, c.Target, c.MapRot)
}

func c09isAll(kind string) bool { return strings.HasPrefix(kind, "all-") }

// corrLabel is the stable class name of the corruption pattern.
func (c c09case) corrLabel() string {
	if len(c.Corrs) == 0 {
		return "none"
	}
	var l []string
	for _, k := range c.Corrs {
		s := k.Kind
		if k.Kind == "shareidx" {
			switch {
			case k.Arg == 0:
				s += "=0"
			case k.Arg > c09N:
				s += "=n+1"
			default:
				in := false
				for _, x := range c.List {
					in = in || x == k.Arg
				}
				if in {
					s += "=member-in-list"
				} else {
					s += "=member-not-in-list"
				}
			}
		}
		l = append(l, s)
	}
	sort.Strings(l)
	return strings.Join(l, "+")
}

// goodShares is the number of supplied partials that are valid shares of the target validator over the
// agreed content, with distinct share indices (by construction of the corruptions).
func (c c09case) goodShares() int {
	bad := map[int]bool{}
	for _, k := range c.Corrs {
		if c09isAll(k.Kind) {
			return 0
		}
		bad[k.Pos] = true
	}
	return len(c.List) - len(bad)
}

func c09sizeLabel(n int) string {
	switch n {
	case c09T:
		return "t"
	case c09T + 1:
		return "t+1"
	}
	return fmt.Sprint(n)
}

// part builds one partial: object `objVar` (orig|alt) of validator v carrying the signature of share
// `share` of validator keyOf over signing-root variant sigVar, optionally mangled.
func (tf *c09tfix) part(v, keyOf, share int, objVar, sigVar, mangle string) (core.SignedData, error) {
	key := fmt.Sprintf("%d/%d/%d/%s/%s/%s", v, keyOf, share, objVar, sigVar, mangle)
	if p, ok := tf.parts[key]; ok {
		return p, nil
	}
	s, err := tf.sig(v, keyOf, share, sigVar)
	if err != nil {
		return nil, err
	}
	switch mangle {
	case "truncated": // only the first half of the bytes arrived
		for i := len(s) / 2; i < len(s); i++ {
			s[i] = 0
		}
	case "zero":
		s = tbls.Signature{}
	case "infinity": // valid encoding of the point at infinity
		s = tbls.Signature{}
		s[0] = 0xc0
	}
	var base core.SignedData = tf.obj[v]
	if objVar == "alt" {
		base = tf.alt[v]
	}
	p, err := base.SetSignature(tblsconv.SigToCore(s))
	if err != nil {
		return nil, err
	}
	tf.parts[key] = p
	return p, nil
}

// list builds the partial signature list of validator v for the case.
func (tf *c09tfix) list(v int, shares []int, corrs []c09corr) ([]core.ParSignedData, error) {
	type spec struct {
		objOf, keyOf, share, idx int
		objVar, sigVar, mangle   string
	}
	sp := make([]spec, len(shares))
	base := "orig"
	if tf.baseSig != "" {
		base = tf.baseSig
	}
	for i, s := range shares {
		sp[i] = spec{objOf: v, keyOf: v, share: s, idx: s, objVar: "orig", sigVar: base}
	}
	drop := -1
	for _, k := range corrs {
		if !c09isAll(k.Kind) && (k.Pos < 0 || k.Pos >= len(sp)) {
			return nil, fmt.Errorf("corruption position %d out of range", k.Pos)
		}
		switch k.Kind {
		case "other-validator-share":
			sp[k.Pos].keyOf = 1 - v
		case "shareidx":
			sp[k.Pos].idx = k.Arg
		case "sig-over-altered":
			sp[k.Pos].sigVar = "alt"
		case "object-altered":
			sp[k.Pos].objVar = "alt"
		case "truncated", "zero", "infinity":
			sp[k.Pos].mangle = k.Kind
		case "wrong-domain":
			sp[k.Pos].sigVar = "wdom"
		case "wrong-epoch":
			sp[k.Pos].sigVar = "wepoch"
		case "repeat":
			if k.Arg < 0 || k.Arg >= len(sp) || k.Arg == k.Pos {
				return nil, fmt.Errorf("bad repeat source %d", k.Arg)
			}
			sp[k.Pos] = sp[k.Arg]
		case "dropped":
			drop = k.Pos
		case "all-other-validator":
			for i := range sp {
				sp[i].keyOf = 1 - v
			}
		case "all-sig-over-altered":
			for i := range sp {
				sp[i].sigVar = "alt"
			}
		case "all-wrong-domain":
			for i := range sp {
				sp[i].sigVar = "wdom"
			}
		case "all-wrong-epoch":
			for i := range sp {
				sp[i].sigVar = "wepoch"
			}
		case "all-foreign-list": // sequence/fault dimensions: the other validator's complete, valid list under this validator's key
			for i := range sp {
				sp[i].objOf, sp[i].keyOf = 1-v, 1-v
			}
		case "all-zero-domain": // sequence/fault dimensions: every share signed under the all-zero domain
			for i := range sp {
				sp[i].sigVar = "zdom"
			}
		case "prev-fork-domain", "next-fork-domain", "other-fork-domain": // fork dimension: one share signed under the domain of fork version Arg of the schedule
			sp[k.Pos].sigVar = fmt.Sprintf("fork%d", k.Arg)
		case "all-prev-fork-domain", "all-next-fork-domain", "all-other-fork-domain": // fork dimension: every share
			for i := range sp {
				sp[i].sigVar = fmt.Sprintf("fork%d", k.Arg)
			}
		case "all-cross-duty": // sequence dimension: the signatures of the partner duty type (identical message root, other domain)
			for i := range sp {
				sp[i].sigVar = "xduty"
			}
		default:
			return nil, fmt.Errorf("unknown corruption %q", k.Kind)
		}
	}
	if drop >= 0 {
		sp = append(sp[:drop:drop], sp[drop+1:]...)
	}
	out := make([]core.ParSignedData, 0, len(sp))
	for i, s := range sp {
		p, err := tf.part(s.objOf, s.keyOf, s.share, s.objVar, s.sigVar, s.mangle)
		if err != nil {
			return nil, err
		}
		if att, ok := p.(core.VersionedAttestation); ok {
			if (tf.ty.Vidx == "first" && i == 0) || (tf.ty.Vidx == "last" && i == len(sp)-1) {
				idx := eth2p0.ValidatorIndex(7)
				att.ValidatorIndex = &idx
			} else {
				att.ValidatorIndex = nil
			}
			p = att
		}
		out = append(out, core.ParSignedData{SignedData: p, ShareIdx: s.idx})
	}
	return out, nil
}

type c09pub struct {
	sub int
	pk  core.PubKey
	sd  core.SignedData
}

type c09out struct {
	err   error
	calls int
	pubs  []c09pub
}

// run performs the one call into the real aggregator.
func (tf *c09tfix) run(c c09case) (c09out, error) {
	var o c09out
	agg, err := sigagg.New(c09T, sigagg.NewVerifier(tf.f.bmock))
	if err != nil {
		return o, err
	}
	for s := 0; s < 2; s++ {
		s := s
		agg.Subscribe(func(_ context.Context, _ core.Duty, set core.SignedDataSet) error {
			o.calls++
			for pk, sd := range set {
				o.pubs = append(o.pubs, c09pub{s, pk, sd})
			}
			return nil
		})
	}
	lists, err := tf.buildLists(c)
	if err != nil {
		return o, err
	}
	runtime.VerifSetMapRot(true, uint64(c.MapRot))
	set := map[core.PubKey][]core.ParSignedData{}
	for v := 0; v < 2; v++ {
		if c.Vals == 2 || v == c.Target {
			set[tf.f.vals[v].core] = lists[v]
		}
	}
	o.err = agg.Aggregate(tf.f.ctx, core.Duty{Slot: 1, Type: tf.ty.Duty}, set)
	runtime.VerifSetMapRot(false, 0)
	return o, nil
}

// buildLists builds the partial signature lists of the validators taking part in the call.
func (tf *c09tfix) buildLists(c c09case) (lists [2][]core.ParSignedData, err error) {
	for v := 0; v < 2; v++ {
		if c.Vals == 1 && v != c.Target {
			continue
		}
		var corrs []c09corr
		if v == c.Target {
			corrs = c.Corrs
		}
		if lists[v], err = tf.list(v, c.List, corrs); err != nil {
			return lists, err
		}
	}
	return lists, nil
}

type c09viol struct{ sig, desc string }

// checkPublished is the safety half of the statement for one object handed to a subscriber. It returns
// "" or what is wrong: pubkey | type | signature | content.
func (tf *c09tfix) checkPublished(c c09case, p c09pub) (what, detail string) {
	f := tf.f
	v := -1
	for i := range f.vals {
		if f.vals[i].core == p.pk && (c.Vals == 2 || i == c.Target) {
			v = i
		}
	}
	if v < 0 {
		return "pubkey", "published under a public key that is not a validator of the call"
	}
	if _, ok := p.sd.(core.Eth2SignedData); !ok {
		return "type", fmt.Sprintf("published %T is not an eth2 signed object", p.sd)
	}
	dom, epoch, err := c09specOf(p.sd, f.spe)
	if err != nil {
		return "type", err.Error()
	}
	root, err := p.sd.MessageRoot()
	if err != nil {
		return "type", "message root: " + err.Error()
	}
	key := fmt.Sprintf("%d/%s/%d/%x/%x", v, dom, epoch, root, []byte(p.sd.Signature()))
	ok, done := f.verified[key]
	if !done {
		domain, err := f.specDomain(dom, epoch)
		if err != nil {
			return "type", "domain: " + err.Error()
		}
		sr, err := (&eth2p0.SigningData{ObjectRoot: root, Domain: domain}).HashTreeRoot()
		if err != nil {
			return "type", "signing data: " + err.Error()
		}
		sig, err := tblsconv.SigFromCore(p.sd.Signature())
		ok = err == nil && tbls.Verify(f.vals[v].pub, sr[:], sig) == nil
		if len(f.verified) > 1<<16 {
			f.verified = map[string]bool{}
		}
		f.verified[key] = ok
	}
	if !ok {
		return "signature", fmt.Sprintf("object published for validator %d (%T) does not verify under the group public key for its own message root, domain %s, epoch %d",
			v, p.sd, dom, epoch)
	}
	if root != tf.root[v] {
		return "content", fmt.Sprintf("object published for validator %d has another message root than the one the honest partials were made over (is the altered twin: %v)", v, root == tf.altRoot[v])
	}
	return "", ""
}

// judge applies the property statement to one call.
func (tf *c09tfix) judge(c c09case, o c09out) (viols []c09viol, class string) {
	label, size := c.corrLabel(), c09sizeLabel(len(c.List))
	published := map[int]bool{}
	for _, p := range o.pubs {
		for i := range tf.f.vals {
			if tf.f.vals[i].core == p.pk {
				published[i] = true
			}
		}
		if what, detail := tf.checkPublished(c, p); what != "" {
			viols = append(viols, c09viol{fmt.Sprintf("kind=published-invalid what=%s corr=%s", what, label), detail})
		}
	}
	good := c.goodShares()
	mustReject := good < c09T || (tf.f.strict && len(c.Corrs) > 0)
	if mustReject {
		switch {
		case o.calls > 0:
			who := "bystander-only"
			if published[c.Target] {
				who = "corrupted-validator"
			}
			viols = append(viols, c09viol{
				fmt.Sprintf("kind=bad-input-published corr=%s size=%s published=%s", label, size, who),
				fmt.Sprintf("only %d valid distinct agreeing partial signatures (threshold %d) were supplied for validator %d, yet subscribers were called %d times with %d objects; Aggregate returned: %v",
					good, c09T, c.Target, o.calls, len(o.pubs), o.err)})
		case o.err == nil:
			viols = append(viols, c09viol{
				fmt.Sprintf("kind=bad-input-no-error corr=%s size=%s", label, size),
				fmt.Sprintf("only %d valid distinct agreeing partial signatures (threshold %d) were supplied for validator %d and Aggregate returned nil", good, c09T, c.Target)})
		}
	}
	outcome := "rejected"
	if o.calls > 0 {
		outcome = "published"
	}
	exp := "must-reject"
	if !mustReject {
		exp = "may-publish"
	}
	class = fmt.Sprintf("%s|corr=%s|size=%s|validators=%d|%s|%s", c.Type, label, size, c.Vals, exp, outcome)
	return viols, class
}

func c09sigs(v []c09viol) string {
	var s []string
	for _, x := range v {
		s = append(s, x.sig)
	}
	sort.Strings(s)
	return strings.Join(s, ";")
}

// eval runs, judges, confirms and reports one case.
func (tf *c09tfix) eval(r *enumx.Run, c c09case) {
	o, err := tf.run(c)
	if err != nil {
		r.NotExhaustive("harness: cannot build case " + c.Type + ": " + err.Error()) // skipped, never an alarm
		r.Count("harness_case_failures", 1)
		return
	}
	viols, class := tf.judge(c, o)
	r.Eval(class)
	r.Steps(1)
	nobjs := len(o.pubs)
	switch {
	case o.calls > 0:
		r.Count("calls_published", 1)
		r.Count("published_objects_independently_verified", nobjs)
		if o.calls != 2 || nobjs != 2*c.Vals {
			r.Count("calls_where_not_both_subscribers_got_every_validator", 1)
		}
	case o.err != nil:
		r.Count("calls_rejected_with_error", 1)
	default:
		r.Count("calls_nil_error_nothing_published", 1)
	}
	switch {
	case len(c.Corrs) == 0 && o.calls > 0:
		r.Count("uncorrupted_accepted", 1)
	case len(c.Corrs) == 0:
		r.Count("uncorrupted_not_accepted", 1)
		r.Note(fmt.Sprintf("uncorrupted list not accepted (no liveness claim): %s: %v", c.Type, o.err))
	case c.goodShares() < c09T && o.calls == 0 && o.err != nil:
		r.Count("corrupted_below_threshold_rejected", 1)
	case c.goodShares() >= c09T && o.calls > 0:
		r.Count("corrupted_but_threshold_of_good_shares_published", 1)
	case c.goodShares() >= c09T:
		r.Count("corrupted_but_threshold_of_good_shares_rejected", 1)
	}
	if len(viols) == 0 {
		return
	}
	// confirm: same verdict three more times
	want := c09sigs(viols)
	for k := 0; k < 3; k++ {
		o2, err := tf.run(c)
		if err != nil {
			r.Unconfirmed(c.String())
			return
		}
		if v2, _ := tf.judge(c, o2); c09sigs(v2) != want {
			r.Unconfirmed(c.String())
			return
		}
	}
	for _, v := range viols {
		r.Violation(v.sig, v.desc+" ["+c.String()+"]", c)
	}
}

// ---- enumeration ------------------------------------------------------------------------------------------

func c09subsets(n, k int) [][]int {
	var out [][]int
	var rec func(start int, cur []int)
	rec = func(start int, cur []int) {
		if len(cur) == k {
			out = append(out, append([]int(nil), cur...))
			return
		}
		for i := start; i <= n; i++ {
			rec(i+1, append(cur, i))
		}
	}
	rec(1, nil)
	return out
}

func c09perms(s []int) [][]int {
	var out [][]int
	var rec func(cur []int, used int)
	rec = func(cur []int, used int) {
		if len(cur) == len(s) {
			out = append(out, append([]int(nil), cur...))
			return
		}
		for i := range s {
			if used&(1<<i) == 0 {
				rec(append(cur, s[i]), used|1<<i)
			}
		}
	}
	rec(nil, 0)
	return out
}

// c09lists: every size-t and size-(t+1) subset; quick: ascending order, thorough: every order.
func c09lists(thorough bool) [][]int {
	var out [][]int
	for _, k := range []int{c09T, c09T + 1} {
		for _, s := range c09subsets(c09N, k) {
			if thorough {
				out = append(out, c09perms(s)...)
			} else {
				out = append(out, s)
			}
		}
	}
	return out
}

var c09pairKinds = []string{"other-validator-share", "sig-over-altered", "object-altered", "zero", "shareidx"}

// c09corruptions enumerates the corruption patterns for a list.
func c09corruptions(ty c09type, list []int, thorough bool) [][]c09corr {
	var out [][]c09corr
	L := len(list)
	single := []string{"other-validator-share", "sig-over-altered", "object-altered", "truncated", "zero", "infinity", "wrong-domain"}
	if !ty.NoEpoch {
		single = append(single, "wrong-epoch")
	}
	for p := 0; p < L; p++ {
		for _, k := range single {
			out = append(out, []c09corr{{Kind: k, Pos: p}})
		}
		for j := 0; j <= c09N+1; j++ {
			if j != list[p] {
				out = append(out, []c09corr{{Kind: "shareidx", Pos: p, Arg: j}})
			}
		}
		for a := 0; a < L; a++ {
			if a != p {
				out = append(out, []c09corr{{Kind: "repeat", Pos: p, Arg: a}})
			}
		}
		if L == c09T { // dropping one of t+1 is an uncorrupted size-t list
			out = append(out, []c09corr{{Kind: "dropped", Pos: p}})
		}
	}
	all := []string{"all-other-validator", "all-sig-over-altered", "all-wrong-domain"}
	if !ty.NoEpoch {
		all = append(all, "all-wrong-epoch")
	}
	for _, k := range all {
		out = append(out, []c09corr{{Kind: k}})
	}
	if thorough && L == c09T+1 {
		// two corrupted partials of t+1: fewer than t good shares remain
		for p := 0; p < L; p++ {
			for q := p + 1; q < L; q++ {
				for _, k1 := range c09pairKinds {
					for _, k2 := range c09pairKinds {
						c1, c2 := c09corr{Kind: k1, Pos: p}, c09corr{Kind: k2, Pos: q}
						if k1 == "shareidx" { // relabel to the index of the next list member (a duplicate index)
							c1.Arg = list[(p+1)%L]
						}
						if k2 == "shareidx" {
							c2.Arg = list[(q+1)%L]
						}
						out = append(out, []c09corr{c1, c2})
					}
				}
			}
		}
	}
	return out
}

func TestVerifC09(t *testing.T) {
	r := enumx.New(t, "C09")
	defer r.Finish()
	thorough := enumx.Thorough()

	f, err := c09newFix(t)
	if err != nil {
		r.NotExhaustive("harness: cannot build the fixture: " + err.Error())
		return
	}
	types := c09types()
	tfs := map[string]*c09tfix{}
	typeFix := func(ty c09type) *c09tfix {
		if tf, ok := tfs[ty.Name]; ok {
			return tf
		}
		tf, err := f.newTypeFix(ty)
		if err != nil {
			r.NotExhaustive("harness: cannot build objects of type " + ty.Name + ": " + err.Error())
			tf = nil
		}
		tfs[ty.Name] = tf
		return tf
	}

	if r.ReplayPath != "" {
		var m struct {
			Mode string `json:"mode"`
		}
		if err := r.ReplayCase(&m); err == nil && m.Mode == "batch" {
			c09replayBatch(r, f, types)
			return
		} else if err == nil && m.Mode == "fork" {
			c09replayFork(r, f, types)
			return
		} else if err == nil && m.Mode != "" {
			c09replayX(r, f, types)
			return
		}
		var c c09case
		if err := r.ReplayCase(&c); err != nil {
			r.Note("replay: " + err.Error())
			return
		}
		for _, ty := range types {
			if ty.Name == c.Type {
				if tf := typeFix(ty); tf != nil {
					tf.eval(r, c)
				}
				return
			}
		}
		r.Note("replay: unknown type " + c.Type)
		return
	}

	lists := c09lists(thorough)
	sampled := 0
	for _, ty := range types {
		if !thorough && !ty.Quick {
			continue
		}
		for _, list := range lists {
			if !r.Mine() {
				continue
			}
			if r.Expired() {
				return
			}
			tf := typeFix(ty)
			if tf == nil {
				continue
			}
			corrs := append([][]c09corr{nil}, c09corruptions(ty, list, thorough)...)
			for vals := 1; vals <= 2; vals++ {
				for target := 0; target < 2; target++ {
					if vals == 1 && target == 1 && !thorough {
						continue // quick: single-validator calls for validator 0 only (the two are symmetric)
					}
					for rot := 0; rot < vals; rot++ {
						for _, cs := range corrs {
							if cs == nil && vals == 2 && target == 1 {
								continue // the uncorrupted two-validator call does not depend on the target
							}
							c := c09case{Type: ty.Name, Vals: vals, Target: target, List: list, Corrs: cs, MapRot: rot}
							tf.eval(r, c)
							if sampled < 3 && len(cs) > 0 && vals == 2 {
								sampled++
								r.Sample(c)
							}
						}
						if r.Expired() {
							return
						}
					}
				}
			}
		}
		// the per-type caches are not needed any more
		delete(tfs, ty.Name)
	}

	// operation sequences on one Aggregator instance and beacon-node fault scripts (zz_verif_c09_seq_test.go)
	c09runX(r, f, types, thorough)

	// number of validators per call (zz_verif_c09_batch_test.go)
	c09runBatch(r, f, types, thorough)

	// slot / epoch boundaries of the mock's fork schedule (zz_verif_c09_fork_test.go)
	c09runFork(r, f, types, thorough)
}
