package sigagg_test

// C09, dimension "fork": slot / epoch boundaries of the fork schedule.
//
// The other dimensions pin every object's slot into the middle of an epoch that lies in the middle of a fork, so code that
// derives the signing epoch with an off-by-one in the slot (epoch(slot+1), epoch(slot-1), rounding up, "the epoch the object
// is included in", ...) selects the right fork version there. It goes wrong only in the slots next to a fork activation:
// partial signatures made under the NEXT (or previous) fork's domain are then accepted and the published aggregate does
// not verify under the object's own domain.
//
// For every Eth2SignedData type whose domain depends on a slot or an epoch, and for every fork activation epoch F of the
// beacon mock's fork schedule (read from the mock: ForkSchedule + Genesis), the object's slot is pinned to
//
//	last slot of epoch F-1, first slot of epoch F, second slot of epoch F, last slot of epoch F, first slot of epoch F-1
//
// (epoch-valued fields: F-1, F, F+1; F=0 has no epoch before it). The honest partial signatures are made by the harness
// under the domain the harness computes itself: epoch = slot / SLOTS_PER_EPOCH (integer division on the object's own
// field), fork = last entry of the schedule whose epoch is <= that epoch, domain = domain_type || hash_tree_root(ForkData{
// version, genesis_validators_root})[:28]; it is cross-checked against the mock's Domain() answer for that epoch. The code
// under test's Epoch() is not consulted. The adversarial lists carry, for every share, a signature over the same message
// root under the domain of another fork version of the schedule (previous, next, any other).

import (
	"fmt"
	"strings"

	eth2api "github.com/attestantio/go-eth2-client/api"
	eth2p0 "github.com/attestantio/go-eth2-client/spec/phase0"

	"github.com/obolnetwork/charon/core"
	"github.com/obolnetwork/charon/tbls"
	"github.com/obolnetwork/charon/zzverif/enumx"
)

// ---- the mock's fork schedule ---------------------------------------------------------------------------------------

type c09forkEnt struct {
	Name    string
	Version eth2p0.Version
	Epoch   uint64
}

type c09bound struct {
	F     uint64
	Names []string // forks activated at F
}

func (b c09bound) name() string { return strings.Join(b.Names, "+") }

type c09sched struct {
	forks  []c09forkEnt // in the order of the mock's schedule
	gvr    eth2p0.Root
	bounds []c09bound
}

// schedule reads fork schedule and genesis validators root from the mock (once per process).
func (f *c09fix) schedule() (*c09sched, error) {
	if f.sched != nil {
		return f.sched, nil
	}
	resp, err := f.bmock.ForkSchedule(f.ctx, &eth2api.ForkScheduleOpts{})
	if err != nil {
		return nil, err
	}
	gen, err := f.bmock.Genesis(f.ctx, &eth2api.GenesisOpts{})
	if err != nil {
		return nil, err
	}
	s := &c09sched{gvr: gen.Data.GenesisValidatorsRoot}
	// fork names: the spec's <NAME>_FORK_VERSION entry with that version
	names := map[eth2p0.Version]string{}
	for k, v := range f.spec {
		ver, ok := v.(eth2p0.Version)
		if !ok || !strings.HasSuffix(k, "_FORK_VERSION") {
			continue
		}
		n := strings.ToLower(strings.TrimSuffix(k, "_FORK_VERSION"))
		if n == "genesis" {
			n = "phase0"
		}
		if old, dup := names[ver]; !dup || n < old {
			names[ver] = n
		}
	}
	for i, fk := range resp.Data {
		if fk == nil {
			return nil, fmt.Errorf("nil entry in the fork schedule")
		}
		if i > 0 && uint64(fk.Epoch) < s.forks[i-1].Epoch {
			return nil, fmt.Errorf("fork schedule of the mock is not sorted by epoch")
		}
		n := names[fk.CurrentVersion]
		if n == "" {
			n = fmt.Sprintf("version-%x", fk.CurrentVersion[:])
		}
		s.forks = append(s.forks, c09forkEnt{Name: n, Version: fk.CurrentVersion, Epoch: uint64(fk.Epoch)})
	}
	if len(s.forks) < 2 {
		return nil, fmt.Errorf("the mock schedules %d forks: no boundary to explore", len(s.forks))
	}
	for _, e := range s.forks {
		if n := len(s.bounds); n > 0 && s.bounds[n-1].F == e.Epoch {
			s.bounds[n-1].Names = append(s.bounds[n-1].Names, e.Name)
			continue
		}
		s.bounds = append(s.bounds, c09bound{F: e.Epoch, Names: []string{e.Name}})
	}
	f.sched = s
	return s, nil
}

// active: index of the fork whose version is in force in `epoch` (the last entry with Epoch <= epoch).
func (s *c09sched) active(epoch uint64) int {
	cur := 0
	for i, e := range s.forks {
		if e.Epoch > epoch {
			break
		}
		cur = i
	}
	return cur
}

// domain composes the signing domain of fork version idx (consensus spec compute_domain).
func (s *c09sched) domain(dt eth2p0.DomainType, idx int) (eth2p0.Domain, error) {
	fd := &eth2p0.ForkData{CurrentVersion: s.forks[idx].Version, GenesisValidatorsRoot: s.gvr}
	root, err := fd.HashTreeRoot()
	if err != nil {
		return eth2p0.Domain{}, err
	}
	var d eth2p0.Domain
	copy(d[:], dt[:])
	copy(d[4:], root[:])
	return d, nil
}

// ---- positions ------------------------------------------------------------------------------------------------------

type c09fpos struct {
	Name  string
	Value uint64 // slot, or epoch for epoch-valued types
}

// c09epochValued: the signing epoch is a field of the object (not derived from a slot).
func c09epochValued(sd core.SignedData) bool {
	switch sd.(type) {
	case core.SignedRandao, core.SignedVoluntaryExit:
		return true
	}
	return false
}

func c09positions(F, spe uint64, epochValued bool) []c09fpos {
	if epochValued {
		out := []c09fpos{}
		if F > 0 {
			out = append(out, c09fpos{"epoch-before-fork-epoch", F - 1})
		}
		return append(out, c09fpos{"fork-epoch", F}, c09fpos{"epoch-after-fork-epoch", F + 1})
	}
	out := []c09fpos{}
	if F > 0 {
		out = append(out, c09fpos{"last-slot-of-epoch-before-fork", F*spe - 1})
	}
	out = append(out, c09fpos{"first-slot-of-fork-epoch", F * spe}, c09fpos{"second-slot-of-fork-epoch", F*spe + 1},
		c09fpos{"last-slot-of-fork-epoch", F*spe + spe - 1})
	if F > 0 {
		out = append(out, c09fpos{"first-slot-of-epoch-before-fork", (F - 1) * spe})
	}
	return out
}

// c09pinValue pins the slot (or the epoch) the signing domain is derived from to exactly `val`; the other epoch-like fields
// get the values an honest validator client would put there (target epoch = epoch of the slot, source = the epoch before).
func c09pinValue(sd core.SignedData, spe, val uint64) (core.SignedData, error) {
	ep := val / spe
	src := ep
	if src > 0 {
		src--
	}
	switch d := sd.(type) {
	case core.VersionedAttestation:
		data, err := c09attData(&d)
		if err != nil {
			return nil, err
		}
		data.Slot, data.Target.Epoch, data.Source.Epoch = eth2p0.Slot(val), eth2p0.Epoch(ep), eth2p0.Epoch(src)
		return d, nil
	case core.VersionedSignedProposal:
		m, err := c09proposalMsg(&d)
		if err != nil {
			return nil, err
		}
		m.FieldByName("Slot").SetUint(val)
		return d, nil
	case core.SignedRandao:
		d.SignedEpoch.Epoch = eth2p0.Epoch(val)
		return d, nil
	case core.SignedVoluntaryExit:
		d.Message.Epoch = eth2p0.Epoch(val)
		return d, nil
	case core.BeaconCommitteeSelection:
		d.Slot = eth2p0.Slot(val)
		return d, nil
	case core.SignedAggregateAndProof:
		dt := d.Message.Aggregate.Data
		dt.Slot, dt.Target.Epoch, dt.Source.Epoch = eth2p0.Slot(val), eth2p0.Epoch(ep), eth2p0.Epoch(src)
		return d, nil
	case core.VersionedSignedAggregateAndProof:
		_, dt, err := c09aggMsg(&d)
		if err != nil {
			return nil, err
		}
		dt.Slot, dt.Target.Epoch, dt.Source.Epoch = eth2p0.Slot(val), eth2p0.Epoch(ep), eth2p0.Epoch(src)
		return d, nil
	case core.SignedSyncMessage:
		d.Slot = eth2p0.Slot(val)
		return d, nil
	case core.SignedSyncContributionAndProof:
		d.Message.Contribution.Slot = eth2p0.Slot(val)
		return d, nil
	case core.SyncCommitteeSelection:
		d.Slot = eth2p0.Slot(val)
		return d, nil
	case core.SyncContributionAndProof:
		d.Contribution.Slot = eth2p0.Slot(val)
		return d, nil
	}
	return nil, fmt.Errorf("c09pinValue: unknown type %T", sd)
}

// ---- material -------------------------------------------------------------------------------------------------------

// newForkFix builds the material of one (type, pinned value): one payload per validator with the SAME slot/epoch (as in a
// real duty; for randao and the beacon committee selection both validators then sign the identical message root), and a
// signing-root source that does not go through the code under test.
func (f *c09fix) newForkFix(ty c09type, s *c09sched, val uint64) (tf *c09tfix, own int, epoch uint64, err error) {
	tf = &c09tfix{f: f, ty: ty, sr: map[string][32]byte{}, sigs: map[string]tbls.Signature{}, parts: map[string]core.SignedData{}}
	for v := 0; v < 2; v++ {
		g, err := ty.Generate(f.t)
		if err != nil {
			return nil, 0, 0, err
		}
		sd, err := c09pinValue(g, f.spe, val)
		if err != nil {
			return nil, 0, 0, err
		}
		o, ok := sd.(core.Eth2SignedData)
		if !ok {
			return nil, 0, 0, fmt.Errorf("%T is not Eth2SignedData", sd)
		}
		tf.obj[v], tf.alt[v] = o, o // no altered twins in this dimension
		if tf.root[v], err = sd.MessageRoot(); err != nil {
			return nil, 0, 0, err
		}
		tf.altRoot[v] = tf.root[v]
	}
	dom, ep, err := c09specOf(tf.obj[0], f.spe) // the harness table: the object's own field, integer division
	if err != nil {
		return nil, 0, 0, err
	}
	if _, ep1, _ := c09specOf(tf.obj[1], f.spe); ep1 != ep {
		return nil, 0, 0, fmt.Errorf("the two validators' objects lie in different epochs")
	}
	dt, ok := f.spec[string(dom)].(eth2p0.DomainType)
	if !ok {
		return nil, 0, 0, fmt.Errorf("domain type %s not in spec", dom)
	}
	own = s.active(uint64(ep))
	// cross-check the harness' reading of the schedule with the mock's own Domain() answer for that epoch
	mine, err := s.domain(dt, own)
	if err != nil {
		return nil, 0, 0, err
	}
	mocks, err := f.specDomain(dom, ep)
	if err != nil {
		return nil, 0, 0, err
	}
	if mine != mocks {
		return nil, 0, 0, fmt.Errorf("harness-side domain of fork %s for epoch %d differs from the mock's Domain() answer", s.forks[own].Name, ep)
	}
	tf.baseSig = "own"
	tf.xroot = func(v int, variant string) ([32]byte, bool, error) {
		idx := -1
		if variant == "own" {
			idx = own
		} else if _, err := fmt.Sscanf(variant, "fork%d", &idx); err != nil {
			return [32]byte{}, false, nil
		}
		if idx < 0 || idx >= len(s.forks) {
			return [32]byte{}, true, fmt.Errorf("fork index %d not in the schedule", idx)
		}
		d, err := s.domain(dt, idx)
		if err != nil {
			return [32]byte{}, true, err
		}
		r, err := (&eth2p0.SigningData{ObjectRoot: tf.root[v], Domain: d}).HashTreeRoot()
		return r, true, err
	}
	return tf, own, uint64(ep), nil
}

// ---- cases ----------------------------------------------------------------------------------------------------------

type c09fcase struct {
	Mode     string  `json:"mode"` // "fork"
	Boundary uint64  `json:"fork_epoch"`
	Forks    string  `json:"forks_activated"`
	Pos      string  `json:"position"`
	Value    uint64  `json:"slot_or_epoch"`
	Call     c09case `json:"call"`
}

func (c c09fcase) String() string {
	return fmt.Sprintf("fork: boundary=%s@%d %s=%d %s", c.Forks, c.Boundary, c.Pos, c.Value, c.Call.String())
}

// c09forkCorrs: the corruption patterns of one list for an object whose own fork is `own`.
func c09forkCorrs(s *c09sched, own int, list []int, thorough bool) [][]c09corr {
	out := [][]c09corr{nil}
	rel := func(idx int) string {
		switch idx {
		case own - 1:
			return "prev"
		case own + 1:
			return "next"
		}
		return "other"
	}
	// every share signed under the domain of another fork version of the schedule: previous and next first
	order := []int{own - 1, own + 1}
	for i := range s.forks {
		if i != own && i != own-1 && i != own+1 {
			order = append(order, i)
		}
	}
	for _, idx := range order {
		if idx < 0 || idx >= len(s.forks) {
			continue
		}
		out = append(out, []c09corr{{Kind: "all-" + rel(idx) + "-fork-domain", Arg: idx}})
	}
	// one share signed under the previous / next fork's domain
	for p := range list {
		if !thorough && p != 1 {
			continue
		}
		for _, idx := range order[:2] {
			if idx < 0 || idx >= len(s.forks) {
				continue
			}
			out = append(out, []c09corr{{Kind: rel(idx) + "-fork-domain", Pos: p, Arg: idx}})
		}
	}
	return out
}

func c09forkTypeKey(name string) string {
	return strings.NewReplacer("/", "_", "=", "_").Replace(name)
}

type c09forkEnv struct {
	r     *enumx.Run
	f     *c09fix
	s     *c09sched
	types map[string]c09type
}

// eval runs, judges, confirms and reports one case. tf may be nil (replay): the material is then built here.
func (e *c09forkEnv) eval(tf *c09tfix, own int, c c09fcase) {
	r := e.r
	fail := func(err error) {
		r.NotExhaustive("harness: cannot run case of dimension fork (" + c.Call.Type + "): " + err.Error()) // skipped, never an alarm
		r.Count("harness_case_failures", 1)
	}
	if tf == nil {
		ty, ok := e.types[c.Call.Type]
		if !ok {
			r.Note("replay: unknown type " + c.Call.Type)
			return
		}
		var err error
		if tf, own, _, err = e.f.newForkFix(ty, e.s, c.Value); err != nil {
			fail(err)
			return
		}
	}
	run := func() (c09out, error) {
		in, err := e.f.newInst()
		if err != nil {
			return c09out{}, err
		}
		res, err := tf.callOn(in, c09xcall{c09case: c.Call})
		return res.out, err
	}
	pre := fmt.Sprintf("dim=fork boundary=%s pos=%s ", c.Forks, c.Pos)
	judge := func(o c09out) []c09viol {
		vs, _ := tf.judge(c.Call, o)
		for i := range vs {
			vs[i].sig = pre + vs[i].sig
		}
		return vs
	}
	o, err := run()
	if err != nil {
		fail(err)
		return
	}
	viols := judge(o)
	_, class := tf.judge(c.Call, o)
	r.Eval(fmt.Sprintf("fork|boundary=%s|pos=%s|own=%s|%s", c.Forks, c.Pos, e.s.forks[own].Name, class))
	r.Steps(1)
	pub := o.calls > 0
	tk := c09forkTypeKey(c.Call.Type)
	r.Count("fork_cases", 1)
	r.Count(fmt.Sprintf("fork_cases_boundary_%s_at_epoch_%d", c.Forks, c.Boundary), 1)
	r.Count("fork_cases_pos_"+c.Pos, 1)
	label := c.Call.corrLabel()
	switch {
	case len(c.Call.Corrs) == 0 && pub:
		r.Count("fork_valid_lists_published", 1)
		r.Count("fork_published_objects_verified_under_the_domain_of_their_own_epoch", len(o.pubs))
		r.Count("fork_type_"+tk+"_boundary_cases_published", 1)
	case len(c.Call.Corrs) == 0:
		r.Count("fork_valid_lists_not_published", 1)
		r.Note(fmt.Sprintf("valid list at a fork boundary not accepted (no liveness claim in the statement): %s: %v", c.String(), o.err))
	case pub:
		r.Count("fork_lists_with_other_fork_domain_published", 1)
	default:
		r.Count("fork_type_"+tk+"_boundary_cases_rejected", 1)
		r.Count("fork_rejected_"+label, 1)
		if o.err == nil {
			r.Count("fork_lists_with_other_fork_domain_nil_error_nothing_published", 1)
		}
	}
	if len(viols) == 0 {
		return
	}
	want := c09sigs(viols)
	for k := 0; k < 3; k++ { // confirm: same verdict three more times
		o2, err := run()
		if err != nil || c09sigs(judge(o2)) != want {
			r.Unconfirmed(c.String())
			return
		}
	}
	for _, v := range viols {
		r.Violation(v.sig, fmt.Sprintf("%s (object's own epoch lies in fork %s) [%s]", v.desc, e.s.forks[own].Name, c.String()), c)
	}
}

// ---- enumeration ----------------------------------------------------------------------------------------------------

func c09runFork(r *enumx.Run, f *c09fix, types []c09type, thorough bool) {
	s, err := f.schedule()
	if err != nil {
		r.NotExhaustive("harness: cannot read the mock's fork schedule: " + err.Error())
		return
	}
	e := &c09forkEnv{r: r, f: f, s: s, types: map[string]c09type{}}
	var descr []string
	for _, b := range s.bounds {
		descr = append(descr, fmt.Sprintf("%s@%d", b.name(), b.F))
	}
	r.Note("fork activations read from the mock's schedule: " + strings.Join(descr, ", ") + fmt.Sprintf("; SLOTS_PER_EPOCH=%d", f.spe))

	type shape struct{ vals, target, rot int }
	shapes := []shape{{1, 0, 0}, {2, 0, 0}, {2, 1, 1}}
	lists := [][]int{c09seqList}
	if thorough {
		shapes = []shape{{1, 0, 0}, {1, 1, 0}, {2, 0, 0}, {2, 0, 1}, {2, 1, 0}, {2, 1, 1}}
		lists = c09lists(false) // every size-t subset and the size-(t+1) list, ascending
	}
	sampled := map[string]bool{}
	for _, ty := range types {
		if ty.NoEpoch || (!thorough && !ty.Quick) {
			continue // the builder registration's domain is the genesis domain for every epoch: no boundary
		}
		probe, err := ty.Generate(f.t)
		if err != nil {
			r.NotExhaustive("harness: cannot build objects of type " + ty.Name + ": " + err.Error())
			continue
		}
		epochValued := c09epochValued(probe)
		for _, b := range s.bounds {
			if !r.Mine() {
				continue
			}
			if r.Expired() {
				return
			}
			if b.F >= (1<<62)/f.spe { // a fork parked at FAR_FUTURE_EPOCH has no slots around it
				r.Count("fork_boundaries_skipped_far_future", 1)
				continue
			}
			for _, pos := range c09positions(b.F, f.spe, epochValued) {
				tf, own, epoch, err := f.newForkFix(ty, s, pos.Value)
				if err != nil {
					r.NotExhaustive("harness: cannot build objects of type " + ty.Name + " at " + pos.Name + ": " + err.Error())
					r.Count("harness_case_failures", 1)
					continue
				}
				r.Count("fork_positions", 1)
				// non-vacuity of the position: a neighbouring slot / epoch lies in another fork than the object's own
				for _, nb := range []uint64{pos.Value - 1, pos.Value + 1} {
					if pos.Value == 0 && nb != 1 {
						continue
					}
					ne := nb
					if !epochValued {
						ne = nb / f.spe
					}
					if s.active(ne) != own {
						r.Count("fork_positions_whose_neighbouring_slot_or_epoch_lies_in_another_fork", 1)
						break
					}
				}
				_ = epoch
				for _, list := range lists {
					for _, cs := range c09forkCorrs(s, own, list, thorough) {
						for _, sh := range shapes {
							if cs == nil && sh.vals == 2 && sh.target == 1 && sh.rot == 0 {
								continue // the uncorrupted two-validator call does not depend on the target
							}
							c := c09fcase{Mode: "fork", Boundary: b.F, Forks: b.name(), Pos: pos.Name, Value: pos.Value,
								Call: c09case{Type: ty.Name, Vals: sh.vals, Target: sh.target, List: list, Corrs: cs, MapRot: sh.rot}}
							e.eval(tf, own, c)
							if k := fmt.Sprint(len(cs) > 0); !sampled[k] && pos.Name == "last-slot-of-epoch-before-fork" && sh.vals == 2 {
								sampled[k] = true
								r.Sample(c)
							}
						}
					}
					if r.Expired() {
						return
					}
				}
			}
		}
	}
}

func c09replayFork(r *enumx.Run, f *c09fix, types []c09type) {
	var c c09fcase
	if err := r.ReplayCase(&c); err != nil {
		r.Note("replay: " + err.Error())
		return
	}
	s, err := f.schedule()
	if err != nil {
		r.Note("replay: cannot read the mock's fork schedule: " + err.Error())
		return
	}
	e := &c09forkEnv{r: r, f: f, s: s, types: map[string]c09type{}}
	for _, ty := range types {
		e.types[ty.Name] = ty
	}
	e.eval(nil, 0, c)
}
